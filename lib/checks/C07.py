"""C07 - repacketizer, pad and unpad preserve frames and always emit valid packets (module Repack)."""
import json, os, random, re, threading
import vf

LEVEL = "model_checking"

# Known findings are read from known_findings.json (vf.known_findings): F2, the 1277-bytes-per-frame
# clause with carried extensions.  A builder may add provisional entries here while a new
# deviation awaits the coordinator's decision; there are none (F2b, F2c were fixed in /repo by
# 595c56d2 and f29f4e96).  Keys are interpreted by match_known() below.
PROVISIONAL = []

def match_known(entries, ev, fails, facts):
    """Return the entry whose key matches the rejected event, or None."""
    has, bad, _ = facts
    op = {"out": "out_range"}.get(ev.get("k"))
    ret = ev.get("ret")
    for en in entries:
        k = en.get("key") or {}
        ops = k.get("op")
        ops = ops if isinstance(ops, list) else [ops]
        if op not in ops or k.get("ret") != ret:
            continue
        if "sel_has_ext" in k:
            # F2: the selection carries extensions and only the 1277n clause is broken (a refusal with
            # maxlen >= NeedUpper would also break RefusedOnlyWhenMaxlenTooSmall and not match)
            if k["sel_has_ext"] == has and fails == {"Suff1277"} and op == "out_range" \
                    and k.get("cond") == "maxlen>=1277n" and ev["m"] >= 1277 * _count(ev):
                return en
    return None


def _count(ev):
    if ev.get("all") == 1:
        return max(1, ev.get("nb", 1))
    return max(1, ev.get("e", 0) - ev.get("b", 0))


# ---------------------------------------------------------------------------
# TLC print -> python

def _tla_to_py(s, sets=False):
    s = s.replace('\\"', '"')
    if sets:
        s = s.replace("{", "[").replace("}", "]")
    else:
        s = s.replace("[", "{").replace("]", "}")
        s = re.sub(r"(\w+) \|->", r'"\1":', s)
    s = s.replace("<<", "[").replace(">>", "]")
    return json.loads(s)


def parse_gen(out):
    """LIB and BEH prints of Repack_mc (Gen = TRUE) -> (library lines, list of behaviours).
    TLC wraps long tuples over several lines, so the raw output is scanned."""
    lib, behs = None, []
    m = re.search(r'<<\s*"LIB",\s*"(.*?)"\s*>>', out, re.S)
    if m:
        lib = _tla_to_py(m.group(1))
    for m in re.finditer(r'<<\s*"BEH",\s*"(.*?)",\s*"(.*?)"\s*>>', out, re.S):
        behs.append((_tla_to_py(m.group(1), sets=True), _tla_to_py(m.group(2), sets=True)))
    if lib is None or not behs:
        raise vf.Infra("behaviour generation printed no library/behaviours")
    lines = []
    for pk in lib:
        fr = pk["fr"]
        lines.append("P %d %d %d %s %d %s %d %d %s" % (
            pk["id"], pk["len"], len(pk["hdr"]), " ".join(map(str, pk["hdr"])), len(fr),
            " ".join("%d %d %d" % tuple(f) for f in fr), pk["padat"], len(pk["padb"]) if fr else 0,
            " ".join(map(str, pk["padb"])) if fr else ""))
    return lines, behs


def beh_lines(beh):
    hist, probes = beh
    out = ["X"]
    for op in hist:
        out.append("I" if op[0] == "I" else "C %d" % op[1])
    for pr in sorted(probes, key=lambda t: (t[0], t[1], t[2], t[3])):
        if pr[0] == "O":
            out.append("O %d %d %d" % (pr[1], pr[2], pr[3]))
        elif pr[0] == "Q":
            out.append("Q %d %d" % (pr[1], pr[2]))
        else:
            out.append("A %d" % pr[1])
    return out


# ---------------------------------------------------------------------------

def nontrivial_key(ev):
    k = ev.get("k")
    if k == "out":
        if ev["ret"] > 0 and (len(ev["fr"]) >= 2 or ev["pdn"] > 0):
            return ("out", tuple(ev["h"]), ev["ret"], ev["m"] - ev["ret"] if ev["m"] - ev["ret"] < 2 else 2)
        if ev["ret"] < 0 and ev.get("nb", 0) > 0:
            return ("out-", ev["b"], ev["e"], ev["m"], ev["ret"], ev["nb"])
    elif k == "outx":
        if ev["ret"] > 0 and (ev["sd"] or ev["pad"]):
            return ("outx", tuple(ev["h"]), ev["ret"], ev["sd"], ev["pad"])
        if ev["ret"] < 0 and ev.get("nb", 0) > 0:
            return ("outx-", ev["b"], ev["e"], ev["m"], ev["sd"], ev["pad"], ev["ret"], ev["nb"])
    elif k == "padx":
        if ev["xl"] and ev["nn"] != ev["n"]:
            return ("padx", tuple(ev["h"]), ev["n"], ev["nn"], ev["pad"], ev["ret"], json.dumps(ev["xl"])[:200])
    elif k == "cat":
        if len(ev["fr"]) >= 2 or ev["pdn"] > 0 or ev["ret"] < 0:
            return ("cat", tuple(ev["h"]), ev["n"], ev["ret"], ev["nb"])
    elif k == "pad":
        if ev["nn"] != ev["n"]:
            return ("pad", tuple(ev["h"]), ev["n"], ev["nn"], ev["ret"])
    elif k == "unpad":
        if ev["ret"] != ev["n"]:
            return ("unpad", tuple(ev["h"]), ev["n"], ev["ret"])
    elif k in ("mspad", "msunpad"):
        if ev["S"] >= 2:
            return (k, ev["S"], ev["n"], ev.get("nn"), ev["ret"], tuple(tuple(s["h"]) for s in ev["st"]))
    elif k == "audio":
        if ev["nn"] != ev["n"]:
            return ("audio", ev["cfg"], ev["i"], ev["n"], ev["nn"])
    return None


class Job:
    """One harness run: mode/args (+ script on stdin) -> trace file -> TLC verdicts."""
    def __init__(self, name, mode, args, script=None, x2replay=None):
        self.name, self.mode, self.args, self.script = name, mode, args, script
        self.x2replay = x2replay      # exec id -> replay text (replay mode)
        self.trace = None


def replay_text(job, x):
    if job.mode == "replay":
        return job.x2replay(x)
    if job.mode == "audio":
        return "# hx_repack audio %d %d\n" % (job.args[0], job.args[1])
    return "# hx_repack %s %d 1\n" % (job.mode, x)


def run_job(ctx, exe, job):
    out = ctx.path("t_%s.ndjson" % job.name)
    sp = None
    if job.script is not None:
        sp = ctx.path("s_%s.txt" % job.name)
        with open(sp, "w") as f:
            f.write(job.script)
    rc, err = vf.run_hx(exe, [job.mode] + list(job.args), out, timeout=1500, stdin_path=sp)
    job.trace, job.rc, job.err = out, rc, err
    return job


def judge_job(ctx, job, known, lock, confirm=True, exe=None):
    """Validate the job's trace with TLC; classify every rejected event."""
    if job.rc != 0:
        # crash / sanitizer report / canary-independent abort / hang: memory-safety side of the property
        last, x, lines = "", None, []
        try:
            with open(job.trace) as f:
                lines = f.readlines()
        except OSError:
            pass
        for ln in reversed(lines[-3:]):
            try:
                x = json.loads(ln).get("x")
                last = ln
                break
            except ValueError:
                continue
        txt = replay_text(job, x) if x is not None else "# hx_repack %s %s\n" % (job.mode, " ".join(map(str, job.args)))
        with lock:
            ctx.violation("hx_repack %s aborted (rc=%d; sanitizer/assertion/hang) after %s: %s" % (
                job.name, job.rc, last[:300], job.err[-1200:]), replay_text=txt)
        return
    n = vf.count_lines(job.trace)
    if n == 0:
        raise vf.Infra("empty trace from hx_repack " + job.name)
    ok, rej, r = vf.validate_seq(ctx, "RepackTrace", "RepackTrace.cfg", job.trace, "C07 " + job.name, heap="3g")
    rejs = []
    for p in r.prints:
        m = re.match(r'<<"REJECTED_AT", (\d+), "(.*)", <<(\d), (\d), (\d)>>>>$', p)
        if m:
            fails = set(re.findall(r'\\"(\w+)\\"', m.group(2)))
            rejs.append((int(m.group(1)), fails, (int(m.group(3)), int(m.group(4)), int(m.group(5)))))
    if r.distinct != n + 1:
        raise vf.Infra("trace %s: TLC walked %d states for %d events" % (job.name, r.distinct, n))
    if r.violation:
        raise vf.Infra("trace %s: unexpected TLC verdict %s" % (job.name, r.violation))
    # scan the trace once: counters, samples, rejected lines
    want = {ln for ln, _, _ in rejs}
    got, execs, seen = {}, set(), {}
    with open(job.trace) as f:
        for i, ln in enumerate(f, 1):
            ev = json.loads(ln)
            execs.add(ev.get("x"))
            k = nontrivial_key(ev)
            if k is not None:
                seen[hash(k)] = 1
            if i in want:
                got[i] = ev
            if i in (2, n // 2):
                with lock:
                    ctx.sample({"driver": job.name, "event": ln.strip()[:500]})
    badx = set()
    with lock:
        ctx.evaluations += n
        ctx.nontrivial.update(seen.keys())
        for ln, fails, facts in sorted(rejs):
            ev = got[ln]
            x = ev.get("x")
            if x in badx:
                continue        # after a genuine mismatch the model and the code have diverged: report the first only
            en = match_known(known, ev, fails, facts)
            if en is not None:
                ctx.kf_count[en["id"]] = ctx.kf_count.get(en["id"], 0) + 1
                ctx.kf_example.setdefault(en["id"], (replay_text(job, x), ev, sorted(fails)))
                continue
            badx.add(x)
            if len(ctx.violations) >= 5:
                ctx.violations.append(("further rejection in %s" % job.name, ctx.violations[-1][1]))
                continue
            txt = replay_text(job, x)
            what = "%s: event %s breaks %s (facts carries_ext=%d malformed_padding=%d)" % (
                job.name, json.dumps(ev)[:900], sorted(fails), facts[0], facts[1])
            if confirm and exe is not None and not repeatable(ctx, exe, txt, fails):
                raise vf.Infra("rejection not repeatable: " + what[:500])
            ctx.violation(what, replay_text=txt + "# rejected event: " + json.dumps(ev)[:3000])
        ctx.traces += len(execs) - len(badx)
    os.remove(job.trace)


def replay_job(txt, name):
    first = txt.split("\n", 1)[0]
    m = re.match(r"# hx_repack (\w+) ?(\d+)? ?(\d+)?", first)
    if not m:
        raise vf.Infra("replay file does not start with '# hx_repack <mode> ...'")
    mode = m.group(1)
    if mode == "replay":
        return Job(name, "replay", [], script=txt, x2replay=lambda x: txt)
    return Job(name, mode, [int(m.group(2)), int(m.group(3))])


_rep_n = [0]


def repeatable(ctx, exe, txt, fails):
    """R4: run the recorded case once more; it must be rejected again."""
    _rep_n[0] += 1
    j = run_job(ctx, exe, replay_job(txt, "confirm%d" % _rep_n[0]))
    if j.rc != 0:
        return True
    ok, rej, r = vf.validate_seq(ctx, "RepackTrace", "RepackTrace.cfg", j.trace, "C07 confirm", heap="3g")
    os.remove(j.trace)
    return any(p.startswith('<<"REJECTED_AT"') for p in r.prints)


# ---------------------------------------------------------------------------

def run(ctx):
    tier = ctx.tier
    quick = tier == "quick"
    ctx.kf_count, ctx.kf_example = {}, {}
    ctx.rule = ("Repack_mc: every sequence of init/cat/out over a 42-packet library (valid: all codes, CBR/VBR, zero padding, "
                "extension padding, malformed padding, 1..47 frames, sizes 0..1275; invalid: 13 named corruptions) with at most "
                "Depth cat calls; every reachable state is a TLC state and the out clauses are checked in it for a grid of "
                "[b,e) x maxlen. Implementation: hx_repack replays TLC-generated behaviours (history + model-chosen exact-fit "
                "probes), seeded random executions up to 48 frames, pad/unpad and multistream pad/unpad boundary cases and "
                "encoder-made packets decoded by independent decoders; every event is judged by RepackTrace (real header bytes "
                "through Framing!Parse, real padding bytes through Ext!ParseRaw). non-trivial = distinct events that are: an "
                "emitted packet with >= 2 frames or padding, a refusal on a non-empty state, a cat of a multi-frame/padded/"
                "rejected packet, a pad to a different length, an unpad that shortens, a multistream case with >= 2 streams, "
                "a decode comparison of a re-sized packet, a direct out_range_impl call with sd or pad set, a pad_impl call "
                "that adds a non-empty extension list")
    ctx.assumptions = [
        "TLC 1.8.0 and the CommunityModules Json reader are trusted",
        "module Ext (builder b-ext) is taken as the meaning of the padding bytes; module Framing as the meaning of the header bytes",
        "frames are located in emitted packets with the library's parser, but the trace spec re-derives offsets and sizes from the "
        "logged header bytes with Framing!Parse and demands equality, and identities are recovered from fid-derived payload bytes",
        "the harness logs hdr_extent() leading bytes of each packet (a syntactic upper bound of the framing header)",
        "'valid packet' is read as RFC 6716 framing validity (padding bytes arbitrary; padding that is not a well-formed extension "
        "list carries nothing); extension carriage (DESIGN 4.4) is asserted for every selection, including ranges that cut a packet",
        "memory safety is observed (ASan/UBSan, exact-size buffers, canaries) on the recorded executions only",
    ]
    known = list(vf.known_findings("C07") or [])
    ids = {k.get("id") for k in known}
    known = known + [p for p in PROVISIONAL if p["id"] not in ids]
    if ctx.replay:
        return replay(ctx, known)

    # ---- 1. the model: exhaustive TLC (runs while the harness work goes on) ----
    mc_res = {}

    def model_runs():
        try:
            cfgs = ["Repack_mc_quick2.cfg", "Repack_mc_quick.cfg"] if quick else ["Repack_mc_thorough3.cfg", "Repack_mc_thorough.cfg"]
            mc_res["mc"] = []
            for cfg in cfgs:
                mc_res["mc"].append(ctx.mc("Repack_mc", cfg, what="Repack clauses, all op sequences (%s)" % cfg, deadlock=True,
                                           workers=6 if quick else 8, timeout=280 if quick else 1500, heap="6g"))
            mc_res["wit"] = ctx.mc("Repack_mc", "Repack_mc_witness.cfg", what="vacuity witness (every kind of step taken)",
                                   deadlock=True, workers=2, timeout=280, heap="3g")
            mc_res["f2"] = ctx.mc("Repack_mc", "Repack_mc_f2.cfg", what="unrestricted Suff1277 on the model (expected to fail: F2)",
                                  deadlock=True, workers=2, timeout=280, heap="3g")
        except Exception as e:          # re-raised in the main thread
            mc_res["exc"] = e
    th = threading.Thread(target=model_runs)
    th.start()

    # ---- 2. behaviours for replay ----
    g = ctx.mc("Repack_mc", "Repack_gen_quick.cfg" if quick else "Repack_gen_thorough.cfg", what="behaviour generation",
               deadlock=True, workers=4, timeout=900, heap="6g")
    if g.violation:
        raise vf.Infra("behaviour generation failed: %s" % g.violation)
    lib_lines, behs = parse_gen(g.out)
    rnd = random.Random(ctx.seed)
    nb = 600 if quick else 14000
    if len(behs) > nb:
        # all short histories plus a seeded sample of the long ones
        short = [b for b in behs if len(b[0]) <= 1]
        longs = [b for b in behs if len(b[0]) > 1]
        behs = short + rnd.sample(longs, nb - len(short))
    ctx.notes["behaviours_generated"] = g.distinct
    ctx.notes["behaviours_replayed"] = len(behs)

    var = vf.build_variant("hk")
    exe = vf.build_hx(var, "repack.c")
    s = ctx.seed
    jobs = []
    nchunk = 6 if quick else 28
    per = (len(behs) + nchunk - 1) // nchunk
    for c in range(nchunk):
        part = behs[c * per:(c + 1) * per]
        if not part:
            continue
        texts = [beh_lines(b) for b in part]
        script = "# hx_repack replay\n" + "\n".join(lib_lines) + "\n" + "\n".join("\n".join(t) for t in texts) + "\n"

        def x2r(x, texts=texts):
            return "# hx_repack replay\n" + "\n".join(lib_lines) + "\n" + "\n".join(texts[x - 1]) + "\n"
        jobs.append(Job("beh%d" % c, "replay", [], script=script, x2replay=x2r))
    if quick:
        jobs += [Job("random%d" % i, "random", [s + 1000 * i, 32]) for i in range(4)]
        jobs += [Job("pad%d" % i, "pad", [s + 100000 + 5000 * i, 1000]) for i in range(2)]
        jobs += [Job("ms%d" % i, "ms", [s + 200000 + 5000 * i, 500]) for i in range(2)]
        jobs += [Job("padx%d" % i, "padx", [s + 400000 + 5000 * i, 350]) for i in range(2)]
        jobs += [Job("audio", "audio", [s, 40])]
    else:
        jobs += [Job("random%d" % i, "random", [s + 1000 * i, 330]) for i in range(12)]
        jobs += [Job("pad%d" % i, "pad", [s + 100000 + 20000 * i, 12000]) for i in range(6)]
        jobs += [Job("ms%d" % i, "ms", [s + 300000 + 20000 * i, 4000]) for i in range(6)]
        jobs += [Job("padx%d" % i, "padx", [s + 500000 + 20000 * i, 5000]) for i in range(6)]
        jobs += [Job("audio%d" % i, "audio", [s + i, 250]) for i in range(2)]
    lock = threading.Lock()

    def work(job):
        run_job(ctx, exe, job)
        judge_job(ctx, job, known, lock, confirm=True, exe=exe)
        return job
    vf.parallel(work, jobs, nproc=8 if quick else 10)

    th.join()
    if "exc" in mc_res:
        raise mc_res["exc"]
    for r in mc_res["mc"]:
        if r.violation:
            # a clause failing on the *model* means the model (or Framing/Ext) is wrong, not the code
            raise vf.Infra("Repack model theorem %s violated:\n%s" % (r.violation, r.state_dump[:2500]))
    if mc_res["wit"].violation != "NotAllSeen":
        raise vf.Infra("vacuity guard: no behaviour of Repack_mc takes every kind of step (init on empty/non-empty, cat accepted/"
                       "rejected with contents kept, out ok/empty/1277n too small)")
    if mc_res["f2"].violation != "Suff1277All":
        ctx.notes["f2_model"] = "unrestricted Suff1277 holds on the model"
    else:
        ctx.notes["f2_model"] = ("TLC refutes the unrestricted 'maxlen >= 1277*(e-b) suffices' on the model itself (library packet 16: one "
                                 "1275-byte frame + 4-byte extension needs 1282): carrying extensions and the 1277n bound are incompatible")
    ctx.exhaustive = True
    ctx.notes["exhaustive_scope"] = (("all init/cat/out sequences with at most 2 cat calls over the 42-packet library (Repack_mc_quick2.cfg) and with at "
                                      "most 3 cat calls over a 29-packet sub-library (Repack_mc_quick.cfg); every [b,e) in states of <= 4 frames, "
                                      "boundary ranges beyond") if quick else
                                     ("all init/cat/out sequences with at most 3 cat calls over the 42-packet library with every [b,e) in "
                                      "states of <= 12 frames (Repack_mc_thorough3.cfg), and with at most 4 cat calls over a 29-packet "
                                      "sub-library (Repack_mc_thorough.cfg)")) + "; model side only, the implementation side is sampled"
    ctx.notes["known_finding_events"] = dict(ctx.kf_count)
    for en in known:
        c = ctx.kf_count.get(en["id"], 0)
        if c:
            txt, ev, fails = ctx.kf_example[en["id"]]
            rp = os.path.join(vf.REPLAY, "C07_known_%s.txt" % en["id"])
            with open(rp, "w") as f:
                f.write(txt + "# rejected event: " + json.dumps(ev)[:3000] + "\n")
            ctx.known_finding("%s [%s: %d recorded events; obligations %s; replay=%s]" % (en["what"], en["id"], c, fails, rp))


def replay(ctx, known):
    with open(ctx.replay) as f:
        txt = f.read()
    var = vf.build_variant("hk")
    exe = vf.build_hx(var, "repack.c")
    job = run_job(ctx, exe, replay_job(txt, "replay"))
    lock = threading.Lock()
    judge_job(ctx, job, known, lock, confirm=False)
    ctx.nontrivial_count = max(2, len(ctx.nontrivial))
    ctx.nontrivial = set()
    ctx.states = max(ctx.states, 1)
    ctx.transitions = max(ctx.transitions, 1)
    for en in known:
        c = ctx.kf_count.get(en["id"], 0)
        if c:
            ctx.known_finding("%s [%s: %d recorded events in the replay]" % (en["what"], en["id"], c))


META = dict(
    engine="Repack+Framing+Ext",
    technique="TLA+ model of the repacketizer state machine and of pad/unpad with ghost frame identities; TLC exhaustive over all "
              "operation sequences up to a depth over a packet library; TLC-generated behaviours replayed through libopus and "
              "recorded executions validated statefully by TLC (real bytes re-parsed by the Framing and Ext specifications)",
    level_text=("TLC proves on the model, for every init/cat/out sequence within the depth bound over a library of valid and invalid "
                "packets: append-only contents, rejection keeps contents, <= 120 ms, emitted encodings re-parse (Framing!Parse) to "
                "exactly the selected identities with the first packet's configuration bits and carry the selected frames' "
                "extensions renumbered (Ext!ParseRaw), size <= maxlen and refusal exactly when too small, 1277 bytes per frame "
                "suffice for extension-free selections, pad reaches every length, unpad is canonical/idempotent/not longer. "
                "The real library is bound by replaying TLC-generated behaviours with model-chosen exact-fit maxlen probes, seeded "
                "random executions up to 48 frames, pad/unpad and multistream boundary cases (in place, exact-size buffers, "
                "canaries, ASan/UBSan) and decode comparisons; TLC judges every recorded event statefully. Also bound: "
                "opus_repacketizer_out_range_impl with self_delimited/pad set (exact size and fit), opus_packet_pad_impl adding "
                "extension lists (own + added extensions per frame, size within the generator-contract bounds, illegal lists "
                "refused) and multistream pad/unpad on extension-carrying streams (per stream Framing!Parse(sd) + Ext!ParseRaw)."),
    level_note=("Trusted: TLC, the Json module, modules Framing and Ext as the reading of RFC 6716 / the extension draft. The "
                "implementation is exercised on generated and sampled executions, not on all of them. One deviation (F2: 1277 bytes per "
                "frame do not suffice when extensions are carried) is matched as a known finding; F2b and F2c, found by this check, "
                "were fixed in /repo."),
)
