"""C08 - range coder: the decoder inverts the encoder symbol for symbol, within budget
(modules RangeCoder, RangeCoder_mc, RangeDec32, RangeDec32_mc, RCTrace; harness rc.c)."""
import hashlib, json, os, re
import vf

LEVEL = "model_checking"

# F5 (fixed in /repo by 85f44ce1): ec_enc_patch_initial_bits() with the first output byte 0xFF still deferred in
# ext (rem = -1) patched the *second* byte and reported no error.  Found by RangeCoder_mc (Inverse) at reduced
# width, confirmed on the library (findings/F5_c08_patch_initial_bits.c), then on recorded executions.  The list is
# the place for entries that are not yet in known_findings.json; it is empty now.
PROVISIONAL = []

MC_TAGS_QUICK = ["bust", "bust_no_range_data", "bust_raw_truncated", "carry", "collision", "collision_end",
                 "patch_buf", "patch_rem", "patch_val", "patch_err", "patch_deferred_fixed", "run_no_carry",
                 "shared_last_byte", "shrink_moves", "decoded_all", "decoder_error",
                 "op_enc", "op_bin", "op_logp", "op_icdf", "op_uint", "op_bits", "op_patch", "op_shrink"]
MODEL_INVS = ("Inverse TellEqual TellStable FracMonotone FracVsWhole RngNormalised NoWriteOutside DoneCannotFail "
              "BudgetNoError PatchRefused FracDefAgrees DecValLtRng SafeDecAgrees NoDecErr").split()


# ---------------------------------------------------------------------------------------------
# TLC-printed op lists -> text for `hx_rc list`

def parse_cov(p):
    """<<"COV", tag, size, err, "<<<<\"enc\", <<0, 1, 3>>>>, ...>>">>  ->  (tag, size, [(kind, args)])"""
    m = re.match(r'<<"COV", "(\w+)", (\d+), (-?\d+), "(.*)">>$', p)
    if not m:
        return None
    body = m.group(4).replace('\\"', '"').replace("<<", "[").replace(">>", "]")
    try:
        ops = json.loads(body)
    except ValueError:
        return None
    return m.group(1), int(m.group(2)), [(o[0], o[1]) for o in ops]


def op_text(kind, a):
    if kind == "icdf":
        s, tbl, ftb = a
        return "%s %d %d %d %s" % ("icdf16" if max(tbl) > 255 else "icdf", s, ftb, len(tbl), " ".join(str(x) for x in tbl))
    return kind + " " + " ".join(str(x) for x in a)


def lift(kind, a):
    """reduced-width op (SYM_BITS=4) -> the op of the same kind with the same relative parameters at SYM_BITS=8"""
    if kind in ("enc", "bin"):
        fl, fh, t = a
        if (kind == "enc" and t == 16) or (kind == "bin" and t == 4):
            if fh == fl + 1:
                nfl, nfh = fl * 17, fl * 17 + 1
            else:
                nfl, nfh = fl * 16, (256 if fh == 16 else fh * 16)
            return kind, [nfl, nfh, 256 if kind == "enc" else 8]
        return kind, a
    if kind == "icdf":
        s, tbl, ftb = a
        if ftb == 4:
            return kind, [s, [x * 16 for x in tbl], 8]
        return kind, a
    if kind == "uint":
        v, ft = a
        if ft > 8:
            return kind, [v * 32 + 31 if v == ft - 1 else v * 32, ft * 32]
        return kind, a
    if kind == "bits":
        v, n = a
        return kind, [v * (1 << n) + v, 2 * n]
    if kind == "patch":
        v, n = a
        return kind, ([v * 17, 8] if n == 4 else a)
    return kind, a


HANDMADE = [
    # celt/tests/test_unit_entropy.c: an encoder bust prefers range coder data over raw bits
    (2, ["bits 85 7", "uint 1 2", "uint 1 3", "uint 1 4", "uint 1 5", "uint 2 6", "uint 6 7"]),
    # the three cases of ec_enc_patch_initial_bits of the unit test
    (100, ["logp 0 1", "logp 0 1", "logp 0 1", "logp 0 1", "logp 0 2", "patch 3 2", "patch 0 5"]),
    (100, ["logp 0 1", "logp 0 1", "logp 1 6", "logp 0 2", "patch 0 2"]),
    (2, ["logp 0 2"] + ["bits 0 1"] * 48),
    (2, ["bits 0 1"] * 17),
    # first byte 0xFF deferred, then patched
    (16, ["bin 255 256 8", "logp 1 3", "patch 2 2"]),
    (16, ["bin 255 256 8", "patch 2 2"]),
    (16, ["bin 3 4 2", "bin 63 64 6", "bin 255 256 8", "uint 70000 70001", "patch 1 2"]),
    # placeholder as SILK uses it (8 zero bits) then patched
    (40, ["bin 0 1 8", "uint 12345 100000", "bits 1 1", "patch 165 8", "logp 1 4"]),
    # carries into runs of 0xFF
    (64, ["bin 127 128 7"] + ["bin 255 256 8"] * 6 + ["enc 2 3 3", "bin 255 256 8", "bin 255 256 8", "enc 65535 65536 65536"]),
    # raw bits colliding with range bytes, shrink with raw bytes at the end
    (12, ["bits 33554431 25", "bits 0 25", "bits 21845 15", "shrink 10", "uint 4000000000 4294967295", "shrink 9"]),
    (1, ["bits 127 7"]), (1, ["bits 255 8"]), (1, ["logp 1 1", "bits 63 6"]), (1, ["logp 1 1", "bits 127 7"]),
]


def early_patch_grid():
    """patches of every width 1..8 issued after 0..7 coded bits (one-bit symbols, one k-bit symbol, or an
    inexact symbol first), followed by more symbols"""
    out = []
    tail = ["logp %d 1" % ((j * 5 + 1) // 3 % 2) for j in range(12)] + ["uint 5 7", "bits 2 2", "logp 0 1"]
    for n in range(1, 9):
        v = (0xA5 >> (8 - n)) & ((1 << n) - 1)
        for k in range(0, 8):
            ones = ["logp %d 1" % ((k + j) % 2) for j in range(k)]
            out.append((40, ones + ["patch %d %d" % (v, n)] + tail))
            if k >= 1:
                out.append((40, ["bin %d %d %d" % ((1 << k) - 2 if k > 1 else 1, (1 << k) - 1 if k > 1 else 2, k), "patch %d %d" % (v ^ 1, n)] + tail))
            out.append((40, ["enc 1 2 3"] + ones + ["patch %d %d" % (v, n)] + tail))
    return out


def write_lists(path, covs):
    n = 0
    with open(path, "w") as f:
        for size, ops in HANDMADE + early_patch_grid():
            f.write("X %d 255\n%s\nE\n" % (size, "\n".join(ops)))
            n += 1
        for tag, size, ops in covs:
            for variant in (0, 1):
                lines = []
                for k, a in ops:
                    kk, aa = lift(k, a) if variant else (k, a)
                    lines.append(op_text(kk, aa))
                f.write("X %d %d\n%s\nE\n" % (size, 255 if variant else 170, "\n".join(lines)))
                n += 1
    return n


# ---------------------------------------------------------------------------------------------
# reading a trace back: executions, their op-list text (for replay), coverage measurements

def exec_text(tabs, begin, ops):
    lines = ["X %d %d" % (begin["n0"], begin.get("fill", 0))]
    if begin.get("garb"):
        lines.append("G " + " ".join(str(x) for x in begin["b"]))
    for e in ops:
        o, a = e["o"], e["a"]
        if o in ("icdf", "icdf16"):
            t = tabs["t"][a[1] - 1]
            lines.append("%s %d %d %d %s" % (o, a[0], a[2], len(t), " ".join(str(x) for x in t)))
        elif o == "uint":
            lines.append("uint %d %d" % (a[0] * 65536 + a[1], a[2] * 65536 + a[3]))
        else:
            lines.append(o + " " + " ".join(str(x) for x in a))
    lines.append("E")
    return "\n".join(lines) + "\n"


class TraceStats:
    def __init__(self):
        self.execs = 0; self.ops = 0; self.ok_execs = 0; self.ok_ops = 0
        self.kinds = {}; self.cov = {}
        self.maxops = 0; self.sizes = set()

    def bump(self, k, n=1):
        self.cov[k] = self.cov.get(k, 0) + n


_re_uint = re.compile(r'"a":\[(\d+),(\d+),(\d+),(\d+)\]')


def scan_trace(ctx, path, st, wanted_lines):
    """one pass over a trace file: statistics, distinct non-trivial executions, and the executions that
    contain the lines TLC rejected (wanted_lines: set of line numbers) -> {line: (begin, [op events])}"""
    tabs = None; found = {}
    cur = None; cur_ops = None; cur_first = 0; h = None
    with open(path) as f:
        for ln, line in enumerate(f, 1):
            if line.startswith('{"k":"op"'):
                st.ops += 1
                i = line.find('"o":"') + 5
                k = line[i:line.find('"', i)]
                st.kinds[k] = st.kinds.get(k, 0) + 1
                if h is not None:
                    h.update(line[:line.find(',"e":')].encode())
                if cur is not None and cur["err"] == 0 and not cur.get("garb"):
                    st.ok_ops += 1
                if k == "uint":
                    m = _re_uint.search(line)
                    if m and int(m.group(3)) > 0:
                        st.bump("uint_ft_ge_2^16")
                elif k == "bits" and line.find(',25],"e"') > 0:
                    st.bump("raw_25_bits")
                if cur_ops is not None:
                    cur_ops.append(line)
                continue
            e = json.loads(line)
            if e["k"] == "tabs":
                tabs = e
            elif e["k"] == "begin":
                cur = e; cur_ops = []; cur_first = ln; h = hashlib.sha1(str(e["n0"]).encode())
                st.execs += 1; st.sizes.add(e["n0"])
                if e["err"] == 0 and not e.get("garb"):
                    st.ok_execs += 1
                if e.get("garb"):
                    st.bump("decoder_on_random_bytes")
                for key in ("mext", "crun", "smov", "pfd", "perr"):
                    if e.get(key, 0) > 0:
                        st.bump(key)
                if e.get("ferr", -1) >= 0:
                    st.bump("write_collision")
                if e["err"] == 0 and e["tb"] == 8 * e["n1"]:
                    st.bump("tell_eq_budget_ok")
                if e["tb"] == 8 * e["n1"] + 1:
                    st.bump("tell_eq_budget_plus_1")
                if e["err"] and not e["e0"]:
                    st.bump("done_failed")
                if e["err"] == 0 and e["pt"] and not e.get("pfd"):
                    st.bump("patched_ok")
                if e["n1"] < e["n0"]:
                    st.bump("shrunk")
                if e["err"] == 0 and e["offs"] + e["eoffs"] == e["n1"]:
                    st.bump("buffer_full_ok")
                if e.get("derr"):
                    st.bump("decoder_error_flag")
                if e.get("pval"):
                    st.bump("patch_before_renormalisation_accepted")
                if e.get("pref"):
                    st.bump("patch_before_renormalisation_refused")
                if e.get("teq"):
                    st.bump("termination_boundary_full" if e["tb"] == 8 * e["n1"] else
                            "termination_boundary_over" if e["tb"] == 8 * e["n1"] + 1 else "termination_boundary_other")
                st.maxops = max(st.maxops, e["nops"])
            elif e["k"] == "end" and cur is not None:
                if cur["err"] == 0 and cur["nops"] >= 2 and not cur.get("garb"):
                    ctx.nontrivial.add(h.hexdigest()[:16])
                for w in wanted_lines:
                    if cur_first <= w <= ln:
                        found[w] = (cur, [json.loads(x) for x in cur_ops])
                if len(ctx.samples) < 6 and cur["err"] == 0 and 3 <= cur["nops"] <= 8:
                    ctx.sample(dict(exec=dict((k, cur[k]) for k in ("n0", "n1", "err", "tb", "pt")), bytes=cur["b"][:16],
                                    ops=[json.loads(x) for x in cur_ops][:8]))
                cur = None; cur_ops = None; h = None
    return tabs, found


# ---------------------------------------------------------------------------------------------

def match_known(begin, reasons):
    for k in vf.known_findings("C08") + PROVISIONAL:
        key = k.get("key", {})
        if "pfd" in key and begin.get("pfd", 0) != key["pfd"]:
            continue
        if "clauses" in key and not set(reasons) <= set(key["clauses"]):
            continue
        return k
    return None


def run_rctrace(ctx, path, what, noredecode=False, heap="2g"):
    env = {"TRACE": path}
    if noredecode:
        env["NOREDECODE"] = "1"
    r = vf.tlc("RCTrace", "RCTrace.cfg", workers=1, env=env, timeout=2400, heap=heap,
               tag=what.replace(" ", "_") + os.path.basename(path))
    if r.error or r.violation:
        raise vf.Infra("%s: %s" % (what, r.error or r.violation))
    ctx.add_tlc(r, "trace " + what + " " + os.path.basename(path))
    rej = []; consumed = None
    for p in r.prints:
        m = re.match(r'<<"REJECTED_AT", (\d+), (-?\d+), "(.*)">>$', p)
        if m:
            reasons = re.findall(r'\\"(\w+)\\"', m.group(3))
            rej.append((int(m.group(1)), int(m.group(2)), reasons))
        m = re.match(r'<<"CONSUMED", (\d+)>>', p)
        if m:
            consumed = int(m.group(1))
    # TLC may evaluate the action more than once per state: keep distinct rejections
    rej = sorted(set((a, b, tuple(c)) for a, b, c in rej))
    return rej, consumed, r


def tlc_file(ctx, path, what, noredecode=False):
    """the TLC part (runs in parallel): validate one trace file with RCTrace"""
    nlines = vf.count_lines(path)
    rej, consumed, r = run_rctrace(ctx, path, what, noredecode=noredecode)
    if consumed != nlines:
        raise vf.Infra("%s: TLC consumed %s of %d trace lines" % (what, consumed, nlines))
    return rej, nlines


def classify_file(ctx, exe, path, what, rej, nlines, st, confirm=True, noredecode=False):
    """sequential part: statistics and the verdict on every execution TLC rejected"""
    tabs, found = scan_trace(ctx, path, st, set(l for l, x, why in rej))
    ctx.evaluations += nlines - 1
    nrej_exec = 0
    for line, x, why in rej:
        nrej_exec += 1
        begin, ops = found.get(line, (None, None))
        if begin is None:
            raise vf.Infra("%s: rejected line %d not found in an execution" % (what, line))
        text = exec_text(tabs, begin, ops)
        detail = "execution x=%d size=%d ops=%d rejected at line %d for %s; event: %s" % (
            x, begin["n0"], begin["nops"], line, ",".join(why), vf.file_line(path, line)[:300])
        if set(why) == {"illegal"}:
            raise vf.Infra("%s: driver produced an event outside the library's contract: %s" % (what, detail))
        if set(why) == {"m32rng"}:
            ctx.spec_drift("RangeDec32", detail)
            continue
        rp = ctx.path("rej_%s_%d.txt" % (re.sub(r"\W+", "_", what), nrej_exec))
        with open(rp, "w") as f:
            f.write(text)
        k = match_known(begin, why)
        if confirm and len(ctx.violations) < 3 and not (k and ctx.notes.get("known_finding_hits", 0) >= 3):
            # R4: run the same op list again and judge it again (the first three rejections; a systematic defect
            # rejects thousands of executions, which are then only counted)
            out = rp + ".ndjson"
            rc, err = vf.run_hx(exe, ["list"], out, stdin_path=rp, timeout=600)
            if rc != 0:
                ctx.violation("hx_rc aborted (rc=%d) while repeating a rejected execution: %s" % (rc, err[-800:]), replay_src=rp)
                continue
            rej2, cons2, r2 = run_rctrace(ctx, out, what + " confirm", noredecode=noredecode)
            if not rej2:
                raise vf.Infra("%s: rejection did not repeat (%s)" % (what, detail))
        if k:
            if k["what"] not in ctx.known:
                ctx.known_finding(k["what"])
            ctx.notes["known_finding_hits"] = ctx.notes.get("known_finding_hits", 0) + 1
            if "known_finding_example" not in ctx.notes:
                ctx.notes["known_finding_example"] = text[:600]
        else:
            ctx.violation("range coder breaks clause(s) %s: %s" % (",".join(why), detail), replay_src=rp)
    ctx.traces += st_execs_in(path) - nrej_exec
    return nrej_exec


def st_execs_in(path):
    n = 0
    with open(path) as f:
        for line in f:
            if line.startswith('{"k":"begin"'):
                n += 1
    return n


# ---------------------------------------------------------------------------------------------

def model_runs(ctx, tier):
    """design level: the reduced-width model and the full-width tell_frac formula"""
    jobs = [("RangeDec32_mc", "RangeDec32_mc.cfg", "TellFracFormula, 32768 mantissas (32,8,8,32,3)", dict(workers=4, deadlock=True)),
            ("RangeCoder_mc", "RangeCoder_mc_quick.cfg", "RCLink (12,4,3,8,3) all kinds depth 3", dict(workers=6, deadlock=True)),
            ("RangeCoder_mc", "RangeCoder_mc_quick_deep.cfg", "RCLink carry alphabet depth 4", dict(workers=6, deadlock=True)),
            ("RangeCoder_mc", "RangeCoder_mc_quick_patch.cfg", "RCLink early-patch alphabet depth 4", dict(workers=4, deadlock=True))]
    if tier == "thorough":
        jobs[0] = ("RangeDec32_mc", "RangeDec32_mc_thorough.cfg", "TellFracFormula + tell on every magnitude, 32768 mantissas", dict(workers=4, deadlock=True))
        jobs += [("RangeCoder_mc", "RangeCoder_mc_thorough_patch.cfg", "RCLink early-patch alphabet depth 6", dict(workers=6, deadlock=True, heap="8g")),
                 ("RangeCoder_mc", "RangeCoder_mc_prefix.cfg", "RCLink, patch_initial_bits before 85f44ce1, depth 3", dict(workers=4, deadlock=True)),
                 ("RangeCoder_mc", "RangeCoder_mc_thorough.cfg", "RCLink wide alphabet depth 3", dict(workers=8, deadlock=True, heap="10g")),
                 ("RangeCoder_mc", "RangeCoder_mc_thorough_b4.cfg", "RCLink all kinds depth 4", dict(workers=6, deadlock=True, heap="8g")),
                 ("RangeCoder_mc", "RangeCoder_mc_thorough_deep.cfg", "RCLink carry alphabet depth 5", dict(workers=6, deadlock=True, heap="8g")),
                 ("RangeCoder_mc", "RangeCoder_mc_sim.cfg", "RCLink random op lists of length 24 (simulation)",
                  dict(workers=4, deadlock=True, simulate=600, depth=25, extra=["-seed", str(ctx.seed)]))]

    def one(j):
        mod, cfg, what, kw = j
        return j, vf.tlc(mod, cfg, timeout=3000 if tier == "thorough" else 600, **kw)
    res = vf.parallel(one, jobs, nproc=4 if tier == "quick" else 4)
    covs = []; tags = set()
    for (mod, cfg, what, kw), r in res:
        if r.error:
            raise vf.Infra("%s: %s" % (what, r.error))
        if kw.get("simulate"):
            m = re.search(r"The number of states generated: (\d+)", r.out)
            r.generated = r.distinct = int(m.group(1)) if m else 0
        ctx.add_tlc(r, "mc " + what)
        vf.log("[mc] %-52s distinct=%d generated=%d %s (%.1fs)" % (what, r.distinct, r.generated,
                                                                 "OK" if r.ok else "VIOLATED " + str(r.violation), r.wall))
        if r.violation:
            # the model is an exact transcription of the C code at reduced width: a violated invariant is a defect of
            # the algorithm or of the transcription; it is shown, and the real traces decide about the library
            raise vf.Infra("model invariant %s violated in %s:\n%s" % (r.violation, what, r.state_dump[:3000]))
        for p in r.prints:
            c = parse_cov(p)
            if c:
                tags.add(c[0])
                if not c[0].startswith("op_") and c[0] not in ("decoded_all", "decoder_error") and "prefix" not in cfg:
                    covs.append(c)
    missing = [t for t in MC_TAGS_QUICK + ["carry_into_run"] + (["patch_first_deferred"] if tier == "thorough" else []) if t not in tags]
    if missing:
        raise vf.Infra("model runs are vacuous: coverage goals never reached: %s" % missing)
    ctx.notes["model_coverage_goals_reached"] = sorted(tags)
    ctx.notes["model_invariants"] = MODEL_INVS
    # distinct lists only
    seen = set(); out = []
    for c in covs:
        key = (c[1], json.dumps(c[2]))
        if key not in seen:
            seen.add(key); out.append(c)
    return out


def run(ctx):
    tier = ctx.tier
    ctx.rule = ("RangeCoder_mc: every op list up to the depth of the configuration is a state; TLC checks Inverse, TellEqual, "
                "FracMonotone, FracVsWhole, RngNormalised, NoWriteOutside, DoneCannotFail (+BudgetNoError, SafeDecAgrees) on the "
                "exact reduced-width transcription of entenc.c/entdec.c. hx_rc runs the real ec_enc_*/ec_dec_* over lifted TLC "
                "behaviours and seeded random op lists and records per-op tell/tell_frac/rng, values, bytes, error flags; RCTrace "
                "judges every event (property clauses) and re-decodes the recorded bytes with RangeDec32 at full width. "
                "non-trivial = distinct executions (hash of size and op list) with no encoder error and at least two ops")
    ctx.assumptions = [
        "TLC 1.8.0 and the CommunityModules Json reader are trusted",
        "the range ENCODER is modelled exactly only at reduced width (12,4,3,8,3); at full width it is held to the property clauses on recorded executions (TLC integers are 32-bit)",
        "'decoded = encoded' under ec_enc_patch_initial_bits is read as documented in entenc.h: the leading symbols coded with exact power-of-two probabilities decode to the patched bits; executions whose patch is not covered by such symbols are outside the premise",
        "a patch of n bits issued when ec_tell-1 < n (fewer than n bits coded) must set the error flag (entenc.h: 'the encoder can verify the number of encoded bits is sufficient'); the exact power-of-two symbols that cover a patch must have been coded before the patch call",
        "'finishing cannot fail' is asserted as: tell before ec_enc_done <= 8*size and no patch was refused => error flag 0 after ec_enc_done",
        "memory safety outside the buffer is observed (ASan/UBSan build, canaries, byte comparison of the region beyond a shrunk buffer) on the recorded executions only",
    ]
    var = vf.build_variant("hk")
    exe = vf.build_hx(var, "rc.c")
    if ctx.replay:
        return replay(ctx, exe)

    # 1. design level
    covs = model_runs(ctx, tier)
    ctx.exhaustive = True
    ctx.notes["exhaustive_scope"] = ("model side: all op lists up to the configured depth over the configured alphabets at reduced width, "
                                     "and all 32768 mantissas for TellFracFormula; implementation side is sampled")

    # 2. real coder: lifted behaviours + seeded random lists + tell_frac sweep
    st = TraceStats()
    vf.log("[C08] model runs done at %.0fs, %d distinct lifted op lists" % (vf.time.time() - ctx.t0, len(covs)))
    lists = ctx.path("lifted.txt")
    nl = write_lists(lists, covs)
    lifted = ctx.path("t_lifted.ndjson")
    rc, err = vf.run_hx(exe, ["list"], lifted, stdin_path=lists, timeout=900)
    if rc != 0:
        ctx.violation("hx_rc list aborted rc=%d: %s" % (rc, err[-1500:]), replay_src=lists)
    ctx.notes["lifted_behaviours"] = nl
    s = ctx.seed
    if tier == "quick":
        jobs = [("rand", [s + i, 110, 4000]) for i in range(10)]
        tffills = 1
    else:
        jobs = [("rand", [s + i, 400, 4000]) for i in range(32)]
        tffills = 3

    def gen(job):
        i, (cmd, args) = job
        out = ctx.path("t_%s_%d.ndjson" % (cmd, i))
        rc, err = vf.run_hx(exe, [cmd] + args, out, timeout=1800)
        return cmd, args, out, rc, err
    outs = vf.parallel(gen, list(enumerate(jobs)), nproc=8)
    files = [("lifted", lifted)] if rc == 0 else []
    for cmd, args, out, rc, err in outs:
        if rc != 0:
            ctx.violation("hx_rc %s %s aborted rc=%d (sanitizer/assert/hang): %s" % (cmd, args, rc, err[-1500:]),
                          replay_text="hx_rc %s %s\n%s" % (cmd, " ".join(map(str, args)), err))
        else:
            files.append(("rand seed %d" % args[0], out))

    def val(item):
        what, path = item
        return tlc_file(ctx, path, "C08 " + what)
    results = vf.parallel(val, files, nproc=10 if tier == "quick" else 8)
    for (what, path), (rej, nlines) in zip(files, results):
        classify_file(ctx, exe, path, "C08 " + what, rej, nlines, st)
    vf.log("[C08] %d executions / %d op events judged at %.0fs" % (st.execs, st.ops, vf.time.time() - ctx.t0))
    for _, p in files:
        if os.path.exists(p):
            os.remove(p)

    # 3. ec_tell_frac on constructed contexts: every 16-bit mantissa x every magnitude x 1 (quick) or 3 (thorough) fills
    tfp = ctx.path("t_tf.ndjson")
    rc, err = vf.run_hx(exe, ["tf", s, tffills], tfp, timeout=900)
    if rc != 0:
        ctx.violation("hx_rc tf aborted rc=%d: %s" % (rc, err[-1500:]))
    else:
        rej, total = vf.validate_cases(ctx, "RCTrace", "RCTrace_tf.cfg", tfp, "C08 tell_frac sweep",
                                       nparts=8 if tier == "quick" else 12, heap="2g")
        ctx.evaluations += total
        ctx.notes["tell_frac_contexts"] = total
        ctx.notes["tell_frac_low_bit_fills_per_mantissa_and_magnitude"] = tffills
        for p, ln, tr in rej:
            ev = vf.file_line(p, ln)
            rp = ctx.path("rej_tf.ndjson")
            with open(rp, "w") as f:
                f.write(ev + "\n")
            ctx.violation("ec_tell_frac differs from its defining computation / from ec_tell: " + ev[:300], replay_src=rp)

    # 4. what the recorded executions covered (vacuity guard: measured, then required)
    ctx.notes["executions"] = st.execs
    ctx.notes["executions_without_encoder_error"] = st.ok_execs
    ctx.notes["op_events"] = st.ops
    ctx.notes["op_events_in_error_free_executions"] = st.ok_ops
    ctx.notes["op_kinds"] = st.kinds
    ctx.notes["longest_op_list"] = st.maxops
    ctx.notes["buffer_sizes_seen"] = "%d distinct, %d..%d" % (len(st.sizes), min(st.sizes or [0]), max(st.sizes or [0]))
    ctx.notes["implementation_corners"] = st.cov
    ctx.notes["full_width_redecoding_fraction"] = 1.0
    need = ["mext", "crun", "smov", "write_collision", "tell_eq_budget_ok", "patched_ok", "done_failed", "shrunk",
            "uint_ft_ge_2^16", "raw_25_bits", "buffer_full_ok",
            "termination_boundary_full", "termination_boundary_over", "decoder_on_random_bytes",
            "patch_before_renormalisation_accepted", "patch_before_renormalisation_refused"]
    missing = [k for k in need if st.cov.get(k, 0) == 0]
    kinds_missing = [k for k in ("enc", "bin", "logp", "icdf", "icdf16", "uint", "bits", "patch", "shrink") if st.kinds.get(k, 0) == 0]
    if not ctx.violations and (missing or kinds_missing or st.ok_execs < 50 or st.ok_ops < 5000):
        raise vf.Infra("recorded executions are vacuous: missing corners %s, kinds %s, error-free executions %d, ops %d" % (
            missing, kinds_missing, st.ok_execs, st.ok_ops))


def replay(ctx, exe):
    """--replay: an op-list text (X size fill / ops / E) or a single tell_frac case"""
    with open(ctx.replay) as f:
        head = f.read(200)
    st = TraceStats()
    if head.startswith('{"k":"tf"'):
        rej, total = vf.validate_cases(ctx, "RCTrace", "RCTrace_tf.cfg", ctx.replay, "C08 replay tf", nparts=1)
        # re-evaluate on the current tree: the case stores the context, the harness recomputes
        e = json.loads(head.splitlines()[0])
        ctx.evaluations += total
        for p, ln, tr in rej:
            ctx.violation("replayed tell_frac case rejected: " + vf.file_line(p, ln)[:300], replay_src=ctx.replay)
        ctx.nontrivial_count = 2; ctx.states = max(ctx.states, 1); ctx.transitions = max(ctx.transitions, 1)
        return
    out = ctx.path("replay.ndjson")
    rc, err = vf.run_hx(exe, ["list"], out, stdin_path=ctx.replay, timeout=600)
    if rc != 0:
        ctx.violation("replay aborted rc=%d %s" % (rc, err[-800:]), replay_src=ctx.replay)
        return
    rej, nlines = tlc_file(ctx, out, "C08 replay")
    classify_file(ctx, exe, out, "C08 replay", rej, nlines, st, confirm=False)
    ctx.notes["executions"] = st.execs
    ctx.nontrivial_count = max(2, st.execs)
    ctx.sample(vf.file_line(out, 2)[:400])


META = dict(
    engine="RangeCoder+RangeDec32+RCTrace",
    technique=("TLA+ state machines of the range encoder and decoder, parametric in the word sizes; TLC exhaustive over all op lists up to a "
               "depth at reduced width (encoder, ec_enc_done, decoder composed); TLC trace validation of recorded executions of the real "
               "coder with an overflow-safe full-width decoder model re-decoding the recorded bytes"),
    level_text=("TLC checks Inverse, TellEqual, FracMonotone, FracVsWhole, RngNormalised, NoWriteOutside, DoneCannotFail on the exact "
                "reduced-width (12,4,3,8,3) transcription of entenc.c/entdec.c for every op list up to the configured depth, that the "
                "overflow-safe decoder RangeDec32 agrees with the plain transcription step for step, and TellFracFormula (table-driven "
                "ec_tell_frac = defining iterated squaring, tell = ceil(tell_frac/8)) for all 32768 mantissas at full width. Every recorded "
                "execution of the real coder (lifted TLC behaviours, seeded random op lists of up to 4000 ops with all op kinds, buffer sizes "
                "1..1275, patch/shrink/bust cases, and ec_tell_frac on every mantissa x magnitude) is judged by RCTrace: decoded = encoded "
                "(patched) when the encoder reports no error, equal tell/tell_frac/rng after every op, monotone and consistent counters, "
                "untouched bytes outside the buffer, tell <= 8*size => no error, and TLC's own full-width decoding of the bytes equals the "
                "real decoder's values and counters."),
    level_note=("Trusted: TLC, the Json module, the reading of ec_enc_patch_initial_bits' contract stated in the assumptions. The full-width "
                "ENCODER is not modelled (32-bit TLC integers); the reduced-width model is bound to it only through lifted behaviours and the "
                "property clauses on recorded executions. The implementation is exercised on a sample of op lists, not all."),
)
