"""C09 - packet loss: PLC and FEC return the requested audio, stay bounded, and recover (modules Link, LinkTrace)."""
import json, os, random, re
import vf

LEVEL = "fault_enumeration"
PROVISIONAL = []          # proposed known-findings entries (none)
# C09_CAL=1: calibration mode - the level / accuracy / convergence clauses are switched off and only measured
# (the per-stream OBS lines go to $C09_CAL_OUT); exact durations, finiteness and final ranges are still judged
TRACE_CFG = "LinkTraceCal.cfg" if os.environ.get("C09_CAL") == "1" else "LinkTrace.cfg"

# stream configurations: (Fs, ch, app, bitrate, vbr, cx, fec, loss%, dtx, forced mode, bandwidth, signal, fo, co)
SILK = [(16000, 1, 2048, 24000, 1, 5, 1, 20, 0, 1000, 0, 1, 16000, 1), (8000, 1, 2048, 12000, 1, 3, 0, 0, 0, 1000, 0, 1, 8000, 1),
        (48000, 2, 2048, 36000, 1, 5, 1, 15, 0, 1000, 1103, 1, 48000, 2), (12000, 1, 2048, 18000, 0, 4, 1, 30, 0, 1000, 0, 1, 48000, 2),
        (16000, 2, 2048, 40000, 2, 6, 1, 25, 0, 1000, 0, 6, 16000, 2), (24000, 1, 2048, 20000, 1, 2, 1, 10, 0, 1000, 1103, 4, 24000, 1)]
HYB = [(48000, 1, 2048, 32000, 1, 5, 1, 20, 0, 1001, 1105, 1, 48000, 1), (48000, 2, 2048, 48000, 1, 5, 0, 0, 0, 1001, 1104, 6, 48000, 2),
       (24000, 1, 2048, 28000, 1, 4, 1, 25, 0, 1001, 1104, 1, 24000, 2), (48000, 2, 2049, 40000, 0, 7, 1, 20, 0, 1001, 1105, 1, 16000, 1)]
CELT = [(48000, 2, 2049, 96000, 1, 5, 0, 0, 0, 1002, 0, 6, 48000, 2), (48000, 1, 2051, 64000, 0, 3, 0, 0, 0, 0, 0, 1, 48000, 1),
        (16000, 1, 2049, 32000, 1, 5, 0, 0, 0, 1002, 0, 4, 16000, 1), (24000, 2, 2051, 48000, 2, 8, 0, 0, 0, 0, 0, 6, 8000, 2),
        (48000, 1, 2049, 24000, 1, 10, 1, 10, 0, 1002, 1103, 8, 12000, 1)]
AUTO = [(48000, 2, 2049, 20000, 1, 9, 1, 10, 0, 0, 0, 1, 48000, 2), (48000, 1, 2048, 16000, 1, 10, 1, 20, 0, 0, 0, 1, 24000, 1),
        (16000, 1, 2048, 14000, 1, 8, 2, 15, 0, 0, 0, 6, 16000, 1)]
# clean signals (families 11 / 12: harmonic, modulated, no additive noise) through the speech and hybrid layers
CLEAN = [(16000, 1, 2048, 24000, 1, 5, 0, 0, 0, 1000, 0, 11, 16000, 1), (16000, 1, 2048, 24000, 1, 5, 1, 20, 0, 1000, 0, 12, 16000, 1),
         (8000, 1, 2048, 12000, 1, 3, 0, 0, 0, 1000, 0, 12, 8000, 1), (48000, 1, 2048, 32000, 1, 5, 1, 20, 0, 1001, 1105, 11, 48000, 1),
         (48000, 2, 2048, 40000, 1, 5, 0, 0, 0, 1001, 1104, 12, 48000, 2), (24000, 1, 2048, 20000, 0, 4, 1, 10, 0, 1000, 1103, 11, 24000, 1),
         (48000, 1, 2048, 28000, 1, 8, 0, 0, 0, 0, 0, 12, 48000, 1), (12000, 1, 2048, 16000, 1, 6, 0, 0, 0, 1000, 0, 11, 12000, 2),
         # unvoiced talk spurts (family 14)
         (16000, 1, 2048, 24000, 1, 5, 0, 0, 0, 1000, 0, 14, 16000, 1), (48000, 1, 2048, 32000, 1, 5, 0, 0, 0, 1001, 1105, 14, 48000, 1),
         (24000, 1, 2048, 20000, 1, 8, 1, 15, 0, 1000, 1103, 14, 24000, 1), (48000, 2, 2048, 48000, 0, 6, 0, 0, 0, 1001, 1104, 14, 48000, 2),
         (8000, 1, 2048, 16000, 1, 3, 0, 0, 0, 1000, 0, 14, 8000, 1), (16000, 2, 2048, 36000, 1, 10, 1, 20, 0, 1000, 0, 14, 16000, 2)]
# strong in-band FEC (the sub-domain of the accuracy clause): speech-only wideband mono, FEC on, loss >= 20 %, >= 32 kb/s
STRONG = [(16000, 1, 2048, 32000, 1, 5, 1, 20, 0, 1000, 0, 1, 16000, 1), (16000, 1, 2048, 40000, 1, 10, 1, 30, 0, 1000, 0, 11, 16000, 1),
          (16000, 1, 2048, 64000, 1, 5, 1, 20, 0, 1000, 0, 12, 16000, 1), (16000, 1, 2048, 48000, 0, 7, 1, 25, 0, 1000, 0, 11, 16000, 1),
          (16000, 1, 2048, 36000, 1, 3, 1, 40, 0, 1000, 0, 12, 16000, 1), (16000, 1, 2048, 40000, 1, 8, 2, 20, 0, 1000, 0, 1, 16000, 1)]
# sharp convergence (one isolated loss at EVERY position of a talk-spurt signal; stream held in one speech-family mode)
CONV = [(16000, 1, 2048, 24000, 1, 5, 0, 0, 0, 1000, 0, 11, 16000, 1), (48000, 1, 2048, 32000, 1, 5, 0, 0, 0, 1001, 1105, 11, 48000, 1),
        (16000, 2, 2048, 40000, 1, 7, 1, 20, 0, 1000, 0, 11, 16000, 2), (48000, 2, 2048, 48000, 0, 5, 1, 10, 0, 1001, 1104, 11, 48000, 2),
        (24000, 1, 2048, 28000, 1, 10, 0, 0, 0, 1001, 1104, 11, 24000, 1), (16000, 1, 2048, 40000, 1, 10, 1, 25, 0, 1000, 0, 11, 48000, 2),
        (24000, 1, 2048, 20000, 1, 2, 0, 0, 0, 1000, 1103, 11, 24000, 1), (48000, 1, 2048, 64000, 1, 8, 0, 0, 0, 1001, 1105, 11, 16000, 1)]
DTXS = [(16000, 1, 2048, 24000, 1, 5, 0, 0, 1, 1000, 0, 10, 16000, 1), (48000, 1, 2049, 32000, 1, 10, 0, 0, 1, 0, 0, 10, 48000, 1),
        (8000, 1, 2048, 12000, 1, 3, 1, 10, 1, 1000, 0, 10, 8000, 2)]
# quiet start (300 ms of faint noise, then a stationary loud signal: families 15 / 16) on MDCT-only streams (forced mode or the
# low-delay application): the depth of the MDCT layer's concealment floor (clause M7) is observable there
QS = [(48000, 1, 2051, 64000, 1, 5, 0, 0, 0, 0, 0, 15, 48000, 1), (48000, 2, 2049, 96000, 1, 5, 0, 0, 0, 1002, 0, 15, 48000, 2),
      (48000, 1, 2049, 32000, 0, 3, 0, 0, 0, 1002, 0, 16, 48000, 1), (24000, 1, 2049, 40000, 1, 8, 0, 0, 0, 1002, 0, 15, 24000, 2),
      (48000, 2, 2051, 128000, 2, 10, 0, 0, 0, 0, 0, 16, 16000, 1), (16000, 1, 2049, 24000, 1, 5, 0, 0, 0, 1002, 0, 16, 16000, 1),
      (48000, 1, 2049, 48000, 1, 6, 0, 0, 0, 1002, 1104, 15, 48000, 1), (48000, 2, 2049, 64000, 0, 7, 0, 0, 0, 1002, 0, 15, 48000, 1)]


def pool(pol, U):
    if pol == "DX":
        return DTXS if U >= 4 else [DTXS[1]]
    if U < 4:
        return CELT
    if pol in ("F1", "F2"):
        return SILK + HYB[:3] + AUTO + [CELT[0]] + ([] if U > 8 else [HYB[3]]) + (STRONG + STRONG if U >= 8 else []) + CLEAN[:2]
    return SILK + HYB + CELT + AUTO + CLEAN


def shift(tokens, off):
    out = []
    for t in tokens:
        if t[0] in "DX":
            out.append("%s%d" % (t[0], int(t[1:]) + off))
        elif t[0] == "F":
            i, u = t[1:].split(":")
            out.append("F%d:%s" % (int(i) + off, u))
        else:
            out.append(t)
    return out


def tail_tokens(U):
    n = max(1, -(-80 // U))            # stretches of about 200 ms, 1.4 s in all
    return ["T%d" % n] * 7, 7 * n


def gen_schedules(ctx, tier):
    """fate patterns x policies x durations, and the bursts, as enumerated by TLC from the receiver model"""
    r = vf.tlc("Link_mc", "Link_gen_c09_%s.cfg" % tier, workers=4, timeout=1500, heap="6g")
    if r.error or r.violation:
        raise vf.Infra("Link_mc gen (C09): " + str(r.error or r.violation))
    ctx.add_tlc(r, "gen Link_mc/Link_gen_c09_%s.cfg" % tier)
    sched, bursts, bursts2 = [], [], []
    for p in r.prints:
        m = re.match(r'"BURST2 (\w+) (\d+) (\d+) (\d+) (\d+) \| (.*)\| (.*)\| D(\d+) \| (.*)"$', p)
        if m:
            bursts2.append((m.group(1), int(m.group(2)), int(m.group(3)), int(m.group(4)), int(m.group(5)), m.group(6).split(), m.group(7).split(),
                            int(m.group(8)), m.group(9).split()))
            continue
        m = re.match(r'"SCHED (\w+) (\d+) ([01]+) \| (.*)"$', p)
        if m:
            sched.append((m.group(1), int(m.group(2)), m.group(3), m.group(4).split()))
            continue
        m = re.match(r'"BURST (\w+) (\d+) (\d+) \| (.*)\| (.*)\| (\d+) \| (.*)"$', p)
        if m:
            bursts.append((m.group(1), int(m.group(2)), int(m.group(3)), m.group(4).split(), m.group(5).split(), int(m.group(6)), m.group(7).split()))
    if not sched or not bursts or not bursts2:
        raise vf.Infra("Link_mc gen emitted no schedules")
    # TLC's workers print in an order that changes from run to run: sort, so that everything derived is repeatable (R4)
    sched.sort(key=lambda x: (x[1], x[0], x[2]))
    bursts.sort(key=lambda x: (x[1], x[0], x[2]))
    bursts2.sort(key=lambda x: (x[1], x[0], x[2], x[3], x[4]))
    return sched, bursts, bursts2


def build_scripts(ctx, sched, bursts, tier, bursts2=()):
    """group receiver runs by stream; returns list of streams [(L line, [W lines], [meta])]"""
    rng = random.Random(ctx.seed)
    ref = {(U, bits): toks for (pol, U, bits, toks) in sched if pol == "PW"}
    K = len(sched[0][2])
    groups = {}
    for j, (pol, U, bits, toks) in enumerate(sched):
        pl = pool(pol, U)
        c = pl[(j + rng.randrange(len(pl))) % len(pl)] if tier == "thorough" else pl[j % len(pl)]
        groups.setdefault((c, U, 0 if c in STRONG else j % 3), []).append((pol, U, bits, toks))
    streams = []
    for (c, U, b), items in sorted(groups.items(), key=lambda kv: repr(kv[0])):
        tl, ntail = tail_tokens(U)
        span = 1200 // U                         # windows slide over 3 s
        # DTX streams: the window should meet the pauses of the signal (on 0.9 s / off 0.7 s)
        npk = span + 5 + K + ntail + 1
        L = "L %d %d %d %d %d %d %d %d %d %d %d %d %d %d %d %d %d" % (c[:9] + (U,) + c[9:12] + (rng.randrange(1, 1 << 30),) + c[12:14] + (npk,))
        ws, metas = [], []
        for (pol, U2, bits, toks) in items:
            start = rng.randrange(0, span)
            if pol == "DX":
                start = (rng.choice([330, 400, 440, 500, 600, 960, 1040]) // U) % span
            rt = shift(toks, start) + tl
            rf = shift(ref[(U, bits)], start) if pol in ("F1", "F2") else []
            ws.append("W %d | %s | %s" % (start, " ".join(rt), " ".join(rf)))
            metas.append((pol, U, bits))
        streams.append((L, ws, metas))
    # strong in-band FEC streams: every fate pattern under policy F1 (quick: all 2^8; thorough: a seeded 1024 of the 2^12),
    # so that each stream recovers hundreds of isolated losses (the accuracy clause is judged from MinFecFrames on)
    f1 = {}
    for (pol, U, bits, toks) in sched:
        if pol == "F1":
            f1.setdefault(U, []).append((bits, toks))
    for ci, c in enumerate(STRONG if tier == "thorough" else STRONG[:3]):
        for U in (8, 16, 24):
            items = f1.get(U, [])
            if len(items) > 1024:
                items = rng.sample(items, 1024)
            tl, ntail = tail_tokens(U)
            span = 1200 // U
            npk = span + 5 + K + ntail + 1
            L = "L %d %d %d %d %d %d %d %d %d %d %d %d %d %d %d %d %d" % (c[:9] + (U,) + c[9:12] + (rng.randrange(1, 1 << 30),) + c[12:14] + (npk,))
            ws, metas = [], []
            for (bits, toks) in items:
                st = rng.randrange(0, span)
                ws.append("W %d | %s | %s" % (st, " ".join(shift(toks, st) + tl), " ".join(shift(ref[(U, bits)], st))))
                metas.append(("F1", U, bits))
            streams.append((L, ws, metas))
    # one isolated loss at every packet position of the stream (schedule of the fate pattern 100..0 under policy PW)
    one = "1" + "0" * (K - 1)
    for ci, c in enumerate(CONV if tier == "thorough" else CONV[:2]):
        for U in ((4, 8) if tier == "thorough" else (4,)):
            if (U, one) not in ref or (c[9] == 1001 and U > 8 and False):
                continue
            tl, ntail = tail_tokens(U)
            span = 1200 // U
            npk = span + 5 + K + ntail + 1
            L = "L %d %d %d %d %d %d %d %d %d %d %d %d %d %d %d %d %d" % (c[:9] + (U,) + c[9:12] + (rng.randrange(1, 1 << 30),) + c[12:14] + (npk,))
            ws = ["W %d | %s |" % (st, " ".join(shift(ref[(U, one)], st) + tl)) for st in range(0, span)]
            streams.append((L, ws, [("PW", U, "pos%d" % st) for st in range(0, span)]))
    # bursts
    blist = [(b, None) for b in bursts]
    # sustained loss on the clean families (speech / hybrid layer): 1.5 s in both tiers, 3 s and 10 s in thorough
    for b in bursts:
        if b[0] in ("PW", "PSa") and b[1] >= 4 and b[2] * b[1] in ((600,) if tier == "quick" else (600, 1200, 4000)):
            for ci in range(len(CLEAN)):
                if tier == "thorough" or (ci + b[1] // 4) % 2 == 0 or (CLEAN[ci][11] == 14 and ci % 2 == 0):
                    blist.append((b, CLEAN[ci]))
    for j, ((pol, U, Lb, pre, grp, reps, suf), forced) in enumerate(blist):
        if tier == "quick" and Lb * U > 420 and forced is None:
            continue
        pl = pool(pol, U)
        for rep in range(1 if tier == "quick" else 2):
            c = forced or pl[(j + rep * 3 + rng.randrange(len(pl))) % len(pl)]
            tl, ntail = tail_tokens(U)
            start = rng.randrange(0, 24) if forced is None else rng.randrange(0, 1800 // U)     # clean families: mostly after the first pause
            npk = start + 5 + Lb + 1 + ntail + 1
            if npk > 3900:
                continue
            L = "L %d %d %d %d %d %d %d %d %d %d %d %d %d %d %d %d %d" % (c[:9] + (U,) + c[9:12] + (rng.randrange(1, 1 << 30),) + c[12:14] + (npk,))
            rt = shift(pre + grp * reps + suf, start) + tl
            rf = shift(pre + ["P%d" % U] * Lb + ["D%d" % (5 + Lb)], start) if pol in ("F1", "F2") else []
            streams.append((L, ["W %d | %s | %s" % (start, " ".join(rt), " ".join(rf))], [(pol, U, "burst%d" % Lb)]))
    # two sustained bursts separated by a stretch of received packets (the earlier one 3 s / 10 s / 26 s: the MDCT layer's loss
    # counter saturates after 25 s), on the quiet-start streams; single sustained bursts on the same streams as well.
    # quick: a slice (second burst 1.5 s; 26 s outage + 1 s gap for every policy x duration, a third of its other gaps,
    # half of the 10 s outages + 1 s gap, a sixth of the 3 s ones; one stream configuration each)
    nsel = 0
    for j, (pol, U, L1, G, L2, pre, grp, mid0, suf) in enumerate(bursts2):
        ms1, msg, ms2 = L1 * U * 5 // 2, G * U * 5 // 2, L2 * U * 5 // 2
        if tier == "quick":
            if ms2 > 2000 or (ms1 < 20000 and msg > 2000):
                continue
            nsel += 1
            if not (ms1 >= 20000 and 800 <= msg <= 1500) and nsel % (3 if ms1 >= 20000 else 2 if ms1 >= 9000 and 800 <= msg <= 1500 else 6):
                continue
        for rep in range(1 if tier == "quick" else 2):
            c = QS[(j + 3 * rep + rng.randrange(len(QS))) % len(QS)]
            tl, ntail = tail_tokens(U)
            # a third of them from the very first (quiet) packets, the others from somewhere in the first second (the background
            # estimate may rise by about 2.4 dB per second of received audio: the clause is calibrated for runs that receive at most
            # about 4 s of the loud signal before the judged burst)
            start = 0 if (j + rep) % 3 == 0 else rng.randrange(0, 400 // U + 1)
            npk = start + 5 + L1 + G + L2 + 1 + ntail + 1
            if npk > 3900:
                continue
            L = "L %d %d %d %d %d %d %d %d %d %d %d %d %d %d %d %d %d" % (c[:9] + (U,) + c[9:12] + (rng.randrange(1, 1 << 30),) + c[12:14] + (npk,))
            rt = shift(pre + grp * L1 + ["D%d" % (mid0 + g) for g in range(G)] + grp * L2 + suf, start) + tl
            streams.append((L, ["W %d | %s |" % (start, " ".join(rt))], [(pol, U, "burst%d+%d+%d" % (L1, G, L2))]))
    nsingle = 0
    for j, (pol, U, Lb, pre, grp, reps, suf) in enumerate(bursts):
        if pol in ("F1", "F2") or Lb * U < 600 or (tier == "quick" and Lb * U != 600):
            continue
        nsingle += 1
        if tier == "quick" and nsingle % 2:
            continue
        c = QS[(j + rng.randrange(len(QS))) % len(QS)]
        tl, ntail = tail_tokens(U)
        start = rng.randrange(0, 1200 // U)
        npk = start + 5 + Lb + 1 + ntail + 1
        if npk > 3900:
            continue
        L = "L %d %d %d %d %d %d %d %d %d %d %d %d %d %d %d %d %d" % (c[:9] + (U,) + c[9:12] + (rng.randrange(1, 1 << 30),) + c[12:14] + (npk,))
        streams.append((L, ["W %d | %s |" % (start, " ".join(shift(pre + grp * reps + suf, start) + tl))], [(pol, U, "burst%d" % Lb)]))
    return streams


def run_streams(ctx, exe, streams, tag):
    """distribute the streams over processes; returns [(script path, trace path, rc, err)]"""
    nproc = min(vf.NCPU, max(1, len(streams)))
    cost = [sum(len(w) for w in ws) for (_, ws, _) in streams]
    order = sorted(range(len(streams)), key=lambda i: -cost[i])
    bins = [[] for _ in range(nproc)]
    load = [0] * nproc
    for i in order:
        k = load.index(min(load))
        bins[k].append(i)
        load[k] += cost[i]
    jobs = []
    for k, b in enumerate(bins):
        if not b:
            continue
        ip = ctx.path("%s_%02d.txt" % (tag, k))
        with open(ip, "w") as f:
            for i in b:
                f.write(streams[i][0] + "\n")
                for w in streams[i][1]:
                    f.write(w + "\n")
                f.write("Z\n")
        jobs.append((k, ip, b))

    def one(job):
        k, ip, b = job
        out = ctx.path("%s_%02d.ndjson" % (tag, k))
        rc, err = vf.run_hx(exe, ["c09"], out, stdin_path=ip, timeout=3000)
        return k, ip, b, out, rc, err
    return vf.parallel(one, jobs)


OBS = dict(fec_frames=0, fec_err=0, plc_err=0, worst_stream_fec_ratio_x1000=None, max_over_level_cdB=-100000, n_over=0,
           max_after_400ms_cdB=-100000, n_after_400ms=0, max_after_1s_cdB=-100000, max_after_2s_cdB=-100000, max_tail_err_rel_cdB=-100000, n_tail=0, drift=0,
           strong_fec_streams=0, strong_fec_frames=0, worst_strong_fec_ratio_x1000=None, isolated_loss_worst_packet_rel_cdB=-100000, n_isolated_loss_tails=0, clean_speech_max_re_level_cdB=-100000, clean_speech_max_re_comfort_noise_ref_cdB=-100000, n_clean_speech_after_400ms=0, n_clean_speech_comfort_noise_governed=0,
           quiet_start_mdct_max_after_1s_cdB=-100000, n_quiet_start_mdct_after_1s=0, quiet_start_mdct_second_burst_max_after_1s_cdB=-100000, n_quiet_start_mdct_second_burst_after_1s=0)


def read_prints(r, trace=None):
    if os.environ.get("C09_CAL_OUT") and trace:
        cfgs = {}
        with open(trace) as f:
            for ln in f:
                if ln.startswith('{"k":"L"'):
                    e = json.loads(ln); cfgs[e["x"]] = ln.strip()
        with open(os.environ["C09_CAL_OUT"], "a") as g:
            for p in r.prints:
                if p.startswith('"OBS <<'):
                    x = int(p[7:].split(",")[0])
                    g.write(p + " " + cfgs.get(x, "") + "\n")
    for p in r.prints:
        if not p.startswith('"OBS <<'):
            continue
        v = [int(t) for t in p[7:-3].split(", ")]
        x, nf, sf, sp, o1, n1, o2, n2, o4, n4, o2b, o2c, o5, o5b, n5, nf3, sf3, sp3, o6, n6, n5b, o7, n7, o7b, n7b = v
        if n7:
            OBS["quiet_start_mdct_max_after_1s_cdB"] = max(OBS["quiet_start_mdct_max_after_1s_cdB"], o7); OBS["n_quiet_start_mdct_after_1s"] += n7
        if n7b:
            OBS["quiet_start_mdct_second_burst_max_after_1s_cdB"] = max(OBS["quiet_start_mdct_second_burst_max_after_1s_cdB"], o7b); OBS["n_quiet_start_mdct_second_burst_after_1s"] += n7b
        if n6:
            OBS["isolated_loss_worst_packet_rel_cdB"] = max(OBS["isolated_loss_worst_packet_rel_cdB"], o6); OBS["n_isolated_loss_tails"] += n6
        OBS["max_after_1s_cdB"] = max(OBS["max_after_1s_cdB"], o2b); OBS["max_after_2s_cdB"] = max(OBS["max_after_2s_cdB"], o2c)
        OBS["fec_frames"] += nf; OBS["fec_err"] += sf; OBS["plc_err"] += sp
        if nf >= 20 and sp > 0:
            ratio = 1000 * sf // sp
            if OBS["worst_stream_fec_ratio_x1000"] is None or ratio > OBS["worst_stream_fec_ratio_x1000"]:
                OBS["worst_stream_fec_ratio_x1000"] = ratio
        if nf3 >= 100 and sp3 > 0:
            ratio = 1000 * sf3 // sp3
            OBS["strong_fec_streams"] += 1; OBS["strong_fec_frames"] += nf3
            if OBS["worst_strong_fec_ratio_x1000"] is None or ratio > OBS["worst_strong_fec_ratio_x1000"]:
                OBS["worst_strong_fec_ratio_x1000"] = ratio
        if n5:
            OBS["clean_speech_max_re_level_cdB"] = max(OBS["clean_speech_max_re_level_cdB"], o5); OBS["n_clean_speech_after_400ms"] += n5
        if n5b:
            OBS["clean_speech_max_re_comfort_noise_ref_cdB"] = max(OBS["clean_speech_max_re_comfort_noise_ref_cdB"], o5b); OBS["n_clean_speech_comfort_noise_governed"] += n5b
        if n1:
            OBS["max_over_level_cdB"] = max(OBS["max_over_level_cdB"], o1); OBS["n_over"] += n1
        if n2:
            OBS["max_after_400ms_cdB"] = max(OBS["max_after_400ms_cdB"], o2); OBS["n_after_400ms"] += n2
        if n4:
            OBS["max_tail_err_rel_cdB"] = max(OBS["max_tail_err_rel_cdB"], o4); OBS["n_tail"] += n4


def locate(trace, line):
    """stream index (in file order) and receiver-run number of the event at `line`"""
    sx, wn, ev = 0, 0, ""
    with open(trace) as f:
        for i, ln in enumerate(f, 1):
            if ln.startswith('{"k":"L"'):
                sx += 1; wn = 0
            elif ln.startswith('{"k":"W"'):
                wn += 1
            if i == line:
                ev = ln.strip()
                if ln.startswith('{"k":"endL"') or ln.startswith('{"k":"pk"'):
                    wn = 0
                break
    return sx, wn, ev


def script_of(ip, sx, wn):
    """the L line of stream number sx of a script and its wn-th W line (all of them for wn = 0)"""
    cur, k, L, W = 0, 0, "", []
    with open(ip) as f:
        for ln in f:
            if ln.startswith("L"):
                cur += 1; k = 0
                if cur == sx:
                    L = ln
            elif ln.startswith("W") and cur == sx:
                k += 1
                if wn == 0 or k == wn:
                    W.append(ln)
    return L + "".join(W) + "Z\n"


def cut_after_stream(trace, sx, outp):
    """copy of the trace without its first sx streams"""
    cur, n = 0, 0
    with open(trace) as f, open(outp, "w") as g:
        for ln in f:
            if ln.startswith('{"k":"L"'):
                cur += 1
            if cur > sx:
                g.write(ln); n += 1
    return n


def vseq(ctx, trace, what):
    """validate one trace; the END print tells where the cursor stopped (negative: rejected there)"""
    acc, rej, r = vf.validate_seq(ctx, "LinkTrace", TRACE_CFG, trace, what, heap="3g", timeout=3000)
    m = [p for p in r.prints if p.startswith('<<"END"')]
    if not m:
        raise vf.Infra("LinkTrace did not reach its END print on %s: %s" % (trace, r.out[-1500:]))
    mm = re.match(r'<<"END", (-?\d+), (\d+)>>', m[-1])
    if int(mm.group(1)) < 0:
        acc, rej = False, -int(mm.group(1))
    elif int(mm.group(1)) != vf.count_lines(trace) + 1:
        raise vf.Infra("LinkTrace stopped at line %s of %s" % (mm.group(1), trace))
    return acc, rej, r, int(mm.group(2))


def confirm(ctx, exe, script_text, tag):
    """R4: a rejection is re-run once, alone, before it is reported; returns True when it repeats"""
    ip = ctx.path("confirm_%s.txt" % tag)
    with open(ip, "w") as f:
        f.write(script_text)
    out = ctx.path("confirm_%s.ndjson" % tag)
    rc, err = vf.run_hx(exe, ["c09"], out, stdin_path=ip, timeout=1200)
    if rc != 0:
        return True
    acc, rej, r, nd = vseq(ctx, out, "confirm " + tag)
    return not acc


def judge(ctx, runs, exe, what):
    """TLC judges every trace; rejections become VIOLATION lines with a replay script"""
    good = []
    for k, ip, b, out, rc, err in runs:
        if rc != 0:
            rc2, err2 = vf.run_hx(exe, ["c09"], ctx.path("again_%02d.ndjson" % k), stdin_path=ip, timeout=3000)
            if rc2 == 0:
                raise vf.Infra("hx_link aborted rc=%d on %s but not when run again: %s" % (rc, ip, err[-800:]))
            ctx.violation("hx_link aborted rc=%d on %s: %s" % (rc, os.path.basename(ip), err[-1500:]), replay_src=ip)
        else:
            good.append((k, ip, b, out))

    def val(job):
        k, ip, b, out = job
        res = []
        cur, base = out, 0
        for attempt in range(4):
            acc, rej, r, nd = vseq(ctx, cur, "%s %02d.%d" % (what, k, attempt))
            res.append((cur, base, acc, rej, r, nd))
            if acc or not rej or rej < 1:
                break
            sx, wn, ev = locate(cur, rej)
            nxt = ctx.path("rest_%s_%02d_%d.ndjson" % (what.replace(" ", "_"), k, attempt))
            if cut_after_stream(cur, sx, nxt) == 0:
                break
            base += sx
            cur = nxt
        return job, res
    for (k, ip, b, out), res in vf.parallel(val, good):
        count_events(ctx, out)
        for cur, base, acc, rej, r, nd in res:
            read_prints(r, cur)
            for p in r.prints:
                m = re.match(r'<<"DRIFT", (\d+), (.*)>>', p)
                if m and len(ctx.drift) < 3:
                    sx, wn, ev = locate(cur, int(m.group(1)))
                    ctx.spec_drift("DecCtl", "decoder control state after a receiver call is not one the model allows: %s | %s" % (m.group(2)[:200], ev[:300]))
            OBS["drift"] += nd
            if not acc:
                sx, wn, ev = locate(cur, rej or 0)
                why = [p for p in r.prints if p.startswith('<<"REJECTED_AT"')]
                rp = ctx.path("rej_%02d_%d_%d.txt" % (k, base + sx, wn))
                with open(rp, "w") as f:
                    f.write(script_of(ip, base + sx, wn))
                if not confirm(ctx, exe, script_of(ip, base + sx, wn), "%02d_%d_%d" % (k, base + sx, wn)):
                    raise vf.Infra("rejection did not repeat when the receiver run was executed again alone (%s): %s" % (rp, (why[-1] if why else "")[:300]))
                ctx.violation("loss/concealment obligation rejected by LinkTrace: %s | event %s" % ((why[-1] if why else "")[:400], ev[:400]), replay_src=rp)


NEV = dict(events=0, windows=0, calls=0, plc=0, fec=0, fec_lbrr=0, dec=0, tails=0)


def count_events(ctx, out):
    cfg = None
    with open(out) as f:
        for ln in f:
            NEV["events"] += 1
            if ln.startswith('{"k":"rx"'):
                NEV["calls"] += 1
                t = ln[15:16] if ln[10:15] == '"t":"' else json.loads(ln)["t"]
                if t == "P":
                    NEV["plc"] += 1
                elif t == "F":
                    NEV["fec"] += 1
                    if '"lb":1' in ln:
                        NEV["fec_lbrr"] += 1
                elif t == "T":
                    NEV["tails"] += 1
                else:
                    NEV["dec"] += 1
            elif ln.startswith('{"k":"W"'):
                NEV["windows"] += 1
            elif ln.startswith('{"k":"L"') and len(ctx.samples) < 2:
                cfg = json.loads(ln)
            elif cfg is not None and ln.startswith('{"k":"rx","t":"F"') and len(ctx.samples) < 2:
                e = json.loads(ln); e.pop("h", None)
                ctx.sample(dict(stream={k: cfg[k] for k in cfg if k != "k"}, fec_call=e)); cfg = None


def thresholds():
    t = {}
    with open(os.path.join(vf.SPEC, "cfg", "LinkTrace.cfg")) as f:
        for ln in f:
            m = re.match(r"\s*(\w+) = (\w+)", ln)
            if m:
                t[m.group(1)] = m.group(2)
    return t


def run(ctx):
    tier = ctx.tier
    ctx.rule = ("TLC checks the lossy-channel composition (Link_mc/SpecC09: Deliver and Drop as separate actions, every fate pattern of K packets x "
                "receiver policy x duration class x stream kind) and enumerates the call schedules (SpecG09) that the harness replays on real "
                "encoder/decoder pairs next to a loss-free twin decoder; every call is judged by LinkTrace. non-trivial = distinct (stream "
                "configuration, policy, duration, fate pattern) receiver runs with at least one lost packet")
    ctx.assumptions = ["TLC 1.8.0 and the CommunityModules Json reader are trusted",
                       "level clauses are asserted only when the recent level (max RMS over the last five good packets) is above the floor LevelFloor (R2)",
                       "M1, M2, M3, M4, M5, M6, M7 are calibrated thresholds (spec/cfg/LinkTrace.cfg) on RMS / error measurements made by the harness (R3)",
                       "'carries LBRR for the lost frame' is read as: encoder FEC on, opus_packet_has_lbrr = 1, request covers the frame, neither side MDCT-only (R2); "
                       "the accuracy clause is aggregated per stream over at least MinFecFrames recovered frames",
                       "receiver runs start from a byte copy of the twin decoder's state (copyability is property C12)",
                       "float build, float entry points for the receiver; the decoders run at the encoder's or another rate / channel count"]
    if ctx.replay:
        return replay(ctx)
    # 1. the design
    r = ctx.mc("Link_mc", "Link_mc_c09_%s.cfg" % tier, what="lossy channel: all fate patterns x policies", workers=8, timeout=1700, heap="8g")
    if r.violation:
        raise vf.Infra("Link model theorem %s violated:\n%s" % (r.violation, r.state_dump[:1500]))
    for wcfg, inv in (("Link_mc_c09_w1.cfg", "SomeFecUsed"), ("Link_mc_c09_w2.cfg", "SomeDoubleFec")):
        rw = ctx.mc("Link_mc", wcfg, what="vacuity guard " + inv, workers=2, timeout=600)
        if rw.violation != inv:
            raise vf.Infra("vacuity guard %s not reached (model run is vacuous)" % inv)
    ctx.exhaustive = True
    kk = 8 if tier == "quick" else 12
    ctx.notes["exhaustive_scope"] = ("model side and replay side: all 2^%d fate patterns of %d consecutive packets x 7 receiver policies x duration classes; "
                                      "the implementation is exercised on every one of these schedules over sampled stream configurations and window positions" % (kk, kk))
    # 2. schedules from the model, 3. replay
    sched, bursts, bursts2 = gen_schedules(ctx, tier)
    streams = build_scripts(ctx, sched, bursts, tier, bursts2)
    ctx.notes["two_burst_runs"] = len([s for s in streams if "+" in s[2][0][2]])
    ctx.notes["schedules"] = len(sched); ctx.notes["bursts"] = len([s for s in streams if s[2][0][2].startswith("burst")]); ctx.notes["streams"] = len(streams)
    var = vf.build_variant("hko")
    exe = vf.build_hx(var, "link.c")
    runs = run_streams(ctx, exe, streams, "c09")
    judge(ctx, runs, exe, "C09")
    # a slice of the runs again under the sanitizer build (memory safety of the concealment paths)
    var2 = vf.build_variant("hk")
    exe2 = vf.build_hx(var2, "link.c")
    rng = random.Random(ctx.seed + 1)
    sl = rng.sample(streams, min(len(streams), 12 if tier == "quick" else 60))
    sl = [(L, ws[:6], m[:6]) for (L, ws, m) in sl]
    for k, ip, b, out, rc, err in run_streams(ctx, exe2, sl, "c09san"):
        if rc != 0:
            rc2, err2 = vf.run_hx(exe2, ["c09"], ctx.path("again_san_%02d.ndjson" % k), stdin_path=ip, timeout=3000)
            if rc2 == 0:
                raise vf.Infra("hx_link (sanitizer build) aborted rc=%d on %s but not when run again: %s" % (rc, ip, err[-800:]))
            ctx.violation("hx_link (sanitizer build) aborted rc=%d on %s: %s" % (rc, os.path.basename(ip), err[-1500:]), replay_src=ip)
    for (L, ws, metas) in streams:
        for m in metas:
            if "1" in m[2] or m[2].startswith("burst") or m[2].startswith("pos"):
                ctx.nontrivial.add(hash((tuple(L.split()[1:14]), m)))
    ctx.traces = NEV["windows"]
    ctx.evaluations = NEV["events"]
    ctx.notes["calls"] = dict(NEV)
    ctx.notes["thresholds"] = thresholds()
    ctx.notes["observed"] = dict(OBS)
    ctx.notes["M7_calibration"] = ("quiet-start families 15 / 16 on MDCT-only streams, concealed level re pre-loss level after >= 1 s of sustained loss, unchanged tree: "
                                   "thorough selection -42.25 dB (465 streams, 433 153 calls, 65 160 of them in a second burst after an earlier 3 / 10 / 26 s outage), "
                                   "quick selection -43.9 dB; threshold M7 = -35 dB (7.25 dB margin); this run: see observed.quiet_start_mdct_*")
    if os.environ.get("C09_CAL") != "1" and (OBS["strong_fec_streams"] == 0 or OBS["n_clean_speech_after_400ms"] == 0):
        raise vf.Infra("vacuous replay: strong-FEC streams=%d clean speech-layer calls after 400 ms=%d" % (OBS["strong_fec_streams"], OBS["n_clean_speech_after_400ms"]))
    if os.environ.get("C09_CAL") != "1" and OBS["n_quiet_start_mdct_second_burst_after_1s"] == 0:
        raise vf.Infra("vacuous replay: no MDCT concealment call judged in a second sustained burst of a quiet-start stream")
    if NEV["fec_lbrr"] == 0 or NEV["plc"] == 0 or OBS["n_after_400ms"] == 0 or OBS["n_tail"] == 0:
        raise vf.Infra("vacuous replay: fec_lbrr=%d plc=%d sustained=%d tails=%d" % (NEV["fec_lbrr"], NEV["plc"], OBS["n_after_400ms"], OBS["n_tail"]))


def replay(ctx):
    var = vf.build_variant("hk")
    exe = vf.build_hx(var, "link.c")
    out = ctx.path("replay.ndjson")
    rc, err = vf.run_hx(exe, ["c09"], out, stdin_path=ctx.replay, timeout=1200)
    if rc != 0:
        ctx.violation("replay aborted rc=%d %s" % (rc, err[-1200:]), replay_text=open(ctx.replay).read())
        return
    acc, rej, r, nd = vseq(ctx, out, "C09 replay")
    count_events(ctx, out)
    ctx.traces = NEV["windows"]; ctx.evaluations = NEV["events"]; ctx.nontrivial_count = max(2, NEV["windows"])
    if not acc:
        why = [p for p in r.prints if p.startswith('<<"REJECTED_AT"')]
        ctx.violation("replayed receiver run rejected at line %s: %s | %s" % (rej, (why[-1] if why else "")[:400], vf.file_line(out, rej or 1)[:400]),
                      replay_text=open(ctx.replay).read())


META = dict(
    engine="Link",
    technique=("TLA+ model of encoder -> lossy channel -> receiver policy -> decoder (DecCtl); TLC explores every fate pattern with Deliver/Drop as separate actions and "
               "enumerates the receiver call schedules; the schedules are replayed on real encoder/decoder pairs beside a loss-free twin; TLC trace validation of every call"),
    level_text=("Fault enumeration: all 2^k loss patterns (k = 8 quick, 12 thorough) x seven receiver policies (whole-packet PLC, three ways of splitting into 2.5-20 ms pieces "
                "incl. odd sizes, FEC with one / two packet durations, DTX packets as losses) x duration classes, on the model (DurationsExact, TimelineExact, "
                "FecOnlyWhenPossible, GoodPacketsUnaffected, no deadlock) and, schedule by schedule, on the implementation; plus bursts up to 10 s. TLC judges every "
                "recorded call: exact durations, finite output, final range of every received packet equal to the encoder's, level bounds during and after 400 ms of "
                "loss, FEC-vs-concealment accuracy aggregated per stream, convergence to the twin one second after packets resume; two sustained bursts (the earlier one "
                "3 / 10 / 26 s) separated by received packets on MDCT-only streams with a quiet start: depth of the concealment floor (M7)."),
    level_note=("Trusted: TLC, Json module, the harness's RMS/error measurements. Level, accuracy and convergence clauses use calibrated thresholds with >= 6 dB margin and "
                "conservative antecedents; they are statements about measurements on the explored streams, not proofs about the waveform. Stream configurations and "
                "window positions are sampled (seeded), the fate patterns are not."),
)
