"""C10 - multistream and projection equal per-stream coding plus the channel mapping (modules MS, MS_mc, MSTrace)."""
import json, os, random, re
import vf

LEVEL = "model_checking"

FS = [8000, 12000, 16000, 24000, 48000]
APPS = [2048, 2049, 2051]
FRQ = [1, 2, 4, 8, 16, 24, 32, 40, 48]           # packet durations in 2.5 ms units
AMBI = [1, 3, 4, 6, 9, 11, 16, 18, 25, 27, 36, 38, 49, 51, 64, 66, 81, 83, 100, 102, 121, 123, 144, 146, 169, 171, 196, 198, 225, 227]
PROJ = [4, 6, 9, 11, 16, 18, 25, 27, 36, 38]

# known findings the coordinator has not moved into known_findings.json yet (none; F13, the projection decoder's
# unvalidated channel count, is fixed in /repo e069474b and suppresses nothing)
PROVISIONAL = []


# --------------------------------------------------------------------------- TLC-generated inputs
def parse_prints(r):
    lays, fams, msps = [], [], []
    for p in r.prints:
        s = p.strip('"')
        if s.startswith("LAY "):
            m = re.match(r"LAY (-?\d+) (-?\d+) (-?\d+) <<(.*)>>", s)
            if m:
                mp = [int(x) for x in m.group(4).split(",") if x.strip()]
                lays.append((int(m.group(1)), int(m.group(2)), int(m.group(3)), mp))
        elif s.startswith("FAM "):
            a = s.split()
            fams.append((int(a[1]), int(a[2])))
        elif s.startswith("MSP "):
            m = re.match(r"MSP (\d+) <<(.*)>>", s)
            if m:
                msps.append((int(m.group(1)), [int(x) for x in m.group(2).split(",") if x.strip()]))
    # TLC's workers print in no particular order: canonical order makes the run repeatable (R4)
    return sorted(lays), sorted(fams), sorted(msps)


def create_lines(lays, fams):
    out = []
    for ch, S, C, mp in lays:
        tail = " ".join(str(x) for x in mp)
        out.append("C dec %d %d %d %s" % (ch, S, C, tail))
        out.append("C enc %d %d %d %s" % (ch, S, C, tail))
    for f, ch in fams:
        out.append("C surr %d %d" % (f, ch))
        out.append("C penc %d %d" % (f, ch))
    # projection decoder: the layouts a projection encoder uses, other shapes, right and wrong matrix sizes
    for ch in [0, 1, 2, 3, 4, 5, 6, 9, 11, 16, 18, 25, 27, 36, 38, 255, 256]:
        for S, C in {((ch + 1) // 2, ch // 2), (ch, 0), (1, 1), (0, 0), (128, 128), (ch // 2, ch // 2 + 1), (2, 2)}:
            right = 2 * ch * (S + C)
            for msz in {right, right - 2, right + 2, 0}:
                if 0 <= msz <= 140000:
                    out.append("C pdec %d %d %d %d" % (ch, S, C, msz))
    out.append("C pdec -1 1 1 -4")          # negative channel count with the "matching" negative matrix size (finding F13)
    return out


def d_lines(msps, rng):
    out = []
    for i, (S, b) in enumerate(msps):
        if not b or S > 255:
            continue
        fs = [48000, 16000, 8000, 24000, 12000][i % 5]
        cap = fs // 25 * 3
        if i % 11 == 0:
            cap = fs // 100        # 10 ms of room: longer packets must be refused
        out.append("D %d %d %d %s" % (S, fs, cap, " ".join(str(x) for x in b)))
    return out


# --------------------------------------------------------------------------- executions
def xline(kind, fs, app, br, vbr, frq, maxb, nfr, loss, fmt, cx, seed, layout):
    return "X %s %d %d %d %d %d %d %d %d %d %d %d | %s" % (kind, fs, app, br, vbr, frq, maxb, nfr, loss, fmt, cx, seed,
                                                         " ".join(str(x) for x in layout))


def pick_exec(rng, kind, layout, nslots, big, tone=False, tight=False):
    """one X line; tone=True: inside the domain in which the tone clauses are asserted"""
    fs = rng.choice(FS)
    app = rng.choice(APPS)
    frq = rng.choice(FRQ)
    vbr = rng.choice([0, 1, 1, 2])
    fmt = rng.choice([0, 1, 2])
    cx = rng.choice([0, 2, 5]) if big else rng.choice([0, 3, 5, 8, 10])
    perch = rng.choice([6000, 12000, 24000, 48000, 64000, 96000, 160000])
    br = perch * nslots
    u = rng.random()
    if u < 0.08:
        br = -1000
    elif u < 0.12:
        br = -1
    if tone:
        fs = rng.choice([16000, 24000, 48000]); frq = rng.choice([4, 8, 8, 16, 24]); br = rng.choice([64000, 96000, 128000]) * nslots
        if kind == "penc":      # MSTrace!ProjToneDomain: >= 96 kb/s per channel, transform layer only (not the speech application)
            br = rng.choice([96000, 128000, 160000]) * nslots; app = rng.choice([2049, 2051])
        if nslots > 12:
            frq = rng.choice([8, 16, 24])          # at most 14 packets are coded for such layouts: keep >= 200 ms
    if big:
        frq = rng.choice([8, 8, 16, 4])
    dur_ms = frq * 2.5
    nfr = 3 if big else max(4, min(40, int((270 if tone else 120) / dur_ms) + 2))
    if nslots > 12 and not big:
        nfr = min(nfr, 14)
    loss = 0
    if not tone and rng.random() < 0.3:
        loss = rng.randrange(1, 1 << 12) & ~1
    if not tone and rng.random() < 0.3:
        fmt += 10           # loud signal: decoded peaks beyond full scale (soft clipping in the int16 path, saturation)
    nstreams_max = nslots
    maxb = 1400 * nstreams_max + 100
    if tone:        # inside MSTrace!ToneDomain by construction: the buffer holds twice what the bitrate needs
        maxb = max(maxb, 2 * nslots * ((br // nslots // 8) * (fs // 400 * frq) // fs) + 100)
    if tight:
        small = 2 * nstreams_max - 1 + (nstreams_max if frq == 40 else 0)
        maxb = small + rng.choice([0, 1, 2, 3, 5, 8, 20, 60, 250, 254, 255, 256, 260])
        vbr = 1
    elif not tone and rng.random() < 0.15:
        maxb = rng.choice([60, 120, 253, 254, 255, 256, 257, 300, 600]) * max(1, nstreams_max // 2)
    return xline(kind, fs, app, br, vbr, frq, maxb, nfr, loss, fmt, cx, rng.randrange(1, 1 << 30), layout)


def line_cost(l):
    """rough cost of an X / H line: coded channels x packets"""
    a = l.split("|")
    h = a[0].split(); t = a[1].split()
    if h[0] == "X":
        ch = int(t[1]) if h[1] in ("surr", "penc") else int(t[0])
        return ch * int(h[8])
    return int(h[3]) * int(h[5])


def hline(rng, fs, frq, S, C, nfr, variant, mp):
    return "H %d %d %d %d %d %d %d | %d %s" % (fs, frq, S, C, nfr, variant, rng.randrange(1, 1 << 30), len(mp), " ".join(str(x) for x in mp))


def plan_executions(ctx, rng, enc_ok, dec_ok):
    """X and H lines.  enc_ok / dec_ok: layouts the real create calls accepted (their verdicts were judged by TLC)."""
    quick = ctx.tier == "quick"
    X = []
    # surround encoder: every family, every legal channel count (thorough) / a spread (quick)
    fam_counts = {0: [1, 2], 1: list(range(1, 9)),
                  255: ([1, 2, 3, 5, 8, 21] if quick else list(range(1, 256))),
                  2: ([1, 3, 4, 6, 9, 11, 18, 27] if quick else AMBI)}
    for f, counts in fam_counts.items():
        for ch in counts:
            big = ch > (24 if quick else 40)
            X.append(pick_exec(rng, "surr", [f, ch], ch, big, tone=(ch <= (11 if quick else 40))))
            if ch <= 11:
                for _ in range(1 if quick else 8):
                    X.append(pick_exec(rng, "surr", [f, ch], ch, False, tone=rng.random() < 0.4, tight=rng.random() < 0.25))
    for ch in ([4, 6, 9, 11, 18] if quick else PROJ):
        X.append(pick_exec(rng, "penc", [3, ch], ch, quick and ch > 24, tone=(ch <= 18 or not quick)))
        if ch <= 11 or not quick:
            for _ in range(1 if quick else (6 if ch <= 11 else 2)):
                X.append(pick_exec(rng, "penc", [3, ch], ch, False, tone=rng.random() < 0.5, tight=rng.random() < 0.2))
    # multistream encoder on arbitrary valid layouts (duplicates, mutes, permutations)
    small = [l for l in enc_ok if l[0] <= 8]
    large = [l for l in enc_ok if l[0] > 8]
    rng.shuffle(small)
    for l in (small[:40] if quick else small + small + small):
        ch, S, C, mp = l
        X.append(pick_exec(rng, "enc", [ch, S, C] + mp, S + C, False, tone=rng.random() < 0.5, tight=rng.random() < 0.15))
    for l in large:
        ch, S, C, mp = l
        X.append(pick_exec(rng, "enc", [ch, S, C] + mp, S + C, S > 24))
    # packets put together from independently coded streams, for decoder layouts (incl. ones no encoder accepts)
    H = []
    dsmall = [l for l in dec_ok if l[1] <= 6]
    dlarge = [l for l in dec_ok if l[1] > 6 and l[1] <= 64]
    rng.shuffle(dsmall)
    for i, l in enumerate(dsmall[: (60 if quick else 1500)]):
        ch, S, C, mp = l
        frq = rng.choice([1, 2, 4, 8, 8, 16, 24])
        variant = [0, 2, 1][i % 3] if frq != 24 else [0, 2][i % 2]
        H.append(hline(rng, rng.choice(FS), frq, S, C, rng.choice([3, 5, 8]), variant, mp))
    for l in dlarge:
        ch, S, C, mp = l
        H.append(hline(rng, rng.choice(FS), 8, S, C, 3, 0, mp))
    return X, H


# --------------------------------------------------------------------------- the 251/252/253 boundary of the self-delimiting length
# A self-delimited packet carries the length of its last frame in one byte below 252 and in two bytes from 252 on.  The
# executions below make real multistream / surround / projection encoders emit packets whose NON-FINAL streams hold
# 2..6 frames (40..120 ms) of 249..256 bytes each, one byte at a time.  The planner predicts the frame size from a
# transcription of the encoder's rate allocation only to AIM the sweep; what was hit is measured from the recorded
# events (STAT["boundary"]) and nothing here takes part in the judgement.
BND_LAYOUTS = [     # kind, layout part of the X line, streams, coupled streams, LFE stream (-1: none), ambisonics allocation
    ("enc", [2, 2, 0, 0, 1], 2, 0, -1, False),
    ("enc", [3, 2, 1, 0, 1, 2], 2, 1, -1, False),
    ("enc", [3, 3, 0, 2, 0, 1], 3, 0, -1, False),
    ("enc", [4, 2, 2, 0, 1, 2, 3], 2, 2, -1, False),
    ("enc", [4, 3, 1, 3, 0, 1, 2], 3, 1, -1, False),
    ("enc", [4, 4, 0, 0, 1, 2, 3], 4, 0, -1, False),
    ("enc", [5, 3, 2, 0, 1, 2, 3, 4], 3, 2, -1, False),
    ("enc", [6, 4, 2, 0, 4, 1, 2, 3, 5], 4, 2, -1, False),
    ("surr", [1, 3], 2, 1, -1, False),
    ("surr", [1, 4], 2, 2, -1, False),
    ("surr", [1, 6], 4, 2, 3, False),
    ("surr", [255, 3], 3, 0, -1, False),
    ("surr", [2, 4], 4, 0, -1, True),
    ("surr", [2, 6], 5, 1, -1, True),
    ("penc", [3, 4], 2, 2, -1, False),
    ("penc", [3, 6], 3, 3, -1, False),
]
BND_FRQ = [16, 24, 32, 40, 48]            # 40, 60, 80, 100, 120 ms
BND_SIZES = list(range(249, 257))


def stream_rates(S, C, lfe, ambi, fs, fr, bitrate):
    """the per-stream rates the multistream encoder derives from a total (src/opus_multistream_encoder.c)"""
    if ambi:
        return [max(bitrate // S, 500)] * S
    nl = 1 if lfe >= 0 else 0
    nu = S - C - nl
    nn = 2 * C + nu
    choff = 40 * max(50, fs // fr)
    lfeoff = min(bitrate // 20, 3000) + 15 * max(50, fs // fr)
    so = max(0, min(20000, (bitrate - choff * nn - lfeoff * nl) // nn // 2))
    total = (nu << 8) + 512 * C + nl * 32
    cr = 256 * (bitrate - lfeoff * nl - so * (C + nu) - choff * nn) // total
    out = []
    for i in range(S):
        if i < C:
            r = 2 * choff + max(0, so + (cr * 512 >> 8))
        elif i != lfe:
            r = choff + max(0, so + cr)
        else:
            r = max(0, lfeoff + (cr * 32 >> 8))
        out.append(max(r, 500))
    return out


def frame_bytes(nframes, packet_bytes, bps):
    """bytes of each 20 ms frame (without its TOC) when a stream encoder fills a packet of packet_bytes (src/opus_encoder.c)"""
    hdr = 3 if nframes == 2 else 2 + (nframes - 1) * 2
    return min(bps // 400, (nframes + packet_bytes - hdr) // nframes, 1276) - 1


def cbr_frame(rate, fs, frq):
    fr12 = 12 * 400 // frq
    cbr = (12 * rate // 8 + fr12 // 2) // fr12
    return frame_bytes(frq // 8, cbr, cbr * fr12 * 8 // 12)


def total_for(S, C, lfe, ambi, fs, frq, s, want, pred):
    """smallest total bitrate for which pred(rate of stream s) >= want"""
    lo, hi = 1000 * S, 2000000
    fr = fs // 400 * frq
    while lo < hi:
        mid = (lo + hi) // 2
        if pred(stream_rates(S, C, lfe, ambi, fs, fr, mid)[s]) >= want:
            hi = mid
        else:
            lo = mid + 1
    return lo


def plan_boundary(ctx, rng):
    X = []
    k = 0
    for li, (kind, lay, S, C, lfe, ambi) in enumerate(BND_LAYOUTS):
        nonfinal = [s for s in range(S - 1) if s != lfe]
        for frq in BND_FRQ:
            k += 1
            fs = 48000 if k % 4 else rng.choice([16000, 24000])
            app = [2051, 2049, 2048][k % 3]
            s = nonfinal[k % len(nonfinal)]
            N = frq // 8
            reserve = max(0, 2 * (S - 1) - 1) + (S - 1 if frq == 40 else 0)
            for want in BND_SIZES:
                fmt = (k + want) % 3
                cx = [0, 2, 5][(k + want) % 3]
                # hard CBR: stream s carries frames of exactly `want` bytes
                T = total_for(S, C, lfe, ambi, fs, frq, s, want, lambda r: cbr_frame(r, fs, frq))
                X.append(xline(kind, fs, app, T, 0, frq, 4000 * S, 2, 0, fmt, cx, rng.randrange(1, 1 << 30), lay))
                sel = (li + frq // 8 + want) % 4
                if sel == 0:
                    # VBR on a noisy signal: a frame may take at most rate/400 bytes (with its TOC), and often does
                    T = total_for(S, C, lfe, ambi, fs, frq, s, want, lambda r: r // 400 - 1)
                    X.append(xline(kind, fs, app, T, 1 + k % 2, frq, 4000 * S, 4, 0, 20 + fmt, cx, rng.randrange(1, 1 << 30), lay))
                elif sel in (1, 2):
                    # OPUS_BITRATE_MAX and a buffer in which the first stream is offered exactly enough for frames of `want` bytes
                    cm = (2 * want + 3) if N == 2 else N * (want + 2)
                    X.append(xline(kind, fs, app, -1, sel - 1, frq, cm + reserve + 2, 3, 0, 20 + fmt, cx, rng.randrange(1, 1 << 30), lay))
    return X


# --------------------------------------------------------------------------- running and judging
def run_groups(ctx, groups, timeout=3000):
    """groups: [(exe, name, command lines, number of harness processes)]; all processes of all groups run concurrently.
    Returns [(input_path, output_path, rc, err)] in group order."""
    jobs = []
    for exe, name, lines, nchunks in groups:
        nchunks = max(1, min(nchunks, len(lines)))
        parts = [[] for _ in range(nchunks)]
        for i, ln in enumerate(lines):
            parts[i % nchunks].append(ln)
        for k, part in enumerate(parts):
            ip = ctx.path("%s_%02d.txt" % (name, k))
            with open(ip, "w") as f:
                f.write("\n".join(part) + "\n")
            jobs.append((exe, ip, ctx.path("%s_%02d.ndjson" % (name, k))))

    def one(job):
        exe, ip, op = job
        rc, err = vf.run_hx(exe, [], op, stdin_path=ip, timeout=timeout)
        return ip, op, rc, err
    return vf.parallel(one, jobs, nproc=10)


def run_chunks(ctx, exe, name, lines, nchunks, timeout=3000):
    return run_groups(ctx, [(exe, name, lines, nchunks)], timeout)


def command_of(event, ip):
    """the command line that produced an event"""
    e = event
    k = e.get("k")
    if k == "cr":
        t = e["t"]
        if t in ("dec", "enc"):
            return "C %s %d %d %d %s" % (t, e["ch"], e["S"], e["C"], " ".join(str(x) for x in e["map"]))
        if t in ("surr", "penc"):
            return "C %s %d %d" % (t, e["f"], e["ch"])
        return "C pdec %d %d %d %d" % (e["ch"], e["S"], e["C"], e["msz"])
    if k == "md":
        return "D %d %d %d %s" % (e["S"], e["fs"], e["cap"], " ".join(str(x) for x in e["b"]))
    if k in ("mx", "pm"):
        return "M"
    if "x" in e and ip:
        n = 0
        with open(ip) as f:
            for ln in f:
                if ln[:1] in ("X", "H"):
                    n += 1
                    if n == e["x"]:
                        return ln.strip()
    return ""


STAT = dict(events={}, pk_by_kind={}, families_run=set(), layouts_run=set(), tone_events=0, tone_in_domain=0, min_tone_margin_cdB=99999,
            min_proj_margin_cdB=99999, proj_in_domain=0, max_tone_level_error_cdB=0, max_proj_level_error_cdB=0, min_lfe_tone_margin_cdB=99999, discriminating=0, muted_channels=0, dup_channels=0, lost=0, encode_failed=0,
            hand_refused=0, max_streams=0, max_channels=0, formats=3,
            boundary={}, boundary2={}, ranges_compared=0)


def scan(ctx, path):
    """measurements for the evidence file (no judgement)"""
    n = 0
    with open(path) as f:
        for ln in f:
            n += 1
            try:
                e = json.loads(ln)
            except ValueError:
                continue
            k = e.get("k")
            STAT["events"][k] = STAT["events"].get(k, 0) + 1
            if k == "pk":
                t = e["t"]
                STAT["pk_by_kind"][t] = STAT["pk_by_kind"].get(t, 0) + 1
                if e.get("canary") == 0:
                    ctx.violation("canary around a decoder output buffer damaged: %s" % ln[:300], replay_text=ln[:2000])
                STAT["max_streams"] = max(STAT["max_streams"], e["S"]); STAT["max_channels"] = max(STAT["max_channels"], e["ch"])
                mp = e["map"]
                STAT["muted_channels"] += sum(1 for v in mp if v == 255)
                STAT["dup_channels"] += len([v for v in mp if v != 255]) - len(set(v for v in mp if v != 255))
                if "ds" in e:
                    flat = [d for s in e["ds"][2] for d in s]
                    distinct = len(set(flat)) == len(flat)
                    if distinct and len(flat) >= 2:
                        STAT["discriminating"] += 1
                    if (e["S"] >= 2 or 255 in mp or len(set(mp)) < len(mp)) and distinct:
                        ctx.nontrivial.add(hash((t, e["ch"], e["S"], e["C"], tuple(mp), e["fs"], e["fr"], e["i"], e["n"])))
                elif t == "hand" and e["rm"][0] < 0:
                    STAT["hand_refused"] += 1
                STAT["layouts_run"].add((e["ch"], e["S"], e["C"], tuple(mp)))
                if "er" in e:
                    STAT["ranges_compared"] += 1
                if t != "hand" and len(e.get("sl", [])) == e["S"] and len(e.get("sc", [])) == e["S"]:
                    # non-final (self-delimited) streams whose last frame is 249..256 bytes: three or more frames / two frames
                    for i in range(e["S"] - 1):
                        if 249 <= e["sl"][i] <= 256 and e["sc"][i] >= 2:
                            d = STAT["boundary"] if e["sc"][i] >= 3 else STAT["boundary2"]
                            d[e["sl"][i]] = d.get(e["sl"][i], 0) + 1
                if len(ctx.samples) < 4 and e["S"] >= 2 and "ds" in e:
                    ctx.sample({"event": {q: e[q] for q in ("k", "t", "ch", "S", "C", "map", "fs", "fr", "n", "so", "sk", "rm")},
                                "float_digests_per_channel": e["dm"][2][:8], "float_digests_per_stream_side": e["ds"][2][:8]})
            elif k == "tn":
                STAT["tone_events"] += 1
                if e["t"] == "surr":
                    STAT["families_run"].add((e["f"], e["ch"]))
                if tone_domain(e):
                    STAT["tone_in_domain"] += 1
                    lfe = e["t"] == "surr" and e["f"] == 1 and e["ch"] >= 6       # the last slot is the LFE: margin and level are not asserted there
                    sm = e["sm"][:-1] if lfe else e["sm"]; sv = e["sv"][:-1] if lfe else e["sv"]
                    STAT["min_tone_margin_cdB"] = min([STAT["min_tone_margin_cdB"]] + sm)
                    STAT["max_tone_level_error_cdB"] = max([STAT["max_tone_level_error_cdB"]] + [abs(v) for v in sv])
                    if lfe:
                        STAT["min_lfe_tone_margin_cdB"] = min(STAT["min_lfe_tone_margin_cdB"], e["sm"][-1])
            elif k == "pt":
                STAT["families_run"].add((3, e["ch"]))
                if proj_tone_domain(e):
                    STAT["proj_in_domain"] += 1
                    STAT["min_proj_margin_cdB"] = min([STAT["min_proj_margin_cdB"]] + [v for row in e["pg"] for v in row])
                    STAT["max_proj_level_error_cdB"] = max([STAT["max_proj_level_error_cdB"]] + [abs(v + e["g"] * 100 // 256) for row in e["pv"] for v in row])
            elif k == "ls":
                STAT["lost"] += 1
            elif k == "ef":
                STAT["encode_failed"] += 1
    return n


def tone_domain(e):
    """MSTrace!ToneDomain, to select the measurements reported in the evidence (calibration figures; no judgement)"""
    return (e["brc"] >= 64000 and e["ms"] >= 200 and e["maxb"] >= 2 * (e["S"] + e["C"]) * ((e["brc"] // 8) * e["fr"] // e["fs"])
            and e["fr"] * 100 >= e["fs"] and e["fr"] * 50 <= e["fs"] * 3 and e["loud"] == 0)


def proj_tone_domain(e):
    return tone_domain(e) and e["brc"] >= 96000 and e["minc"] >= 16


def known_match(event):
    for k in vf.known_findings("C10") + PROVISIONAL:
        key = k.get("key", {})
        if key and all(event.get(a) == b for a, b in key.items()):
            return k
    return None


def judge(ctx, exe_hk, runs, what, cfg="MSTrace.cfg", drift=False):
    """TLC judges every event of every chunk; rejected events are confirmed by a second execution (R4)"""
    def val(job):
        ip, op = job
        n = vf.count_lines(op)
        if n == 0:
            return job, ([], 0)
        nparts = 1 if n < 6000 else min(6, n // 5000 + 1)
        return job, vf.validate_cases(ctx, "MSTrace", cfg, op, what + " " + os.path.basename(op), nparts=nparts, heap="3g")
    good = [(ip, op) for ip, op, rc, err in runs if os.path.exists(op) and os.path.getsize(op) > 0]
    nrej = 0
    for (ip, op), (rej, total) in vf.parallel(val, good, nproc=6):
        if not drift:
            ctx.traces += total - len(rej)
        # TLC stops at the first rejected event of a chunk: look at what follows it too (bounded)
        more = list(rej); extra = 0
        while more and extra < 4 and not drift:
            p, ln, tr = more.pop(0)
            rest = p + ".rest%d" % extra
            with open(p) as f:
                tail = f.readlines()[ln:]
            if not tail:
                continue
            with open(rest, "w") as f:
                f.writelines(tail)
            extra += 1
            rej2, tot2 = vf.validate_cases(ctx, "MSTrace", cfg, rest, what + " rest", nparts=1, heap="3g")
            ctx.traces -= len(rej2)
            rej += rej2; more += rej2
        for p, ln, tr in rej:
            ev = vf.file_line(p, ln)
            try:
                e = json.loads(ev)
            except ValueError:
                e = {}
            cmd = command_of(e, ip)
            nrej += 1
            if drift:
                if nrej <= 3:
                    ctx.spec_drift("MS", "event does not conform to the strict model (LFE flag / byte budgeting / first of several input channels coded): %s [%s]" % (ev[:300], cmd[:200]))
                continue
            kf = known_match(e)
            if kf:
                ctx.known_finding(kf["what"] + " [e.g. %s]" % cmd[:200])
                continue
            if nrej <= 5 and cmd and not confirm(ctx, exe_hk, cmd, e):
                raise vf.Infra("rejection of [%s] did not repeat: %s" % (cmd[:300], ev[:300]))
            rp = ctx.path("rej_%d.txt" % nrej)
            with open(rp, "w") as f:
                f.write(cmd + "\n")
            ctx.violation("%s: MSTrace rejects event %s  (command: %s)" % (what, summarize(e, ev), cmd[:300]), replay_src=rp)
    return nrej


def summarize(e, ev):
    def cut(v):
        return v if not isinstance(v, list) or len(v) <= 12 else v[:12] + ["... %d more" % (len(v) - 12)]
    if e.get("k") == "pk":
        keep = {q: cut(e.get(q)) for q in ("k", "t", "x", "i", "ch", "S", "C", "map", "fs", "fr", "n", "so", "sk", "sp", "sl", "sc", "rm")}
        if e.get("ch", 0) <= 8:
            keep["zm"] = e.get("zm"); keep["rs"] = e.get("rs"); keep["dm"] = e.get("dm"); keep["ds"] = e.get("ds")
        return json.dumps(keep)[:1500]
    if e.get("k") in ("cr", "tn", "pt", "md"):
        return json.dumps({q: cut(v) for q, v in e.items()})[:1200]
    return ev[:700]


def confirm(ctx, exe, cmd, e):
    """run the command again on its own; True iff TLC rejects an event again"""
    ip = ctx.path("confirm_in.txt"); op = ctx.path("confirm_out.ndjson")
    with open(ip, "w") as f:
        f.write(cmd + "\n")
    rc, err = vf.run_hx(exe, [], op, stdin_path=ip, timeout=1200)
    if rc != 0:
        return True
    if vf.count_lines(op) == 0:
        return False
    rej, total = vf.validate_cases(ctx, "MSTrace", "MSTrace.cfg", op, "C10 confirm", nparts=1, heap="3g")
    return len(rej) > 0


def report_crashes(ctx, runs, what):
    for ip, op, rc, err in runs:
        if rc != 0:
            # sanitizer / assertion abort, canary damage, hang: reported directly; what was recorded before it is still judged
            last = ""
            try:
                with open(op, "rb") as f:
                    data = f.read()
                data = data[:data.rfind(b"\n") + 1]
                with open(op, "wb") as f:
                    f.write(data)
                last = data.decode("utf-8", "replace").strip().split("\n")[-1][:300]
            except OSError:
                pass
            ctx.violation("%s: hx_ms aborted rc=%d (input %s); last event %s; stderr: %s" % (what, rc, os.path.basename(ip), last, err[-1500:]),
                          replay_src=ip)


def run(ctx):
    tier = ctx.tier
    ctx.rule = ("TLC proves the MS theorems (layout validity and routing for every layout with <=4 channels/<=3 streams and hand-picked large ones, "
                "the family table for 6 families x 0..256 channels, splitting of concatenated packets, the encoder's byte budgeting, the matrix "
                "identity on the matrices exported from the built library); the layouts, (family, channels) pairs and byte strings TLC visited are "
                "replayed through the real create calls and a real multistream decoder; real multistream / surround / projection encoders are run "
                "on per-channel test tones and every packet is split, decoded by three multistream decoders (int16, int24, float) and by "
                "stand-alone decoders per stream, and judged by MSTrace; a sweep steps the frame size of the non-final streams of 40-120 ms "
                "packets one byte at a time through 249..256 (the one-byte / two-byte boundary of the self-delimiting length: hard CBR, VBR on "
                "a noisy signal, OPUS_BITRATE_MAX in a tight buffer; 16 layouts of 2-5 streams, plain / surround / ambisonics / projection); "
                "every stand-alone decoder must also end in the final range of the encoder of its stream. non-trivial = distinct packet events with at least two streams or a "
                "muted / duplicated channel in which all stream sides produced different samples (so that a wrong routing cannot go unnoticed)")
    ctx.assumptions = ["TLC 1.8.0 and the CommunityModules Json reader are trusted",
                       "the family 1/2 stream layouts are the conventional ones (RFC 7845/8486 fix the channel order and leave the stream layout to the "
                       "mapping table); Family() derives them from the speaker order and a pairing rule",
                       "the header bytes logged for each sub-packet reach 4 bytes past the payload offset the library's parser reported (a header the "
                       "specification parses to the same offset has then only read real bytes)",
                       "the test-tone clauses are asserted only well inside 'enough bits for a steady tone' (R2): which input channel feeds which stream "
                       "at >= 64 kb/s per coded channel; projection round trip at >= 96 kb/s with every stream coded by the transform layer; both for "
                       "packets of 10-60 ms, >= 200 ms of signal, a buffer of twice the bitrate's bytes, and with a 6 dB margin between the strongest "
                       "and the second strongest tone and 7 dB of slack on the tone's level (calibrated: worst margin 35.7 dB / 19.4 dB inside the domain, "
                       "17.8 dB for 80 ms packets; worst level error 0.41 dB / 0.55 dB, R3); on the LFE stream of a surround encoder, which gets a small "
                       "fraction of the rate, only the identity of the strongest tone is asserted (worst margin seen there 14.4 dB)",
                       "matrix identity tolerance 1/500 of the diagonal (measured worst deviation is recorded under matrix_deviation_ppm)",
                       "'one packet per stream' is read as: the piece of an encoder-made multistream packet that belongs to stream s is the packet "
                       "the encoder of stream s produced; it is asserted through the coder's final range (the stand-alone decoder fed the piece ends "
                       "in the range that stream's encoder ended in - the equality the library documents for every valid packet, also demanded by C02); "
                       "a damaged tail that the range coder never reads does not show in it",
                       "sample rates and the three sample formats are covered by sampling; FEC decoding and DRED are not exercised"]
    if ctx.replay:
        return replay(ctx)
    rng = random.Random(ctx.seed)
    quick = tier == "quick"
    # 1. the design theorems; TLC also generates the inputs of the conformance runs
    r = ctx.mc("MS_mc", "MS_mc_quick.cfg" if quick else "MS_mc_thorough.cfg", what="MS theorems: layouts, families, packets, budget",
               workers=8, timeout=2400, heap="6g")
    if r.violation:
        raise vf.Infra("MS model theorem %s violated:\n%s" % (r.violation, r.state_dump[:1500]))
    lays, fams, msps = parse_prints(r)
    if len(lays) < 10000 or len(fams) != 6 * 257 or len(msps) < 1000:
        raise vf.Infra("MS_mc emitted too few cases (vacuous run): %d layouts, %d family cases, %d byte strings" % (len(lays), len(fams), len(msps)))
    ctx.exhaustive = True
    ctx.notes["exhaustive_scope"] = ("model side: all layouts with ch<=4, S<=3, C<=S, map in {0..S+C-1, 255, S+C}^ch (%d) plus hand-picked large ones; "
                                     "Family(f, ch) for f in {0,1,2,3,255,4}, ch in 0..256; concatenations of <= %d library packets and their corruptions "
                                     "(%d byte strings replayed); byte budgeting for S<=4; matrix identity for the 5 built-in orders with and without the "
                                     "non-diegetic pair. Implementation side: every one of those create cases, sampled executions"
                                     % (len(lays), 2 if quick else 3, len(msps)))
    # 2. build
    hk = vf.build_variant("hk")
    exe_hk = vf.build_hx(hk, "ms.c")
    hko = vf.build_variant("hko")
    exe_o = vf.build_hx(hko, "ms.c")
    # 3. create calls, matrices, TLC-generated byte strings (sanitizer build)
    cl = create_lines(lays, fams)
    dl = d_lines(msps, rng)
    runs1 = run_groups(ctx, [(exe_hk, "create", cl, 4), (exe_hk, "bytes", dl, 3), (exe_hk, "matrix", ["M"], 1)])
    report_crashes(ctx, runs1, "create/bytes/matrix")
    # matrices: the design theorem on the exported tables
    mxp = ctx.path("matrices.ndjson")
    with open(mxp, "w") as fo:
        for ip, op, rc, err in runs1:
            if "matrix_" in os.path.basename(op):
                with open(op) as f:
                    for ln in f:
                        if ln.startswith('{"k":"mx"'):
                            fo.write(ln)
    if vf.count_lines(mxp) != 5:
        raise vf.Infra("expected the matrices of 5 orders, got %d" % vf.count_lines(mxp))
    rm = vf.tlc("MS_mc", "MS_mc_matrix.cfg", workers=4, env={"MATRICES": mxp}, timeout=900, heap="3g")
    if rm.error:
        raise vf.Infra("MS_mc matrix: " + rm.error)
    ctx.add_tlc(rm, "mc MS_mc/MS_mc_matrix.cfg (exported matrices)")
    vf.log("[mc] %-40s distinct=%d generated=%d %s (%.1fs)" % ("matrix identity on exported tables", rm.distinct, rm.generated,
                                                             "OK" if rm.ok else "VIOLATED " + str(rm.violation), rm.wall))
    devs = [int(x) for x in re.findall(r'<<"MXDEV", \d+, \d+, \d+, (\d+)>>', rm.out)]
    if rm.ok and len(devs) < 100:
        raise vf.Infra("matrix run visited too few rows (%d)" % len(devs))
    ctx.notes["matrix_deviation_ppm"] = dict(worst=max(devs) if devs else None, tolerance=2000, rows_checked=len(devs))
    if rm.violation:
        rp = ctx.path("rej_matrix.txt")
        with open(rp, "w") as f:
            f.write("M\n")
        ctx.violation("the exported demixing matrix does not invert the mixing matrix up to the stated gain: %s" % rm.state_dump[:200].replace("\n", " "),
                      replay_src=rp)
    for ip, op, rc, err in runs1:
        ctx.evaluations += scan(ctx, op)
    # these events carry their whole command: judge them from one file (fewer TLC processes)
    p1 = ctx.path("phase1.ndjson")
    with open(p1, "w") as fo:
        for ip, op, rc, err in runs1:
            with open(op) as f:
                fo.write(f.read())
    judge(ctx, exe_hk, [(None, p1, 0, "")], "C10 create/bytes")
    # which layouts did the real create calls accept (their verdicts have just been judged)
    enc_ok, dec_ok = [], []
    for ip, op, rc, err in runs1:
        if "create_" not in os.path.basename(op):
            continue
        with open(op) as f:
            for ln in f:
                if '"t":"enc"' in ln or '"t":"dec"' in ln:
                    e = json.loads(ln)
                    if e["ok"] == 1:
                        (enc_ok if e["t"] == "enc" else dec_ok).append((e["ch"], e["S"], e["C"], e["map"]))
    if len(enc_ok) < 100 or len(dec_ok) < 1000:
        raise vf.Infra("suspiciously few accepted layouts: enc %d dec %d" % (len(enc_ok), len(dec_ok)))
    ctx.notes["create_cases"] = dict(commands=len(cl), decoder_layouts_accepted=len(dec_ok), encoder_layouts_accepted=len(enc_ok))
    # 4. executions
    X, H = plan_executions(ctx, rng, enc_ok, dec_ok)
    rng.shuffle(X); rng.shuffle(H)
    nsan = 12 if quick else 60
    small_ix = [i for i, l in enumerate(X) if line_cost(l) <= 400][:nsan]
    san = [X[i] for i in small_ix] + H[:nsan]
    bulk = [l for i, l in enumerate(X) if i not in set(small_ix)] + H[nsan:]
    bulk.sort(key=line_cost, reverse=True)          # round-robin over the sorted list balances the chunks
    B = plan_boundary(ctx, rng)
    nbs = len(B) // 12
    runs2 = run_groups(ctx, [(exe_o, "exec", bulk, 6 if quick else 12), (exe_hk, "execsan", san, 2 if quick else 4),
                             (exe_o, "bnd", B[nbs:], 3), (exe_hk, "bndsan", B[:nbs], 1)])
    report_crashes(ctx, runs2, "executions")
    for ip, op, rc, err in runs2:
        ctx.evaluations += scan(ctx, op)
    import hashlib
    ctx.notes["executions"] = dict(encoder_runs=len(X), hand_built_runs=len(H), boundary_runs=len(B),
                                   plan_sha1=hashlib.sha1("\n".join(cl + dl + X + H + B).encode()).hexdigest())
    nrej = judge(ctx, exe_hk, runs2, "C10 executions")
    # 5. model conformance beyond the property (SPEC-DRIFT only)
    if not ctx.violations:
        ps = ctx.path("strict.ndjson")
        with open(ps, "w") as fo:
            for ip, op, rc, err in runs1 + runs2:
                with open(op) as f:
                    for ln in f:
                        if ln.startswith('{"k":"pk"') or ln.startswith('{"k":"tn"') or (ln.startswith('{"k":"cr"') and '"t":"surr"' in ln):
                            fo.write(ln)
        judge(ctx, exe_hk, [(None, ps, 0, "")], "C10 strict", cfg="MSTraceStrict.cfg", drift=True)
    # vacuity guards: every event kind was produced and judged
    for k in ("cr", "pk", "md", "tn", "pt", "mx", "pm"):
        if STAT["events"].get(k, 0) == 0:
            raise vf.Infra("no event of kind %s was recorded (vacuous run)" % k)
    for t in ("enc", "surr", "penc", "hand"):
        if STAT["pk_by_kind"].get(t, 0) == 0:
            raise vf.Infra("no packet of kind %s was recorded (vacuous run)" % t)
    if STAT["tone_in_domain"] == 0 or STAT["proj_in_domain"] == 0 or STAT["discriminating"] == 0 or STAT["hand_refused"] == 0:
        raise vf.Infra("vacuous run: %s" % {k: STAT[k] for k in ("tone_in_domain", "proj_in_domain", "discriminating", "hand_refused")})
    for v in (250, 251, 252, 253, 254):
        if STAT["boundary"].get(v, 0) == 0 or STAT["boundary2"].get(v, 0) == 0:
            raise vf.Infra("vacuous run: no non-final stream with a last frame of %d bytes (3+ frames: %s, 2 frames: %s)"
                           % (v, STAT["boundary"], STAT["boundary2"]))
    if STAT["ranges_compared"] == 0:
        raise vf.Infra("vacuous run: no packet carried the stream encoders' final ranges")
    finish_notes(ctx)


def finish_notes(ctx):
    s = dict(STAT)
    s["boundary"] = {str(k): v for k, v in sorted(s["boundary"].items())}
    s["boundary2"] = {str(k): v for k, v in sorted(s["boundary2"].items())}
    fams = sorted(s.pop("families_run"))
    s["families_run"] = {str(f): sorted(ch for ff, ch in fams if ff == f) for f in sorted(set(f for f, ch in fams))}
    s["distinct_layouts_run"] = len(s.pop("layouts_run"))
    ctx.notes["observed"] = s
    ctx.notes["boundary_sweep"] = ("non-final streams of encoder-made packets whose last frame has 249..256 bytes, by size: 'boundary' = streams of 3-6 "
                                   "frames (code 3), 'boundary2' = streams of 2 frames (code 1/2); measured from the recorded events (under 'observed'); "
                                   "ranges_compared = packets whose per-stream encoder and decoder final ranges were compared. No numeric threshold is involved.")
    ctx.notes["thresholds"] = dict(ToneMarginMin_cdB=600, ToneLevelSlack_cdB=700, ToneRateMin_bps_per_channel=64000, ProjRateMin_bps_per_channel=96000, matrix_TolDiv=500,
                                   calibration=("stream-side tones: 941 surround runs (families 0/1/2/255, all rates, 10-120 ms, all applications): worst margin "
                                                "35.9 dB at >= 64 kb/s per channel (15.5 dB at 48 kb/s); projection outputs: 1100 runs over the ten channel "
                                                "counts at >= 96 kb/s, transform layer only, 10-60 ms: worst 19.4 dB (2 dB when a stream is coded by the "
                                                "hybrid layer, which is why those runs are outside the domain); threshold 6 dB. Levels: the decoded tone is within 0.41 dB "
                                                "(projection: 0.55 dB of input level minus stated gain) over 818 / 300 runs; slack 7 dB"))


def replay(ctx):
    hk = vf.build_variant("hk")
    exe = vf.build_hx(hk, "ms.c")
    out = ctx.path("replay.ndjson")
    rc, err = vf.run_hx(exe, [], out, stdin_path=ctx.replay, timeout=3000)
    if rc != 0:
        ctx.violation("replay aborted rc=%d %s" % (rc, err[-1200:]), replay_text=open(ctx.replay).read()[:20000])
        return
    n = scan(ctx, out)
    ctx.evaluations += n
    if n == 0:
        raise vf.Infra("replay produced no event")
    rej, total = vf.validate_cases(ctx, "MSTrace", "MSTrace.cfg", out, "C10 replay", nparts=1, heap="3g")
    ctx.traces += total - len(rej)
    ctx.nontrivial_count = max(2, len(ctx.nontrivial))
    with open(ctx.replay) as f:
        text = f.read()[:20000]
    for p, ln, tr in rej:
        ev = vf.file_line(p, ln)
        try:
            e = json.loads(ev)
        except ValueError:
            e = {}
        kf = known_match(e)
        if kf:
            ctx.known_finding(kf["what"])
        else:
            ctx.violation("replayed command rejected: " + summarize(e, ev), replay_text=text)
    finish_notes(ctx)


META = dict(
    engine="MS+Framing",
    technique=("TLA+ model of channel layouts, mapping families, multistream packets, byte budgeting and the projection matrices; TLC exhaustive "
               "on the model; TLC-generated layouts / family cases / byte strings replayed through the real create calls and decoder; TLC trace "
               "validation of every packet produced by real multistream, surround and projection encoders (split by the specification's framing, "
               "decoded by multistream and stand-alone decoders, digests compared per channel)"),
    level_text=("TLC checks on the MS model: layout validity and routing for every layout with up to 4 channels and 3 streams plus hand-picked large "
                "ones; the family table (families 0, 1, 2, 3, 255 and an unknown one, 0..256 channels) against the RFC-level obligations; that "
                "concatenated packets are split exactly at the seams and accepted iff the durations agree; that the encoder's byte budgeting can "
                "neither overrun the buffer nor offer a stream less than a minimal packet; and demixing x mixing = gain x identity on the matrices "
                "exported from the built library, for all five orders. The model is bound to libopus by replaying every TLC-visited layout and "
                "(family, channel count) through the five create calls, TLC-generated byte strings through a real multistream decoder, and by having "
                "TLC judge every packet that real multistream / surround / projection encoders produce: the split found with the specification's "
                "self-delimited framing, equal durations, and bit-for-bit equality of every output channel with the stand-alone decoder of the mapped "
                "stream and side in all three sample formats (muted channels exactly zero), and that each stand-alone decoder ends in the final "
                "range of its stream's encoder; a sweep puts 249..256-byte frames (the boundary of the self-delimiting length) into the non-final "
                "streams of 40-120 ms packets; test tones establish which input channel feeds which "
                "stream and that projection round-trips every channel."),
    level_note=("Trusted: TLC, the Json module, the harness's digests and tone measurements, my reading of RFC 7845 5.1.1 / RFC 8486 3 (no RFC text "
                "offline). The stream layouts of families 1 and 2 are the conventional ones, not prescribed by the RFCs. Signals, sample rates, frame "
                "sizes and bitrates are sampled; tone clauses are asserted only at >= 64 (projection: 96) kb/s per channel. Matrix identity is a table obligation with "
                "tolerance 0.2 %."),
)
