"""C11 - settings are validated, read back, and honoured in the bitstream (module EncCtl)."""
import hashlib, json, os, re, threading, time, zlib
import vf

LEVEL = "model_checking"

# Provisional known findings (see BUILDING.md "Known findings"): deviations this check has found that are
# not yet in known_findings.json.  A rejected event is matched on the fields the key of an entry names
# (k, why, fields, o, oclass, req, v, r, fs, mb, Fs, ch, app, fam, nch, streams, coupled, fc_before,
# fc_after).  Empty: F1 (encode overwrote force_channels), F7 (multistream frame duration unchecked) and
# F8 (multistream force-channels half applied) were found by this check and are fixed in /repo
# (8ebeae3d, 46b1a288, a0d8c0eb); replay/C11_finding_*.txt reproduce them on a tree without the fixes.
PROVISIONAL = []

CNT_NAMES = ["audio_packets", "ChannelsHonoured_binds", "ForceTakesEffect_binds", "BandwidthHonoured_binds_below_nyquist",
             "LowDelayIsCelt_binds", "ShortFramesAreCelt_binds", "setter_applied", "request_refused",
             "SettingsUntouched_compared", "objects_created", "creations_refused", "allocation_failures",
             "DurationHonoured_binds_buffer_longer_int16", "DurationHonoured_binds_buffer_longer_int24",
             "DurationHonoured_binds_buffer_longer_float", "DurationHonoured_binds_buffer_longer_multistream",
             "ChannelsHonoured_binds_first_packet_after_reset", "encode_refused_buffer_shorter_than_requested_duration"]

_re_tuple = re.compile(r'<<\\"(\w+)\\"((?:, -?\d+)*)>>')


def history_to_script(h):
    """one TLC history (ToString of a sequence of tuples) -> script lines for hx_ctl replay"""
    out = []
    fs = 48000
    ep = zlib.crc32(h.encode()) % 3       # the entry point rotates over the encode calls of a history
    for m in _re_tuple.finditer(h):
        tag = m.group(1)
        a = [int(x) for x in m.group(2).split(",")[1:]] if m.group(2) else []
        if tag == "N":
            fs = a[0]
            out.append("N enc 0 %d %d %d 0" % (a[0], a[1], a[2]))
        elif tag == "S":
            out.append("S %d %d" % (a[0], a[1]))
        elif tag in ("Q", "U"):
            out.append("%s %d" % (tag, a[0]))
        elif tag == "R":
            out.append("R")
        elif tag == "E":
            out.append("E %d 1276 1 %d" % (a[0], ep))
            ep = (ep + 1) % 3
    # what the request did to the settings shows in the TOC of the next packets
    out.append("E %d 1276 1 %d" % (fs // 50, ep))
    out.append("E %d 1276 3 %d" % (fs // 50, (ep + 1) % 3))
    return out


def split_script(path, nparts, prefix):
    """split a script at execution boundaries into nparts files"""
    execs = []
    with open(path) as f:
        for ln in f:
            if ln.startswith("N "):
                execs.append([])
            if execs:
                execs[-1].append(ln)
    nparts = max(1, min(nparts, len(execs)))
    per = (len(execs) + nparts - 1) // nparts
    res = []
    for i in range(nparts):
        chunk = execs[i * per:(i + 1) * per]
        if not chunk:
            break
        p = "%s_%02d.txt" % (prefix, i)
        with open(p, "w") as f:
            for ex in chunk:
                f.writelines(ex)
        res.append((p, len(chunk)))
    return res


def script_exec(path, x):
    """lines of execution number x (0-based) of a script"""
    cur = -1
    out = []
    with open(path) as f:
        for ln in f:
            if ln.startswith("N "):
                cur += 1
                if cur > x:
                    break
            if cur == x:
                out.append(ln)
    return out


_re_rej = re.compile(r'^"REJECTED_AT (\d+) (.*)"$')
_re_drift = re.compile(r'^"DRIFT (\d+) (.*)"$')
_re_counts = re.compile(r'^"COUNTS <<([\d, ]+)>>"$')


def parse_prints(prints):
    rej, drift, counts = [], [], None
    for pr in prints:
        m = _re_rej.match(pr)
        if m:
            why = m.group(2).replace('\\"', '"')
            q = re.findall(r'"([^"]*)"', why)
            clause = q[0] if q else "?"
            mm = re.search(r"\{([^}]*)\}", why)
            fields = sorted(re.findall(r'"([^"]*)"', mm.group(1))) if mm else []
            rej.append(dict(line=int(m.group(1)), why=clause, fields=",".join(fields), detail=why[:600]))
            continue
        m = _re_drift.match(pr)
        if m:
            drift.append((int(m.group(1)), m.group(2).replace('\\"', '"')[:300]))
            continue
        m = _re_counts.match(pr)
        if m:
            counts = [int(x) for x in m.group(1).split(",")]
    return rej, drift, counts


def enrich(ev, prev, create, rj):
    """the fields a known-finding key may name"""
    d = dict(k=ev.get("k"), why=rj["why"], fields=rj["fields"], o=create.get("o"))
    d["oclass"] = {"mse": "ms_enc", "pje": "ms_enc", "msd": "ms_dec", "pjd": "ms_dec"}.get(d["o"], d["o"])
    for f in ("req", "v", "r", "fs", "mb", "ep", "rd", "ns"):
        if f in ev:
            d[f] = ev[f]
    for f in ("Fs", "ch", "app", "fam", "nch", "streams", "coupled"):
        if f in create:
            d[f] = create[f]
    if "g" in ev and isinstance(ev["g"], dict):
        d["fc_after"] = ev["g"].get("fc")
    if prev and "g" in prev and isinstance(prev["g"], dict):
        d["fc_before"] = prev["g"].get("fc")
    return d


def match_known(d, entries):
    for en in entries:
        if all(d.get(k) == v for k, v in en.get("key", {}).items()):
            return en
    return None


_re_set = re.compile(r'^\{"k":"(set|getnull|unk|reset|sget|dec)".*?(?:"req":(-?\d+))?(?:,"v":(-?\d+))?,"r":(-?\d+)')
_re_enc = re.compile(r'^\{"k":"enc".*?"fs":(-?\d+),"mb":(-?\d+),"sig":(\d),"r":(-?\d+),"cok":\d,"h":\[(\d*)[\d,]*\],"ep":(\d),"rd":(-?\d+),"ns":(-?\d+)')
_re_g = re.compile(r'"g":\{"app":(\d+),"sr":(\d+),"br":(-?\d+),"vbr":(\d),"cvbr":(\d),"cx":(\d+),"fc":(-?\d+),"maxbw":(\d+)')


def scan_trace(ctx, path, stats):
    """measured coverage counters; returns number of events and of executions"""
    n = nx = 0
    cur = ""
    with open(path) as f:
        for ln in f:
            n += 1
            if ln.startswith('{"k":"create"'):
                nx += 1
                i = ln.find('"o":"')
                cur = ln[i + 5:i + 8]
                j = ln.find('"g":')
                key = ln[i:j if j > 0 else len(ln)]
                key = re.sub(r'"(x|ln)":\d+,?', "", key)
                ctx.nontrivial.add(hash("c" + key))
                stats["create_" + cur] = stats.get("create_" + cur, 0) + 1
                continue
            m = _re_enc.match(ln)
            if m:
                stats["encode_calls"] = stats.get("encode_calls", 0) + 1
                epn = ("int16", "int24", "float")[int(m.group(6))]
                stats["encode_calls_" + epn] = stats.get("encode_calls_" + epn, 0) + 1
                if int(m.group(4)) > 0:
                    stats["packets"] = stats.get("packets", 0) + 1
                    if int(m.group(7)) != 5000 and int(m.group(1)) > int(m.group(8)) > 0:
                        k = "packets_shorter_than_buffer_%s_%s" % (cur, epn)
                        stats[k] = stats.get(k, 0) + 1
                    g = _re_g.search(ln)
                    ctx.nontrivial.add(hash((cur, m.group(1), m.group(5), m.group(6), g.group(0) if g else "")))
                elif int(m.group(4)) == -1:
                    stats["encode_bad_arg"] = stats.get("encode_bad_arg", 0) + 1
                continue
            m = _re_set.match(ln)
            if m:
                stats["ctl_" + m.group(1)] = stats.get("ctl_" + m.group(1), 0) + 1
                ctx.nontrivial.add(hash((cur, m.group(1), m.group(2), m.group(3), m.group(4))))
    return n, nx


def run(ctx):
    tier = ctx.tier
    ctx.rule = ("TLC checks DomainsHold/GetterTotal/EncodeFeasible (invariants) and RejectKeepsAll/OnlySettersWrite (action "
                "properties) on EncCtl_mc over every request sequence up to the configured depth on the per-request boundary grid; "
                "TLC checks on EncCtlFsel_mc that the transcription of frame_size_select(), the model's FrameSizeSelect and the declarative "
                "reading agree on the whole grid (Fs, duration setting, application, channels, every buffer length 0..120 ms + 2.5 ms + 8); "
                "hx_ctl replays TLC-generated request histories (full grid, depth 1-2), a creation/init/allocation-failure grid, the "
                "frame-duration grid (every Fs x channels x application x OPUS_SET_EXPERT_FRAME_DURATION value x PCM entry point "
                "[opus_encode, opus_encode24, opus_encode_float] with the caller's buffer exactly as long as / longer than / shorter than "
                "the requested duration), forced-channel/bandwidth settings in force before the first frame across OPUS_RESET_STATE, and "
                "seeded random histories interleaved with encodes (entry point drawn per call) on encoder, decoder, multistream and "
                "projection objects, reading ALL getters after every call; every encode event carries entry point, requested duration, "
                "buffer length and the packet's duration (opus_packet_get_nb_samples); EncCtlTrace judges return code, the complete "
                "read-back record, DurationHonoured and the TOC obligations after every event. non-trivial = distinct (object kind, request, value, return code) control events, distinct creation "
                "argument tuples, and distinct (frame size, TOC, settings) packets")
    ctx.assumptions = [
        "TLC and the CommunityModules Json reader are trusted",
        "OPUS_SET_BANDWIDTH has no read-back getter (OPUS_GET_BANDWIDTH is signal state): the forced bandwidth is checked in the TOC of later packets only",
        "bandwidth/channel/mode obligations are asserted on packets that code audio (some frame >= 2 bytes) and, for the forced/maximum "
        "bandwidth, only while both are unchanged since before the first encode call after creation/reset (R2)",
        "a forced bandwidth replaces the maximum bandwidth (opus_defines.h: the maximum applies to the automatic selection)",
        "first / prev_framesize are read through opus_verif_encoder_peek; OPUS_GET_BITRATE is compared with the documented formula "
        "resolved for that frame size; documented defaults and the ghost rules are bound as SPEC-DRIFT only",
        "multistream: OPUS_GET_BITRATE is the sum over the streams (SPEC-DRIFT), the multistream layer may rewrite the bitrate of its "
        "streams on encode, and for surround/ambisonics mappings also their forced mode / channel count",
        "a change of application after the first coded frame may be refused or applied (no document fixes it)",
        "memory safety and leaks are observed (ASan/UBSan/LeakSanitizer, canaries) on the recorded calls only",
    ]
    known = vf.known_findings("C11") + PROVISIONAL
    if ctx.replay:
        return replay(ctx, known)

    # 1. design theorems on the model, in the background while the library builds and runs
    mc_res = {}

    def do_mc():
        try:
            mc_res["cov"] = ctx.mc("EncCtl_mc", "EncCtl_mc_cov.cfg", what="EncCtl_mc coverage (depth 1)", deadlock=True,
                                   workers=2, timeout=600, heap="2g",
                                   require_actions=["DoSet", "DoGetNull", "DoUnknown", "DoReset", "DoEncode",
                                                    "DoDecSet", "DoDecGetNull", "DoDecReset"])
            mc_res["fsel"] = ctx.mc("EncCtlFsel_mc", "EncCtlFsel_mc.cfg", what="frame-size selection on the whole grid (Fs, duration "
                                    "setting, application, channels, buffer length)", deadlock=True, workers=2, timeout=900, heap="2g")
            cfg = "EncCtl_mc_quick.cfg" if tier == "quick" else "EncCtl_mc_thorough.cfg"
            mc_res["mc"] = ctx.mc("EncCtl_mc", cfg, what="EncCtl design theorems " + cfg, deadlock=True,
                                  workers=4 if tier == "quick" else 8, timeout=600 if tier == "quick" else 3000, heap="3g")
            if tier == "thorough":
                mc_res["dense"] = ctx.mc("EncCtl_mc", "EncCtl_mc_dense2.cfg", what="EncCtl design theorems, dense grid depth 2",
                                         deadlock=True, workers=8, timeout=3000, heap="3g")
        except BaseException as e:      # re-raised in the main thread
            mc_res["err"] = e
    th = threading.Thread(target=do_mc)
    th.start()

    # 2. scripts: TLC-generated histories, creation grid, random histories
    var = vf.build_variant("hk")
    exe = vf.build_hx(var, "ctl.c", extra=["-Wl,--wrap=malloc"])
    s = ctx.seed
    scripts = []          # (name, path)
    gens = ["EncCtl_gen1.cfg", "EncCtl_gen2.cfg"] if tier == "thorough" else ["EncCtl_gen1q.cfg"]
    nhist = 0
    for g in gens:
        r = vf.tlc("EncCtl_mc", g, workers=4, deadlock=True, timeout=900, heap="4g")
        if r.error or r.violation:
            raise vf.Infra("history generation %s failed: %s" % (g, r.error or r.violation))
        ctx.add_tlc(r, "gen " + g)
        p = ctx.path("gen_%s.txt" % g[:-4])
        with open(p, "w") as f:
            for pr in r.prints:
                if pr.startswith('<<"H"'):
                    nhist += 1
                    f.write("\n".join(history_to_script(pr)) + "\n")
        scripts.append(("gen:" + g[:-4], p))
    if nhist == 0:
        raise vf.Infra("TLC generated no histories")
    ctx.notes["tlc_generated_histories"] = nhist
    p = ctx.path("create.txt")
    rc, err = vf.run_hx(exe, ["gen-create"], p)
    if rc != 0:
        raise vf.Infra("gen-create failed: " + err[-500:])
    scripts.append(("create", p))
    # frame-duration grid: every (Fs, channels, application, duration setting, entry point), buffers exact / longer / shorter
    p = ctx.path("durgrid.txt")
    rc, err = vf.run_hx(exe, ["gen-durgrid", s], p)
    if rc != 0:
        raise vf.Infra("gen-durgrid failed: " + err[-500:])
    scripts.append(("durgrid", p))
    # settings in force before the first frame across OPUS_RESET_STATE (quick: a seed-dependent sixth of the grid)
    p = ctx.path("reset.txt")
    rc, err = vf.run_hx(exe, ["gen-reset", s, 6 if tier == "quick" else 1], p)
    if rc != 0:
        raise vf.Infra("gen-reset failed: " + err[-500:])
    scripts.append(("reset", p))
    nrand, nexec, steps = (8, 90, 30) if tier == "quick" else (16, 600, 40)
    for i in range(nrand):
        p = ctx.path("rand_%02d.txt" % i)
        rc, err = vf.run_hx(exe, ["gen-random", s + 1000 * i, nexec, steps], p)
        if rc != 0:
            raise vf.Infra("gen-random failed: " + err[-500:])
        scripts.append(("random", p))

    # 3. split into jobs (whole executions), replay through the library, validate with TLC
    jobs = []
    maxexec = {"gen": 800, "create": 4000, "random": 400, "durgrid": 150, "reset": 120}
    for name, p in scripts:
        base = name.split(":")[0]
        nx = sum(1 for ln in open(p) if ln.startswith("N "))
        nparts = max(1, (nx + maxexec[base] - 1) // maxexec[base])
        for part, cnt in split_script(p, nparts, p[:-4] + "_p"):
            jobs.append((name, part, cnt))
    stats, counts_sum = {}, [0] * len(CNT_NAMES)
    lock = threading.Lock()

    def one(job):
        name, script, cnt = job
        out = script[:-4] + ".ndjson"
        rc, err = vf.run_hx(exe, ["replay"], out, stdin_path=script, timeout=2400)
        res = dict(job=job, out=out, rc=rc, err=err, rej=[], drift=[], counts=None, n=0, nx=0)
        if rc != 0:
            return res
        ok, _, r = vf.validate_seq(ctx, "EncCtlTrace", "EncCtlTrace.cfg", out, "C11 " + os.path.basename(script),
                                   timeout=2400, heap="1500m")
        res["rej"], res["drift"], res["counts"] = parse_prints(r.prints)
        if r.violation and not res["rej"]:
            raise vf.Infra("EncCtlTrace could not consume %s: %s" % (out, r.violation))
        if res["counts"] is None:
            raise vf.Infra("EncCtlTrace printed no COUNTS for %s\n%s" % (out, r.out[-1500:]))
        with lock:
            res["n"], res["nx"] = scan_trace(ctx, out, stats)
        return res
    vf.log("[C11] %d scripts -> %d jobs, t+%.0fs" % (len(scripts), len(jobs), time.time() - ctx.t0))
    results = vf.parallel(one, jobs, nproc=10 if tier == "quick" else 12)
    vf.log("[C11] replay+validation done, t+%.0fs" % (time.time() - ctx.t0))

    # 4. verdicts
    seen_drift = set()
    for res in results:
        name, script, cnt = res["job"]
        if res["rc"] != 0:
            # sanitizer / assertion / leak / canary / hang while executing control or encode calls
            x = last_exec(res["out"])
            rp = ctx.path("crash_%s" % os.path.basename(script))
            with open(rp, "w") as f:
                f.writelines(script_exec(script, x) if x >= 0 else open(script).readlines()[:200])
            ctx.violation("hx_ctl aborted rc=%d on %s (execution %d): %s" % (res["rc"], name, x, res["err"][-1200:]), replay_src=rp)
            continue
        ctx.evaluations += res["n"]
        ctx.traces += res["nx"] - len(res["rej"])
        for i, c in enumerate(res["counts"][:len(counts_sum)]):
            counts_sum[i] += c
        for ln, d in res["drift"]:
            key = re.sub(r"\d+", "#", d)
            if key not in seen_drift:
                seen_drift.add(key)
                ctx.spec_drift("EncCtl", "%s (first at %s:%d)" % (d, os.path.basename(res["out"]), ln))
        for rj in res["rej"]:
            judge_rejection(ctx, exe, known, res["out"], script, rj, name)
    for res in results[:3]:
        if res["rc"] == 0:
            ctx.sample({"driver": res["job"][0], "event": vf.file_line(res["out"], 2)[:500]})
    th.join()
    if "err" in mc_res:
        raise mc_res["err"]
    for k in ("cov", "fsel", "mc", "dense"):
        if k not in mc_res:
            continue
        r = mc_res[k]
        if r.violation:
            raise vf.Infra("EncCtl model theorem %s violated (defect of the model, not of the code):\n%s" % (r.violation, r.state_dump[:1500]))
    ctx.exhaustive = True
    ctx.notes["exhaustive_scope"] = ("model side: every request sequence up to the depth of the mc configuration over the boundary grid; "
                                     "implementation side: the depth-1 grid from two base states for all (Fs, channels, application) "
                                     "exhaustively, deeper histories sampled")

    ctx.notes["DurationHonoured"] = ("exact clause, no calibrated threshold: packet samples (Framing!Parse and opus_packet_get_nb_samples) = "
                                     "FrameSizeSelect(buffer length, OPUS_GET_EXPERT_FRAME_DURATION, Fs) for opus_encode / opus_encode24 / "
                                     "opus_encode_float and the multistream / projection counterparts (first stream's packet; not with DTX on); "
                                     "a buffer shorter than the requested duration must not yield a packet (the error code OPUS_BAD_ARG is bound "
                                     "as SPEC-DRIFT); FrameSizeSelect = transcription of frame_size_select() on the whole grid (EncCtlFsel_mc)")
    ctx.notes["obligation_antecedents"] = dict(zip(CNT_NAMES, counts_sum))
    ctx.notes["events"] = stats
    # vacuity guard: every obligation must have been exercised with a true antecedent
    for nm, c in zip(CNT_NAMES, counts_sum):
        if c == 0:
            raise vf.Infra("vacuous run: antecedent '%s' never true" % nm)


def last_exec(trace):
    x = -1
    try:
        with open(trace) as f:
            for ln in f:
                m = re.search(r'"x":(\d+)', ln)
                if m:
                    x = int(m.group(1))
    except OSError:
        pass
    return x


def load_event(trace, line):
    """event at 1-based line, the event before it and the create event of its execution"""
    prev = create = ev = None
    with open(trace) as f:
        for i, ln in enumerate(f, 1):
            if i > line:
                break
            if ln.startswith('{"k":"create"'):
                create = ln
            if i == line - 1:
                prev = ln
            if i == line:
                ev = ln
    j = lambda s: json.loads(s) if s else {}
    return j(ev), j(prev), j(create)


def judge_rejection(ctx, exe, known, trace, script, rj, name):
    ev, prev, create = load_event(trace, rj["line"])
    d = enrich(ev, prev if prev.get("x") == ev.get("x") else None, create, rj)
    en = match_known(d, known)
    desc = "%s: clause %s %s at %s event %s" % (create.get("o"), rj["why"], rj["fields"],
                                                {k: create.get(k) for k in ("Fs", "ch", "app", "nch", "streams", "coupled", "fam") if k in create},
                                                {k: ev.get(k) for k in ("k", "req", "v", "fs", "mb", "r", "ep", "rd", "ns") if k in ev})
    if en:
        tag = en.get("id", "")
        if not any(w.startswith(tag + " ") for w in ctx.known):
            ctx.known_finding("%s %s | first seen: %s" % (tag, en["what"], desc))
        else:
            ctx.known.append("%s (again) %s" % (tag, desc))
        return
    # R4: re-run this execution once before reporting
    x = ev.get("x", 0)
    rp = ctx.path("rej_%s_%d.txt" % (hashlib.sha1((trace + str(rj["line"])).encode()).hexdigest()[:8], x))
    with open(rp, "w") as f:
        f.writelines(script_exec(script, x))
    out2 = rp[:-4] + ".ndjson"
    rc, err = vf.run_hx(exe, ["replay"], out2, stdin_path=rp)
    if rc != 0:
        ctx.violation("hx_ctl aborted rc=%d when re-running a rejected execution: %s" % (rc, err[-800:]), replay_src=rp)
        return
    ok, _, r = vf.validate_seq(ctx, "EncCtlTrace", "EncCtlTrace.cfg", out2, "C11 rerun", heap="2g")
    rej2, _, _ = parse_prints(r.prints)
    if not rej2:
        raise vf.Infra("rejection not repeatable: %s" % desc)
    ctx.violation("%s | %s" % (desc, rj["detail"]), replay_src=rp)


def replay(ctx, known):
    var = vf.build_variant("hk")
    exe = vf.build_hx(var, "ctl.c", extra=["-Wl,--wrap=malloc"])
    out = ctx.path("replay.ndjson")
    rc, err = vf.run_hx(exe, ["replay"], out, stdin_path=ctx.replay)
    if rc != 0:
        ctx.violation("replay aborted rc=%d %s" % (rc, err[-800:]), replay_src=ctx.replay)
        return
    ok, _, r = vf.validate_seq(ctx, "EncCtlTrace", "EncCtlTrace.cfg", out, "C11 replay", heap="2g")
    rej, drift, counts = parse_prints(r.prints)
    stats = {}
    n, nx = scan_trace(ctx, out, stats)
    ctx.evaluations += n
    ctx.traces += nx - len(rej)
    ctx.sample(vf.file_line(out, 1)[:400])
    ctx.nontrivial_count = max(2, n)
    for rj in rej:
        ev, prev, create = load_event(out, rj["line"])
        d = enrich(ev, prev if prev.get("x") == ev.get("x") else None, create, rj)
        en = match_known(d, known)
        if en:
            ctx.known_finding("%s %s" % (en.get("id", ""), en["what"]))
        else:
            ctx.violation("replayed history rejected: clause %s %s | %s" % (rj["why"], rj["fields"], rj["detail"]), replay_src=ctx.replay)


META = dict(
    engine="EncCtl",
    technique=("TLA+ model of the settings objects (table of legal domains per request, clamping, AUTO/MAX resolution, loose encode "
               "envelope); TLC exhaustive over request sequences on a boundary grid; TLC-generated histories replayed through libopus; "
               "stateful TLC trace validation of the complete getter record and packet TOC after every call"),
    level_text=("TLC proves on EncCtl_mc, for every sequence of control requests up to depth 2 (quick) / 3 (thorough) over the per-request "
                "boundary grid, that settings stay in their documented domains, that a refused request changes nothing, that only a "
                "successful setter writes (one field), and that the TOC obligations are jointly satisfiable.  The model is bound to "
                "libopus by replay: every TLC-generated history (the full grid from a fresh and from a running encoder, all Fs x channels "
                "x application), a creation/init grid with malloc fault injection, and seeded random histories with encodes of "
                "non-stationary signals and silence on encoder, decoder, multistream and projection objects are executed, ALL getters "
                "are read after every call, and EncCtlTrace judges return code, the complete record and DurationHonoured (all three PCM entry "
                "points, caller buffers longer/shorter than the requested duration; frame_size_select transcribed and checked by TLC on the "
                "whole grid), DurationMatches, ChannelsHonoured (also on the first packet after OPUS_RESET_STATE), "
                "ForceTakesEffect, BandwidthHonoured, LowDelayIsCelt, ShortFramesAreCelt, SettingsUntouched on every event."),
    level_note=("Trusted: TLC, the Json module, my reading of opus_defines.h. Histories longer than the generated depth and signals are "
                "sampled, not exhausted. OPUS_SET_BANDWIDTH cannot be read back and is checked through packet TOCs only. Multistream "
                "OPUS_GET_BITRATE and the defaults are bound as SPEC-DRIFT, not as property clauses."),
)
