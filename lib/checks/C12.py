"""C12 - codec state is deterministic, freely copyable and reset-equivalent (modules Objects, ObjectsTrace)."""
import vf
from checks import objects_common as oc

LEVEL = "model_checking"


def run(ctx):
    ctx.rule = ("TLC checks the object design on a small memory model (Objects_mc: every history of <= 6/7 operations over three objects, "
                "every poison value; each departure from the design is refuted) and enumerates abstract histories (Objects_gen: all of them "
                "up to depth 5/6 that revisit an abstract state, plus long random ones); hx_objects replays them on real encoders, decoders, "
                "multistream and projection objects living in poisoned exact-size blocks, twice in two processes with different poison, block "
                "offsets and slot numbers; ObjectsTrace (TLC) keeps every object's abstract state (kind, cfg, settings, calls since creation "
                "or reset) and demands identical recorded outputs (return codes, packet bytes, PCM, final ranges) whenever the same "
                "(abstract state, call) recurs anywhere in the trace. non-trivial = distinct concrete histories replayed and accepted")
    ctx.assumptions = ["TLC 1.8.0 and the CommunityModules Json reader are trusted",
                       "outputs are compared through 64-bit FNV-1a digests of packet bytes + length + final range / of PCM bytes",
                       "the run-time selected arch level and fixed/float arithmetic are part of an object's configuration (C15 relates arch levels, not C12)",
                       "'the same settings' = the same value for every ctl request applied (last value wins); ctl calls made after the first "
                       "encode/decode call are part of the history, in order",
                       "dependence on memory contents is tested by varying them (poisoned blocks, dirtied stack, pre-filled output buffers, two processes); "
                       "ASan/UBSan/assertions observe the explored executions only"]
    oc.run_check(ctx, "C12")


META = dict(
    engine="Objects",
    technique=("TLA+ model of codec objects whose abstract state is their effective call history; TLC exhaustive on a concrete memory model of "
               "the design; TLC-generated histories (BFS + simulation) replayed on real objects under heap poisoning; TLC trace validation as "
               "equivalence oracle"),
    level_text=("TLC proves on the memory model that objects with equal (configuration, settings, call history) are indistinguishable whatever "
                "their address, their allocation's contents and the other objects, that a copy of the announced size and a reset (= fresh + "
                "settings) preserve this, and refutes each single departure from the design. The model is bound to libopus by replaying "
                "TLC-enumerated histories (thorough: all abstract histories to depth 5, a seeded sample of depth 6, long random ones, directed "
                "ones; quick: a seeded sample of these) on real objects in poisoned memory and having TLC compare the outputs of every recurrence of an (abstract state, call) pair."),
    level_note=("Trusted: TLC, Json module, FNV digests. The implementation is exercised on the enumerated histories x seeded configurations, "
                "signals and settings, not on all of them; arch levels are compared with themselves only. Finding F3 (reset with in-band FEC) was found by "
                "this check and is repaired in /repo (4d916837); nothing is tolerated."),
)
