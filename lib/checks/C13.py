"""C13 - 16-bit, 24-bit and float PCM are interchangeable views of the same codec (modules Objects, ObjectsTrace)."""
import vf
from checks import objects_common as oc

LEVEL = "model_checking"


def run(ctx):
    ctx.rule = ("as C12, with the sample format declared unobservable (Objects!EraseCall): TLC demands identical packets whenever the same "
                "(abstract state, call) recurs with the format erased under an LSB depth <= 16, identical sample counts and final ranges "
                "for the three decoder formats, and on every decode event the sample relations measured by the harness against the float "
                "twin's output of the same call (24-bit = float * 2^23 to nearest; 16-bit = sat(softclip(float) * 2^15) to nearest, with the "
                "library's opus_pcm_soft_clip and a shadow of the clipper memory; projection: 16-bit within ProjTol units of the float "
                "output, saturated). non-trivial = distinct concrete histories replayed and accepted")
    ctx.assumptions = ["TLC 1.8.0 and the CommunityModules Json reader are trusted",
                       "the expected side of the sample relations is computed by the harness from the float twin (exact double arithmetic, "
                       "either tie direction counts as nearest); TLC compares mismatch counts with zero",
                       "the soft clipper is applied to decoded packets; for concealed/FEC frames both readings (bypassed, or passed through) are accepted",
                       "fixed-point build: the library never soft-clips, the 16-bit relation is demanded with plain saturation; 24-bit samples "
                       "beyond 2^24 are not compared (a float cannot hold them)",
                       "projection: asserted while no decoded stream sample has exceeded +-1 since creation/reset (R2); ProjTol = 8 16-bit units = twice one unit per input channel (4), observed maximum 4",
                       "a decoder object keeps one output format for its life; multistream layouts with bijective mappings",
                       "the projection *encoder* is not part of the encoder identity (its three entry points use different matrix arithmetic and the property does not claim it)"]
    oc.run_check(ctx, "C13")


META = dict(
    engine="Objects",
    technique=("TLA+ model of codec objects with the sample format declared unobservable; TLC-generated histories with mixed formats replayed "
               "on real single-stream, multistream and projection objects; TLC trace validation of packet identity, control outcome and "
               "harness-measured sample relations"),
    level_text=("On TLC-enumerated histories replayed on real objects, TLC demands byte-identical packets from opus_encode / opus_encode24 / "
                "opus_encode_float (and the multistream entry points) whenever the same audio reaches equivalent encoders under an LSB depth "
                "<= 16, equal sample counts and final ranges from the three decoder entry points, and the exact integer relations of the "
                "24-bit and 16-bit output to the float output (soft clipper included), stream by stream for multistream, and a stated "
                "tolerance with saturation for the projection decoder."),
    level_note=("The sample relations are exact integer relations but their expected side is computed by the harness from the float twin "
                "(DESIGN 6.2); TLC compares counts/digests. Sampled configurations and signals. Finding F14 (16-bit projection output wraps) is matched by "
                "shape in the trace spec (TolerateProj16, used only while known_findings.json lists it as known) and reported as KNOWN-FINDING; "
                "a directed history reaches it on every run."),
)
