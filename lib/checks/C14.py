"""C14 - independent codec instances do not interfere when used concurrently (modules ObjectsPar, ParTrace)."""
import json, os, re
import vf
import inventory

LEVEL = "model_checking"

PROVISIONAL = []          # proposed known-finding entries (none on the pinned tree)

CFG = """SPECIFICATION Spec
CONSTANTS
 Proc = %s
 SharedCells = %s
 MaxLen = %d
 Kinds = %s
INVARIANTS NonInterference ArchPure Complete
CHECK_DEADLOCK FALSE
"""


def tla_set(names):
    return "{" + ", ".join('"%s"' % n for n in names) + "}"


def write_cfg(ctx, name, nproc, cells, maxlen, kinds):
    p = ctx.path(name)
    with open(p, "w") as f:
        f.write(CFG % ("{" + ", ".join(str(i) for i in range(1, nproc + 1)) + "}", tla_set(cells), maxlen, tla_set(kinds)))
    return p


def known_entries():
    return vf.known_findings("C14") + PROVISIONAL


def known_cell(name):
    for en in known_entries():
        key = en.get("key", {})
        if key.get("cell") == name:
            return en
    return None


def par_jobs(ctx, quick):
    s = ctx.seed
    jobs = []
    if quick:
        for i, (n, rounds) in enumerate([(2, 10), (3, 8), (5, 6), (8, 5), (8, 5), (6, 6)]):
            jobs.append(("hko", s + i, n, rounds))
        jobs.append(("hko+p", s + 50, 10, 3))
        jobs.append(("hk+p", s + 51, 10, 1))
    else:
        for i in range(24):
            jobs.append(("hko", s + i, [2, 3, 4, 5, 6, 8, 8, 7][i % 8], 10))
        for i in range(8):
            jobs.append(("hk", s + 100 + i, [2, 4, 5, 8][i % 4], 4))
        for i in range(12):
            jobs.append(("tsan", s + 200 + i, [2, 3, 5, 8, 8, 6][i % 6], 4))
        for i in range(6):
            jobs.append(("hko+p", s + 300 + i, 10, 5))
        for i in range(3):
            jobs.append(("hk+p", s + 320 + i, 10, 2))
        for i in range(4):
            jobs.append(("tsan+p", s + 340 + i, 10, 3))
    return jobs


TSAN_ENV = {"TSAN_OPTIONS": "halt_on_error=1:exitcode=66:report_signal_unsafe=0"}


def run_par(ctx, exe, variant, seed, n, rounds, tag):
    """solo run (one process per program) then the concurrent run (fresh process: first use is concurrent); one trace file"""
    base, _, mode = variant.partition("+")          # "hko+p": pair mode (byte copies / arena neighbours), see harness/par.c
    env = TSAN_ENV if base == "tsan" else None
    a = ctx.path("par_%s_solo.ndjson" % tag)
    b = ctx.path("par_%s_conc.ndjson" % tag)
    rc1, err1 = vf.run_hx(exe, ["solo" + mode, seed, n, rounds], a, timeout=1700, env=env)
    rc2, err2 = vf.run_hx(exe, ["conc" + mode, seed, n, rounds], b, timeout=1700, env=env)
    out = ctx.path("par_%s.ndjson" % tag)
    with open(out, "w") as f:
        f.write(open(a).read())
        f.write(open(b).read())
    os.remove(a)
    os.remove(b)
    return out, rc1, err1, rc2, err2


def replay_text(variant, seed, n, rounds):
    return "P %s %d %d %d\n" % (variant, seed, n, rounds)


def judge_par(ctx, variant, seed, n, rounds, res, confirm_exe=None):
    out, rc1, err1, rc2, err2 = res
    txt = replay_text(variant, seed, n, rounds)
    if rc1 != 0:
        raise vf.Infra("hx_par solo run failed (%s seed %d): rc=%d %s" % (variant, seed, rc1, err1[-800:]))
    if rc2 != 0:
        what = "ThreadSanitizer reported a data race" if (variant.startswith("tsan") and rc2 == 66) else "the concurrent run aborted (sanitizer / assertion / crash)"
        ctx.violation("%s: %s with %d threads each driving its own codec objects (seed %d, rc=%d): %s" % (variant, what, n, seed, rc2, err2[-2500:]), replay_text=txt)
        return
    nl = vf.count_lines(out)
    acc, rej, r = vf.validate_seq(ctx, "ParTrace", "ParTrace.cfg", out, "C14 par %s %d" % (variant, seed), heap="3g")
    if acc and r.distinct != nl + 1:
        raise vf.Infra("ParTrace walked %d states for %d events" % (r.distinct, nl))
    ctx.evaluations += nl
    with open(out) as f:
        for ln in f:
            if '"ph":"conc"' in ln:
                e = json.loads(ln)
                if e["op"] in ("encode", "decode", "ms_encode", "ms_decode", "rp_out", "dec_plc", "dec_fec") and e["ret"] > 0:
                    ctx.nontrivial.add(hash((e["op"], e["ret"], e["dg"])))
                if len(ctx.samples) < 4 and e["op"] in ("encode", "ms_decode") and e["seq"] > 20:
                    ctx.sample(dict(variant=variant, threads=n, event=e))
    if acc:
        ctx.traces += n
        return
    ev = vf.file_line(out, rej) if rej and rej > 0 else ""
    if confirm_exe is not None:
        # R4: the schedule is the OS's; what must repeat is the verdict "some thread's concurrent log differs from its solo log"
        res2 = run_par(ctx, confirm_exe, variant, seed, n, rounds, "confirm_%s_%d" % (variant, seed))
        if res2[3] == 0:
            acc2, rej2, r2 = vf.validate_seq(ctx, "ParTrace", "ParTrace.cfg", res2[0], "C14 par confirm", heap="3g")
            if acc2:
                vf.log("note: the rejection did not repeat on a second execution (schedule-dependent): %s" % ev[:300])
    solo = ""
    try:
        e = json.loads(ev)
        with open(out) as f:
            for ln in f:
                if '"ph":"solo"' in ln and '"th":%d,' % e["th"] in ln and '"seq":%d,' % e["seq"] in ln:
                    solo = ln.strip()
    except (ValueError, KeyError):
        pass
    ctx.violation("%s: with %d threads each driving its own codec objects (seed %d) thread output differs from the same program run alone: concurrent %s / alone %s" % (
        variant, n, seed, ev[:400], solo[:400]), replay_text=txt + "# rejected event: " + ev[:1000])


def run(ctx):
    quick = ctx.tier == "quick"
    ctx.rule = ("ObjectsPar_mc: every assignment of well-formed programs (create incl. first-use arch detection, ctl, run, destroy; <= 4 calls; each call two steps) to 2 and 3 "
                "processes and every interleaving, with SharedCells = the inventory of writable symbols and non-reentrant libc references of the prod build's libopus.a; "
                "hx_par: N threads (2-8) started together incl. concurrent first creation, each with objects of its own (encoder, decoder, multistream, repacketizer, float "
                "codec pair), per-thread logs compared by ParTrace with the same programs run alone. non-trivial = distinct (operation, result, digest) of coding calls made "
                "while other threads were running")
    ctx.assumptions = ["TLC 1.8.0 and the CommunityModules Json reader are trusted", "binutils objdump/nm report sections and symbols of the archive faithfully",
                       "the inventory is taken from the `prod` build (baseline flags, x86-64, gcc); another configuration (e.g. NONTHREADSAFE_PSEUDOSTACK, which the property excludes) may differ",
                       "a writable global cell is modelled conservatively: any call may write it with process-dependent data and read it",
                       "executions: the schedules the OS produced; ThreadSanitizer (thorough) sees races only on those schedules"]
    if ctx.replay:
        return replay(ctx)
    # 1. the shared-state inventory of the prod build
    prod = vf.build_variant("prod")
    try:
        inv = inventory.inventory(prod["lib"])
    except RuntimeError as e:
        raise vf.Infra("inventory: " + str(e))
    cells = inventory.cell_names(inv)
    if inv["objects"] < 50:
        raise vf.Infra("inventory saw only %d objects in %s" % (inv["objects"], prod["lib"]))
    ctx.notes["inventory"] = dict(objects=inv["objects"], writable_symbols=inv["cells"], non_reentrant_libc=inv["libc"], nonempty_writable_sections=inv["sections"])
    ctx.notes["SharedCells"] = cells
    vf.log("[inventory] %d objects, %d writable symbols, %d non-reentrant libc references" % (inv["objects"], len(inv["cells"]), len(inv["libc"])))
    kinds = ["enc", "dec"] if quick else ["enc", "dec", "ms", "rp"]
    live = [c for c in cells if known_cell(c) is None]
    for c in cells:
        en = known_cell(c)
        if en is not None:
            ctx.known_finding("%s [cell %s]" % (en["what"], c))
    # 2. the model
    cfg2 = write_cfg(ctx, "ObjectsPar_2.cfg", 2, live, 4, kinds)
    cfg3 = write_cfg(ctx, "ObjectsPar_3.cfg", 3, live, 2 if quick else 3, ["enc"] if quick else ["enc", "dec"])
    cfgw = write_cfg(ctx, "ObjectsPar_w.cfg", 2, ["witness:static_cell"], 3, ["enc"])
    runs = [("2 processes x <= 4 calls", cfg2, True), ("3 processes", cfg3, True), ("witness: one shared cell", cfgw, False)]

    def one(x):
        what, cfg, cov = x
        return x, vf.tlc("ObjectsPar_mc", cfg, workers=6, coverage=cov and not live, timeout=1500, heap="8g", tag="ObjectsPar_" + os.path.basename(cfg))
    interfering = None
    for (what, cfg, cov), r in vf.parallel(one, runs, nproc=3):
        if r.error:
            raise vf.Infra("ObjectsPar_mc %s: %s" % (what, r.error))
        ctx.add_tlc(r, "mc ObjectsPar_mc (%s)" % what)
        vf.log("[mc] %-40s distinct=%d generated=%d depth=%d %s (%.1fs)" % (what, r.distinct, r.generated, r.diameter, "OK" if r.ok else "VIOLATED " + str(r.violation), r.wall))
        if cfg == cfgw:
            if r.violation != "NonInterference":
                raise vf.Infra("vacuity guard: with a shared cell NonInterference must be refuted, TLC said %s" % r.violation)
            continue
        if not live:
            if r.violation:
                raise vf.Infra("ObjectsPar theorem %s violated without shared cells:\n%s" % (r.violation, r.state_dump[:1500]))
            for a in ("Choose", "Begin", "End"):
                if r.coverage.get(a, (0, 0))[0] == 0:
                    raise vf.Infra("ObjectsPar_mc %s: action %s never taken (vacuous)" % (what, a))
        elif r.violation == "NonInterference" and interfering is None:
            interfering = r.state_dump
        elif r.violation is None:
            raise vf.Infra("ObjectsPar_mc %s: shared cells %s but no interference found" % (what, live))
    # 2b. objects the caller has related (byte copies, arena neighbours): module ObjectsRel
    rel = [("related objects: separate blocks", "ObjectsRel_mc_none.cfg", None), ("related objects: byte copy", "ObjectsRel_mc_copy.cfg", None),
           ("related objects: arena neighbours", "ObjectsRel_mc_adjacent.cfg", None),
           ("witness: copy of an object that stores an absolute pointer", "ObjectsRel_mc_w_ptr.cfg", "NonInterference"),
           ("witness: a call clears cells past its own size, neighbour behind", "ObjectsRel_mc_w_over.cfg", "NonInterference")]

    def one_rel(x):
        what, cfg, expect = x
        return x, vf.tlc("ObjectsRel_mc", cfg, workers=2, timeout=600, heap="2g", tag="ObjectsRel_" + cfg)
    for (what, cfg, expect), r in vf.parallel(one_rel, rel, nproc=5):
        if r.error:
            raise vf.Infra("ObjectsRel_mc %s: %s" % (what, r.error))
        ctx.add_tlc(r, "mc ObjectsRel_mc (%s)" % what)
        vf.log("[mc] %-66s distinct=%d %s (%.1fs)" % (what, r.distinct, "OK" if r.ok else "VIOLATED " + str(r.violation), r.wall))
        if r.violation != expect:
            raise vf.Infra("ObjectsRel_mc %s: expected %s, TLC said %s\n%s" % (what, expect, r.violation, (r.state_dump or "")[:1200]))
    if live:
        detail = []
        for c in inv["cells"]:
            detail.append("%s in %s of %s (%d bytes)" % (c["sym"], c["section"], c["obj"], c["size"]))
        for c in inv["libc"]:
            detail.append("call of non-reentrant %s() from %s" % (c["sym"], c["obj"]))
        steps = re.findall(r"State \d+: <(\w+)\((\d+)\)", interfering or "")
        sched = " -> ".join("%s(p%s)" % (a, p) for a, p in steps)
        ctx.violation("the library has writable global state shared by all codec objects: %s. TLC (ObjectsPar_mc, SharedCells = %s) refutes NonInterference with the schedule %s: "
                      "a call of one process reads a cell another process wrote" % ("; ".join(detail)[:1500], live, sched),
                      replay_text="I\n# shared-state inventory of the prod build\n" + json.dumps(dict(cells=inv["cells"], libc=inv["libc"]), indent=1) +
                      "\n# TLC counterexample\n" + (interfering or "")[:5000])
    ctx.exhaustive = True
    ctx.notes["exhaustive_scope"] = "model side: all program assignments and interleavings of 2 processes x <= 4 calls and 3 processes x <= %d calls; implementation side: symbol-level inventory of every object of libopus.a, OS-chosen schedules" % (2 if quick else 3)
    # 3. executions
    exes = {}
    for v in sorted({j[0].partition("+")[0] for j in par_jobs(ctx, quick)}):
        var = vf.build_variant(v)
        exes[v] = vf.build_hx(var, "par.c")
    jobs = par_jobs(ctx, quick)

    def runp(j):
        v, seed, n, rounds = j
        return j, run_par(ctx, exes[v.partition("+")[0]], v, seed, n, rounds, "%s_%d" % (v.replace("+", ""), seed))
    # (one concurrent run at a time per core budget: the runs themselves are multi-threaded)
    res = vf.parallel(runp, jobs, nproc=2 if quick else 3)
    for (v, seed, n, rounds), r in res:
        judge_par(ctx, v, seed, n, rounds, r, confirm_exe=exes[v.partition("+")[0]])
    ctx.notes["concurrent_runs"] = [dict(variant=j[0], seed=j[1], threads=j[2], rounds=j[3]) for j in jobs]


def replay(ctx):
    with open(ctx.replay) as f:
        first = f.readline().split()
    if first and first[0] == "I":
        # an inventory finding: take the inventory again and let TLC decide
        prod = vf.build_variant("prod")
        inv = inventory.inventory(prod["lib"])
        cells = [c for c in inventory.cell_names(inv) if known_cell(c) is None]
        cfg = write_cfg(ctx, "ObjectsPar_2.cfg", 2, cells, 3, ["enc"])
        r = vf.tlc("ObjectsPar_mc", cfg, workers=4, timeout=900)
        if r.error:
            raise vf.Infra(r.error)
        ctx.add_tlc(r, "mc ObjectsPar_mc (replay)")
        ctx.nontrivial_count = 2
        ctx.evaluations = 1
        if r.violation:
            ctx.violation("shared cells %s: NonInterference refuted" % cells, replay_text=open(ctx.replay).read())
        return
    if not first or first[0] != "P" or len(first) < 5:
        raise vf.Infra("replay file must start with 'P <variant> <seed> <threads> <rounds>' or 'I'")
    v, seed, n, rounds = first[1], int(first[2]), int(first[3]), int(first[4])
    var = vf.build_variant(v.partition("+")[0])
    exe = vf.build_hx(var, "par.c")
    # a concurrent execution cannot be replayed exactly: run it several times
    for k in range(5):
        judge_par(ctx, v, seed, n, rounds, run_par(ctx, exe, v, seed, n, rounds, "replay%d" % k))
        if ctx.violations:
            break
    ctx.nontrivial_count = max(2, len(ctx.nontrivial))
    ctx.states = max(ctx.states, 1)
    ctx.transitions = max(ctx.transitions, 1)


META = dict(
    engine="ObjectsPar+ObjectsRel+ParTrace",
    technique=("TLA+ model of processes owning codec objects with the library's writable global cells as a constant taken from a symbol/section inventory of the built archive; "
               "TLC exhaustive over all program assignments and interleavings; concurrent executions of the real library (threads started together incl. first creation) judged "
               "by TLC against solo executions; ThreadSanitizer as monitor in the thorough tier"),
    level_text=("TLC proves on ObjectsPar that with the shared-cell set extracted from the built library (every symbol in a writable section and every reference to a libc function "
                "with hidden state, over all objects of the prod build's libopus.a - empty on the pinned tree) every process's outputs equal its solo outputs under every "
                "interleaving of 2 processes x <= 4 calls and 3 processes x <= 3 calls (each call split into two steps), and refutes it as soon as the set is non-empty (witness run; "
                "a real cell is reported as a violation naming the symbol together with TLC's interfering schedule). Bound to executions: N = 2..8 threads driving encoders, "
                "decoders, multistream objects, repacketizers and float codec pairs of their own, started behind a barrier so that the first library call of the process is "
                "concurrent; TLC (ParTrace) demands that each thread's log of return values and output digests equals the log of the same program run alone in a fresh process; "
                "thorough repeats this under ThreadSanitizer and ASan/UBSan. Pair mode: two threads use objects the caller has related - a byte copy (memcpy of get_size bytes) of another object with history, or neighbours placed back to back in one arena at their get_size sizes - in strict turns and then freely, against the same set-up with only one of them used."),
    level_note=("Trusted: TLC, Json module, binutils. The discriminating step is the inventory, which is symbol-level: memory reached through pointers from two objects (pair mode drives byte copies and arena neighbours in lock step for the object kinds it uses; otherwise none "
                "exists by design: states hold offsets, tables are const) would only be seen by the concurrent runs / TSan on the schedules the OS happened to produce. The inventory "
                "is of the x86-64 gcc prod configuration; NONTHREADSAFE_PSEUDOSTACK builds are outside the property. Thread-local sections are listed as shared cells (conservative)."),
)
