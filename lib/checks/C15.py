"""C15 - optimised (SIMD, run-time dispatched) kernels match the portable C code (modules ArchTwins, ArchTrace)."""
import json, os, random, re, shutil
import vf

LEVEL = "model_checking"

SIMD_SUFFIX = re.compile(r"_(sse|sse2|sse4_1|avx|avx2)$")
# kernels the harness can call and compare (harness/arch.c has a wrapper for each)
KNOWN_SIMD = {"celt_inner_prod_sse2", "celt_inner_prod_sse4_1", "xcorr_kernel_sse4_1", "celt_fir_sse4_1",
              "silk_inner_prod16_sse4_1", "silk_burg_modified_sse4_1", "silk_NSQ_sse4_1", "silk_NSQ_del_dec_sse4_1",
              "silk_NSQ_del_dec_avx2", "silk_VAD_GetSA_Q8_sse4_1", "silk_VQ_WMat_EC_sse4_1", "xcorr_kernel_sse",
              "celt_inner_prod_sse", "dual_inner_prod_sse", "comb_filter_const_sse", "celt_pitch_xcorr_avx2",
              "silk_inner_product_FLP_avx2", "op_pvq_search_sse2"}
KNOWN_TABLES = {"CELT_FIR_IMPL", "XCORR_KERNEL_IMPL", "CELT_INNER_PROD_IMPL", "DUAL_INNER_PROD_IMPL", "COMB_FILTER_CONST_IMPL",
                "PITCH_XCORR_IMPL", "OP_PVQ_SEARCH_IMPL", "SILK_INNER_PROD16_IMPL", "SILK_VAD_GETSA_Q8_IMPL", "SILK_NSQ_IMPL",
                "SILK_VQ_WMAT_EC_IMPL", "SILK_NSQ_DEL_DEC_IMPL", "SILK_BURG_MODIFIED_IMPL", "SILK_INNER_PRODUCT_FLP_IMPL"}

# the thorough tier also runs the whole-codec load on builds with the library's own in-kernel self-checks
EXTRA_VARIANTS = {
    "hkfixca": dict(cc="gcc", cflags="-O2 -g -DOPUS_VERIF", ld="",
                    opts=["-DOPUS_ASSERTIONS=ON", "-DOPUS_FIXED_POINT=ON", "-DOPUS_CHECK_ASM=ON"]),
    "hkca": dict(cc="gcc", cflags="-O2 -g -DOPUS_VERIF", ld="",
                 opts=["-DOPUS_ASSERTIONS=ON", "-DOPUS_CHECK_ASM=ON"]),
}
for _k, _v in EXTRA_VARIANTS.items():
    vf.VARIANTS.setdefault(_k, _v)


def lib_defines(var, src="celt/celt.c"):
    """-D flags (and the -m flags are not needed) the library's own sources were compiled with"""
    txt = open(os.path.join(var["dir"], "build.ninja")).read()
    m = re.search(r"build CMakeFiles/opus\.dir/" + re.escape(src) + r"\.o:.*?\n((?:  .*\n)+)", txt)
    if not m:
        raise vf.Infra("cannot find the compile rule of %s in build.ninja" % src)
    d = re.search(r"DEFINES = (.*)", m.group(1))
    defs = d.group(1).split() if d else []
    return [x for x in defs if not x.startswith("-D_FORTIFY") and x != "-DHAVE_CONFIG_H"]


def lib_symbols(var):
    p = vf.sh(["nm", "--defined-only", var["lib"]], timeout=120)
    simd, tabs = set(), set()
    for ln in p.stdout.splitlines():
        f = ln.split()
        if len(f) != 3:
            continue
        if f[1] in "Tt" and SIMD_SUFFIX.search(f[2]) and f[1] == "T":
            simd.add(f[2])
        if f[2].endswith("_IMPL") and f[1] in "DdRr":
            tabs.add(f[2])
    return simd, tabs


def build_arch(var):
    """hx_arch for a variant: library defines, HAVE_ flags for the kernels and tables present, linker wrappers, and (float
    builds that presume SSE) a second compilation of celt/celt.c that exports the portable comb_filter_const_c under hxref_."""
    defs = lib_defines(var)
    simd, tabs = lib_symbols(var)
    known = sorted(simd & KNOWN_SIMD)
    extra = list(defs) + ["-DHAVE_" + s for s in known] + ["-DHAVE_TAB_" + t for t in sorted(tabs & KNOWN_TABLES)]
    extra += ["-Wl,--wrap=" + s for s in known]
    objs = []
    if "comb_filter_const_sse" in simd:
        o = os.path.join(var["dir"], "hxref_celt.o")
        incs = ["-I" + os.path.join(vf.REPO, p) for p in ("include", "src", "celt", "silk", "")] + ["-I" + var["dir"], "-DHAVE_CONFIG_H"]
        flags = [f for f in var["cflags"].split()]
        vf.sh([var["cc"]] + flags + ["-std=gnu99", "-msse", "-msse2"] + defs + ["-DNON_STATIC_COMB_FILTER_CONST_C"] + incs +
              ["-c", os.path.join(vf.REPO, "celt", "celt.c"), "-o", o + ".tmp.o"], timeout=300)
        p = vf.sh(["nm", "-g", "--defined-only", o + ".tmp.o"], timeout=60)
        mp = o + ".syms"
        with open(mp, "w") as f:
            for ln in p.stdout.splitlines():
                w = ln.split()
                if len(w) == 3:
                    f.write("%s hxref_%s\n" % (w[2], w[2]))
        vf.sh(["objcopy", "--redefine-syms=" + mp, o + ".tmp.o", o], timeout=60)
        objs.append(o)
    exe = vf.build_hx(var, ["arch.c"] + objs, out="arch", extra=extra)
    return exe, dict(simd=sorted(simd), unknown_simd=sorted(simd - KNOWN_SIMD), tables=sorted(tabs), unknown_tables=sorted(tabs - KNOWN_TABLES))
