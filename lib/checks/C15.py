"""C15 - optimised (SIMD, run-time dispatched) kernels match the portable C code (modules ArchTwins, ArchTrace)."""
import json, os, random, re, shutil, threading
import vf

LOCK = threading.RLock()

LEVEL = "model_checking"

SIMD_SUFFIX = re.compile(r"_(sse|sse2|sse4_1|avx|avx2)$")
# kernels the harness can call and compare (harness/arch.c has a wrapper for each)
KNOWN_SIMD = {"celt_inner_prod_sse2", "celt_inner_prod_sse4_1", "xcorr_kernel_sse4_1", "celt_fir_sse4_1",
              "silk_inner_prod16_sse4_1", "silk_burg_modified_sse4_1", "silk_NSQ_sse4_1", "silk_NSQ_del_dec_sse4_1",
              "silk_NSQ_del_dec_avx2", "silk_VAD_GetSA_Q8_sse4_1", "silk_VQ_WMat_EC_sse4_1", "xcorr_kernel_sse",
              "celt_inner_prod_sse", "dual_inner_prod_sse", "comb_filter_const_sse", "celt_pitch_xcorr_avx2",
              "silk_inner_product_FLP_avx2", "op_pvq_search_sse2"}
KNOWN_TABLES = {"CELT_FIR_IMPL", "XCORR_KERNEL_IMPL", "CELT_INNER_PROD_IMPL", "DUAL_INNER_PROD_IMPL", "COMB_FILTER_CONST_IMPL",
                "PITCH_XCORR_IMPL", "OP_PVQ_SEARCH_IMPL", "SILK_INNER_PROD16_IMPL", "SILK_VAD_GETSA_Q8_IMPL", "SILK_NSQ_IMPL",
                "SILK_VQ_WMAT_EC_IMPL", "SILK_NSQ_DEL_DEC_IMPL", "SILK_BURG_MODIFIED_IMPL", "SILK_INNER_PRODUCT_FLP_IMPL"}

# the thorough tier also runs the whole-codec load on builds with the library's own in-kernel self-checks
EXTRA_VARIANTS = {
    "hkfixca": dict(cc="gcc", cflags="-O2 -g -DOPUS_VERIF", ld="",
                    opts=["-DOPUS_ASSERTIONS=ON", "-DOPUS_FIXED_POINT=ON", "-DOPUS_CHECK_ASM=ON"]),
    "hkca": dict(cc="gcc", cflags="-O2 -g -DOPUS_VERIF", ld="",
                 opts=["-DOPUS_ASSERTIONS=ON", "-DOPUS_CHECK_ASM=ON"]),
}
for _k, _v in EXTRA_VARIANTS.items():
    vf.VARIANTS.setdefault(_k, _v)


def lib_defines(var, src="celt/celt.c"):
    """-D flags (and the -m flags are not needed) the library's own sources were compiled with"""
    txt = open(os.path.join(var["dir"], "build.ninja")).read()
    m = re.search(r"build CMakeFiles/opus\.dir/" + re.escape(src) + r"\.o:.*?\n((?:  .*\n)+)", txt)
    if not m:
        raise vf.Infra("cannot find the compile rule of %s in build.ninja" % src)
    d = re.search(r"DEFINES = (.*)", m.group(1))
    defs = d.group(1).split() if d else []
    return [x for x in defs if not x.startswith("-D_FORTIFY") and x != "-DHAVE_CONFIG_H"]


def lib_symbols(var):
    p = vf.sh(["nm", "--defined-only", var["lib"]], timeout=120)
    simd, tabs = set(), set()
    for ln in p.stdout.splitlines():
        f = ln.split()
        if len(f) != 3:
            continue
        if f[1] in "Tt" and SIMD_SUFFIX.search(f[2]) and f[1] == "T":
            simd.add(f[2])
        if f[2].endswith("_IMPL") and f[1] in "DdRr":
            tabs.add(f[2])
    return simd, tabs


def build_arch(var):
    """hx_arch for a variant: library defines, HAVE_ flags for the kernels and tables present, linker wrappers, and (float
    builds that presume SSE) a second compilation of celt/celt.c that exports the portable comb_filter_const_c under hxref_."""
    defs = lib_defines(var)
    simd, tabs = lib_symbols(var)
    known = sorted(simd & KNOWN_SIMD)
    extra = list(defs) + ["-DHAVE_" + s for s in known] + ["-DHAVE_TAB_" + t for t in sorted(tabs & KNOWN_TABLES)]
    extra += ["-Wl,--wrap=" + s for s in known]
    objs = []
    if "comb_filter_const_sse" in simd:
        o = os.path.join(var["dir"], "hxref_celt.o")
        incs = ["-I" + os.path.join(vf.REPO, p) for p in ("include", "src", "celt", "silk", "")] + ["-I" + var["dir"], "-DHAVE_CONFIG_H"]
        flags = [f for f in var["cflags"].split()]
        vf.sh([var["cc"]] + flags + ["-std=gnu99", "-msse", "-msse2"] + defs + ["-DNON_STATIC_COMB_FILTER_CONST_C"] + incs +
              ["-c", os.path.join(vf.REPO, "celt", "celt.c"), "-o", o + ".tmp.o"], timeout=300)
        p = vf.sh(["nm", "-g", "--defined-only", o + ".tmp.o"], timeout=60)
        mp = o + ".syms"
        with open(mp, "w") as f:
            for ln in p.stdout.splitlines():
                w = ln.split()
                if len(w) == 3:
                    f.write("%s hxref_%s\n" % (w[2], w[2]))
        vf.sh(["objcopy", "--redefine-syms=" + mp, o + ".tmp.o", o], timeout=60)
        objs.append(o)
    exe = vf.build_hx(var, ["arch.c"] + objs, out="arch", extra=extra)
    return exe, dict(simd=sorted(simd), unknown_simd=sorted(simd - KNOWN_SIMD), tables=sorted(tabs), unknown_tables=sorted(tabs - KNOWN_TABLES))


# ---------------------------------------------------------------------------------------------------------------
PROVISIONAL = []          # proposed known-finding entries (none: F15, the celt_fir_sse4_1 saturation, is fixed in /repo as 0f002d66)


def known_entries():
    return vf.known_findings("C15") + PROVISIONAL


def match_known(ev):
    """a known-finding key names fields of the rejected event (equality)"""
    for en in known_entries():
        key = en.get("key", {})
        if key and all(ev.get(k) == v for k, v in key.items() if k != "site"):
            return en
    return None


def tables_of(ctx, exe, tag):
    out = ctx.path("tables_%s.ndjson" % tag)
    rc, err = vf.run_hx(exe, ["tables"], out, timeout=120)
    if rc != 0 or vf.count_lines(out) == 0:
        raise vf.Infra("hx_arch tables failed (%s): %s" % (tag, err[-500:]))
    return out


def gen_histories(ctx, cfg):
    """histories (settings x run tokens) enumerated by TLC from ArchTwins_mc with Track = FALSE"""
    r = vf.tlc("ArchTwins_mc", cfg, workers=4, timeout=900, env={"TABLES": ctx.tab["hkfixo"]}, heap="6g")
    if r.error:
        raise vf.Infra("ArchTwins gen: " + r.error)
    ctx.add_tlc(r, "gen ArchTwins_mc/" + cfg)
    hs = []
    for p in r.prints:
        if not p.startswith('<<"HIST"'):
            continue
        nums = re.findall(r"-?\d+", p.split('", "')[1])
        toks = re.findall(r'\\"([olfs])\\"', p.split('", "')[2])
        if len(nums) == 7 and toks:
            hs.append((tuple(int(x) for x in nums), tuple(toks)))
    if not hs:
        raise vf.Infra("ArchTwins gen emitted no history")
    return hs


def sample_histories(hs, n, rng):
    """stratified by (application, Fs, complexity, FEC): the same number from every class, in a seeded order"""
    groups = {}
    for h in hs:
        s = h[0]
        groups.setdefault((s[0], s[1], s[3], s[5]), []).append(h)
    keys = sorted(groups)
    for k in keys:
        rng.shuffle(groups[k])
    out, i = [], 0
    while len(out) < n and any(groups[k] for k in keys):
        for k in keys:
            if groups[k] and len(out) < n:
                out.append(groups[k].pop())
        i += 1
    rng.shuffle(out)
    return out


BITRATES = [8000, 12000, 16000, 24000, 32000, 64000, 96000, 128000]


def history_line(i, h, rng):
    (app, fs, ch, cx, br, fec, dq), toks = h
    br2 = rng.choice([b for b in BITRATES if b != br])
    vbr = rng.choice([0, 1, 1, 2])
    run = max(2, min(40, int(round(200.0 / dq))))          # runs of about 100 ms
    if rng.random() < 0.3:
        run = max(2, run // 2)
    # signal family: 0 speech-like; 1 full-scale square waves, 2 hard-clipped noise, 3 alternating +-32767 at Nyquist/2 and /4 (they drive
    # band energies into saturation); 4 float input with NaN / Inf / huge samples (float build only, speech-like elsewhere)
    u = rng.random()
    sig = 0 if u < 0.72 else 1 if u < 0.79 else 2 if u < 0.86 else 3 if u < 0.93 else 4
    return "H %d %d %d %d %d %d %d %d %d %d %d %d %d | %s" % (i, app, fs, ch, cx, br, br2, fec, dq, vbr, run, rng.randrange(1, 1 << 30), sig, " ".join(toks))


# hand-written histories: long streams, several switches, loss bursts, every duration with SILK-only / hybrid / CELT-only rates
def directed_lines(start):
    out = []
    i = start
    for (app, fs, ch, cx, br, br2, fec, dq, vbr, run, toks) in [
            (2048, 16000, 1, 0, 16000, 24000, 1, 40, 1, 10, "o l o f o s o l l o"),
            (2048, 16000, 1, 1, 20000, 12000, 0, 40, 1, 10, "o o l o s o"),
            (2048, 8000, 1, 2, 12000, 6000, 1, 120, 1, 4, "o f o l o s o f"),
            (2048, 12000, 2, 10, 24000, 40000, 1, 80, 0, 5, "o l o f s o o"),
            (2048, 48000, 2, 10, 32000, 96000, 1, 40, 1, 10, "o s o l o s o f o"),
            (2048, 48000, 1, 8, 24000, 64000, 0, 20, 2, 20, "o l s o f o"),
            (2049, 48000, 2, 10, 128000, 24000, 0, 40, 1, 10, "o l o s o l o s o"),
            (2049, 48000, 2, 5, 64000, 16000, 0, 5, 1, 40, "o l o s o"),
            (2049, 24000, 1, 9, 48000, 12000, 1, 10, 0, 20, "o f o s o l"),
            (2051, 48000, 2, 10, 96000, 32000, 0, 20, 1, 20, "o l l o s o"),
            (2051, 48000, 1, 0, 64000, 510000, 0, 120, 1, 4, "o l o s o l"),
            (2049, 48000, 2, 10, 510000, 6000, 0, 40, 0, 8, "o s o l o"),
            (2048, 24000, 2, 6, 18000, 30000, 1, 120, 2, 4, "o f s o f o l o"),
            (2048, 16000, 2, 3, 14000, 36000, 1, 40, 1, 12, "o s o s o s o l f o")]:
        out.append("H %d %d %d %d %d %d %d %d %d %d %d %d 0 | %s" % (i, app, fs, ch, cx, br, br2, fec, dq, vbr, run, 1000 + i, toks))
        i += 1
    # sustained extreme signals (>= 30 frames of 20 ms; 10 ms and 60 ms too) on the speech layer at 8/12/16 kHz internal rate and on the
    # transform layer: full-scale square waves, hard-clipped noise, alternating +-32767; float input with NaN / Inf / huge samples
    for (app, fs, ch, cx, br, br2, dq, run) in [(2048, 16000, 1, 10, 24000, 32000, 40, 10), (2048, 16000, 1, 0, 20000, 16000, 40, 10),
                                                  (2048, 12000, 1, 5, 18000, 24000, 40, 10), (2048, 48000, 1, 8, 20000, 28000, 40, 10),
                                                  (2048, 16000, 2, 2, 30000, 40000, 40, 10), (2049, 16000, 1, 10, 16000, 24000, 40, 10),
                                                  (2048, 8000, 1, 10, 12000, 16000, 40, 10), (2048, 16000, 1, 7, 24000, 20000, 120, 4),
                                                  (2048, 24000, 1, 9, 22000, 26000, 20, 20), (2049, 48000, 2, 10, 96000, 64000, 40, 8),
                                                  (2051, 48000, 1, 5, 64000, 128000, 10, 30)]:
        for sig in (1, 2, 3, 4):
            out.append("H %d %d %d %d %d %d %d 0 %d 1 %d %d %d | o o o s o" % (i, app, fs, ch, cx, br, br2, dq, run, 2000 + i, sig))
            i += 1
    return out


def sig0(line):
    """the same history with the speech-like signal family"""
    head, bar, toks = line.partition("|")
    f = head.split()
    if len(f) >= 14:
        f[13] = "0"
    return " ".join(f) + " |" + toks


class Job:
    def __init__(self, variant, exe, kind, name, args=None, lines=None):
        self.variant, self.exe, self.kind, self.name, self.args, self.lines = variant, exe, kind, name, args or [], lines
        self.rc, self.err, self.out, self.kout, self.inp = None, "", None, None, None


def run_job(ctx, j):
    j.out = ctx.path("%s_%s.ndjson" % (j.variant, j.name))
    j.kout = ctx.path("%s_%s_k.ndjson" % (j.variant, j.name))
    if j.kind == "twins":
        j.inp = ctx.path("%s_%s.txt" % (j.variant, j.name))
        with open(j.inp, "w") as f:
            f.write("\n".join(j.lines) + "\n")
        j.rc, j.err = vf.run_hx(j.exe, ["twins", j.kout], j.out, stdin_path=j.inp, timeout=3000)
    else:
        j.rc, j.err = vf.run_hx(j.exe, ["kern"] + j.args + [j.kout], j.out, timeout=3000)
    return j


def replay_text_of(j, ev_line=None, hist_id=None):
    if j.kind == "kern":
        return "K %s %s\n" % (j.variant, " ".join(str(a) for a in j.args))
    ln = [x for x in j.lines if hist_id is None or x.split()[1] == str(hist_id)]
    return "V %s\n%s\n" % (j.variant, "\n".join(ln if ln else j.lines))


def judge_file(ctx, j, path, what):
    """TLC judges one event file; returns (accepted, rejected line number, event dict or None)"""
    n = vf.count_lines(path)
    if n == 0:
        return True, None, None
    acc, rej, r = vf.validate_seq(ctx, "ArchTrace", "ArchTrace.cfg", path, what, heap="3g")
    if acc and r.distinct != n + 1:
        raise vf.Infra("%s: TLC walked %d states for %d events" % (what, r.distinct, n))
    ev = None
    if not acc and rej and rej > 0:
        try:
            ev = json.loads(vf.file_line(path, rej))
        except ValueError:
            ev = None
    return acc, rej, ev


def drop_line(path, n):
    """remove line n (a tolerated known finding) so that the rest of the file can be judged"""
    with open(path) as f:
        lines = f.readlines()
    del lines[n - 1]
    with open(path, "w") as f:
        f.writelines(lines)


def hist_of(path, lineno):
    hid = None
    with open(path) as f:
        for i, ln in enumerate(f, 1):
            if ln.startswith('{"k":"new"'):
                hid = json.loads(ln)["id"]
            if i >= lineno:
                break
    return hid


def scan(ctx, j):
    """measured evidence: events, histories, distinct non-trivial cases, calibration figures"""
    nh = 0
    for path in (j.out, j.kout):
        if not path or not os.path.exists(path):
            continue
        cur = None
        with open(path) as f:
            for ln in f:
                ctx.evaluations += 1
                try:
                    e = json.loads(ln)
                except ValueError:
                    continue
                k = e.get("k")
                if k == "new":
                    cur = e
                    nh += 1
                    if e.get("sig"):
                        OBS["extreme_signal_histories"] += 1
                    if e["top"] >= 3:
                        ctx.nontrivial.add(hash(("h", j.variant, ln)))
                elif k == "kc":
                    ctx.nontrivial.add(hash(("k", e["impl"], e["fx"], e["mode"], tuple(e["shape"]))))
                    o = OBS["kernels"].setdefault("%s/%s" % (e["impl"], "fix" if e["fx"] else "flt"), dict(cases=0, worst_r_over_bound_permille=0))
                    o["cases"] += 1
                    if e.get("cls") == "flt" and e.get("nf"):
                        OBS["float_kernel_cases_with_nonfinite_data"] += 1
                    elif e.get("cls") == "flt":
                        b = 2 * e["n"] + 4
                        o["worst_r_over_bound_permille"] = max(o["worst_r_over_bound_permille"], int(1000 * e["r"] / b))
                    elif e.get("cls") == "pvq" and e["deg"] == 1:
                        OBS["pvq_degenerate_cases"] += 1
                        OBS["pvq_degenerate_projected_cases"] += e["proj"]
                        OBS["pvq_degenerate_unprojected_vectors_differ"] += 0 if (e["same"] or e["proj"]) else 1
                    elif e.get("cls") == "pvq" and not e["deg"]:
                        o["worst_r_over_bound_permille"] = max(o["worst_r_over_bound_permille"], int(1000 * max(0, e["qc"] - e["qs"]) / 100000))
                        OBS["pvq_worst_quality_loss_ppm"] = max(OBS["pvq_worst_quality_loss_ppm"], e["qc"] - e["qs"])
                        OBS["pvq_cases"] += 1
                        OBS["pvq_vectors_differ"] += 0 if e["same"] else 1
                elif k == "is":
                    s = OBS["insitu"].setdefault("%s/%s/%s" % (e["impl"], "fix" if e["fx"] else "flt", e["mode"]), dict(compared=0, differ=0))
                    s["compared"] += e["cmp"]
                    s["differ"] += e["neq"]
                elif k == "dec":
                    if cur is not None and cur["fx"] == 0:
                        if e["clean"]:
                            OBS["float_pcm_max_diff_clean_16bit_units"] = max(OBS["float_pcm_max_diff_clean_16bit_units"], e["mx"])
                        else:
                            OBS["float_pcm_max_diff_lossy_16bit_units"] = max(OBS["float_pcm_max_diff_lossy_16bit_units"], e["mx"])
                elif k == "reach":
                    r = REACH.setdefault((e["impl"], e["fx"]), [0] * 5)
                    for i in range(5):
                        r[i] += e["calls"][i]
                elif k == "cov":
                    TOP[e["fx"]] = e["top"]
                if k == "enc" and len(ctx.samples) < 3 and e["lv"] == 4:
                    ctx.sample(dict(variant=j.variant, settings={x: cur[x] for x in cur if x != "k"} if cur else None, event=e))
                if k == "kc" and len(ctx.samples) < 6 and e["mode"] == "situ" and e["impl"].startswith("silk_NSQ"):
                    ctx.sample(dict(variant=j.variant, event=e))
    return nh


OBS = dict(kernels={}, insitu={}, pvq_worst_quality_loss_ppm=0, pvq_cases=0, pvq_vectors_differ=0, pvq_degenerate_cases=0,
           pvq_degenerate_projected_cases=0, pvq_degenerate_unprojected_vectors_differ=0, float_kernel_cases_with_nonfinite_data=0, extreme_signal_histories=0,
           float_pcm_max_diff_clean_16bit_units=0, float_pcm_max_diff_lossy_16bit_units=0)
REACH = {}
TOP = {}


def judge_job(ctx, j, confirm=True):
    """judge everything one harness run recorded; report violations / known findings"""
    if j.rc != 0:
        last = ""
        try:
            with open(j.out) as f:
                for ln in f:
                    if ln.startswith('{"k":"new"'):
                        last = ln.strip()
        except OSError:
            pass
        hid = json.loads(last)["id"] if last else None
        with LOCK:
          ctx.violation("hx_arch %s/%s aborted rc=%d (sanitizer / assertion incl. the library's own OPUS_CHECK_ASM self-checks / hang)%s: %s" % (
            j.variant, j.name, j.rc, " in history %s" % last[:300] if last else "", j.err[-1500:]), replay_text=replay_text_of(j, hist_id=hid))
        return 0
    with LOCK:
        nh = scan(ctx, j)
    bad_hist = 0
    for path, what in ((j.out, "C15 %s %s" % (j.variant, j.name)), (j.kout, "C15 %s %s kernels" % (j.variant, j.name))):
        if not os.path.exists(path):
            continue
        guard = 0
        while True:
            guard += 1
            acc, rej, ev = judge_file(ctx, j, path, what)
            if acc:
                break
            if ev is None or guard > 40:
                raise vf.Infra("%s: rejected without an event (line %s)" % (what, rej))
            if ev.get("k") == "cov":
                # coverage is judged over all runs together (see coverage()); a single chunk may miss a kernel
                drop_line(path, rej)
                continue
            en = match_known(ev)
            if en is not None:
                with LOCK:
                    ctx.kf_count[en.get("id", "?")] = ctx.kf_count.get(en.get("id", "?"), 0) + 1
                    ctx.kf_example.setdefault(en.get("id", "?"), (en, ev, replay_text_of(j, hist_id=hist_of(path, rej) if ev.get("k") == "dec" else None)))
                drop_line(path, rej)
                continue
            hid = hist_of(path, rej) if ev.get("k") in ("enc", "dec") else None
            txt = replay_text_of(j, hist_id=hid)
            what2 = describe(ev, j)
            if confirm and not repeatable(ctx, txt, ev):
                raise vf.Infra("rejection not repeatable: " + what2[:600])
            with LOCK:
                ctx.violation(what2, replay_text=txt + "# rejected event: " + json.dumps(ev)[:2000])
            bad_hist += 1
            break
    with LOCK:
        ctx.traces += max(0, nh - bad_hist) if j.kind == "twins" else (0 if bad_hist else 1)
    return nh


def describe(ev, j):
    k = ev.get("k")
    if k == "kc":
        return "kernel %s (%s build, %s arguments, shape %s) does not match the portable C kernel %s_c: %s" % (
            ev["impl"], "fixed-point" if ev["fx"] else "float", "synthetic" if ev["mode"] == "syn" else "codec-passed", ev["shape"], ev["kern"],
            json.dumps({x: ev[x] for x in ev if x not in ("k", "kern", "impl", "fx", "mode", "shape")}))
    if k == "is":
        return "kernel %s: %d of %d in-situ calls gave a result different from the portable C kernel (%s)" % (ev["impl"], ev["neq"], ev["cmp"], json.dumps(ev))
    if k == "enc":
        return "%s: encoder twin at arch level %d produced different packets / final ranges than a twin at a level from which it may differ only in integer kernels: %s" % (j.variant, ev["lv"], json.dumps(ev))
    if k == "dec":
        return "%s: decoder twin at arch level %d differs (final range / PCM) from a twin at another level for the same packets: %s" % (j.variant, ev["lv"], json.dumps(ev))
    return "%s: event rejected by ArchTrace: %s" % (j.variant, json.dumps(ev)[:800])


_rep = [0]


def repeatable(ctx, txt, ev):
    """R4: run the recorded case once more; TLC must reject it again"""
    _rep[0] += 1
    j = job_from_replay(ctx, txt, "confirm%d" % _rep[0])
    run_job(ctx, j)
    if j.rc != 0:
        return True
    for path in (j.out, j.kout):
        acc, rej, e2 = judge_file(ctx, j, path, "C15 confirm")
        while not acc and e2 is not None and e2.get("k") == "cov":
            drop_line(path, rej)
            acc, rej, e2 = judge_file(ctx, j, path, "C15 confirm")
        if not acc:
            return True
    return False


_exe = {}


def exe_for(variant):
    if variant not in _exe:
        var = vf.build_variant(variant)
        _exe[variant] = build_arch(var) + (var,)
    return _exe[variant][0]


def job_from_replay(ctx, txt, name):
    first = txt.split("\n", 1)[0].split()
    if first and first[0] == "K" and len(first) >= 4:
        return Job(first[1], exe_for(first[1]), "kern", name, args=[first[2], first[3]])
    if first and first[0] == "V" and len(first) >= 2:
        lines = [ln for ln in txt.split("\n")[1:] if ln.startswith("H ")]
        return Job(first[1], exe_for(first[1]), "twins", name, lines=lines)
    raise vf.Infra("replay file must start with 'V <variant>' (histories follow) or 'K <variant> <seed> <n>'")


def coverage(ctx):
    """vacuity guard, judged by TLC (ArchTrace!CovOK) over the summed reach counters of all whole-codec runs"""
    for fx, tag in ((1, "hkfixo"), (0, "hko")):
        if fx not in TOP:
            continue
        p = ctx.path("coverage_%d.ndjson" % fx)
        with open(p, "w") as f:
            for ln in open(ctx.tab[tag]):
                if '"?"' in ln:
                    ctx.spec_drift("ArchTwins", "dispatch table row with an implementation the harness cannot name (not bound, left out of the coverage guard): " + ln.strip())
                    continue
                f.write(ln)
            for (impl, x), calls in sorted(REACH.items()):
                if x == fx:
                    f.write(json.dumps(dict(k="reach", impl=impl, fx=fx, calls=calls)) + "\n")
            f.write(json.dumps(dict(k="cov", fx=fx, top=TOP[fx])) + "\n")
        acc, rej, r = vf.validate_seq(ctx, "ArchTrace", "ArchTrace.cfg", p, "C15 coverage fx=%d" % fx)
        if not acc:
            raise vf.Infra("vacuous run: an implementation selected by a dispatch table at a level <= %d was never reached by the whole-codec load "
                           "(%s build): tables %s reach %s" % (TOP[fx], "fixed" if fx else "float", open(ctx.tab[tag]).read()[:1500],
                                                               {k[0]: v for k, v in REACH.items() if k[1] == fx}))
        ctx.notes.setdefault("reach_calls_per_level", {})["fixed" if fx else "float"] = {k[0]: v for k, v in sorted(REACH.items()) if k[1] == fx}


def model_runs(ctx, quick):
    """the design theorems on the tables of the library under test, and the witnesses (vacuity guards)"""
    cfg = "ArchTwins_mc_quick.cfg" if quick else "ArchTwins_mc_thorough.cfg"
    jobs = [("fixed tables", cfg, ctx.tab["hkfixo"], None), ("float tables", cfg, ctx.tab["hko"], None),
            ("witness deviant silk_NSQ_sse4_1, float tables", "ArchTwins_mc_w_nsq.cfg", ctx.tab["hko"], "TwinEquiv"),
            ("witness deviant silk_NSQ_del_dec_avx2, fixed tables", "ArchTwins_mc_w_avx2.cfg", ctx.tab["hkfixo"], "TwinEquiv")]

    def one(jb):
        what, c, tab, expect = jb
        return jb, vf.tlc("ArchTwins_mc", c, workers=4, env={"TABLES": tab}, timeout=1500, heap="6g", tag="ArchTwins_" + what.replace(" ", "_").replace(",", ""))
    for (what, c, tab, expect), r in vf.parallel(one, jobs, nproc=4):
        if r.error and "TablesWellTyped" in r.error:
            r.violation, r.error = "TablesWellTyped", None         # violated in the initial state: TLC words it as an error
        if r.error:
            raise vf.Infra("ArchTwins_mc %s: %s" % (what, r.error))
        ctx.add_tlc(r, "mc ArchTwins_mc/%s (%s)" % (c, what))
        vf.log("[mc] %-58s distinct=%d %s (%.1fs)" % (what, r.distinct, "OK" if r.ok else "VIOLATED " + str(r.violation), r.wall))
        rows_ = [json.loads(x) for x in open(tab)]
        sfx = ("_c", "_sse", "_sse2", "_sse4_1", "_avx2")
        ill = [(rw["kern"], lv, im) for rw in rows_ for lv, im in enumerate(rw["impl"]) if im != "?" and im not in [rw["kern"] + x for x in sfx]]
        if ill and (r.violation in ("TwinEquiv", "FixedAllEqual", "TablesWellTyped") or (expect is not None and r.violation != expect)):
            # an entry that selects an implementation of a different kernel: the model treats it as a deviant implementation and TLC
            # refutes twin equivalence on the tables of THIS build; the verdict is left to the twin executions (R1)
            ctx.spec_drift("ArchTwins", "dispatch table entry selects an implementation of a different kernel (kernel, level, symbol) %s: TLC (%s) reports %s on the tables of this build" % (ill[:6], what, r.violation))
            continue
        if expect is None and r.violation == "TablesKnown":
            ctx.spec_drift("ArchTwins", "a dispatch table of the library names a kernel the spec does not classify: " + open(tab).read()[:1200])
        elif expect is None and r.violation:
            raise vf.Infra("ArchTwins theorem %s violated on %s:\n%s" % (r.violation, what, r.state_dump[:1500]))
        elif expect is not None and r.violation != expect:
            top = 4
            rows = [json.loads(x) for x in open(tab)]
            # the witness needs the deviant implementation to be in the tables at all
            name = "silk_NSQ_sse4_1" if "nsq" in c else "silk_NSQ_del_dec_avx2"
            if any(name in rw["impl"] for rw in rows):
                raise vf.Infra("vacuity guard: %s should violate %s but TLC reported %s" % (what, expect, r.violation))


def run(ctx):
    quick = ctx.tier == "quick"
    ctx.kf_count, ctx.kf_example = {}, {}
    ctx.rule = ("ArchTwins_mc: TLC checks twin equivalence for every history of the settings grid x run patterns and every pair of arch levels on the dispatch "
                "tables read from the built library (fixed-point and float), with witnesses that a deviant integer kernel breaks it. Implementation: "
                "TLC-enumerated histories (stratified seeded sample + directed ones) are replayed with one encoder and two decoders per arch level 0..4 "
                "(OPUS_VERIF_ARCH_CAP); every run of frames is judged by ArchTrace (packets+final ranges, decoder final ranges, PCM); every SIMD kernel "
                "is wrapped at link time and compared in situ with its portable C kernel on the codec's own arguments, and on synthetic shapes. "
                "non-trivial = distinct replayed histories on a CPU with at least SSE4.1 + distinct (implementation, argument shape) kernel cases")
    ctx.assumptions = ["TLC 1.8.0 and the CommunityModules Json reader are trusted",
                       "x86-64 builds presume SSE and SSE2: in the float build xcorr_kernel/celt_inner_prod/dual_inner_prod/comb_filter_const (SSE) and op_pvq_search (SSE2) run at "
                       "every arch level; they are compared with the portable C kernels at kernel level only (whole-codec twins cannot tell them apart)",
                       "arch levels above what this CPU supports cannot be exercised (top level recorded in the evidence)",
                       "integer kernels with structured arguments (NSQ, delayed-decision NSQ, LTP codebook search, Burg) are compared on the arguments the codec passes "
                       "during the replayed histories, not on synthetic ones; the VAD is also driven synthetically (9 signal families up to digital full scale, 8/12/16 kHz, "
                       "10/20 ms, state carried over >= 26 frames)",
                       "signal families of the replayed histories: speech-like, full-scale square waves, hard-clipped noise, alternating +-32767 at Nyquist/2 and /4 (sustained), and - "
                       "float build - float input with NaN / Inf / huge samples; the sanitizer builds replay the speech-like family only (UBSan stops in portable code outside the "
                       "dispatched kernels on full-scale hard-clipped input, e.g. src/analysis.c:152, which is not a C15 clause)",
                       "float kernels on non-finite data (NaN / Inf terms): nothing is demanded (reassociation error is undefined); PVQ search on degenerate vectors: K pulses always, and "
                       "exactly the portable codeword when the kernels project (K > N/2)",
                       "float tolerance: |SIMD - C| <= (2n+4) * 2^-24 * sum|terms| (worst-case reassociation bound; the recursive in-place comb filter is measured against the largest term of the call over N/T+1 periods); PVQ search: K pulses and energy exact, "
                       "match with the input at most 0.1 lower than the portable vector's (calibrated, R3: worst observed 0.032 over the thorough tier); no tolerance is asserted on float-build PCM between levels that differ in float kernels "
                       "(the measured maximum is recorded)"]
    if ctx.replay:
        return replay(ctx)
    rng = random.Random(ctx.seed)
    # 1. builds and dispatch tables
    variants = ["hkfixo", "hko"] + ([] if quick else ["hkfix", "hk", "hkfixca", "hkca"])
    for v in variants:
        exe_for(v)
    ctx.tab = {v: tables_of(ctx, exe_for(v), v) for v in ("hkfixo", "hko")}
    for v in variants:
        info = _exe[v][1]
        if info["unknown_simd"] or info["unknown_tables"]:
            ctx.spec_drift("ArchTwins", "%s: kernels/tables in libopus.a that the harness does not bind: %s %s" % (v, info["unknown_simd"], info["unknown_tables"]))
    ctx.notes["kernels_bound"] = {v: _exe[v][1]["simd"] for v in ("hkfixo", "hko")}
    ctx.notes["dispatch_tables"] = {v: [json.loads(x) for x in open(ctx.tab[v])] for v in ("hkfixo", "hko")}
    # 2. behaviours
    hs = gen_histories(ctx, "ArchTwins_gen_quick.cfg" if quick else "ArchTwins_gen_thorough.cfg")
    ctx.notes["histories_enumerated"] = len(hs)
    nsample = 320 if quick else 4800
    picked = sample_histories(hs, nsample, rng)
    lines = [history_line(i + 1, h, rng) for i, h in enumerate(picked)]
    lines += directed_lines(len(lines) + 1)
    ndirected = len(directed_lines(1))
    ctx.notes["histories_replayed_per_build"] = len(lines)
    jobs = []
    nchunk = 4 if quick else 10
    per = (len(lines) + nchunk - 1) // nchunk
    for v in ("hkfixo", "hko"):
        for c in range(nchunk):
            part = lines[c * per:(c + 1) * per]
            if part:
                jobs.append(Job(v, exe_for(v), "twins", "tw%02d" % c, lines=part))
        nk = 2 if quick else 6
        for c in range(nk):
            jobs.append(Job(v, exe_for(v), "kern", "kern%02d" % c, args=[ctx.seed + 17 * c + (0 if v == "hko" else 5), 1500 if quick else 8000]))
    if not quick:
        # sanitizer builds: synthetic shapes on exact-size heap blocks (out-of-contract accesses of a SIMD kernel are ASan reports) and a smaller whole-codec load;
        # OPUS_CHECK_ASM builds: the library's own in-kernel self-checks (assertions) under the whole-codec load
        # (speech-like signals only: with full-scale hard-clipped input the UBSan builds stop in portable code that has nothing to do with the
        #  dispatched kernels - e.g. a signed 64-bit overflow in src/analysis.c silk_resampler_down2_hp, fixed-point build - which is not a C15 clause)
        sub = [sig0(x) for x in lines[:300] + lines[-ndirected:]]
        for v in ("hkfix", "hk"):
            for c in range(4):
                jobs.append(Job(v, exe_for(v), "twins", "tw%02d" % c, lines=sub[c::4]))
                jobs.append(Job(v, exe_for(v), "kern", "kern%02d" % c, args=[ctx.seed + 1000 + c, 4000]))
        sub = lines[:1200] + lines[-ndirected:]
        for v in ("hkfixca", "hkca"):
            for c in range(4):
                jobs.append(Job(v, exe_for(v), "twins", "tw%02d" % c, lines=sub[c::4]))
    # 3. the design (in parallel with the executions)
    from concurrent.futures import ThreadPoolExecutor
    with ThreadPoolExecutor(max_workers=2) as ex:
        fm = ex.submit(model_runs, ctx, quick)
        done = vf.parallel(lambda j: run_job(ctx, j), jobs, nproc=8)
        fm.result()
    ctx.exhaustive = True
    ctx.notes["exhaustive_scope"] = ("model side: every history of the grid x every pair of levels on the library's real dispatch tables; implementation side: sampled histories, "
                                     "all levels the CPU has")
    # 4. judgement (TLC runs in parallel; the shared counters are updated under a lock)
    res = vf.parallel(lambda j: judge_job(ctx, j), done, nproc=8)
    ctx.notes["histories_run"] = sum(res)
    for fid, n in ctx.kf_count.items():
        en, ev, rp = ctx.kf_example[fid]
        ctx.known_finding("%s [rejected in %d event files, e.g. %s | replay: %s]" % (en["what"], n, json.dumps(ev)[:300], rp.replace("\n", " ; ")[:300]))
    if not ctx.violations:
        coverage(ctx)
    ctx.notes["cpu_top_level"] = TOP
    ctx.notes["observed"] = OBS
    ctx.notes["tolerances"] = dict(FltBound="2n+4 (in-place comb filter: n = 8 (N/T+1), against the largest term of the call)", PvqTol_ppm=100000)


def replay(ctx):
    with open(ctx.replay) as f:
        txt = f.read()
    j = job_from_replay(ctx, txt, "replay")
    ctx.tab = {}
    run_job(ctx, j)
    n = judge_job(ctx, j, confirm=False)
    for fid, k in ctx.kf_count.items():
        ctx.known_finding(ctx.kf_example[fid][0]["what"])
    ctx.nontrivial_count = max(2, len(ctx.nontrivial))
    ctx.states = max(ctx.states, 1)
    ctx.transitions = max(ctx.transitions, 1)


META = dict(
    engine="ArchTwins+ArchTrace",
    technique=("TLA+ model of codec objects with an unobservable arch component over the dispatch tables read from the built library; TLC exhaustive twin-equivalence over "
               "TLC-enumerated histories x all pairs of levels; histories replayed through real encoders/decoders at arch levels 0..4 (hook H1) and judged by TLC; "
               "every SIMD kernel wrapped at link time and compared with its portable C kernel in situ and on synthetic shapes, judged by TLC"),
    level_text=("TLC proves on ArchTwins, for the run-time dispatch tables extracted from the library under test (fixed-point and float builds), that twins at arch levels whose "
                "table rows differ only in integer kernels are indistinguishable for every history of the settings grid (application x Fs x channels x complexity x bitrate x FEC x "
                "duration x loss/FEC/switch patterns) and every pair of levels, and that a deviant integer kernel breaks this (witness runs). The model is bound to libopus by "
                "replaying TLC-enumerated histories with twins at levels 0..4: in the fixed-point build packets, final ranges and decoded PCM must be identical at every level; in the "
                "float build the same holds between levels that differ only in integer kernels (0..3 here), and decoder final ranges are identical at every level; every table entry must select an implementation of its own row's kernel (WellTyped), else it counts as a deviant implementation. Kernel level: "
                "each SIMD kernel symbol of libopus.a is intercepted at link time; on every call the codec makes, and on seeded synthetic shapes, the SIMD result and the portable C "
                "result are recorded and TLC demands bit-identity for integer kernels and the reassociation bound for float kernels."),
    level_note=("Trusted: TLC, the Json module, the harness's difference measurement for float kernels. NOT covered: kernel equivalence over all argument shapes (only the shapes "
                "the replayed histories and the synthetic driver produce); NSQ / delayed-decision NSQ / LTP search / VAD / Burg only on codec-passed arguments; float kernels only up to the "
                "stated bounds and only on finite data; the PVQ search kernel uses reciprocal-square-root estimates, so its pulse vector may legitimately differ and only K pulses, energy and a calibrated "
                "quality margin are demanded; in x86-64 float builds SSE/SSE2 kernels are presumed at compile time, so arch levels 0-2 are the same code and a deviant AVX2 integer kernel "
                "is visible to whole-codec twins only in the fixed-point build (TLC shows this on the model); levels above the host CPU's are not exercised; NaN/Inf inputs to float "
                "kernels are not driven; ARM/MIPS dispatch is out of scope."),
)
