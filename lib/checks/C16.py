"""C16 - packet extensions round-trip through generate, parse and repacketize (modules Ext, ExtIter)."""
import json, os, re
import vf

LEVEL = "model_checking"

# No finding is tolerated here: the repacketizer obligation is unconditional (every out_range, including ranges that cut
# through an input packet, must carry exactly the extensions of the selected audio frames, each on output frame i - begin).
# Entries of known_findings.json for C16, if the coordinator ever adds one, are matched by the generic key test below.


def rp_cuts_packet(ev):
    """classification of the *inputs* of an rp event (a measured statistic, not a judgement): does [b, e) cut an input packet?"""
    bounds = {0}
    t = 0
    for p in ev["in"]:
        if p["cat"] != 0:      # a refused packet adds no frames
            continue
        t += p["m"]
        bounds.add(t)
    return ev["b"] not in bounds or ev["e"] not in bounds


_re_cnt = re.compile(r'"cnt":(\d+)')
_re_S = re.compile(r'"S":(-?\d+)')
_re_op1 = re.compile(r'\[\d+,-?\d+,1,')


def scan(ctx, path, stats):
    """count events, distinct non-trivial ones, and a few measured facts about what the library returned"""
    n = 0
    seen = ctx.nontrivial
    with open(path) as f:
        for ln in f:
            n += 1
            k = ln[6:ln.find('"', 6)]
            stats[k] = stats.get(k, 0) + 1
            if k == "parse":
                m = _re_cnt.search(ln)
                c = int(m.group(1)) if m else 0
                inv = '"r":-4' in ln
                if inv:
                    stats["parse_invalid"] = stats.get("parse_invalid", 0) + 1
                if c >= 2 or (inv and c >= 1):
                    seen.add(hash(ln[:ln.find(',"cnt"')]))
                i, j = ln.find('"ex":'), ln.find('"pe":')
                if i > 0 and j > 0:
                    ex = ln[i + 5:ln.find(']]', i) + 2] if ln[i + 5:i + 7] != '[]' else '[]'
                    pe = ln[j + 5:ln.find(']]', j) + 2] if ln[j + 5:j + 7] != '[]' else '[]'
                    if ex != pe:      # bitstream order differs from frame order: a repeat took effect
                        stats["parse_reordered_by_repeat"] = stats.get("parse_reordered_by_repeat", 0) + 1
            elif k in ("gen", "rt"):
                m = _re_S.search(ln)
                S = int(m.group(1)) if m else -1
                if S < 0:
                    stats["gen_refused_args"] = stats.get("gen_refused_args", 0) + 1
                if '"pad":1' in ln:
                    stats["gen_padded"] = stats.get("gen_padded", 0) + 1
                if S >= 4:
                    seen.add(hash(ln[:ln.find(',"S"')]))
                stats["gen_max_S"] = max(stats.get("gen_max_S", 0), S)
            elif k == "iter":
                c = len(_re_op1.findall(ln))
                if c >= 1:
                    seen.add(hash(ln))
                stats["iter_calls"] = stats.get("iter_calls", 0) + ln.count('],[') + 1
            elif k == "rp":
                seen.add(hash(ln))
    return n


def judge_one(ctx, line, cfg="ExtTrace.cfg", tag="one"):
    """TLC verdict on a single recorded event"""
    p = ctx.path("j_%s_%d.ndjson" % (tag, abs(hash(line)) % 1000000))
    with open(p, "w") as f:
        f.write(line.rstrip("\n") + "\n")
    rej, total = vf.validate_cases(ctx, "ExtTrace", cfg, p, "C16 " + tag, nparts=1)
    return len(rej) == 0


def reexecute(ctx, exe, line, tag):
    """R4: run the recorded case through the library again; returns the new event line (or None)"""
    src = ctx.path("re_%s_in.ndjson" % tag)
    out = ctx.path("re_%s_out.ndjson" % tag)
    with open(src, "w") as f:
        f.write(line.rstrip("\n") + "\n")
    rc, err = vf.run_hx(exe, ["replay"], out, stdin_path=src)
    if rc != 0:
        return None, "replay aborted rc=%d: %s" % (rc, err[-1200:])
    new = [l for l in open(out).read().split("\n") if l.startswith('{"k":"' + json.loads(line)["k"] + '"')]
    return (new[0] if new else None), ""


def handle_rejection(ctx, exe, cmd, line, findings):
    ev = json.loads(line)
    kind = ev["k"]
    rp = ctx.path("rej_%s_%d.ndjson" % (cmd, len(ctx.violations) + len(ctx.known) + len(ctx.drift)))
    with open(rp, "w") as f:
        f.write(line.rstrip("\n") + "\n")
    # R4: the case is executed and judged a second time
    new, err = reexecute(ctx, exe, line, cmd)
    if new is None:
        ctx.violation("re-execution of a rejected case failed (%s): %s" % (err, line[:500]), replay_src=rp)
        return
    if judge_one(ctx, new, tag="again"):
        raise vf.Infra("rejection did not repeat on re-execution (driver %s): %s" % (cmd, line[:600]))
    if kind == "iter" and judge_one(ctx, new, cfg="ExtTraceObl.cfg", tag="obl"):
        # the obligations of the property hold; only the exact ExtIter sub-model was left
        ctx.spec_drift("ExtIter", "iterator call sequence is not a behaviour of ExtIter but meets the property's obligations: " + line[:500])
        return
    if kind == "rp":
        for k in findings:
            key = k.get("key", {})
            if key.get("event") == "rp" and (not key.get("range_cuts_packet") or rp_cuts_packet(ev)):
                ctx.known_finding(k["what"])
                return
        ctx.violation("repacketizer does not carry each extension to the output frame that holds its audio frame "
                      "(range [%d,%d) over inputs of %s frames, %s, ret=%d; driver %s): %s" % (
                          ev["b"], ev["e"], [p["m"] for p in ev["in"] if p["cat"] == 0],
                          "cuts an input packet" if rp_cuts_packet(ev) else "packet-aligned", ev["r"], cmd, line[:700]), replay_src=rp)
        return
    what = {"parse": "parse/count/iterate disagree with the extension format (Ext!ParseAll)",
            "iter": "iterator call sequence violates the property (outside data / non-existent frame / not an extension of the data)",
            "gen": "generator contract broken (GenOK: round trip, dry-run size, exact-size buffer, refusal of smaller buffers)",
            "rt": "parse -> generate -> parse is not a fixed point (GenOK on a parsed list)"}.get(kind, kind)
    ctx.violation("%s (driver %s): %s" % (what, cmd, line[:900]), replay_src=rp)


def run(ctx):
    tier = ctx.tier
    ctx.rule = ("TLC checks the Ext/ExtIter theorems for every byte string over the reduced alphabet (a state per string and frame count) "
                "and every interleaving of iterator calls on short strings; hx_ext drives parse/_parse_ext/_count/_count_ext, a full iterator "
                "run, random iterator call sequences, the generator (dry run, larger, exact, smaller buffers, padding) and "
                "parse->generate->parse on reduced-alphabet strings (ids lifted), structured lists (lacing boundaries, repeat-eligible "
                "patterns, shuffled), mutated generator output and fuzz; every recorded event is judged by ExtTrace!CaseOK. "
                "non-trivial = distinct parse events with >= 2 extensions (or invalid after >= 1), generator events with a "
                "serialisation of >= 4 bytes, iterator sequences returning >= 1 extension, repacketizer events")
    ctx.assumptions = ["TLC 1.8.0 and the CommunityModules Json reader are trusted",
                       "the reduced alphabet {00..07, 40, 41, ff} stands for all bytes in the exhaustive model runs (the format distinguishes id "
                       "bytes only by class and L, length bytes only by 255 / not 255); the implementation is additionally driven with lifted ids and random bytes",
                       "memory safety (no read outside the data, no write outside the buffer) is observed by ASan/UBSan on exact-size heap "
                       "buffers and by canaries, on the recorded cases only",
                       "empty payloads of long extensions are passed to the generator as non-NULL pointers (NULL + length 0 reaches memcpy in "
                       "extensions.c:440, which UBSan flags; the repository's callers never do that)"]
    if ctx.replay:
        return replay(ctx)
    quick = tier == "quick"
    # ---- 1. the model: theorems over all reduced-alphabet strings, iterator interleavings
    mcs = [("Ext_mc_str_quick.cfg" if quick else "Ext_mc_str_thorough.cfg", "Ext theorems, all strings over Sigma", None),
           ("Ext_mc_it_quick.cfg" if quick else "Ext_mc_it_thorough.cfg", "ExtIter call interleavings",
            ["DoNext", "DoFind", "DoReset", "DoSetFrameMax"])]
    if not quick:
        mcs.append(("Ext_mc_heavy_thorough.cfg", "Ext reset/frame_max theorems, all strings over Sigma", None))

    def one_mc(m):
        cfg, what, acts = m
        return ctx.mc("Ext_mc", cfg, what=what, require_actions=acts, deadlock=True, workers=max(4, vf.NCPU // 2),
                      timeout=3000 if not quick else 900, heap="4g")
    # ---- 2. the implementation (built while TLC runs)
    var = vf.build_variant("hk")
    exe = vf.build_hx(var, "ext.c")
    s = ctx.seed
    if quick:
        jobs = [("sigma", [s, 4, 1, 0, 1]), ("sigmas", [s + 1, 30000]), ("fuzz", [s + 2, 20000]), ("genmut", [s + 3, 6000]),
                ("lists", [s + 4, 4000, 0]), ("big", [s + 5, 6]),
                ("sigmai", [s + 6, 12000]), ("fuzzi", [s + 7, 5000]), ("genmuti", [s + 8, 5000]), ("rp", [s + 9, 1500])]
    else:
        jobs = [("sigma", [s, 5, 1, i, 8]) for i in range(8)]
        jobs += [("sigmas", [s + 10 + i, 60000]) for i in range(4)]
        jobs += [("fuzz", [s + 20 + i, 50000]) for i in range(4)]
        jobs += [("genmut", [s + 30 + i, 20000]) for i in range(4)]
        jobs += [("lists", [s + 40 + i, 10000, 0]) for i in range(4)]
        jobs += [("lists", [s + 50 + i, 2000, 1]) for i in range(4)]
        jobs += [("big", [s + 55 + i, 30]) for i in range(4)]
        jobs += [("sigmai", [s + 60 + i, 60000]) for i in range(2)]
        jobs += [("fuzzi", [s + 70 + i, 30000]) for i in range(2)]
        jobs += [("genmuti", [s + 80 + i, 30000]) for i in range(2)]
        jobs += [("rp", [s + 90 + i, 5000]) for i in range(2)]

    def gen(job):
        i, (cmd, args) = job
        out = ctx.path("t_%s_%d.ndjson" % (cmd, i))
        rc, err = vf.run_hx(exe, [cmd] + args, out, timeout=3000)
        return cmd, args, out, rc, err
    # the model runs go on in the background while the implementation is driven and its traces are validated
    from concurrent.futures import ThreadPoolExecutor
    bg = ThreadPoolExecutor(max_workers=2)
    mc_futs = [bg.submit(one_mc, m) for m in mcs]
    try:
        outs = vf.parallel(gen, list(enumerate(jobs)), nproc=max(2, vf.NCPU // 2))
    except BaseException:
        bg.shutdown(wait=True)
        raise
    ctx.exhaustive = True
    ctx.notes["exhaustive_scope"] = ("model side: every string over Sigma = {00..07,40,41,ff} up to the MaxLen of the cfgs x nb_frames in {1,2,3}, and every "
                                     "interleaving of next/find/reset/set_frame_max on strings up to ItLen; implementation side: the same strings up to "
                                     "length %d exhaustively (ids lifted), everything else sampled" % (4 if quick else 5))
    def finish_mc():
        res = [f.result() for f in mc_futs]
        bg.shutdown(wait=True)
        for (cfg, what, acts), r in zip(mcs, res):
            if r.violation:
                # a theorem about the model failing is a defect of the model, not of the code
                raise vf.Infra("Ext model theorem %s violated (%s):\n%s" % (r.violation, cfg, r.state_dump[:2500]))
    stats = {}
    crashed = False
    for cmd, args, out, rc, err in outs:
        if rc != 0:
            # sanitizer / assertion abort or hang inside the extension code: memory-safety / totality clause
            crashed = True
            ctx.violation("hx_ext %s %s aborted rc=%d: %s" % (cmd, args, rc, err[-1500:]), replay_src=None,
                          replay_text=json.dumps(dict(k="crash", cmd=cmd, args=args, rc=rc, stderr=err[-3000:])))
    findings = vf.known_findings("C16")
    work = []
    for cmd, args, out, rc, err in outs:
        if rc != 0:
            # keep the complete lines that were written before the abort
            lines = open(out, errors="replace").read().split("\n")
            with open(out, "w") as f:
                f.write("".join(l + "\n" for l in lines[:-1] if l.endswith("}")))
        n = scan(ctx, out, stats)
        if n == 0:
            continue
        ctx.evaluations += n
        with open(out) as f:
            ctx.sample({"driver": cmd, "event": f.readline().strip()[:500]})
        if cmd == "rp":
            with open(out) as f:
                stats["rp_range_cuts_packet"] = stats.get("rp_range_cuts_packet", 0) + sum(
                    1 for ln in f if rp_cuts_packet(json.loads(ln)))
        if vf.count_lines(out):
            work.append((cmd, out))

    def validate(w):
        cmd, out = w
        n, size = vf.count_lines(out), os.path.getsize(out)
        # at most 2 x 8 TLC processes of <= 3 GB at a time: the machine is shared (an earlier run with 3 x 16 was hit by the OOM killer)
        nparts = max(1, min(vf.NCPU // 2, max(n // 4000, size // 6000000)))
        return cmd, out, vf.validate_cases(ctx, "ExtTrace", "ExtTrace.cfg", out, "C16 " + cmd, nparts=nparts,
                                           heap="3g", timeout=3000)
    try:
        results = vf.parallel(validate, work, nproc=2)
    except BaseException:
        bg.shutdown(wait=True)
        raise
    for cmd, out, (rej, total) in results:
        ctx.traces += total - len(rej)
        for p, ln, tr in rej:
            if ln <= 0:
                raise vf.Infra("TLC rejected a chunk of %s without naming the case:\n%s" % (cmd, tr.out[-2000:]))
            handle_rejection(ctx, exe, cmd, vf.file_line(p, ln), findings)
        os.remove(out)
    ctx.notes["measured"] = stats
    finish_mc()


def replay(ctx):
    var = vf.build_variant("hk")
    exe = vf.build_hx(var, "ext.c")
    content = open(ctx.replay).read()      # (the replay file may itself live in replay/: never copy it onto itself)
    lines = [l for l in content.split("\n") if l.startswith('{"k":')]
    for l in [l for l in lines if l.startswith('{"k": "crash"') or l.startswith('{"k":"crash"')]:
        # a driver run that aborted (sanitizer, assertion, hang): run the same driver again
        ev = json.loads(l)
        out = ctx.path("replay_crash.ndjson")
        rc, err = vf.run_hx(exe, [ev["cmd"]] + ev["args"], out, timeout=3000)
        ctx.evaluations += 1
        ctx.sample("hx_ext %s %s -> rc=%d" % (ev["cmd"], ev["args"], rc))
        if rc != 0:
            ctx.violation("hx_ext %s %s aborted again rc=%d: %s" % (ev["cmd"], ev["args"], rc, err[-1200:]), replay_src=ctx.replay)
        else:
            ctx.traces += 1
        lines.remove(l)
        if not lines:
            ctx.nontrivial_count = 1
            ctx.states = max(ctx.states, 1); ctx.transitions = max(ctx.transitions, 1)
            return
    if not lines:
        ctx.violation("replay file holds no recorded event: " + content[:600], replay_src=ctx.replay)
        return
    findings = vf.known_findings("C16")
    for i, line in enumerate(lines):
        ev = json.loads(line)
        ctx.evaluations += 1
        new, err = reexecute(ctx, exe, line, "rp%d" % i)
        if new is None:
            ctx.violation("replay: " + (err or "the harness did not reproduce the event"), replay_src=ctx.replay)
            continue
        ctx.sample(new[:500])
        if judge_one(ctx, new, tag="replay%d" % i):
            ctx.traces += 1
        elif ev["k"] == "rp" and any(k.get("key", {}).get("event") == "rp" and
                                     (not k["key"].get("range_cuts_packet") or rp_cuts_packet(ev)) for k in findings):
            ctx.known_finding([k for k in findings if k.get("key", {}).get("event") == "rp"][0]["what"])
        elif ev["k"] == "iter" and judge_one(ctx, new, cfg="ExtTraceObl.cfg", tag="replayobl%d" % i):
            ctx.spec_drift("ExtIter", "replayed iterator call sequence is not a behaviour of ExtIter but meets the property's obligations")
        else:
            ctx.violation("replayed case rejected: " + new[:700], replay_src=ctx.replay)
    ctx.nontrivial_count = max(1, len(lines))
    ctx.states = max(ctx.states, 1)
    ctx.transitions = max(ctx.transitions, 1)


META = dict(
    engine="Ext+ExtIter",
    technique=("TLA+ declarative model of the extension wire format (step relation on a cursor) and of the generator's contract, plus the iterator as a "
               "state machine; TLC exhaustive over all reduced-alphabet strings and over iterator call interleavings; TLC trace validation of recorded "
               "parse/count/iterate/generate/repacketize calls"),
    level_text=("TLC proves, for every byte string over an 11-symbol alphabet up to the configured length and 1-3 frames, that the iterator machine "
                "computes exactly the declarative parse (same extensions, invalid at the same point), that counts, per-frame counts and the "
                "frame-ordered parse agree, that every extension lies inside the data and in an existing frame, that parse-generate-parse is a fixed "
                "point, and that reset / set_frame_max behave; it explores every interleaving of iterator calls on short strings. Every recorded "
                "call of the real library (exhaustive short strings with lifted ids, structured lists incl. lacing boundaries and repeat patterns, "
                "mutated generator output, fuzz) is judged against Ext!ParseRaw / GenOK / ExtIter: results equal, dry-run = written size, exact "
                "buffer suffices, smaller refused with canaries intact."),
    level_note=("Trusted: TLC, the Json module, my reading of the extension draft as pinned by tests/test_opus_extensions.c (vectors in ExtVectors.tla). "
                "The implementation is exercised on a sample beyond the exhaustive short strings; ASan/UBSan observe memory safety on those cases only. "
                "Repacketizer carriage is covered by a small driver here (full treatment in C07)."),
)
