"""C17 - PVQ, Laplace and table-driven symbol codes are exact, prefix-free bijections (module SymCodes).

Flow: build the library from the tree under test, build the harness twice (hx_sym links the library's
coders; hx_symtu additionally includes cwrs.c/quant_bands.c to read their file-static tables), export every
table, let TLC check the SymCodes theorems with the exported parameter sets (SymCodes_mc), then record what the
real coders do (PVQ per index and sweeps, Laplace at all 32768 points, ICDF at all points) and have TLC judge
every recorded line (SymTrace).  All judgement is TLC's; this file only moves files around and counts."""
import json
import os
import random
import re
import shutil
import subprocess
import vf

LEVEL = "model_checking"

# provisional known findings (none): entries of the form dict(property="C17", key={...}, what="...")
PROVISIONAL = []

TIERS = {
    "quick": dict(mc_cfg="SymCodes_mc_quick.cfg", mc_timeout=600, mc_workers=6, pvq_vex=600, pvq_strat=8, pvq_parts=4,
                  small_vex=400, small_n=8, sweep_vmax=1 << 18, sweep_parts=4, grid=(16, 12), chunks=10,
                  tlc_timeout=900),
    "thorough": dict(mc_cfg="SymCodes_mc_thorough.cfg", mc_timeout=3000, mc_workers=12, pvq_vex=20000, pvq_strat=64, pvq_parts=8,
                     small_vex=6000, small_n=12, sweep_vmax=1 << 24, sweep_parts=16, grid=(3, 3), chunks=16,
                     tlc_timeout=3000),
}

# invariants of SymCodes_mc whose subject is the exported data of the tree under test (a violation is a
# property violation); the others are theorems about the model alone (a violation is a defect of the model)
DATA_INVARIANTS = {"NoOverflow": "a (N,K) the static mode can request has a codebook that does not fit 32 bits or reads outside the U table",
                   "LaplaceTiles": "the Laplace intervals of an energy-model pair do not tile [0,32768) / decode does not invert encode"}


def lib_defines(var):
    """-D flags the library's own cwrs.c was compiled with (so that the included copy is the same code)."""
    txt = open(os.path.join(var["dir"], "build.ninja")).read()
    m = re.search(r"build CMakeFiles/opus\.dir/celt/cwrs\.c\.o:.*?\n((?:  .*\n)+)", txt)
    if not m:
        raise vf.Infra("cannot find the compile rule of celt/cwrs.c in build.ninja")
    d = re.search(r"DEFINES = (.*)", m.group(1))
    defs = d.group(1).split() if d else []
    return [x for x in defs if not x.startswith("-D_FORTIFY") and x != "-DHAVE_CONFIG_H"]


def build(ctx):
    var = vf.build_variant("hk")
    defs = lib_defines(var)
    exe, exetu = vf.parallel(lambda a: vf.build_hx(var, "sym.c", out=a[0], extra=defs + a[1]),
                             [("sym", []), ("symtu", ["-DSYM_TU"])])
    return var, exe, exetu


def icdf_symbols_in_lib(var):
    """names of data symbols in libopus.a that look like ICDF tables (completeness guard for the harness' list)"""
    p = vf.sh(["nm", var["lib"]], timeout=120, check=True)
    names = set()
    for ln in p.stdout.splitlines():
        f = ln.split()
        if len(f) == 3 and f[1] in "rRdDbB":
            n = f[2].split(".")[0]
            if re.search(r"icdf", n, re.I) or re.match(r"silk_shell_code_table[0-3]$", n):
                names.add(n)
    return names


POINTER_ARRAYS = {"silk_LBRR_flags_iCDF_ptr", "silk_LTP_gain_iCDF_ptrs"}


def run_harness(ctx, jobs):
    """jobs: list of (exe, args, outname). Returns list of (outpath, rc, err, args)."""
    def one(j):
        exe, args, name = j
        out = ctx.path(name)
        rc, err = vf.run_hx(exe, args, out, timeout=2400)
        return out, rc, err, args
    return vf.parallel(one, jobs)


def crash(ctx, what, args, rc, err):
    ctx.violation("hx_sym %s aborted rc=%d (sanitizer/assertion in the coder under test): %s" % (" ".join(map(str, args)), rc, err[-1500:]),
                  replay_text=json.dumps({"k": "crash", "args": [str(a) for a in args]}, separators=(",", ":")))


def kind_of(line):
    m = re.match(r'\{"k": ?"(\w+)"', line)
    return m.group(1) if m else "?"


def matches_known(ev, entries):
    for k in entries:
        key = k.get("key", {})
        if key and all(ev.get(f) == v for f, v in key.items()):
            return k
    return None


def judge(ctx, trace, tables, what, cfgd):
    """TLC judges every line of trace. Returns number of accepted lines."""
    n = vf.count_lines(trace)
    if n == 0:
        raise vf.Infra("empty trace " + trace)
    nparts = max(1, min(cfgd["chunks"], n // 200 + 1))
    rej, total = vf.validate_cases(ctx, "SymTrace", "SymTrace.cfg", trace, "C17 " + what, nparts=nparts,
                                   timeout=cfgd["tlc_timeout"], heap="3g", extra_env={"TABLES": tables})
    bad = 0
    known = vf.known_findings("C17") + PROVISIONAL
    for p, ln, tr in rej:
        # classify: property clause (PropOK) or only the stricter model equality (SPEC-DRIFT)
        r2 = vf.tlc("SymTrace", "SymTraceProp.cfg", workers=1, env={"TRACE": p, "TABLES": tables},
                    timeout=cfgd["tlc_timeout"], heap="3g", tag="C17prop_" + os.path.basename(p))
        if r2.error:
            raise vf.Infra("C17 classify %s: %s" % (what, r2.error))
        ctx.add_tlc(r2, "classify " + os.path.basename(p))
        if not r2.violation:
            ev = vf.file_line(p, ln)
            ctx.spec_drift("SymCodes", "recorded %s line satisfies the property clauses but not the model's own answer: %s" % (kind_of(ev), ev[:400]))
            continue
        m = re.search(r"\bl = (\d+)", r2.state_dump or r2.out)
        ln2 = int(m.group(1)) if m else ln
        ev = vf.file_line(p, ln2)
        bad += 1
        rp = ctx.path("rej_%s_%d.ndjson" % (what.replace(" ", "_"), bad))
        with open(rp, "w") as f:
            f.write(ev + "\n")
        try:
            evd = json.loads(ev)
        except ValueError:
            evd = {}
        k = matches_known(evd, known)
        if k:
            ctx.known_finding(k["what"])
            continue
        # R4: execute the case again before reporting
        if not repeatable(ctx, rp, tables):
            raise vf.Infra("rejection of %s did not repeat on re-execution: %s" % (what, ev[:300]))
        ctx.violation("%s: recorded behaviour/table of the code contradicts SymCodes (%s): %s" % (what, kind_of(ev), ev[:700]), replay_src=rp)
    return total - bad


_EXES = {}


def repeatable(ctx, rp, tables):
    exetu = _EXES.get("tu")
    if not exetu:
        return True
    out = ctx.path("rerun_%s" % os.path.basename(rp))
    rc, err = vf.run_hx(exetu, ["replay"], out, stdin_path=rp, timeout=2400)
    if rc != 0 or vf.count_lines(out) == 0:
        return True     # crashes now: certainly not a transient acceptance
    r = vf.tlc("SymTrace", "SymTraceProp.cfg", workers=1, env={"TRACE": out, "TABLES": tables}, timeout=1700, heap="3g",
               tag="C17rerun_" + os.path.basename(rp))
    if r.error:
        raise vf.Infra("re-execution judge: " + r.error)
    return r.violation is not None


def shuffle_concat(paths, out, seed):
    lines = []
    for p in paths:
        with open(p) as f:
            lines += f.readlines()
    random.Random(seed).shuffle(lines)
    with open(out, "w") as f:
        f.writelines(lines)
    return lines


def run(ctx):
    c = TIERS[ctx.tier]
    ctx.rule = ("TLC checks the SymCodes theorems (V/U recurrences, U = prefix sums of V, index = rank in the stated order by brute force, "
                "index->vector->index identity and agreement of the transcribed cwrsi/icwrs for every index of every small (n,k), no 32-bit overflow and "
                "table coverage for every (N,K) reachable from the exported pulse cache, Laplace tiling + point-wise inverse at all 32768 points for every "
                "exported e_prob_model pair and a grid); every exported table line (ICDF tables, e_prob_model, CELT_PVQ_U_DATA/ROW, cache index/bits/caps, "
                "V used by the code) and every recorded coder execution (decode_pulses/encode_pulses per index through the real range coder, full index sweeps, "
                "ec_laplace_decode at every point + ec_laplace_encode interval and round trip per value, ec_dec_icdf at every point + enc/dec round trip per symbol) "
                "is judged by SymTrace!CaseOK. non-trivial = distinct PVQ index records with N>=3 and K>=2, Laplace pair records, ICDF tables with >=3 symbols, "
                "sweep records, table lines utab/cache/eprob")
    ctx.assumptions = ["TLC and the CommunityModules Json reader are trusted",
                       "hx_symtu reads the file-static tables (CELT_PVQ_U_DATA/ROW, e_prob_model, small_energy_icdf) by compiling celt/cwrs.c and celt/quant_bands.c "
                       "of the tree under test into the harness with the library's own -D flags; all other tables and all coder calls come from libopus.a",
                       "the list of ICDF tables is written in harness/sym.c; it is compared with the data symbols of libopus.a whose name contains 'icdf' (any unlisted one is an infrastructure error)",
                       "(N,K) with 2^31 <= V < 2^32 are sampled (stratified), not swept; their indices are logged as 16-bit halves and judged with the wide-index VectorOfW/IndexOfW "
                       "(base-2^16 pairs; SymCodes_mc proves they agree with VectorOf/IndexOf on every index of the small (n,k))",
                       "the (fl,fs) of ec_laplace_encode is read back from the encoder state after one symbol on a fresh encoder (at most one renormalisation shift)",
                       "full index sweeps are executed and counted by the harness (count of indices that came back, min/max pulse count); TLC judges the counters",
                       "dynamic ICDFs built at run time (ec_laplace_*_p0, SILK VAD flags) are not static tables and are out of scope"]
    if ctx.replay:
        return replay(ctx)
    var, exe, exetu = build(ctx)
    _EXES["tu"] = exetu
    seed = ctx.seed

    # ---- 1. export the tables of this build
    outs = run_harness(ctx, [(exetu, ["tables"], "tables.ndjson"), (exetu, ["reach"], "reach.ndjson")])
    tables = ctx.path("all_tables.ndjson")
    if outs[0][1] != 0:
        crash(ctx, "export", outs[0][3], outs[0][1], outs[0][2])
        return
    if outs[1][1] != 0:
        # the tables came out but walking them crashed: let TLC judge the tables, then report the crash
        shutil.copyfile(outs[0][0], tables)
        ctx.evaluations += vf.count_lines(tables)
        ctx.traces += judge(ctx, tables, tables, "tables", c)
        crash(ctx, "export", outs[1][3], outs[1][1], outs[1][2])
        return
    with open(tables, "w") as f:
        for out, rc, err, args in outs:
            f.write(open(out).read())
    tab = [json.loads(x) for x in open(tables)]
    kinds = {}
    for e in tab:
        kinds[e["k"]] = kinds.get(e["k"], 0) + 1
    for need, least in (("icdf", 100), ("eprob", 8), ("utab", 1), ("cache", 1), ("reach", 1), ("vnk", 1)):
        if kinds.get(need, 0) < least:
            raise vf.Infra("table export is incomplete: %s lines = %d" % (need, kinds.get(need, 0)))
    exported = {e["name"] for e in tab if e["k"] == "icdf"}
    inlib = icdf_symbols_in_lib(var)
    missing = sorted(n for n in inlib if n not in exported and n not in POINTER_ARRAYS)
    if missing:
        raise vf.Infra("ICDF-like data symbols in libopus.a that harness/sym.c does not export: " + ", ".join(missing))
    reach = [e for e in tab if e["k"] == "reach"][0]["nk"]
    pairs = sorted({(e["t"][2 * b] * 128, e["t"][2 * b + 1] * 64) for e in tab if e["k"] == "eprob" for b in range(len(e["t"]) // 2)})
    ctx.notes["tables"] = dict(icdf_tables=kinds["icdf"], icdf_symbols_in_lib=len(inlib), e_prob_pairs=len(pairs),
                               reachable_NK=len(reach), u_words=[e for e in tab if e["k"] == "utab"][0]["nw"])

    # ---- 2. theorems of the model, with the exported parameter sets (runs while the coders are recorded and judged)
    from concurrent.futures import ThreadPoolExecutor
    pool = ThreadPoolExecutor(max_workers=1)
    mc_future = pool.submit(vf.tlc, "SymCodes_mc", c["mc_cfg"], workers=c["mc_workers"], env={"TABLES": tables}, timeout=c["mc_timeout"],
                            deadlock=True, heap="8g")

    # ---- 3. record the real coders
    jobs = [(exetu, ["laplace"], "t_laplace.ndjson"), (exetu, ["icdf"], "t_icdf.ndjson"),
            (exe, ["lapgrid", c["grid"][0], c["grid"][1]], "t_lapgrid.ndjson"), (exe, ["lapp0"], "t_lapp0.ndjson"),
            (exe, ["small", c["small_vex"], c["small_n"]], "t_small.ndjson")]
    jobs += [(exe, ["pvq", seed, c["pvq_vex"], c["pvq_strat"], i, c["pvq_parts"]], "t_pvq%d.ndjson" % i) for i in range(c["pvq_parts"])]
    jobs += [(exe, ["sweep", c["sweep_vmax"], i, c["sweep_parts"]], "t_sweep%d.ndjson" % i) for i in range(c["sweep_parts"])]
    outs = run_harness(ctx, jobs)
    # a sanitizer/assertion abort inside the coder under test is reported (after TLC has judged the tables and
    # the runs that completed); its partial output is not used
    crashes = [(out, rc, err, args) for out, rc, err, args in outs if rc != 0]
    outs = [o for o in outs if o[1] == 0]
    trace = ctx.path("trace.ndjson")
    lines = shuffle_concat([tables] + [o[0] for o in outs], trace, seed)
    kc = {}
    swept = 0
    wide = 0
    for ln in lines:
        k = kind_of(ln)
        kc[k] = kc.get(k, 0) + 1
        if k == "pvq":
            m = re.match(r'\{"k":"pvq","N":(\d+),"K":(\d+),"i":(\d+)', ln)
            if m and int(m.group(1)) >= 3 and int(m.group(2)) >= 2:
                ctx.nontrivial.add(hash(m.group(0)))
        elif k == "pvqw":
            wide += 1
            ctx.nontrivial.add(hash(ln[:60]))
        elif k == "sweep":
            m = re.search(r'"cnt":(\d+)', ln)
            swept += int(m.group(1)) if m else 0
            ctx.nontrivial.add(hash(ln[:40]))
        elif k in ("lap", "lapp0"):
            ctx.nontrivial.add(hash(ln[:40]))
        elif k in ("icdf", "icdfrt"):
            m = re.search(r'"t":\[([^\]]*)\]', ln)
            if m and m.group(1).count(",") >= 2:
                ctx.nontrivial.add(hash(ln[:ln.find('"t":') + 200]))
        elif k in ("utab", "cache", "eprob"):
            ctx.nontrivial.add(hash(ln[:200]))
    # vacuity guards: every kind of record is present in the expected number
    want = {"pvq": 1000, "pvqw": 20, "sweep": 50, "lap": len(pairs), "lapp0": 130, "icdfrt": kinds["icdf"], "icdf": kinds["icdf"],
            "eprob": 8, "utab": 1, "cache": 1, "reach": 1, "vnk": len(reach) - 20}
    if not crashes:
        for k, least in want.items():
            if kc.get(k, 0) < least:
                raise vf.Infra("recorded trace is thinner than expected: %s lines = %d < %d" % (k, kc.get(k, 0), least))
    ctx.notes["recorded"] = dict(kc, indices_swept=swept, wide_index_records=wide)
    for k in ("pvq", "pvqw", "sweep", "lap", "icdfrt", "cache"):
        for ln in lines:
            if kind_of(ln) == k:
                ctx.sample({"kind": k, "line": ln.strip()[:300]})
                break
    ctx.evaluations += len(lines)

    # ---- 4. TLC judges every line
    ok = judge(ctx, trace, tables, "trace", c)
    ctx.traces += ok
    for o in [trace] + [x[0] for x in outs] + [x[0] for x in crashes]:
        try:
            os.remove(o)
        except OSError:
            pass

    seen = set()
    for out, rc, err, args in crashes:
        if args[0] not in seen:
            seen.add(args[0])
            crash(ctx, "record", args, rc, err)

    # ---- 5. outcome of the model run
    try:
        mc_outcome(ctx, mc_future.result(), c, reach, pairs)
    except vf.Infra as e:
        if not ctx.violations:
            raise
        # tables that TLC has already rejected can also make the model run meaningless; the verdict stands
        vf.log("[mc] not usable on the rejected tables: " + str(e)[:300])


def mc_outcome(ctx, r, c, reach, pairs):
    what = "SymCodes theorems (%s)" % c["mc_cfg"]
    if r.error:
        raise vf.Infra("%s: %s" % (what, r.error))
    ctx.add_tlc(r, what)
    vf.log("[mc] %-40s distinct=%d generated=%d depth=%d %s (%.1fs)" % (what, r.distinct, r.generated, r.diameter,
                                                                       "OK" if r.ok else "VIOLATED " + str(r.violation), r.wall))
    if r.violation:
        if r.violation in DATA_INVARIANTS:
            m = re.findall(r"st = (\[.*?\])", r.state_dump or r.out, re.S)
            st = m[-1].replace("\n", " ") if m else "?"
            ctx.violation("SymCodes_mc!%s violated for the exported tables: %s; state %s" % (r.violation, DATA_INVARIANTS[r.violation], st),
                          replay_text=json.dumps({"k": "mc", "inv": r.violation, "state": st}, separators=(",", ":")))
            return
        raise vf.Infra("SymCodes model theorem %s violated:\n%s" % (r.violation, (r.state_dump or r.out)[:1500]))
    census = [p for p in r.prints if p.startswith('<<"CENSUS"')]
    if not census:
        raise vf.Infra("SymCodes_mc printed no census (vacuous run?)")
    nums = [int(x) for x in re.findall(r"\d+", census[0])]
    if len(nums) != 4 or nums[0] < 20 or nums[1] != len(reach) or nums[2] != len(pairs) or nums[3] < 10:
        raise vf.Infra("SymCodes_mc census %s does not match the export (reach %d, pairs %d)" % (census[0], len(reach), len(pairs)))
    ctx.notes["mc_census"] = dict(small_nk=nums[0], reach=nums[1], pairs=nums[2], grid_pairs=nums[3])
    ctx.exhaustive = True
    ctx.notes["exhaustive_scope"] = ("model side: every index of the small (n,k) of " + c["mc_cfg"] + ", every table row, every reachable (N,K), all 32768 points of every "
                                     "exported pair and grid pair; implementation side: every index of every reachable (N,K) with V <= %d (sweeps), all points of every pair, "
                                     "all points and symbols of every ICDF table; larger V sampled" % c["sweep_vmax"])


def replay(ctx):
    """Re-execute the recorded failing case(s) on the current tree and judge again."""
    var, exe, exetu = build(ctx)
    first = open(ctx.replay).readline()
    outs = run_harness(ctx, [(exetu, ["tables"], "tables.ndjson"), (exetu, ["reach"], "reach.ndjson")])
    for out, rc, err, args in outs:
        if rc != 0:
            ctx.violation("replay: table export aborted rc=%d %s" % (rc, err[-800:]))
            return
    tables = ctx.path("all_tables.ndjson")
    with open(tables, "w") as f:
        for out, rc, err, args in outs:
            f.write(open(out).read())
    k = kind_of(first)
    if k == "crash":
        args = json.loads(first)["args"]
        ex = exetu if args and args[0] in ("tables", "laplace", "icdf", "reach") else exe
        out = ctx.path("replay.ndjson")
        rc, err = vf.run_hx(ex, args, out, timeout=2400)
        ctx.evaluations += 1
        ctx.nontrivial_count = 2
        ctx.states = max(ctx.states, 1); ctx.transitions = max(ctx.transitions, 1)
        ctx.sample("crash replay: %s rc=%d" % (" ".join(args), rc))
        if rc != 0:
            ctx.violation("replayed harness run still aborts rc=%d: %s" % (rc, err[-800:]), replay_src=ctx.replay)
        else:
            ctx.traces += 1
        return
    if k == "mc":
        r = ctx.mc("SymCodes_mc", TIERS["quick"]["mc_cfg"], what="replay SymCodes theorems", deadlock=True, timeout=900,
                   heap="8g", env={"TABLES": tables})
        ctx.evaluations += 1
        ctx.nontrivial_count = 2
        ctx.sample("mc replay: " + first.strip()[:300])
        if r.violation:
            ctx.violation("replayed model run still violates %s" % r.violation, replay_src=ctx.replay)
        else:
            ctx.traces += 1
        return
    out = ctx.path("replay.ndjson")
    rc, err = vf.run_hx(exetu, ["replay"], out, stdin_path=ctx.replay, timeout=2400)
    if rc != 0:
        ctx.violation("replay aborted rc=%d %s" % (rc, err[-800:]), replay_src=ctx.replay)
        return
    n = vf.count_lines(out)
    if n == 0:
        raise vf.Infra("replay produced no record from " + ctx.replay)
    ctx.evaluations += n
    ctx.sample(vf.file_line(out, 1)[:400])
    ctx.nontrivial_count = max(2, n)
    ctx.states = max(ctx.states, 1); ctx.transitions = max(ctx.transitions, 1)
    c = dict(TIERS["quick"])
    _EXES.clear()            # the replayed case is judged once
    ok = judge(ctx, out, tables, "replay", c)
    ctx.traces += ok


META = dict(
    engine="SymCodes",
    technique=("TLA+ model of the PVQ codebook enumeration (counting recurrences, index = rank), of the Laplace interval construction, of ICDF validity and of the "
               "pulse cache (log2_frac, caps); TLC exhaustive over small (n,k), all reachable (N,K), all probability points; TLC validation of tables exported from "
               "the built library and of recorded coder executions through the real range coder"),
    level_text=("TLC proves on the model: V and U obey their recurrences, U is the prefix sum of V, V = U(n,k)+U(n,k+1), the index of a vector is its rank in the "
                "stated order (brute force for tiny n,k), index->vector->index is the identity with exactly k pulses and the transcribed cwrsi/icwrs agree with it for every "
                "index of every small (n,k); for every (N,K) reachable from the exported pulse cache V < 2^32 and every table word the coder reads exists; for every exported "
                "e_prob_model pair (and a grid) the Laplace regions tile [0,32768) without gap/overlap/empty region and decode inverts encode at all 32768 points. TLC then "
                "judges the tables exported from the built library (every ICDF table strictly decreasing, ending in 0, first < 2^ftb; every word of CELT_PVQ_U_DATA equal to the "
                "recurrence; cache bits non-decreasing and equal to log2_frac(V)-1, caps equal to their formula) and every recorded execution: decode_pulses/encode_pulses per index "
                "(all indices for small V, sweeps of all indices up to 2^18 (quick) / 2^24 (thorough) by counters, stratified samples above), ec_laplace_decode at all points, "
                "ec_laplace_encode intervals and round trips, ec_dec_icdf at all points and enc/dec round trips, ec_laplace_encode_p0/decode_p0 round trips in front of sentinel values and a sign census over all points."),
    level_note=("Trusted: TLC, the Json module. Reachable (N,K) with V > 2^18 (quick) / 2^24 (thorough) are sampled (both ends, sign split, strata, random), not swept; "
                "those with 2^31 <= V < 2^32 (9 of the 329 on the pinned tree) are judged with base-2^16 pair arithmetic because TLC integers are 32 bit. Index sweeps are executed and counted by the harness (TLC judges the counters). "
                "Equality with the model's particular enumeration order / Laplace interval construction / caps formula / cache maximality is bound as SPEC-DRIFT, not as a violation: "
                "a self-consistent different code (e.g. LAPLACE_NMIN changed on both sides) still satisfies the property as written. The ICDF table list is hand-written in the "
                "harness and guarded by a scan of libopus.a data symbols. The p0/decay Laplace code (ec_laplace_*_p0, tables built at run time) is modelled and bound (theorem LaplaceP0, lapp0 records) over a corner grid of (p0, decay); the SILK VAD/LBRR flag tables built at run time are covered by G02/G06, not here; the value<->symbol mapping of the coarse-energy small tier is decided by G09 (thorough command)."),
)
