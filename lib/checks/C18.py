"""C18 - SILK side information always dequantises to stable, in-range parameters (module SilkParams).

Model side (TLC, exhaustive): the gain accumulator as a 64-state machine with every absolute and delta
action; every lag index x contour x rate x frame size and the lag-index accumulator over a packet; both NLSF
codebooks x every first-stage vector x families of residual vectors through the exact integer dequantiser and
stabiliser.  The table words the model uses are exported from the built library at check time.
Implementation side: hx_silk records calls of the real functions; SilkTrace judges every recorded case.
"""
import hashlib, json, os, random, re
import vf

LEVEL = "model_checking"

# provisional known-finding entries (same format as known_findings.json); none for C18
PROVISIONAL = []

GAIN_STATES = 64 * (64 + 41) + 1            # distinct states of the gain machine incl. the initial one
LAG_SLACK = 40


# ---------------------------------------------------------------------------------------------
# helpers

def _tables(ctx, exe):
    tab = ctx.path("silk_tables.json")
    rc, err = vf.run_hx(exe, ["tables"], tab, timeout=120)
    if rc != 0:
        raise vf.Infra("hx_silk tables failed rc=%d %s" % (rc, err[-800:]))
    try:
        with open(tab) as f:
            t = json.loads(f.readline())
        assert t["k"] == "tables" and len(t["cb"]) == 2
    except Exception as e:                                   # noqa
        raise vf.Infra("exported tables unreadable: %s" % e)
    return tab, t


def _input_key(ln):
    """the input part of an event (everything before the first output field)"""
    k = ln[6:ln.find('"', 6)]
    cut = {"gd": ',"np":', "gq": ',"i":[', "pl": ',"l":[', "nd": ',"pr":[', "dp": ',"olg":', "ns": ',"out":[', "di": ',"pli":',
           "ne": ',"ix":[', "pa": ',"v":', "ne_abort": ',"status":', "wc": ',"len":'}.get(k)
    j = ln.find(cut) if cut else -1
    return ln[:j] if j > 0 else ln


def _nontrivial(ln):
    """counting rule only (no judgement): does the case exercise more than the identity path?"""
    k = ln[6:ln.find('"', 6)]
    try:
        e = json.loads(ln)
    except ValueError:
        return False
    if k == "gd":
        p = e["p"]
        for j, i in enumerate(e["i"]):
            delta = j > 0 or e["c"] == 1
            raw = max(2 * i - 16, p + i - 4) if delta else max(i, p - 16)
            if (delta and 2 * i - 16 > p + i - 4) or (not delta and raw != i) or raw < 0 or raw > 63:
                return True
            p = min(63, max(0, raw))
        return e["n"] > 1
    if k == "gq":
        return any(i != 0 for i in e["i"])
    if k == "pl":
        lo, hi = 2 * e["fs"], 18 * e["fs"]
        return e["ci"] > 0 or any(v in (lo, hi) for v in e["l"])
    if k == "nd":
        return any(v != 0 for v in e["ix"][1:])
    if k == "ns":
        return e["inp"] != e["out"]
    if k == "ne":
        return any(v != 0 for v in e["ix"][1:])
    if k == "pa":
        return e["v"] == 1
    if k == "wc":
        return e["coded"] == 1 and e["fsz"] >= 2 and e["er"] == e["dr"] and (e["nf"] > 1 or e["e"]["st"] == 2)
    if k == "di":
        return e["st"] == 2 or any(abs(v) > 4 for v in e["ix"][1:])
    return k == "dp"


def _match_known(ev):
    for k in vf.known_findings("C18") + PROVISIONAL:
        key = k.get("key", {})
        if key and all(ev.get(f) == v for f, v in key.items()):
            return k
    return None


def _judge_file(ctx, path, what, env, nparts):
    """SilkTrace!CaseOK on every line; returns the list of rejected event lines (first per chunk, repeated
    after removing lines that match a known finding)."""
    rejected = []
    cur = path
    for _round in range(20):
        rej, total = vf.validate_cases(ctx, "SilkTrace", "SilkTrace.cfg", cur, what, nparts=nparts, heap="2g",
                                       extra_env=env, timeout=2400)
        if _round == 0:
            ctx.traces += total
        if not rej:
            break
        drop = set()
        again = False
        for p, ln, tr in rej:
            ev = vf.file_line(p, ln)
            drop.add(ev)
            try:
                kf = _match_known(json.loads(ev))
            except ValueError:
                kf = None
            if kf:
                ctx.known_finding(kf["what"])
                again = True
            else:
                rejected.append(ev)
        if not again:
            break
        nxt = path + ".r%d" % _round
        with open(cur) as f, open(nxt, "w") as g:
            for ln in f:
                if ln.rstrip("\n") not in drop:
                    g.write(ln)
        cur = nxt
        nparts = max(1, nparts // 2)
    ctx.traces -= len(rejected)
    return rejected


def _confirm(ctx, exe, env, ev_line, tag):
    """R4: execute the rejected case again on the real library and judge it again.
    Returns (still_rejected, path_of_single_event_file, fresh_event_line)."""
    src = ctx.path("rej_%s.ndjson" % tag)
    with open(src, "w") as f:
        f.write(ev_line + "\n")
    out = ctx.path("rej_%s_rerun.ndjson" % tag)
    rc, err = vf.run_hx(exe, ["replay"], out, stdin_path=src, timeout=300)
    if rc != 0:
        return True, src, "(harness aborted rc=%d on the re-run: %s)" % (rc, err[-400:])
    if vf.count_lines(out) == 0:
        return True, src, "(the harness refused the recorded inputs)"
    rej, _ = vf.validate_cases(ctx, "SilkTrace", "SilkTrace.cfg", out, "C18 confirm " + tag, nparts=1, heap="2g", extra_env=env)
    return bool(rej), src, vf.file_line(out, 1)


def _state_field(dump, name):
    m = re.search(r"\b%s \|-> (-?\d+)" % name, dump)
    return int(m.group(1)) if m else None


def _state_seq(dump, name):
    m = re.search(r"\b%s \|-> <<([^>]*)>>" % name, dump.replace("\n", " "))
    return [int(x) for x in m.group(1).split(",")] if m and m.group(1).strip() else None


# ---------------------------------------------------------------------------------------------

def run(ctx):
    tier = ctx.tier
    ctx.rule = ("model: TLC enumerates (a) the gain machine: 64 levels x (64 absolute + 41 delta) actions, every (state, action) pair; "
                "(b) every lag index in -40..max+40 x contour x {8,12,16} kHz x {2,4} sub-frames, and the lag-index accumulator over a "
                "3-frame packet; (c) both NLSF codebooks x all 32 first-stage vectors x residual families (zero, all/alternating/paired/"
                "single/split extremes at +-10,+-4,+-1; all sign patterns {-10,10}^10 for NB/MB; for WB sign patterns on each half; "
                "in the thorough tier also WB sign patterns on the even/odd coefficients, all {-10,10}^16 for every 8th WB first-stage vector plus {-10,0,10}^10 for every 8th NB/MB one (which ones: VERIF_SEED % 8)). "
                "implementation: hx_silk records silk_gains_dequant (all 6720 single steps, random chains), silk_gains_quant+dequant "
                "(raw-gain grid, random frames), silk_decode_pitch (whole index domain), silk_NLSF_decode+NLSF2A (first-stage x extremes, "
                "random residuals in +-10), silk_decode_parameters (random chained frames), silk_decode_indices on random range-coder input "
                "followed by silk_decode_parameters, and on the encoder side silk_NLSF_encode (then silk_NLSF_decode) and "
                "silk_pitch_analysis_core_FLP on synthetic voiced frames, and the whole codec (SILK-only opus_encode -> opus_decode, NB/MB/WB, "
                "10-60 ms, CBR/VBR 5-40 kb/s incl. a starved 40/60 ms CBR corner, mono/stereo, gliding-pitch / speech-like / noise signals) "
                "comparing per packet and channel the side information both sides hold; every event is judged by SilkTrace!CaseOK. "
                "non-trivial = distinct recorded cases (by their inputs) in which a clamp/floor/double step is active (gains), a contour "
                "or the lag clamp is active (pitch), some residual is non-zero (NLSF), a voiced frame or an extended residual (decode_indices), "
                "plus every decode_parameters frame")
    ctx.assumptions = [
        "TLC 1.8 and the CommunityModules Json reader are trusted",
        "the dequantisation rules of SilkParams.tla are written from RFC 6716 section 4.2.7 from memory (no RFC text offline); the table words "
        "are taken from the built library and judged only through the property's clauses (range, ordering, spacing)",
        "filter stability / bounded prediction gain is the library's own silk_LPC_inverse_pred_gain_c() != 0 measured by the harness on the "
        "recorded cases and judged by TLC; it is not derived in the model",
        "the number of bandwidth-expansion rounds silk_NLSF2A applies is not derived (inverse prediction gain not modelled): any 0..16 is accepted",
    ]
    var = vf.build_variant("hk")
    exe = vf.build_hx(var, "silk.c", extra=["-Wl,--wrap=silk_process_NLSFs,--wrap=silk_decode_parameters"])
    tab, tables = _tables(ctx, exe)
    env = {"SILKTAB": tab}
    if ctx.replay:
        return replay(ctx, exe, env)
    ctx.notes["tables_digest"] = hashlib.sha1(open(tab, "rb").read()).hexdigest()[:16]

    # ---- 1. model checking -------------------------------------------------------------------
    r = ctx.mc("SilkParams_mc", "SilkGain_mc.cfg", what="gain machine 64x105", env=env, deadlock=True, timeout=900, heap="4g")
    if r.violation:
        raise vf.Infra("gain-machine theorem %s violated in the model itself:\n%s" % (r.violation, r.state_dump[:1500]))
    if r.distinct != GAIN_STATES:
        raise vf.Infra("gain machine visited %d states, expected %d (vacuous or broken model run)" % (r.distinct, GAIN_STATES))

    r = ctx.mc("SilkParams_mc", "SilkLag_mc.cfg", what="lag domain + lag-index accumulator", env=env, deadlock=True, timeout=900, heap="4g")
    n_lag = sum((32 * (fs // 2) + 2 * LAG_SLACK) * (nc2 + nc4) for fs, nc2, nc4 in ((8, 3, 11), (12, 12, 34), (16, 12, 34)))
    if r.violation:
        d = r.state_dump
        ev = dict(k="pl", li=_state_field(d, "li"), ci=_state_field(d, "ci"), fs=_state_field(d, "fs"), n=_state_field(d, "nb"))
        _report_model(ctx, exe, env, "lag", r, ev if None not in ev.values() else None)
    elif r.distinct < n_lag:
        raise vf.Infra("lag run visited %d states, expected at least %d" % (r.distinct, n_lag))

    cfg = "SilkNlsf_mc_quick.cfg" if tier == "quick" else "SilkNlsf_mc_thorough.cfg"
    # the strided families (thorough tier) start at a first-stage vector chosen by the seed
    with open(os.path.join(vf.SPEC, "cfg", cfg)) as f:
        ctext = f.read().replace(" StrideOffset = 0", " StrideOffset = %d" % (ctx.seed % 8))
    cfgp = ctx.path(cfg)
    with open(cfgp, "w") as f:
        f.write(ctext)
    ctx.notes["nlsf_stride_offset"] = ctx.seed % 8
    r = ctx.mc("SilkParams_mc", cfgp, what="NLSF codebooks x first stage x residual families", env=env, deadlock=True,
               timeout=3000, heap="12g" if tier == "thorough" else "6g")
    seen = {}
    for pr in r.prints:
        m = re.match(r'<<"SEEN", (\d+), (\d+)>>', pr)
        if m:
            seen.setdefault(int(m.group(1)), set()).add(int(m.group(2)))
    ctx.notes["nlsf_stabiliser_iterations_seen"] = {("NB_MB", "WB")[c]: sorted(v) for c, v in sorted(seen.items())}
    if r.violation:
        d = r.state_dump
        idx = _state_seq(d, "idx")
        ev = dict(k="nd", cb=_state_field(d, "cb"), ix=idx) if idx else None
        _report_model(ctx, exe, env, "nlsf", r, ev)
    else:
        for c in (0, 1):
            if not any(1 <= n < 20 for n in seen.get(c, ())):
                raise vf.Infra("NLSF model run never needed the stabiliser for codebook %d (vacuous)" % c)
    ctx.exhaustive = True
    ctx.notes["exhaustive_scope"] = ("model side: gain machine, lag domain, NLSF first stage x the residual families of " + cfg +
                                     "; implementation side: all 6720 gain steps and the whole pitch index domain are enumerated, the rest is sampled")

    # ---- 2. bind to the implementation -------------------------------------------------------
    s = ctx.seed
    if tier == "quick":
        jobs = [("gains", [s, 2000]), ("gquant", [s + 1, 4000]), ("pitch", []), ("nlsf", [s + 2, 4, 0]),
                ("stab", [s + 3, 3000]), ("dparams", [s + 4, 200]), ("indices", [s + 5, 250]),
                ("pitchenc", [s + 6, 4000]), ("nlsfenc", [s + 7, 2000]),
                ("codec", [s + 20, 12, 8, 50]), ("codec", [s + 21, 12, 8, 50]), ("codec", [s + 22, 12, 8, 50])]
    else:
        jobs = [("gains", [s, 30000]), ("gquant", [s + 1, 60000]), ("pitch", []), ("nlsf", [s + 2, 120, 1200]),
                ("nlsf", [s + 12, 120, 1200]), ("stab", [s + 3, 30000]), ("dparams", [s + 4, 2000]), ("dparams", [s + 14, 2000]),
                ("indices", [s + 5, 2500]), ("indices", [s + 15, 2500]),
                ("pitchenc", [s + 6, 60000]), ("nlsfenc", [s + 7, 6000]), ("nlsfenc", [s + 17, 6000])]
        jobs += [("codec", [s + 20 + i, 24, 24, 120]) for i in range(8)]

    def gen(job):
        i, (cmd, args) = job
        out = ctx.path("t_%s_%d.ndjson" % (cmd, i))
        rc, err = vf.run_hx(exe, [cmd] + args, out, timeout=1500)
        return cmd, args, out, rc, err
    outs = vf.parallel(gen, list(enumerate(jobs)))
    lines = []
    per_kind = {}
    for cmd, args, out, rc, err in outs:
        with open(out) as f:
            ls = f.read().split("\n")
        ls = [x for x in ls if x.startswith('{"k":') and x.endswith("}")]
        if rc != 0:
            # sanitizer / assertion abort inside the library while dequantising: reported directly
            ctx.violation("hx_silk %s aborted rc=%d: %s" % (cmd, rc, err[-1200:]), replay_src=None,
                          replay_text=json.dumps(dict(k="crash", cmd=[cmd] + [str(a) for a in args])) + "\n" + err[-3000:])
        if ls:
            ctx.sample({"driver": cmd, "event": ls[len(ls) // 2][:500]})
        per_kind[cmd] = per_kind.get(cmd, 0) + len(ls)
        lines += ls
        os.remove(out)
    ctx.notes["events_per_driver"] = per_kind
    n_ne = sum(1 for x in lines if x.startswith('{"k":"ne",'))
    n_ne_abort = sum(1 for x in lines if x.startswith('{"k":"ne_abort"'))
    ctx.notes["nlsf_encode_inputs_outside_arithmetic_domain"] = n_ne_abort      # skipped: the quantiser's 32-bit RD sums overflowed
    n_wc_err = sum(1 for x in lines if x.startswith('{"k":"wc_err"'))
    n_wc = sum(1 for x in lines if x.startswith('{"k":"wc",'))
    n_wc_claim = sum(1 for x in lines if x.startswith('{"k":"wc",') and '"coded":1' in x and '"fsz":0' not in x and '"fsz":1,' not in x)
    ctx.notes["whole_codec_packets_compared"] = n_wc_claim
    ctx.notes["whole_codec_packets_without_silk_frame"] = n_wc - n_wc_claim
    if (n_wc_err or n_wc_claim < 500 or 2 * n_wc_claim < n_wc) and not ctx.violations:
        raise vf.Infra("whole-codec driver: %d packets compared, %d encode/decode errors" % (n_wc, n_wc_err))
    if n_ne < 4 * n_ne_abort and not ctx.violations:
        raise vf.Infra("silk_NLSF_encode aborted on %d of %d synthetic inputs: driver inputs no longer inside the quantiser's domain" % (n_ne_abort, n_ne + n_ne_abort))
    if per_kind.get("gains", 0) < 6720 or per_kind.get("pitch", 0) != n_lag:
        if not ctx.violations:
            raise vf.Infra("harness produced %s events (expected >= 6720 gain steps and %d pitch cases)" % (per_kind, n_lag))
    seen_in = set()
    dup = 0
    for ln in lines:
        h = hash(_input_key(ln))
        if h in seen_in:
            dup += 1
            continue
        seen_in.add(h)
        if _nontrivial(ln):
            ctx.nontrivial.add(h)
    ctx.evaluations += len(lines)
    ctx.notes["distinct_input_cases"] = len(seen_in)
    random.Random(s).shuffle(lines)                     # balance the cost of the chunks (NLSF cases are the expensive ones)
    allp = ctx.path("events.ndjson")
    with open(allp, "w") as f:
        f.write("\n".join(lines) + "\n")
    rejected = _judge_file(ctx, allp, "C18 events", env, nparts=vf.NCPU)
    ctx.notes["rejected_events"] = len(rejected)
    for n, ev in enumerate(rejected[:6]):              # the report shows at most 5; each is confirmed by re-execution first
        still, src, fresh = _confirm(ctx, exe, env, ev, "e%d" % n)
        if not still:
            raise vf.Infra("rejection did not repeat on re-execution (R4): %s" % ev[:400])
        ctx.violation("recorded call violates C18 (SilkTrace!CaseOK): %s" % fresh[:900], replay_src=src)

    # ---- 3. reference sub-models of code the property leaves free: SPEC-DRIFT only -----------
    dr = [ln for ln in lines if ln.startswith('{"k":"gq"') or ln.startswith('{"k":"ns"')]
    drp = ctx.path("drift.ndjson")
    with open(drp, "w") as f:
        f.write("\n".join(dr) + "\n")
    rej, total = vf.validate_cases(ctx, "SilkTrace", "SilkTraceDrift.cfg", drp, "C18 reference sub-models", nparts=max(1, vf.NCPU // 2),
                                   heap="2g", extra_env=env)
    for p, ln, tr in rej:
        ctx.spec_drift("SilkParams", "reference sub-model (GainQuant / NLSFStabilize on synthetic input) differs from the code: " +
                       vf.file_line(p, ln)[:400])


def _report_model(ctx, exe, env, which, r, ev):
    """an invariant of the model failed with the exported tables: a table word breaks a property clause.
    The counterexample is executed on the real library and judged as an event (that is also the replay)."""
    what = "model invariant %s violated with the tables of the built library (%s)" % (r.violation, which)
    if ev is None:
        ctx.violation(what + ":\n" + r.state_dump[:1200], replay_text=json.dumps(dict(k="mc", which=which)) + "\n" + r.state_dump[:3000])
        return
    line = json.dumps(ev, separators=(",", ":"))
    still, src, fresh = _confirm(ctx, exe, env, line, "mc_" + which)
    ctx.notes["model_counterexample_" + which] = dict(event=ev, implementation_agrees=bool(still), rerun=fresh[:600])
    ctx.violation(what + "; counterexample executed on the library: " + fresh[:700], replay_src=src)


def replay(ctx, exe, env):
    with open(ctx.replay) as f:
        first = f.readline().strip()
    try:
        head = json.loads(first)
    except ValueError:
        head = {}
    ctx.sample(first[:500])
    ctx.nontrivial_count = 2
    if head.get("k") == "crash":
        out = ctx.path("replay_crash.ndjson")
        rc, err = vf.run_hx(exe, head["cmd"], out, timeout=1500)
        ctx.evaluations += 1
        ctx.states = max(ctx.states, 1); ctx.transitions = max(ctx.transitions, 1)
        if rc != 0:
            ctx.violation("replayed driver aborts again rc=%d: %s" % (rc, err[-800:]), replay_src=ctx.replay)
        return
    if head.get("k") == "mc":
        cfg = {"lag": "SilkLag_mc.cfg", "nlsf": "SilkNlsf_mc_quick.cfg", "gain": "SilkGain_mc.cfg"}[head.get("which", "nlsf")]
        r = ctx.mc("SilkParams_mc", cfg, what="replay model run " + cfg, env=env, deadlock=True, timeout=1500, heap="6g")
        ctx.evaluations += 1
        if r.violation:
            ctx.violation("model invariant %s still violated:\n%s" % (r.violation, r.state_dump[:1000]), replay_src=ctx.replay)
        return
    out = ctx.path("replay.ndjson")
    rc, err = vf.run_hx(exe, ["replay"], out, stdin_path=ctx.replay, timeout=600)
    if rc != 0:
        ctx.violation("replay aborted rc=%d %s" % (rc, err[-800:]), replay_src=ctx.replay)
        return
    n = vf.count_lines(out)
    if n == 0:
        raise vf.Infra("replay file holds no executable event: " + ctx.replay)
    ctx.evaluations += n
    rej, total = vf.validate_cases(ctx, "SilkTrace", "SilkTrace.cfg", out, "C18 replay", nparts=1, heap="2g", extra_env=env)
    ctx.traces += total - len(rej)
    ctx.states = max(ctx.states, 1); ctx.transitions = max(ctx.transitions, 1)
    for p, ln, tr in rej:
        ev = vf.file_line(p, ln)
        try:
            kf = _match_known(json.loads(ev))
        except ValueError:
            kf = None
        if kf:
            ctx.known_finding(kf["what"])
        else:
            ctx.violation("replayed case rejected: " + ev[:800], replay_src=ctx.replay)


META = dict(
    engine="SilkParams",
    technique=("TLA+ integer model of the SILK gain, pitch-lag and NLSF dequantisers, the NLSF stabiliser and the NLSF-to-LPC conversion "
               "(NLSF2A, LPC_fit, bandwidth expansion; 64-bit products in limbs), tables exported from the built library; TLC exhaustive over "
               "the gain machine, the lag domain and NLSF first-stage x residual families; TLC trace validation of recorded calls of the real "
               "decoder and encoder functions"),
    level_text=("Decided by the model (TLC, exhaustive within the stated families) and bound by exact equality on recorded calls: sub-frame gains "
                "stay inside the quantiser's range however absolute/delta indices accumulate (64-state machine, all 6720 transitions); pitch lags "
                "for every lag index (incl. every value a 3-frame delta chain can reach) x contour x rate x frame size lie in [2 ms, 18 ms]; NLSF "
                "vectors decoded from every first-stage vector x residual family are in range, strictly ordered and spaced by at least deltaMin "
                "after the exact stabiliser (incl. its fallback). Decided on the recorded cases by exact model equality: the Q12 prediction "
                "coefficients (also of interpolated vectors, also after the post-loss expansion) are the normative NLSF2A/LPC_fit result for some "
                "number 0..16 of stabilising rounds and lie inside 16 bits before the cast; silk_decode_indices yields only indices inside the "
                "modelled domains; encoder/decoder agreement: what silk_gains_quant, silk_NLSF_encode and the pitch analyser emit is codable and "
                "decodes to exactly the gains / NLSFs / lags the encoder keeps; and at whole-codec level (opus_encode -> opus_decode, SILK-only) the "
                "indices, last lag, accumulated gain level and NLSF vector the encoder holds for the last frame of each packet equal what the "
                "decoder reconstructed, and so do the Q12 prediction filters of both half-frames (incl. the interpolated one; link-time interposition on both sides). Judged by TLC on a harness measurement: every derived filter passes "
                "the library's own inverse-prediction-gain test (stable, power gain <= 1e4)."),
    level_note=("NOT decided: stability/bounded gain in any sense other than silk_LPC_inverse_pred_gain_c() != 0 measured on the recorded cases "
                "(that function's 64-bit recursion is not modelled, so neither is the number of stabilising rounds NLSF2A chooses: the model accepts "
                "any 0..16); the LTP filter and LTP-scale tables. The NLSF residual space is covered by families and random samples, not "
                "exhaustively (21^10 / 21^16 vectors per first-stage entry); the LPC conversion is checked on recorded cases only, not in the "
                "exhaustive runs. The encoder-side gain model (which index it picks) and the stabiliser on synthetic vectors are reference "
                "sub-models: a mismatch is SPEC-DRIFT. silk_NLSF_encode is judged only on synthetic inputs for which its 32-bit rate-distortion "
                "sums stay in range (decided by running it under UBSan/assertions in a child process; the others are counted and skipped). "
                "The whole-codec comparison covers the last frame of each packet only (the library keeps nothing else), is claimed only for "
                "packets that carry their SILK frames (not the TOC-only packet emitted when SILK busts its byte budget) with equal final "
                "range on both sides, and leaves out the encoder's scratch copies of gain indices and seed (not restored when the rate loop "
                "falls back to an earlier iteration; the accumulated gain level is compared instead). Trusted: TLC, the Json module, my reading of RFC 6716 4.2.7 (no RFC text offline)."),
)
