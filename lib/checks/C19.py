"""C19 - soft clipping and decoder gain post-processing obey their contracts (modules SoftClip, SoftClipTrace)."""
import json, os, random, re, threading
import vf

LEVEL = "model_checking"

# Deviations found by this check, now repaired in /repo and listed as "fixed" in known_findings.json (F11: sign flips of tiny
# samples by the soft clipper's frame-start ramp, commit 079292ff; F12: decoder gain applied twice to the cross-fade after a mode
# change, commit ec737545; F0: 24-bit output wrapped, commit 35de4c7b).  "fixed" suppresses nothing: a reappearance is a VIOLATION.
# The matching machinery is kept: should one of these ids ever be listed with status "known", the event TLC rejected is compared
# with the key below and only then is the clause relaxed (TOLFLIP / TOLTRANS of SoftClipTrace) for that trace chunk.
PROVISIONAL = []
TOLFLAG = {"F11": "TOLFLIP", "F12": "TOLTRANS"}

GAINS = [-32768, -5120, -1, 0, 1, 256, 5120, 20000, 32767]
BADGAINS = [-32769, 32768, 40000, -100000, 1073741824]
FSS = [8000, 12000, 16000, 24000, 48000]
DQS = [5, 10, 20, 40, 80, 120]


def active_findings():
    """known entries of known_findings.json for C19 plus the provisional ones (unless the file already lists that id)"""
    listed = {}
    try:
        with open(os.path.join(vf.ROOT, "known_findings.json")) as f:
            for k in json.load(f).get("findings", []):
                if k.get("property") == "C19":
                    listed[k.get("id")] = k
    except (OSError, ValueError):
        pass
    out = {}
    for k in vf.known_findings("C19"):
        if k.get("id") in TOLFLAG:
            out[k["id"]] = k
    for k in PROVISIONAL:
        if k["id"] not in listed:
            out[k["id"]] = k
    return out


def is_trans(e):
    """SoftClipTrace!IsTrans"""
    if e.get("md", 0) == 0 or e.get("pm", 0) <= 0:
        return False
    return ((e["md"] == 1002 and e["pm"] != 1002 and e["pr"] == 0) or (e["md"] != 1002 and e["pm"] == 1002)
            or (e["kind"] == 2 and e["md"] != 1002 and e["pr"] == 1))


def match_finding(e, tol, act):
    """the rejected event against the keys; returns the finding id or None"""
    if e.get("k") == "clip" and e.get("deg") == 0 and "F11" in act and tol["TOLFLIP"] == "0":
        if sum(e.get("fp", [])) > 0 and sum(e.get("fb", [1])) == 0:
            return "F11"
    if e.get("k") == "gdec" and "F12" in act and tol["TOLTRANS"] == "0" and is_trans(e) and (e.get("hn", 0) > 0 or e.get("zbh", 0) > 0 or e.get("wh16", 0) > 0 or e.get("mh16", 32767) < 32767):
        return "F12"
    return None


# ---------------------------------------------------------------------------------------------
# behaviours

def sequences_from_tlc(ctx, cfg):
    r = vf.tlc("SoftClip_mc", cfg, workers=4, timeout=900)
    if r.error:
        raise vf.Infra("SoftClip gen: " + r.error)
    if r.violation:
        raise vf.Infra("SoftClip gen: model invariant %s violated" % r.violation)
    ctx.add_tlc(r, "gen SoftClip_mc/" + cfg)
    out = []
    for p in r.prints:
        if p.startswith('<<"SCHED"'):
            toks = re.findall(r'\\"([^\\"]+)\\"', p)
            if toks:
                out.append(toks)
    if not out:
        raise vf.Infra("SoftClip gen emitted no sequence")
    return out


def pick_n(rng, cls):
    if cls == "0":
        return rng.choice([0, 0, -1, -5760])
    if cls == "T":
        return rng.randint(1, 7)
    u = rng.random()
    if u < 0.7:
        return rng.randint(8, 64)
    if u < 0.9:
        return rng.choice([120, 240, 480, 960])
    if u < 0.96:
        return rng.randint(65, 2000)
    return rng.choice([1920, 2880, 5759, 5760])


def concretise(rng, tok):
    """abstract call of the model -> concrete call token of hx_softclip"""
    if tok == "Z":
        return "Z"
    m = re.match(r"K(\d+):([0TR]):(\d):([ICO]+)$", tok)
    if not m:
        raise vf.Infra("bad abstract call " + tok)
    c, ncls, fl, syms = int(m.group(1)), m.group(2), int(m.group(3)), m.group(4)
    if c == 0:
        cc = rng.choice([0, 0, -1, -3])
    elif c == 3 and rng.random() < 0.5:
        cc = rng.randint(4, 8)          # the model's third channel stands for "three or more" (letters are cycled)
    else:
        cc = c
    n = pick_n(rng, ncls)
    let = "".join("I" if s == "I" else (rng.choice("PREH") if s == "C" else rng.choice("TG")) for s in syms)
    return "K%d:%d:%d:%s" % (cc, n, fl, let)


def random_sequence(rng):
    toks = []
    for _ in range(rng.randint(3, 10)):
        u = rng.random()
        if u < 0.06:
            toks.append("Z")
        elif u < 0.16:
            kind = rng.choice(["c", "n", "p", "m"])
            c = rng.choice([0, -1]) if kind == "c" else rng.randint(1, 8)
            n = rng.choice([0, -1, -100]) if kind == "n" else pick_n(rng, "R")
            fl = 1 if kind == "p" else 2 if kind == "m" else 0
            toks.append("K%d:%d:%d:%s" % (c, n, fl, "G"))
        else:
            c = rng.randint(1, 8) if rng.random() < 0.93 else rng.randint(9, 16)
            let = "".join(rng.choice("IIIPRTEHG") for _ in range(c))
            toks.append("K%d:%d:%d:%s" % (c, pick_n(rng, rng.choice("TRRRR")), 0, let))
    return toks


DIRECTED_CLIP = [
    # regression case of finding F11 (fixed): cleared memory, a 1e-30 sample just before the peak of a frame that clips before its first zero crossing
    "Q 2 L0.704362452,1e-30,0.780430436,0.901427269,0.849869967,1.13762283,0.715072215,0.803308189,1.19392478,1,1e-30,1.07879603,1.15158617,1e-30,1e-30,1.32563448,-0.37362206",
    # the repository's own saw-tooth test pattern, then an in-range frame on the same memory
    "Q 3 L" + ",".join("%g" % (((i % 255) / 8.0) - 16.0) for i in range(1024)) + " L0.5,0.25,-0.25,1,-1,0",
    # exact +-1 and +-2 boundaries
    "Q 4 L1,-1,1,-1,0.5 L2,-2,2,-2,1 L-2,-2,-2,-2 L2.0000002,1,1,1 L0.99999994,-0.99999994",
]


def clip_lines(ctx, rng):
    tier = ctx.tier
    seqs = sequences_from_tlc(ctx, "SoftClip_gen_quick.cfg")
    reps = 1 if tier == "quick" else 3
    lines = []
    for rep in range(reps):
        for s in seqs:
            lines.append("Q %d %s" % (rng.randrange(1, 1 << 40), " ".join(concretise(rng, t) for t in s)))
    if tier == "thorough":
        for s in sequences_from_tlc(ctx, "SoftClip_gen_thorough.cfg"):
            lines.append("Q %d %s" % (rng.randrange(1, 1 << 40), " ".join(concretise(rng, t) for t in s)))
    ctx.notes["tlc_generated_sequences"] = len(lines)
    nrand = 1500 if tier == "quick" else 40000
    for _ in range(nrand):
        lines.append("Q %d %s" % (rng.randrange(1, 1 << 40), " ".join(random_sequence(rng))))
    ctx.notes["random_sequences"] = nrand
    rng.shuffle(lines)
    return lines


def gain_lines(ctx, rng, fixed):
    tier = ctx.tier
    lines = []

    def add(g, flags, fs=None, ch=None, dq=None, nfr=None, amp=None):
        fs = fs or rng.choice(FSS); ch = ch or rng.choice([1, 2]); dq = dq or rng.choice(DQS)
        nfr = nfr or max(6, min(40, 1600 // dq))
        lines.append("G %d %d %d %d %d %d %d %d" % (rng.randrange(1, 1 << 40), fs, ch, dq, nfr, g, flags,
                                                   amp if amp is not None else rng.choice([950, 950, 600, 100, 10])))
    if fixed:
        n = 4 if tier == "quick" else 40
        for g in GAINS:
            for _ in range(n):
                add(g, rng.choice([0, 0, 1, 2, 3, 4, 8, 16, 31]), amp=rng.choice([950, 600, 50]))
        for g in BADGAINS:
            add(g, 8)
        return lines
    reps = 1 if tier == "quick" else 20
    for rep in range(reps):
        for g in GAINS:
            for flags in (0, 2, 4, 8, 16, 6, 30):
                add(g, flags)
            add(g, 0, amp=950, dq=40)                     # loud: saturation of the integer outputs
            add(g, 2, amp=950, dq=rng.choice([20, 40, 80]))
        for g in BADGAINS:
            add(g, rng.choice([0, 8]))
    nr = 20 if tier == "quick" else 1500
    for _ in range(nr):                                     # any gain, not just the grid
        add(rng.randint(-32768, 32767), rng.choice([0, 2, 4, 8, 16, 6, 14, 30]))
    return lines


def splice_lines(ctx, rng):
    """streams spliced from a speech-only and a transform-only encoder: mode changes without redundancy (regression for F12)"""
    lines = []
    n = 2 if ctx.tier == "quick" else 12
    for g in GAINS:
        for _ in range(n):
            lines.append("G %d %d %d %d %d %d %d %d" % (rng.randrange(1, 1 << 40), rng.choice(FSS), rng.choice([1, 2]),
                                                        rng.choice([10, 20, 40, 80]), 16, g, rng.choice([1, 1, 3, 9, 17]), rng.choice([950, 300])))
    return lines


# ---------------------------------------------------------------------------------------------
# execution and judgement

OBS = dict(clip_calls=0, degenerate_calls=0, channels_judged=0, inrange_cleared_channels=0, overrange_channels=0,
           tiny_sign_flips=0, max_channels=0, max_N=0, gain_decodes=0, gain_sets=0, illegal_gain_sets=0,
           max_spread_q30=0, max_factor_err_q25600=0, events_sat16=0, events_sat24=0, min_m16=32767, min_m24=32767,
           transition_events=0, plc_events=0, fec_events=0, fixed_point_decodes=0, fixed_sat_events=0, open_tail_channels=0)


def stats(ctx, out):
    """counts and calibration figures (measurements only; nothing is judged here)"""
    gain = 0; fx = 0; n = 0
    with open(out) as f:
        for ln in f:
            try:
                e = json.loads(ln)
            except ValueError:
                continue
            n += 1
            k = e["k"]
            if k == "clip":
                OBS["clip_calls"] += 1
                OBS["max_channels"] = max(OBS["max_channels"], e["C"]); OBS["max_N"] = max(OBS["max_N"], e["N"])
                if e["deg"]:
                    OBS["degenerate_calls"] += 1
                    ctx.nontrivial.add(hash(ln))
                else:
                    OBS["channels_judged"] += e["C"]
                    OBS["overrange_channels"] += sum(1 for v in e["inr"] if v == 0)
                    OBS["inrange_cleared_channels"] += sum(1 for i, v in enumerate(e["inr"]) if v == 1 and e["din"][i] == e["di"][i])
                    OBS["open_tail_channels"] += sum(1 for v in e["mz"] if v == 0)
                    OBS["tiny_sign_flips"] += sum(e["fp"])
                    if 0 in e["inr"] or 0 in e["mz"]:
                        ctx.nontrivial.add(hash(ln))
                    if len(ctx.samples) < 2 and 0 in e["inr"]:
                        ctx.sample(e)
            elif k == "gnew":
                gain = 0; fx = e["fx"]
            elif k == "gset":
                OBS["gain_sets"] += 1
                if e["r"] != 0:
                    OBS["illegal_gain_sets"] += 1
                gain = e["get"]
            elif k == "gdec":
                OBS["gain_decodes"] += 1
                if fx:
                    OBS["fixed_point_decodes"] += 1
                    OBS["fixed_sat_events"] += 1 if e["o16"] > 0 else 0
                OBS["plc_events"] += e["kind"] == 1; OBS["fec_events"] += e["kind"] == 2
                tr = is_trans(e)
                OBS["transition_events"] += 1 if tr else 0
                if not fx:
                    for (nn, q, s, neg, head) in ((e["tn"], e["tq"], e["ts"], e["tneg"], False), (e["hn"], e["hq"], e["hs"], e["hneg"], True)):
                        if nn > 0 and not neg and not (head and tr):
                            OBS["max_spread_q30"] = max(OBS["max_spread_q30"], s)
                            OBS["max_factor_err_q25600"] = max(OBS["max_factor_err_q25600"], abs(q - 100 * gain))
                if e["o16"] > 0:
                    OBS["events_sat16"] += 1; OBS["min_m16"] = min(OBS["min_m16"], e["m16"])
                if e["o24"] > 0:
                    OBS["events_sat24"] += 1; OBS["min_m24"] = min(OBS["min_m24"], e["m24"])
                if gain != 0 and (fx or e.get("tn", 0) > 0):
                    ctx.nontrivial.add(hash(ln))
                if len(ctx.samples) < 5 and gain != 0 and e["o16"] > 0:
                    ctx.sample(dict(gain=gain, event=e))
            elif k in ("end", "gend"):
                ctx.traces += 1
    ctx.evaluations += n


def input_line_of(out, ip, rej):
    """the input line (sequence / stream) that produced the rejected event"""
    x = 0
    with open(out) as f:
        for i, ln in enumerate(f, 1):
            if ln.startswith('{"k":"seq"') or ln.startswith('{"k":"gnew"'):
                x = json.loads(ln)["x"]
            if i == rej:
                break
    return vf.file_line(ip, x) if x else ""


_LOCK = threading.Lock()


def split_flagged(job, act):
    """Routing only (nothing is judged here): the sequences / streams that contain an event matching the key of a listed finding go
    to a small trace file of their own, so that TLC's rejection and the tolerant second pass concern only them."""
    k, mode, variant, ip, out = job
    none = dict(TOLFLIP="0", TOLTRANS="0")
    groups = []; cur = None
    with open(out) as f:
        for ln in f:
            if ln.startswith('{"k":"seq"') or ln.startswith('{"k":"gnew"') or cur is None:
                cur = [False, []]
                groups.append(cur)
            cur[1].append(ln)
            if not cur[0] and ('"k":"clip"' in ln or '"k":"gdec"' in ln):
                try:
                    if match_finding(json.loads(ln), none, act):
                        cur[0] = True
                except ValueError:
                    pass
    if not any(g[0] for g in groups) or all(g[0] for g in groups):
        return [job]
    res = []
    for flag, suffix in ((False, ".rest"), (True, ".flag")):
        p = out + suffix
        with open(p, "w") as f:
            for g in groups:
                if g[0] == flag:
                    f.writelines(g[1])
        res.append((k, mode, variant + suffix, ip, p))
    return res


def judge(ctx, job, act, reported):
    """TLC judges one trace chunk.  Returns (tol flags used, rejected line or None, drift line or None)."""
    k, mode, variant, ip, out = job
    tol = dict(TOLFLIP="0", TOLTRANS="0")
    what = "C19 %s %s %02d" % (mode, variant, k)
    drift = None
    for _ in range(6):
        env = dict(STRICT="1", **tol)
        acc, rej, tr = vf.validate_seq(ctx, "SoftClipTrace", "SoftClipTrace.cfg", out, what + " strict", heap="3g", extra_env=env)
        if acc:
            return tol, None, drift
        e = json.loads(vf.file_line(out, rej) or "{}")
        fid = match_finding(e, tol, act)
        if fid is None:
            # not a listed finding under the strict reading: is it a property clause or only model conformance?
            env = dict(STRICT="0", **tol)
            acc2, rej2, tr2 = vf.validate_seq(ctx, "SoftClipTrace", "SoftClipTrace.cfg", out, what + " prop", heap="3g", extra_env=env)
            if acc2:
                return tol, None, rej
            e = json.loads(vf.file_line(out, rej2) or "{}")
            fid = match_finding(e, tol, act)
            rej = rej2
            if fid is None:
                return tol, rej, drift
        with _LOCK:
            first = fid not in reported
            reported[fid] = True
        if first:
            ctx.known_finding("[%s] %s [e.g. %s | event %s]" % (fid, act[fid]["what"], input_line_of(out, ip, rej)[:200],
                                                                json.dumps({kk: e[kk] for kk in e if kk not in ("din", "di", "dp", "dq")})[:400]))
        tol[TOLFLAG[fid]] = "1"
    raise vf.Infra("judge loop did not settle on " + out)


def header(mode, variant):
    return "# C19 replay mode=%s variant=%s\n" % (mode, variant)


def run_chunks(ctx, exe_by_variant, jobs):
    """jobs: (k, mode, variant, lines).  Executes the harness; returns jobs with files."""
    def one(job):
        k, mode, variant, lines = job
        ip = ctx.path("in_%s_%s_%02d.txt" % (mode, variant, k))
        with open(ip, "w") as f:
            f.write(header(mode, variant))
            f.write("\n".join(lines) + "\n")
        out = ctx.path("tr_%s_%s_%02d.ndjson" % (mode, variant, k))
        rc, err = vf.run_hx(exe_by_variant[variant], [mode], out, stdin_path=ip, timeout=3000)
        return (k, mode, variant, ip, out), rc, err
    return vf.parallel(one, jobs, nproc=min(vf.NCPU, 12))


def chunk(lines, n):
    n = max(1, min(n, len(lines)))
    per = (len(lines) + n - 1) // n
    return [lines[i * per:(i + 1) * per] for i in range(n) if lines[i * per:(i + 1) * per]]


def confirm_and_report(ctx, exe_by_variant, job, rej, act):
    """R4: re-execute the offending sequence/stream alone and have TLC judge it again before reporting"""
    k, mode, variant, ip, out = job
    line = input_line_of(out, ip, rej)
    ev = vf.file_line(out, rej)
    rp = ctx.path("rej_%s_%s_%02d.txt" % (mode, variant, k))
    with open(rp, "w") as f:
        f.write(header(mode, variant) + line + "\n")
    out2 = ctx.path("rerun_%s_%s_%02d.ndjson" % (mode, variant, k))
    rc, err = vf.run_hx(exe_by_variant[variant], [mode], out2, stdin_path=rp, timeout=600)
    if rc != 0:
        ctx.violation("hx_softclip %s aborted rc=%d on [%s]: %s" % (mode, rc, line[:300], err[-1200:]), replay_src=rp)
        return
    tol, rej2, drift = judge(ctx, (k, mode, variant, rp, out2), act, dict(F11=True, F12=True))
    if rej2 is None:
        raise vf.Infra("rejection of %s line %s did not repeat when [%s] was re-executed alone" % (out, rej, line[:300]))
    ctx.violation("C19 obligation rejected by SoftClipTrace (%s, %s build): input [%s] event %s" % (mode, variant, line[:400], ev[:700]),
                  replay_src=rp)


def model_runs(ctx):
    tier = ctx.tier
    # action coverage (vacuity guard) on a small instance: -coverage is slow on the big ones
    r = ctx.mc("SoftClip_mc", "SoftClip_mc_cov.cfg", what="soft clipper: action coverage (depth 2, C 0..2)", workers=2,
               timeout=600, require_actions=["CCall", "CZero"])
    if r.violation:
        raise vf.Infra("SoftClip model invariant %s violated:\n%s" % (r.violation, r.state_dump[:1500]))
    if r.coverage.get("CDegenerate", (0, 0))[1] == 0:
        raise vf.Infra("SoftClip model: no degenerate call explored (vacuous)")
    r = ctx.mc("SoftClip_mc", "SoftClip_mc_quick.cfg", what="soft clipper: all call sequences <= 3, C 0..3", workers=8, timeout=900)
    if r.violation:
        raise vf.Infra("SoftClip model invariant %s violated:\n%s" % (r.violation, r.state_dump[:1500]))
    if tier == "thorough":
        r = ctx.mc("SoftClip_mc", "SoftClip_mc_thorough.cfg", what="soft clipper: all call sequences <= 4, C 0..3", workers=8, timeout=1500)
        if r.violation:
            raise vf.Infra("SoftClip model invariant %s violated:\n%s" % (r.violation, r.state_dump[:1500]))
    g = ctx.mc("SoftClip_mc", "SoftClip_mc_gain_quick.cfg" if tier == "quick" else "SoftClip_mc_gain_thorough.cfg",
               what="decoder gain: all call sequences", workers=4, timeout=900, require_actions=["GSetLegal", "GDec", "GRst"])
    if g.violation:
        raise vf.Infra("DecGain model invariant %s violated:\n%s" % (g.violation, g.state_dump[:1500]))
    if g.coverage.get("GSetIllegal", (0, 0))[1] == 0:
        raise vf.Infra("DecGain model: no illegal SetGain explored (vacuous)")
    # vacuity guard: each seeded design error must be refuted by the invariants
    seeded = {}
    for cfg, inv in (("SoftClip_mc_bug_sharedmem.cfg", ("TwinEquiv", "Independence")), ("SoftClip_mc_bug_carry.cfg", ("TwinEquiv", "Independence")),
                     ("SoftClip_mc_bug_noreset.cfg", ("MemMeaning",)), ("SoftClip_mc_gain_bug_storebad.cfg", ("GainStaysLegal",)),
                     ("SoftClip_mc_gain_bug_instate.cfg", ("GainOnlyAmplitude",))):
        b = vf.tlc("SoftClip_mc", cfg, workers=2, timeout=300)
        if b.error:
            raise vf.Infra("%s: %s" % (cfg, b.error))
        ctx.add_tlc(b, "seeded design error " + cfg)
        if b.violation not in inv:
            raise vf.Infra("seeded design error %s not refuted (got %s): the model invariants are vacuous" % (cfg, b.violation))
        seeded[cfg] = b.violation
    ctx.notes["seeded_design_errors_refuted"] = seeded
    ctx.exhaustive = True
    ctx.notes["exhaustive_scope"] = ("model side: every sequence of <= %d soft-clip calls (C 0..3, N classes, NULL arguments, all frame-symbol "
                                     "assignments, memory clears) on the three twins and every sequence of <= %d SetGain/Decode/Reset calls; "
                                     "implementation side: the TLC-enumerated sequences plus seeded random ones" % (3 if tier == "quick" else 4, 4 if tier == "quick" else 5))


def run(ctx):
    tier = ctx.tier
    ctx.rule = ("TLC checks the SoftClip model (interleaved vs per-channel twins with carried / cloned memory, zero-memory idempotence, degenerate "
                "arguments, gain contract; seeded design errors must be refuted); TLC enumerates call sequences which are concretised with seeded "
                "signals per frame class and replayed through opus_pcm_soft_clip on three twins; packet streams from real encoders are decoded on "
                "twin decoders (gain 0 / gain g float / 16-bit / 24-bit; fixed-point build 16-bit); SoftClipTrace judges every event. "
                "non-trivial = distinct recorded soft-clip calls that are degenerate, have an over-range channel or leave non-zero memory, plus "
                "distinct decode events with a non-zero gain and measured samples")
    ctx.assumptions = ["TLC 1.8.0 and the CommunityModules Json reader are trusted",
                       "float-valued clauses are judged on the harness's integer measurements (exact float comparisons for the range and sign clauses; "
                       "ratio statistics computed in double precision over samples with |y_0| >= 1e-25)",
                       "gain factor tolerance: 50/25600 dB (half a Q8 step); common-factor tolerance: spread <= 512 * 2^-30 (one float rounding is <= 128)",
                       "integer saturation is judged against the float twin with the same gain (float build) or the gain-0 twin times 10^(g/5120) with a "
                       "factor two of margin (fixed-point build); 'saturated' is read as: same sign and magnitude >= half the container",
                       "findings F0, F11, F12 are fixed in /repo; nothing is tolerated"]
    if ctx.replay:
        return replay(ctx)
    act = active_findings()
    import time
    t0 = time.time()

    def phase(name):
        vf.log("[phase] %-28s t=%.1fs" % (name, time.time() - t0))
    model_runs(ctx)
    phase("model runs done")
    rng = random.Random(ctx.seed)
    clip = clip_lines(ctx, rng)
    gl = gain_lines(ctx, rng, False)
    sp = splice_lines(ctx, rng)
    gfx = gain_lines(ctx, rng, True) + splice_lines(ctx, rng)[:9 if tier == "quick" else 60]
    phase("behaviours generated")
    exe = {}
    var = vf.build_variant("hk")
    exe["hk"] = vf.build_hx(var, "softclip.c")
    varf = vf.build_variant("hkfix")
    exe["hkfix"] = vf.build_hx(varf, "softclip.c")
    jobs = []
    jobs.append((0, "clip", "hk", DIRECTED_CLIP))
    for i, part in enumerate(chunk(clip, 8 if tier == "quick" else 14)):
        jobs.append((i + 1, "clip", "hk", part))
    for i, part in enumerate(chunk(gl, 6 if tier == "quick" else 12)):
        jobs.append((i, "gain", "hk", part))
    for i, part in enumerate(chunk(sp, 1 if tier == "quick" else 4)):
        jobs.append((50 + i, "gain", "hk", part))
    for i, part in enumerate(chunk(gfx, 2 if tier == "quick" else 8)):
        jobs.append((i, "gain", "hkfix", part))
    ctx.notes["executions"] = dict(clip_sequences=len(clip) + len(DIRECTED_CLIP), gain_streams=len(gl) + len(sp), fixed_point_gain_streams=len(gfx))
    phase("libraries and harness built")
    res = run_chunks(ctx, exe, jobs)
    phase("executions recorded")
    good = []
    for job, rc, err in res:
        if rc != 0:
            ctx.violation("hx_softclip %s (%s build) aborted rc=%d on %s: %s" % (job[1], job[2], rc, job[3], err[-1500:]), replay_src=job[3])
        else:
            good.append(job)
    reported = {}

    def val(job):
        return job, judge(ctx, job, act, reported)
    ndrift = 0
    for job in good:
        stats(ctx, job[4])
    parts = [p for job in good for p in split_flagged(job, act)]
    for job, (tol, rej, drift) in vf.parallel(val, parts, nproc=min(vf.NCPU, 10)):
        job = (job[0], job[1], job[2].split(".")[0], job[3], job[4])
        if rej is not None:
            confirm_and_report(ctx, exe, job, rej, act)
        elif drift is not None and ndrift < 3:
            ndrift += 1
            ctx.spec_drift("SoftClip", "memory flag / untouched output does not follow SoftClip!Process (or the gain did not survive a reset) at %s line %s: "
                           "input [%s] event %s" % (os.path.basename(job[4]), drift, input_line_of(job[4], job[3], drift)[:200], vf.file_line(job[4], drift)[:400]))
    phase("traces judged")
    # vacuity guards on the implementation side (measured)
    if not ctx.violations:
        need = dict(degenerate_calls=1, inrange_cleared_channels=1, open_tail_channels=1, events_sat16=1, events_sat24=1,
                    illegal_gain_sets=1, plc_events=1, fec_events=1, fixed_sat_events=1)
        for kk, v in need.items():
            if OBS[kk] < v:
                raise vf.Infra("coverage: %s = %d (vacuous run)" % (kk, OBS[kk]))
    ctx.notes["thresholds"] = dict(SpreadTol_q30=512, FactorTol_q25600=50, SatMin16=8192, SatMin24_q16=16384, flip_floor="2^-10")
    ctx.notes["observed"] = OBS


def replay(ctx):
    with open(ctx.replay) as f:
        first = f.readline()
    m = re.match(r"# C19 replay mode=(\w+) variant=(\w+)", first)
    if not m:
        raise vf.Infra("not a C19 replay file: " + ctx.replay)
    mode, variant = m.group(1), m.group(2)
    var = vf.build_variant(variant)
    exe = vf.build_hx(var, "softclip.c")
    out = ctx.path("replay.ndjson")
    rc, err = vf.run_hx(exe, [mode], out, stdin_path=ctx.replay)
    if rc != 0:
        ctx.violation("replay aborted rc=%d %s" % (rc, err[-800:]), replay_src=ctx.replay)
        return
    act = active_findings()
    tol, rej, drift = judge(ctx, (0, mode, variant, ctx.replay, out), act, {})
    stats(ctx, out)
    ctx.nontrivial_count = max(2, len(ctx.nontrivial))
    ctx.states = max(ctx.states, 1); ctx.transitions = max(ctx.transitions, 1)
    if rej is not None:
        ctx.violation("replayed execution rejected at line %s: %s" % (rej, vf.file_line(out, rej)[:700]), replay_src=ctx.replay)
    elif drift is not None:
        ctx.spec_drift("SoftClip", "replay: conformance rejected at line %s: %s" % (drift, vf.file_line(out, drift)[:400]))
    ctx.notes["observed"] = OBS


META = dict(
    engine="SoftClip",
    technique="TLA+ model of the soft clipper's per-channel memory and of the decoder gain contract; TLC exhaustive over call sequences on "
              "interleaved / per-channel twins; TLC-generated call sequences replayed through opus_pcm_soft_clip; TLC trace validation of "
              "every call and of twin-decoder gain runs on integer measurements",
    level_text=("TLC proves on the SoftClip model, for every sequence of up to 3 (quick) / 4 (thorough) calls over C in 0..3, the N classes, NULL "
                "arguments and all assignments of frame classes to channels, that the interleaved call equals channel-by-channel calls with carried or "
                "cloned memory, that channels never influence each other, that in-range input on cleared memory is untouched and leaves the memory "
                "zero, that degenerate arguments have no effect, and for the gain that only legal values are stored and that count / final range / "
                "duration never depend on it; five seeded design errors are refuted. The model is bound to libopus by replaying the TLC-enumerated "
                "sequences (concretised per frame class, C up to 8 and 16, N up to 5760) and random ones on three twins and by decoding real packet "
                "streams on twin decoders for gains over the whole range; SoftClipTrace judges every recorded event: bit-exact digests for the "
                "structural clauses, exact counts for [-1,1] and sign preservation, measured ratio statistics for the gain factor, a wrap detector "
                "for the 16-bit and 24-bit outputs (float and fixed-point builds)."),
    level_note=("Trusted: TLC, Json module, the harness's measurements (digests, counts, ratio statistics). Sample values are not modelled in TLA+; "
                "[-1,1], sign preservation, the gain factor and saturation are judged on measurements of the explored executions, not proved for all "
                "signals. Two deviations found by this check (F11 sign flips of tiny samples by the frame-start ramp; F12 gain applied twice on mode "
                "transitions) and F0 (24-bit wrap) are fixed in /repo; their reappearance is a VIOLATION."),
)
