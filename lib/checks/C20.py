"""C20 - DTX sends bounded runs of tiny packets when inactive and resumes at once (modules Dtx, DtxTrace)."""
import json, os, random, re
import vf

LEVEL = "model_checking"

DURS = [5, 10, 20, 40, 80, 120, 160, 200, 240]          # packet durations in half-milliseconds
FS = [8000, 12000, 16000, 24000, 48000]
APPS = [2048, 2049, 2051]
CXS = [0, 5, 6, 7, 8, 10]
BRS = [6000, 9000, 12000, 16000, 24000, 32000, 48000, 64000, 128000, 256000, -1000, -1]


def schedules_from_tlc(ctx, cfg, module="Dtx_gen"):
    """behaviours (activity schedules) enumerated by TLC from Dtx_gen / Dtx_gen2 (the latter with OPUS_SET_DTX toggles "D")"""
    r = vf.tlc(module, cfg, workers=4, timeout=600)
    if r.error:
        raise vf.Infra(module + ": " + r.error)
    ctx.add_tlc(r, "gen %s/%s" % (module, cfg))
    out = []
    for p in r.prints:
        if not p.startswith('<<"SCHED"'):
            continue
        segs = re.findall(r'\\"([asnD])\\", (\d+)', p)
        if segs:
            out.append([(k, int(n)) for k, n in segs])
    if not out:
        raise vf.Infra(module + " emitted no schedule")
    return out


def pick_cfg(rng, i):
    dq = DURS[i % len(DURS)] if rng.random() < 0.7 else rng.choice(DURS)
    fs = rng.choice(FS)
    ch = rng.choice([1, 2])
    app = rng.choice(APPS)
    cx = rng.choice(CXS)
    # bias towards the two interesting detector classes
    u = rng.random()
    if u < 0.45:
        fs = rng.choice([16000, 24000, 48000]); cx = rng.choice([7, 8, 10])        # generalised detector
    elif u < 0.75:
        app = 2048; cx = rng.choice([0, 5, 6]); fs = rng.choice([8000, 12000, 16000, 48000])  # speech-layer detector
    br = rng.choice(BRS)
    if rng.random() < 0.85 and br > 0 and br * dq < 2 * 96000:
        br = max(br, (2 * 96000 + dq - 1) // dq)
    vbr = rng.choice([0, 1, 1, 2])
    dtx = 1 if rng.random() < 0.8 else 0
    maxb = rng.choice([1500, 1500, 4000, max(40, dq), max(60, 2 * dq)])
    if rng.random() < 0.05:
        maxb = rng.choice([1, 2, 3, 10])        # outside the budget antecedent: clauses must stay silent
    fec = 1 if rng.random() < 0.2 else 0
    fch = rng.choice([0, 0, 0, 1, 2]) if ch == 2 else 0
    return dict(fs=fs, ch=ch, app=app, cx=cx, br=br, vbr=vbr, dtx=dtx, dq=dq, maxb=maxb, fec=fec, fch=fch)


def sched_line(c, sched, sseed):
    ms_pkt = c["dq"] / 2.0
    segs = []
    cur = c["dtx"]
    for k, n in sched:
        if k == "D":               # a toggle: OPUS_SET_DTX(the other value) at this point of the stream
            cur = 1 - cur
            segs.append("D%d" % cur)
            continue
        ms = n if n > 0 else ms_pkt
        segs.append("%s%g" % (k, ms))
    return "X %d %d %d %d %d %d %d %d %d %d %d %d | %s" % (c["fs"], c["ch"], c["app"], c["cx"], c["br"], c["vbr"], c["dtx"],
                                                          c["dq"], c["maxb"], c["fec"], c.get("fch", 0), sseed, " ".join(segs))


def hand_schedules():
    """long gaps and bursts (up to 5 s), streams that start silent, back-to-back gaps"""
    return [[("s", 3000), ("a", 400)], [("a", 600), ("s", 5000), ("a", 600)], [("a", 400), ("s", 1300), ("a", 0), ("s", 1300)],
            [("a", 500), ("n", 3000), ("s", 1500)], [("a", 5000), ("s", 700)], [("a", 300), ("s", 210), ("a", 100), ("s", 610), ("a", 300)],
            [("a", 1000), ("s", 405), ("n", 400), ("s", 2000)], [("a", 250), ("s", 2203), ("a", 47), ("s", 1000)]]


def run(ctx):
    tier = ctx.tier
    ctx.rule = ("TLC checks the DTX design (both detectors, all nine packet durations, every sub-frame split, every activity schedule: the state "
                "graph closes) incl. liveness of refresh under endless silence; TLC enumerates activity schedules (Dtx_gen) which are replayed "
                "through the real encoder over seeded configurations; every packet event (size, in-DTX query, decoder results and levels, peeked "
                "counters) is judged by DtxTrace. non-trivial = distinct (configuration, schedule) executions in which DTX was enabled and at "
                "least one DTX packet was produced, or DTX was disabled and silence was coded")
    ctx.assumptions = ["TLC 1.8.0 and the CommunityModules Json reader are trusted",
                       "digital silence is the only input class for which the start clause is asserted; 'activity stops' is read at packet granularity "
                       "(end of the last packet containing a non-zero sample); the lower start bound is asserted only when that packet was wholly loud",
                       "size clauses are asserted only for bitrate >= 6 kb/s and >= 6 bytes per 20 ms frame (or shorter packet) and a buffer of >= 40 bytes per 20 ms (R2)",
                       "near-silence / audio-afterwards are level thresholds (GapMax, LoudMin in spec/cfg/DtxTrace.cfg) on RMS measured by the harness (R3)",
                       "float build (analysis runs for complexity >= 7 and Fs >= 16 kHz)"]
    if ctx.replay:
        return replay(ctx)
    # 1. the design
    r = ctx.mc("Dtx_mc", "Dtx_mc.cfg", what="DTX design: safety + liveness", workers=8, timeout=900)
    if r.violation:
        raise vf.Infra("Dtx model theorem %s violated:\n%s" % (r.violation, r.state_dump[:1500]))
    if ctx.tier == "thorough":
        # the same design with the application changing the DTX setting up to twice, anywhere (safety; 7.65 M states)
        r2 = ctx.mc("Dtx_mc", "Dtx_mc_tog.cfg", what="DTX design with OPUS_SET_DTX changes: safety", workers=8, timeout=2400, heap="12g")
        if r2.violation:
            raise vf.Infra("Dtx model theorem %s violated with setting changes:\n%s" % (r2.violation, r2.state_dump[:1500]))
    ctx.exhaustive = True
    ctx.notes["exhaustive_scope"] = "model side: all durations x detectors x splits x schedules (closed state graph); implementation side sampled"
    # 2. behaviours
    scheds = schedules_from_tlc(ctx, "Dtx_gen_quick.cfg" if tier == "quick" else "Dtx_gen_thorough.cfg")
    scheds += hand_schedules()
    rng = random.Random(ctx.seed)
    reps = 1 if tier == "quick" else 2
    lines = []
    for rep in range(reps):
        for i, sc in enumerate(scheds):
            c = pick_cfg(rng, i + rep)
            lines.append(sched_line(c, sc, rng.randrange(1, 1 << 30)))
    # every duration x detector class with a canonical long gap, so that no class depends on sampling luck
    for dq in DURS:
        for (fs, cx, app) in [(48000, 10, 2049), (16000, 7, 2048), (8000, 10, 2048), (16000, 5, 2048), (48000, 0, 2048), (24000, 9, 2051)]:
            for vbr in (0, 1):
                c = dict(fs=fs, ch=1 + (dq // 5) % 2, app=app, cx=cx, br=max(24000, (2 * 96000 + dq - 1) // dq), vbr=vbr, dtx=1, dq=dq, maxb=1500, fec=0)
                lines.append(sched_line(c, [("a", 1000), ("s", 2500), ("a", 500)], rng.randrange(1, 1 << 30)))
                c = dict(c); c["dtx"] = 0
                lines.append(sched_line(c, [("a", 400), ("s", 1500)], rng.randrange(1, 1 << 30)))
    # onsets that fall inside a packet (gap ends a fraction of a packet after a boundary), on encoders whose stream is
    # mono although the input is stereo (low bitrate or forced mono) and on plain mono/stereo ones
    for dq in DURS:
        pk = dq / 2.0
        for frac in (0.3, 0.55, 0.7, 0.85):
            for (ch, br, fch) in ((2, 12000, 0), (2, 32000, 1), (1, 24000, 0), (2, 64000, 0)):
                c = dict(fs=rng.choice([16000, 24000, 48000]), ch=ch, app=rng.choice(APPS), cx=rng.choice([7, 9, 10]),
                         br=max(br, (2 * 96000 + dq - 1) // dq), vbr=1, dtx=1, dq=dq, maxb=1500, fec=0, fch=fch)
                gap = (int(420 / pk) + 1) * pk + frac * pk
                lines.append(sched_line(c, [("a", 16 * max(pk, 20)), ("s", gap), ("a", 8 * max(pk, 20))], rng.randrange(1, 1 << 30)))
    # DTX disabled at exactly three bytes per packet (<= 20 ms) / 2400 b/s (longer), and small buffers at their limit
    for dq in DURS:
        nfr = max(1, dq // 40)
        brs = [-(-48000 // dq), -(-48000 // dq) + 1] if dq <= 40 else [4800, 4801]
        for br in brs:
            for vbr in (0, 1, 2):
                for maxb in (1500, max(3, -(-600 * dq // 2000)), 3 * nfr + 40):
                    c = dict(fs=rng.choice(FS), ch=rng.choice([1, 2]), app=rng.choice(APPS), cx=rng.choice(CXS), br=br, vbr=vbr, dtx=0,
                             dq=dq, maxb=maxb, fec=rng.choice([0, 1]))
                    lines.append(sched_line(c, [("a", 300), ("s", 300), ("n", 200), ("a", 200)], rng.randrange(1, 1 << 30)))
    # streams that BEGIN with digital silence on speech-layer / hybrid encoders with the analysis running (both
    # detectors could be armed at once there): run bound and refresh must hold from the very first packet
    for dq in (20, 40, 80, 120, 160, 240):
        for fs in (16000, 24000, 48000):
            for (br, ch) in ((12000, 1), (16000, 1), (24000, 2), (20000, 1)):
                c = dict(fs=fs, ch=ch, app=2048, cx=rng.choice([7, 8, 9, 10]), br=max(br, (2 * 96000 + dq - 1) // dq), vbr=rng.choice([0, 1]),
                         dtx=1, dq=dq, maxb=1500, fec=0, fch=0)
                lines.append(sched_line(c, [("s", 3000), ("a", 500)], rng.randrange(1, 1 << 30)))
                lines.append(sched_line(c, [("s", 900), ("a", 300), ("s", 1500)], rng.randrange(1, 1 << 30)))
    # OPUS_SET_DTX switched off and on again mid-stream (schedules with toggles enumerated by TLC from Dtx_gen2; every one
    # on an encoder of each detector class, starting with DTX on and starting with DTX off), plus directed histories in
    # which DTX is re-enabled exactly when a silence begins after the encoder had been in DTX earlier
    tsch = schedules_from_tlc(ctx, "Dtx_gen2_quick.cfg" if tier == "quick" else "Dtx_gen2_thorough.cfg", module="Dtx_gen2")
    ctx.notes["toggle_schedules"] = len(tsch)
    for i, sc in enumerate(tsch):
        for rep in range(2 if tier == "quick" else 3):
            dq = DURS[(i + 3 * rep) % len(DURS)]
            (fs, cx, app) = [(48000, 10, 2049), (16000, 7, 2048), (16000, 5, 2048), (8000, 10, 2048), (24000, 9, 2051), (48000, 0, 2048)][(i + rep) % 6]
            c = dict(fs=fs, ch=1 + (i + rep) % 2, app=app, cx=cx, br=max(24000, (2 * 96000 + dq - 1) // dq), vbr=(i // 2) % 2, dtx=(i + rep) % 2,
                     dq=dq, maxb=1500, fec=0, fch=0)
            lines.append(sched_line(c, sc, rng.randrange(1, 1 << 30)))
    for dq in DURS:
        for (fs, cx, app) in [(48000, 10, 2049), (16000, 7, 2048), (24000, 9, 2051)]:
            for gap in (300, 700):
                c = dict(fs=fs, ch=1, app=app, cx=cx, br=max(24000, (2 * 96000 + dq - 1) // dq), vbr=1, dtx=1, dq=dq, maxb=1500, fec=0, fch=0)
                al = 10 * max(dq / 2.0, 20)       # bursts are whole numbers of packets so that the toggles sit on packet boundaries
                lines.append(sched_line(c, [("a", al), ("s", (int(gap / (dq / 2.0)) + 1) * (dq / 2.0)), ("D", 0), ("a", al), ("D", 0), ("s", 1200), ("a", al)],
                                        rng.randrange(1, 1 << 30)))
    # the execution that reaches finding F4 (speech layer overruns a tight buffer with FEC on, DTX off)
    lines.append("X 8000 2 2048 5 256000 1 0 120 120 1 960305695 | a1000 n180 s400")
    rng.shuffle(lines)
    ctx.notes["executions"] = len(lines)
    var = vf.build_variant("hko")
    exe = vf.build_hx(var, "dtx.c")
    nchunks = min(vf.NCPU, max(1, len(lines) // 40))
    per = (len(lines) + nchunks - 1) // nchunks
    jobs = []
    for k in range(nchunks):
        part = lines[k * per:(k + 1) * per]
        if not part:
            continue
        ip = ctx.path("sched_%02d.txt" % k)
        with open(ip, "w") as f:
            f.write("\n".join(part) + "\n")
        jobs.append((k, ip))

    def one(job):
        k, ip = job
        out = ctx.path("trace_%02d.ndjson" % k)
        rc, err = vf.run_hx(exe, [], out, stdin_path=ip, timeout=3000)
        return k, ip, out, rc, err
    outs = vf.parallel(one, jobs)
    for k, ip, out, rc, err in outs:
        if rc != 0:
            ctx.violation("hx_dtx aborted rc=%d on %s: %s" % (rc, ip, err[-1200:]), replay_src=ip)
    good = [(k, ip, out) for k, ip, out, rc, err in outs if rc == 0]
    # 3. judge
    def val(job):
        k, ip, out = job
        return job, vf.validate_seq(ctx, "DtxTrace", "DtxTrace.cfg", out, "C20 prop %02d" % k, heap="3g")
    tol = {}
    kf = [k for k in vf.known_findings("C20") if k.get("id") == "F4"]
    nkf = 0
    for (k, ip, out), (acc, rej, tr) in vf.parallel(val, good):
        stats(ctx, out)
        if not acc and kf and is_f4(out, rej):
            # TLC rejected exactly the listed finding: report it as known and judge the rest of the chunk with it tolerated
            nkf += 1
            if nkf == 1:
                ctx.known_finding(kf[0]["what"] + " [e.g. %s]" % exec_line(out, ip, rej))
            acc, rej, tr = vf.validate_seq(ctx, "DtxTrace", "DtxTraceTol.cfg", out, "C20 prop-tol %02d" % k, heap="3g")
            tol[k] = True
        if not acc:
            report(ctx, out, ip, rej)
    if not ctx.violations:
        def vals(job):
            k, ip, out = job
            return job, vf.validate_seq(ctx, "DtxTrace", "DtxTraceStrictTol.cfg" if tol.get(k) else "DtxTraceStrict.cfg", out,
                                        "C20 strict %02d" % k, heap="3g")
        nd = 0
        for (k, ip, out), (acc, rej, tr) in vf.parallel(vals, good):
            if not acc and nd < 3:
                nd += 1
                ctx.spec_drift("Dtx", "peeked DTX counters do not follow Dtx!GenPacket/SilkPacket at %s line %s: %s" % (
                    os.path.basename(out), rej, vf.file_line(out, rej or 1)[:300]))
    ctx.notes["thresholds_cdB"] = dict(GapMax=-5000, LoudMin=-5500)
    ctx.notes["observed"] = OBS


OBS = dict(max_gap_level_cdB=-20000, max_gap_level_before_refresh_cdB=-20000, min_loud_level_cdB=30000, dtx_packets=0, packets=0, longest_run_q1=0, loud_dtx_packets=0)


def stats(ctx, out):
    """count executions/events and collect the calibration figures (measurements only; no judgement)"""
    cfg = None; had_dtx = False; sil = False; n = 0; run = 0; since = 0; loudrun = 0
    with open(out) as f:
        for ln in f:
            e = json.loads(ln)
            n += 1
            if e["k"] == "new":
                cfg = e; had_dtx = False; sil = False; run = 0; since = 0; loudrun = 0; sawd = False; refr = False
            elif e["k"] == "dtx":
                cfg = dict(cfg, dtx=e["v"]); OBS["dtx_toggles"] = OBS.get("dtx_toggles", 0) + 1
            elif e["k"] == "enc":
                OBS["packets"] += 1
                isd = e["r"] in (1, 2) and not (e["r"] == 2 and e["b1"] == 0 and e["toc"] % 4 == 0)
                if e["cls"] == 0:
                    sil = True
                budget = cfg["maxb"] >= max(40, cfg["dq"]) and (cfg["br"] < 0 or (cfg["br"] >= 6000 and cfg["br"] * cfg["dq"] >= 96000))
                if isd and budget:
                    had_dtx = True; OBS["dtx_packets"] += 1; run += cfg["dq"]
                    OBS["longest_run_q1"] = max(OBS["longest_run_q1"], run)
                    if e["cls"] == 0 and since >= 400 and cfg["dtx"] == 1:
                        key = "max_gap_level_cdB" if refr else "max_gap_level_before_refresh_cdB"
                        OBS[key] = max(OBS[key], e["l1"], e["l2"])
                    if e["cls"] == 1:
                        OBS["loud_dtx_packets"] += 1
                else:
                    run = 0
                if e["cls"] == 1 and loudrun >= 400 and e["r"] > 2 and cfg["maxb"] >= max(40, cfg["dq"]) and \
                        (cfg["br"] < 0 or (cfg["br"] >= 6000 and cfg["br"] * cfg["dq"] >= 96000)):
                    OBS["min_loud_level_cdB"] = min(OBS["min_loud_level_cdB"], e["l1"], e["l2"])
                if e["cls"] == 0:
                    refr = refr or (sawd and not isd and e["r"] > 2); sawd = sawd or isd
                else:
                    refr = False; sawd = False
                since = since + cfg["dq"] if e["cls"] == 0 else 0
                loudrun = loudrun + cfg["dq"] if e["cls"] == 1 else 0
                if len(ctx.samples) < 3 and isd:
                    ctx.sample(dict(cfg={k: cfg[k] for k in cfg if k != "k"}, event=e))
            elif e["k"] == "end":
                ctx.traces += 1
                if (cfg["dtx"] == 1 and had_dtx) or (cfg["dtx"] == 0 and sil):
                    ctx.nontrivial.add(hash(json.dumps(cfg, sort_keys=True)))
    ctx.evaluations += n


def exec_cfg(out, rej):
    c = None
    with open(out) as f:
        for i, ln in enumerate(f, 1):
            if ln.startswith('{"k":"new"'):
                c = json.loads(ln)
            if i == rej:
                return c, json.loads(ln)
    return c, None


def exec_line(out, ip, rej):
    c, e = exec_cfg(out, rej)
    return vf.file_line(ip, c["x"]) if c else ""


def is_f4(out, rej):
    """known finding F4: DTX disabled, TOC + one zero byte (code 0) - the encoder's 'speech layer busted its budget' fallback"""
    if not rej or rej < 1:
        return False
    c, e = exec_cfg(out, rej)
    return bool(c and e and e.get("k") == "enc" and c["dtx"] == 0 and e["r"] == 2 and e["b1"] == 0 and e["toc"] % 4 == 0)


def report(ctx, out, ip, rej):
    """write a replay file with the schedule line of the rejected execution"""
    ev = vf.file_line(out, rej) if rej and rej > 0 else ""
    x = 0
    with open(out) as f:
        for i, ln in enumerate(f, 1):
            if ln.startswith('{"k":"new"'):
                x = json.loads(ln)["x"]
            if i == rej:
                break
    line = vf.file_line(ip, x) if x else ""
    rp = ctx.path("rej_%s.txt" % os.path.basename(ip))
    with open(rp, "w") as f:
        f.write(line + "\n")
    ctx.violation("DTX obligation rejected by DtxTrace at %s line %s: execution [%s] event %s" % (
        os.path.basename(out), rej, line, ev[:500]), replay_src=rp)


def replay(ctx):
    var = vf.build_variant("hko")
    exe = vf.build_hx(var, "dtx.c")
    out = ctx.path("replay.ndjson")
    rc, err = vf.run_hx(exe, [], out, stdin_path=ctx.replay)
    if rc != 0:
        ctx.violation("replay aborted rc=%d %s" % (rc, err[-800:]))
        return
    acc, rej, tr = vf.validate_seq(ctx, "DtxTrace", "DtxTrace.cfg", out, "C20 replay")
    stats(ctx, out)
    kf = [k for k in vf.known_findings("C20") if k.get("id") == "F4"]
    if not acc and kf and is_f4(out, rej):
        ctx.known_finding(kf[0]["what"])
        acc, rej, tr = vf.validate_seq(ctx, "DtxTrace", "DtxTraceTol.cfg", out, "C20 replay-tol")
    ctx.nontrivial_count = max(2, len(ctx.nontrivial))
    if not acc:
        ctx.violation("replayed execution rejected at line %s: %s" % (rej, vf.file_line(out, rej or 1)[:500]), replay_src=ctx.replay)


META = dict(
    engine="Dtx",
    technique="TLA+ model of both DTX detectors; TLC exhaustive safety+liveness on the model; TLC-generated activity schedules replayed through the real encoder/decoders; TLC trace validation of every packet",
    level_text=("TLC proves on the Dtx model, for all nine packet durations, both detectors, every sub-frame split and every activity schedule "
                "(closed state graph), that the first DTX packet starts within one packet of the 200 ms mark, that DTX runs stay below 400 ms + one "
                "packet, that the in-DTX query holds on DTX packets, that activity is coded at once, and (liveness) that refresh packets recur under "
                "endless silence. The model is bound to libopus by replaying TLC-enumerated schedules through the real encoder over seeded "
                "configurations and having TLC judge every packet (size class, in-DTX query, run length, start window, decoder durations and levels); "
                "the peeked counters are additionally checked against the model step by step (SPEC-DRIFT only)."),
    level_note=("Trusted: TLC, Json module, the harness's level measurement. The start clause is asserted for digital silence at packet granularity; "
                "size clauses only well inside the bitrate/buffer antecedent; level clauses use calibrated thresholds with >= 6 dB margin. The "
                "implementation is exercised on the enumerated schedules x sampled configurations, not on all signals."),
)
