"""G01 - growth module EncMode: the encoder's mode / bandwidth / channel-count decision machine, its transition
discipline (redundancy, delayed switch to CELT, toMono, SILK bandwidth switch, TOC-only path, reset) and the decoder's
side of the redundancy/transition handshake (modules EncMode, EncMode_mc, EncModeTrace; harness/encmode.c)."""
import json, os, random, re
import vf

LEVEL = "model_checking"

FS = [8000, 12000, 16000, 24000, 48000]
APPS = [2048, 2049, 2051]
QS = [1, 2, 4, 8, 16, 24, 32, 40, 48]
AUTO = -1000
SILK, HYB, CELT = 1000, 1001, 1002
NB, MB, WB, SWB, FB = 1101, 1102, 1103, 1104, 1105

# tags of machine transitions the executions must really have taken (vacuity guard)
REQUIRED_TAGS = {"normal", "low", "multi", "silk", "hybrid", "celt", "firstCleared", "c2sRed", "c2sDrop", "toCeltRed",
                 "toCeltRedMultiLast", "toCeltDrop", "shortSwitch", "bwSwitchRed", "bwSwitchPrefill", "toMono",
                 "monoAfterToMono", "dtxFrame", "bwSwitchNoRed", "forcedChannelsBind", "decTransition", "reset", "lowOverride", "monoInCelt"}

WITNESSES = [("EncMode_mc_w_lockstep.cfg", "LockStepAlways"), ("EncMode_mc_w_resetagree.cfg", "ResetAgreeAlways"),
             ("EncMode_mc_w_NoToCeltRed.cfg", "NoToCeltRed"), ("EncMode_mc_w_NoC2sRed.cfg", "NoC2sRed"),
             ("EncMode_mc_w_NoBwSwitchRed.cfg", "NoBwSwitchRed"), ("EncMode_mc_w_NoToMono.cfg", "NoToMono"),
             ("EncMode_mc_w_NoTransition.cfg", "NoTransition")]


# ---------------------------------------------------------------------------------------------------------------
# behaviours

def head(fs, ch, app, seed, api=0):
    return "X %d %d %d %d %d |" % (fs, ch, app, seed, api)


def tight(q):
    """a buffer that leaves no room for a redundant frame but is above the TOC-only limit"""
    return max(10, 5 * q)


def from_tlc(ctx, cfg, rng):
    """schedules enumerated by TLC (EncMode_mc, InitGen/NextGen) -> plan lines"""
    r = vf.tlc("EncMode_mc", cfg, workers=4, timeout=900)
    if r.error:
        raise vf.Infra("EncMode gen: " + r.error)
    ctx.add_tlc(r, "gen EncMode_mc/" + cfg)
    scheds = []
    for m in re.finditer(r'"SCHED (<<.*?>>)"\s*$', r.out, re.M):
        txt = m.group(1).replace('\\"', '"')
        c = re.match(r'<<<<(\d+), (\d+), (\d+)>>, <<(.*)>>>>$', txt)
        if not c:
            continue
        ops = re.findall(r'<<"(\w+)", (-?\d+)>>', c.group(4))
        scheds.append(((int(c.group(1)), int(c.group(2)), int(c.group(3))), [(k, int(v)) for k, v in ops]))
    if not scheds:
        raise vf.Infra("EncMode gen emitted no schedule")
    scheds.sort()                      # TLC's print order depends on the worker interleaving (R4)
    lines = []
    for (fs, ch, app), ops in scheds:
        q, bud, dtx = 8, 0, 0
        toks = ["br=32000", "e%s2" % rng.choice("vm")]
        for k, v in ops:
            if k == "q":
                q = v; toks.append("q=%d" % v)
                if bud == 1:
                    toks.append("mx=%d" % tight(q))
            elif k == "bud":
                bud = v
                toks.append("mx=%d" % (1500 if v == 0 else tight(q) if v == 1 else 2))
            elif k == "rate":
                toks.append("br=%d" % (v * 1000))
            elif k == "rs":
                toks.append("rs")
            elif k == "dtx":
                dtx = v; toks.append("dx=%d" % v)
            elif k == "cbr":
                toks.append("vb=%d" % v)
            else:
                toks.append("%s=%d" % (k, v))
            # audio after every change (three packets: the delayed switch and the toMono step need two)
            toks.append("e%s3" % rng.choice("vvmms" if dtx else "vvmm"))
        lines.append("%s %s" % (head(fs, ch, app, rng.randrange(1, 1 << 30), rng.randrange(2)), " ".join(toks)))
    return lines


def directed(tier, rng):
    L = []
    sd = lambda: rng.randrange(1, 1 << 30)
    thorough = tier == "thorough"
    fss = FS if thorough else [48000, 16000, 8000]
    # A. forced-layer walks at every duration: generous / tight (no room for redundancy) / CBR
    for fs in fss:
        for ch in (1, 2):
            for q in QS:
                for bud in ("gen", "tight", "cbr"):
                    if not thorough and ((fs // 1000 + 7 * ch + 3 * q + len(bud)) % 3) and q not in (2, 8, 48):     # (deterministic thinning)
                        continue
                    app = rng.choice([2048, 2049])
                    b = {"gen": "mx=1500", "tight": "mx=%d" % tight(q), "cbr": "vb=0 mx=1500"}[bud]
                    br = rng.choice([16000, 24000, 40000, 64000])
                    L.append("%s br=%d q=%d %s fm=1000 ev3 fm=1002 ev3 fm=1001 ev3 fm=1002 ev2 fm=-1000 ev2 fm=1000 ev2 em2" % (
                        head(fs, ch, app, sd(), rng.randrange(2)), br, q, b))
    # B. automatic mode: signal hint and bitrate walks across the mode / bandwidth / stereo thresholds
    for fs in fss:
        for ch in (1, 2):
            for q in ([4, 8, 16, 24, 40, 48] if thorough else [8, 24]):
                app = rng.choice([2048, 2049])
                walk = " ".join("br=%d e%s%d" % (b, rng.choice("vm"), 3) for b in
                                [9000, 14000, 20000, 28000, 40000, 56000, 80000, 128000, 60000, 36000, 22000, 12000, 7000])
                L.append("%s q=%d sg=3001 %s sg=3002 %s sg=-1000 %s" % (head(fs, ch, app, sd(), rng.randrange(2)), q, walk, walk, walk))
    # C. stereo <-> mono: forced channels and rate driven, in each layer, single and multi-frame packets
    for fs in ([48000, 16000] if not thorough else FS):
        for fm in (SILK, CELT, AUTO):
            for q in ([8, 16, 48] if not thorough else [2, 4, 8, 16, 24, 32, 40, 48]):
                L.append("%s q=%d fm=%d br=48000 ev3 fc=1 ev4 fc=2 ev3 fc=-1000 ev2 br=10000 ev4 br=64000 ev4 fc=1 ev1 fc=-1000 ev3" % (
                    head(fs, 2, rng.choice([2048, 2049]), sd(), rng.randrange(2)), q, fm))
    # D. SILK internal bandwidth switch (long runs: the down-switch waits for SILK's transition filter)
    for fs in ([48000, 16000] if not thorough else [48000, 24000, 16000, 12000]):
        for ch in (1, 2):
            for q in ([8] if not thorough else [4, 8, 16, 24]):
                n = max(40, 1400 // q)
                L.append("%s q=%d fm=1000 br=24000 bw=1103 ev12 bw=1101 ev%d bw=1103 ev%d bw=1102 ev%d bw=1101 ev%d fm=1002 ev2" % (
                    head(fs, ch, 2048, sd(), 0), q, n, n // 3, n // 3, n))
                L.append("%s q=%d fm=1000 br=20000 mb=1103 ev12 mb=1101 ev%d mb=1103 ev%d q=2 ev2 q=%d ev3" % (
                    head(fs, ch, 2048, sd(), 1), q, n, n // 2, q))
    # D2. the same with no room for the redundant frames of the bandwidth switch (the switch then happens bare)
    for (fs, ch, q, bud) in ([(48000, 1, 8, "mx=40"), (16000, 2, 8, "mx=36"), (16000, 1, 8, "br=12000 vb=0"), (48000, 1, 4, "mx=24")] + (
            [(24000, 2, 8, "mx=44"), (12000, 1, 8, "mx=36"), (48000, 2, 16, "mx=90"), (16000, 1, 24, "mx=110"), (48000, 1, 8, "br=10000 vb=0")] if thorough else [])):
        n = max(60, 1600 // q)
        L.append("%s q=%d fm=1000 br=24000 %s bw=1103 ev12 bw=1101 ev%d bw=1103 ev%d bw=1102 ev%d bw=1101 ev%d fm=1002 ev2" % (
            head(fs, ch, 2048, sd(), rng.randrange(2)), q, bud, n, n // 3, n // 3, n))
    # E. the TOC-only path after each layer, every duration
    for fs in ([48000, 8000] if not thorough else FS):
        for q in QS:
            for fm in (SILK, HYB, CELT):
                ch = rng.choice([1, 2])
                L.append("%s q=%d fm=%d br=32000 ev2 mx=2 ev2 mx=%s ev1 mx=1500 ev1 br=500 ev2 br=32000 vb=0 ev1 br=600 ev2 mx=2 ev1" % (
                    head(fs, ch, rng.choice(APPS), sd(), rng.randrange(2)), q, fm, "1" if q != 40 else "3"))
    # F. reset, DTX, frame-size walks, LFE, FEC, bandwidth limits
    for fs in fss:
        for ch in (1, 2):
            app = rng.choice([2048, 2049])
            L.append("%s br=24000 fm=1000 ev3 rs ev2 fm=1002 ev2 rs ev1 fm=1000 ev2 fc=%d ev2 rs ev2" % (head(fs, ch, app, sd(), 0), ch))
            for cx in (9, 5):
                L.append("%s cx=%d dx=1 br=24000 ev8 es30 ev3 fm=1002 es25 ev2 fm=1000 es30 ev3 q=24 es12 ev2 q=48 es8 ev2" % (
                    head(fs, ch, 2048, sd(), 0), cx))
            L.append("%s br=20000 fm=1000 q=8 ev2 q=2 ev2 q=8 ev2 q=1 ev1 q=16 ev2 q=4 ev2 q=48 ev2 q=2 ev1 q=24 ev2 q=40 ev2 q=32 ev2" % (
                head(fs, ch, app, sd(), 1)))
            L.append("%s br=32000 ev2 lf=1 ev2 q=16 ev2 lf=0 ev2 q=8 fm=1000 ev2 lf=1 ev2 lf=0 ev2" % head(fs, ch, 2049, sd(), 0))
            L.append("%s fe=1 lo=20 br=32000 ev4 br=14000 ev4 br=9000 ev4 fe=0 ev2 fe=2 lo=8 br=24000 em4 ev4" % head(fs, ch, 2048, sd(), 0))
            L.append("%s br=40000 mb=1101 ev2 em2 mb=1102 ev2 em2 mb=1104 ev2 em2 bw=1102 ev2 em2 fm=1002 ev2 bw=1104 ev2 fm=1000 ev2 bw=-1000 mb=1105 ev2 et3 ew3" % (
                head(fs, ch, app, sd(), rng.randrange(2))))
    for q in QS:                                       # low-delay application at every duration
        L.append("%s q=%d br=32000 ev3 fm=1000 ev2 mx=2 ev1 mx=1500 ev1" % (head(rng.choice(FS), rng.choice([1, 2]), 2051, sd(), 0), q))
    return L


def random_plans(n, rng):
    L = []
    for _ in range(n):
        fs, ch, app = rng.choice(FS), rng.choice([1, 2]), rng.choice([2048, 2048, 2049, 2049, 2051])
        toks = []
        q = 8
        for _ in range(rng.randrange(6, 22)):
            u = rng.random()
            if u < 0.14:
                toks.append("fm=%d" % rng.choice([AUTO, AUTO, SILK, HYB, CELT, CELT]))
            elif u < 0.22:
                toks.append("fc=%d" % rng.choice([AUTO, 1, 2][:2 + (ch == 2)]))
            elif u < 0.34:
                toks.append("br=%d" % rng.choice([500, 2400, 6000, 8000, 10000, 12000, 16000, 20000, 24000, 32000, 40000, 48000, 64000,
                                                   96000, 128000, 256000, AUTO, -1]))
            elif u < 0.42:
                q = rng.choice(QS); toks.append("q=%d" % q)
            elif u < 0.50:
                toks.append("mx=%d" % rng.choice([1500, 1500, 1276, 400, 120, tight(q), tight(q) + 8, 2 * tight(q), 13, 8, 3, 2, 1] if q != 40
                                                 else [1500, 400, 120, tight(q), 13, 3, 2]))
            elif u < 0.55:
                toks.append("bw=%d" % rng.choice([AUTO, AUTO, NB, MB, WB, SWB, FB]))
            elif u < 0.59:
                toks.append("mb=%d" % rng.choice([NB, MB, WB, SWB, FB, FB]))
            elif u < 0.63:
                toks.append("sg=%d" % rng.choice([AUTO, 3001, 3002]))
            elif u < 0.66:
                toks.append("vb=%d" % rng.randrange(2))
            elif u < 0.69:
                toks.append("cx=%d" % rng.choice([0, 3, 5, 7, 9, 10]))
            elif u < 0.72:
                toks.append("dx=%d" % rng.randrange(2))
            elif u < 0.75:
                toks.append("fe=%d" % rng.randrange(3)); toks.append("lo=%d" % rng.choice([0, 3, 10, 30]))
            elif u < 0.78:
                toks.append("rs")
            else:
                toks.append("e%s%d" % (rng.choice("vvvmmsnwt"), rng.choice([1, 1, 2, 3, 5, 9])))
        toks.append("e%s2" % rng.choice("vm"))
        L.append("%s %s" % (head(fs, ch, app, rng.randrange(1, 1 << 30), rng.randrange(2)), " ".join(toks)))
    return L


# ---------------------------------------------------------------------------------------------------------------
# running and judging

def run_chunks(ctx, exe, lines, nchunks, tag):
    per = (len(lines) + nchunks - 1) // nchunks
    jobs = []
    for k in range(nchunks):
        part = lines[k * per:(k + 1) * per]
        if not part:
            continue
        ip = ctx.path("%s_plan_%02d.txt" % (tag, k))
        with open(ip, "w") as f:
            f.write("\n".join(part) + "\n")
        jobs.append((k, ip))

    def one(job):
        k, ip = job
        out = ctx.path("%s_trace_%02d.ndjson" % (tag, k))
        rc, err = vf.run_hx(exe, [], out, stdin_path=ip, timeout=3000)
        return k, ip, out, rc, err
    return vf.parallel(one, jobs, nproc=min(12, vf.NCPU))


def validate(ctx, out, what):
    """one TLC pass over a trace file: returns (rejections [(line, class, names)], tags seen, complete)"""
    r = vf.tlc("EncModeTrace", "EncModeTrace.cfg", workers=1, env={"TRACE": out}, timeout=2400, heap="3g",
               tag=what.replace(" ", "_") + os.path.basename(out))
    if r.error:
        raise vf.Infra("%s: %s" % (what, r.error))
    ctx.add_tlc(r, "trace %s %s" % (what, os.path.basename(out)))
    rej, seen = [], set()
    for m in re.finditer(r'"REJ <<(\d+), \\"(\w+)\\", \{(.*?)\}>>"', r.out):
        rej.append((int(m.group(1)), m.group(2), sorted(re.findall(r'\\"([\w.]+)\\"', m.group(3)))))
    m = re.search(r'"SEEN \{(.*?)\}"', r.out, re.S)
    if m:
        seen = set(re.findall(r'\\"(\w+)\\"', m.group(1)))
    complete = r.violation is None and m is not None
    return rej, seen, complete


def exec_of(out, ip, lineno):
    """the plan line of the execution that contains trace line `lineno`"""
    x = 0
    with open(out) as f:
        for i, ln in enumerate(f, 1):
            if ln.startswith('{"k":"new"'):
                x = json.loads(ln)["x"]
            if i == lineno:
                break
    return vf.file_line(ip, x) if x else ""


def stats(ctx, out):
    n = 0
    sw = False
    with open(out) as f:
        for ln in f:
            n += 1
            if ln.startswith('{"k":"enc"'):
                e = json.loads(ln)
                ST["packets"] += 1
                if e.get("d2"):
                    ST["frames"] += len(e["d2"])
                    red = [d for d in e["d2"] if d[0] == 1]
                    ST["redundant_frames"] += len(red)
                    if red or (e["pre"][1] != 0 and e["pre"][1] != e["post"][1]):
                        sw = True
                        if len(ctx.samples) < 4:
                            ctx.sample(dict(q=e["q"], pre=e["pre"][:6], post=e["post"][:6], toc=e["toc"], sz=e["sz"], d2=e["d2"]))
            elif ln.startswith('{"k":"new"'):
                cur = ln; sw = False
            elif ln.startswith('{"k":"end"'):
                ctx.traces += 1
                if sw:
                    ctx.nontrivial.add(os.path.basename(out) + cur)
    ctx.evaluations += n


ST = dict(packets=0, frames=0, redundant_frames=0)
NPROP = [0]


def judge(ctx, exe, outs, tag, recheck_whole=False):
    seen_all = set()
    drifts = {}
    good = []
    for k, ip, out, rc, err in outs:
        if rc in (-6, -11, -8, -7, -4, 98, 99):
            # assertion / sanitizer abort or a crash inside the library: C02 ("no call ever fails with an internal error")
            ctx.violation("property C02: hx_encmode aborted rc=%d on %s: %s" % (rc, ip, err[-1500:]), replay_src=ip)
        elif rc != 0:
            raise vf.Infra("hx_encmode rc=%d on %s: %s" % (rc, ip, err[-800:]))
        else:
            good.append((k, ip, out))

    def val(job):
        k, ip, out = job
        return job, validate(ctx, out, "G01 %s %02d" % (tag, k))
    for (k, ip, out), (rej, seen, complete) in vf.parallel(val, good, nproc=min(12, vf.NCPU)):
        stats(ctx, out)
        seen_all |= seen
        if not complete:
            raise vf.Infra("EncModeTrace did not consume %s" % out)
        for (ln, cls, names) in rej:
            line = exec_of(out, ip, ln)
            ev = vf.file_line(out, ln)[:700]
            if cls == "prop":
                NPROP[0] += 1
                if len(ctx.violations) >= 5:
                    continue                      # counted; the first five are re-checked and reported in full
                # R4: re-run the execution alone and judge it again before reporting
                rp = ctx.path("rej_%s_%d.txt" % (os.path.basename(ip), ln))
                with open(rp, "w") as f:
                    # (the FUZZING build draws its decisions from rand(): only the whole plan file repeats them)
                    f.write(open(ip).read() if recheck_whole else line + "\n")
                out2 = rp + ".ndjson"
                rc2, err2 = vf.run_hx(exe, [], out2, stdin_path=rp, timeout=1200)
                rej2, _, _ = validate(ctx, out2, "G01 recheck")
                if rc2 == 0 and not [x for x in rej2 if x[1] == "prop"]:
                    raise vf.Infra("rejection not repeatable: %s line %d %s" % (out, ln, names))
                prop = sorted({n.split(".")[0] for n in names})
                ctx.violation("property %s clause(s) %s rejected by EncModeTrace at %s line %d: execution [%s] event %s" % (
                    "/".join(prop), names, os.path.basename(out), ln, line, ev), replay_src=rp)
            else:
                key = tuple(names)
                drifts.setdefault(key, []).append((out, ln, line, ev))
    for key, lst in sorted(drifts.items()):
        out, ln, line, ev = lst[0]
        ctx.spec_drift("EncMode", "%s: %d event(s), first at %s line %d: execution [%s] event %s" % (
            list(key), len(lst), os.path.basename(out), ln, line, ev[:400]))
    return seen_all


def model_checking(ctx):
    tier = ctx.tier
    r = ctx.mc("EncMode_mc", "EncMode_mc_rules.cfg", what="rule tables (WantCelt, BwSetOf, LowPacket)", workers=4, timeout=900)
    if r.violation:
        raise vf.Infra("EncMode rule theorem violated:\n%s" % r.state_dump[:2000])
    for cfg in (["EncMode_mc_main_quick.cfg", "EncMode_mc_forced_quick.cfg"] if tier == "quick"
                else ["EncMode_mc_main_thorough.cfg", "EncMode_mc_forced_thorough.cfg"]):
        r = ctx.mc("EncMode_mc", cfg, what="machine + decoder: " + cfg, workers=8, timeout=2400)
        if r.violation:
            raise vf.Infra("EncMode step theorem %s violated (%s):\n%s" % (r.violation, cfg, r.state_dump[:3000]))

    def wit(w):
        cfg, inv = w
        return w, vf.tlc("EncMode_mc", cfg, workers=2, timeout=900)
    for (cfg, inv), r in vf.parallel(wit, WITNESSES, nproc=4):
        if r.error:
            raise vf.Infra("witness %s: %s" % (cfg, r.error))
        ctx.add_tlc(r, "witness " + cfg)
        if r.violation != inv:
            raise vf.Infra("witness %s: expected %s to be violated, got %s (vacuous model)" % (cfg, inv, r.violation))
    ctx.notes["witnesses_refuted"] = [w[1] for w in WITNESSES]


def run(ctx):
    tier = ctx.tier
    ctx.rule = ("TLC explores the EncMode machine with the decoder's handshake side exhaustively (closed state graph) under arbitrary "
                "settings changes and proves the step theorems; rule tables over their whole grid; seven witness invariants must be "
                "refuted. TLC-enumerated schedules plus directed and seeded random histories are replayed on real encoders; every "
                "encode call (full peek vector before/after, TOC, framing, two decoders incl. per-frame redundancy decisions) is "
                "judged by EncModeTrace. non-trivial = distinct executions in which the layer changed or a redundant frame was sent")
    ctx.assumptions = ["TLC 1.8.0 and the CommunityModules Json reader are trusted",
                       "float build, DRED/OSCE compiled out (the activity analysis runs for complexity >= 7 and Fs >= 16 kHz)",
                       "machine conformance is SPEC-DRIFT; only clauses that C02 / C11 state raise a VIOLATION",
                       "C11 layer clauses are asserted on packets that code audio (some frame >= 2 bytes), as in the C11 check"]
    var = vf.build_variant("hko")
    exe = vf.build_hx(var, "encmode.c")
    if ctx.replay:
        return replay(ctx, exe)
    model_checking(ctx)
    ctx.exhaustive = True
    ctx.notes["exhaustive_scope"] = "model side: closed state graph of machine x decoder under arbitrary settings changes; implementation side sampled"
    rng = random.Random(ctx.seed)
    lines = from_tlc(ctx, "EncMode_gen_%s.cfg" % tier, rng)
    ntlc = len(lines)
    if tier == "quick" and len(lines) > 2500:
        lines = rng.sample(lines, 2500)
    elif tier == "thorough" and len(lines) > 40000:
        lines = rng.sample(lines, 40000)
    dl = directed(tier, rng)
    rl = random_plans(300 if tier == "quick" else 6000, rng)
    ctx.notes["executions"] = dict(tlc_generated=ntlc, tlc_replayed=len(lines), directed=len(dl), random=len(rl))
    lines = lines + dl + rl
    rng.shuffle(lines)
    outs = run_chunks(ctx, exe, lines, 12 if tier == "quick" else 24, "o")
    seen = judge(ctx, exe, outs, "hko")
    # a slice under ASan/UBSan + assertions
    var2 = vf.build_variant("hk")
    exe2 = vf.build_hx(var2, "encmode.c")
    sl = rng.sample(dl, min(len(dl), 60 if tier == "quick" else 300)) + rng.sample(rl, 40 if tier == "quick" else 300)
    outs2 = run_chunks(ctx, exe2, sl, 8, "s")
    seen |= judge(ctx, exe2, outs2, "hk")
    # the FUZZING build randomises the layer and channel decisions: the machine must accept that too (R1)
    var3 = vf.build_variant("fuzzing")
    exe3 = vf.build_hx(var3, "encmode.c")
    fl = random_plans(120 if tier == "quick" else 1500, rng) + rng.sample(dl, min(len(dl), 40 if tier == "quick" else 200))
    outs3 = run_chunks(ctx, exe3, fl, 8, "f")
    seen |= judge(ctx, exe3, outs3, "fuzzing", recheck_whole=True)
    ctx.notes["executions"]["asan_slice"] = len(sl)
    ctx.notes["executions"]["fuzzing_build"] = len(fl)
    ctx.notes["tags_seen"] = sorted(seen)
    ctx.notes["observed"] = ST
    ctx.notes["property_clause_rejections"] = NPROP[0]
    missing = REQUIRED_TAGS - seen
    if missing:
        ctx.notes["tags_missing"] = sorted(missing)
        # a tree that no longer follows the machine (reported above) may well not take some transitions at all;
        # without such a report the run was vacuous
        if not ctx.violations and not ctx.drift:
            raise vf.Infra("vacuity guard: machine transitions never exercised by the executions: %s" % sorted(missing))


def replay(ctx, exe):
    outs = run_chunks(ctx, exe, [ln.rstrip("\n") for ln in open(ctx.replay) if ln.startswith("X")], 1, "r")
    judge(ctx, exe, outs, "replay")
    ctx.nontrivial_count = 0 if ctx.nontrivial else 1


META = dict(
    engine="EncMode",
    technique=("TLA+ state machine of the encoder's mode/bandwidth/channel decisions and of the redundancy/transition handshake with the "
               "decoder; TLC exhaustive on the closed machine x decoder graph + rule tables + refuted witnesses; TLC-generated, directed and "
               "random histories replayed on real encoders; TLC trace validation of every call against the machine (stateful cursor)"),
    level_text=("TLC proves on the EncMode model, for arbitrary settings changes between frames and every abstract signal class: TOC of "
                "packet k = state recorded for call k, frames under 10 ms and the low-delay application are MDCT-only, hybrid iff SILK family "
                "above wideband, the MDCT layer never signals medium band, forced layers are honoured (CELT at the latest one call later), "
                "redundant frames ride only on the first or last frame of a multi-frame packet, stereo->mono inside the SILK family only "
                "through the toMono step, the encoder's peeks determine what the decoder reads, and - as long as nothing is dropped - "
                "encoder and decoder agree on which layer coded the previous frame. The model is bound to libopus by replaying schedules on "
                "real encoders and having TLC judge every call: machine conformance is SPEC-DRIFT, the C02 clauses (success, duration, "
                "final range, decoder durations, per-frame handshake) and the C11 layer clauses are violations."),
    level_note=("Trusted: TLC, Json module, the read-only peek hooks. Heuristic choices (layer preference, stereo decision, automatic bandwidth, "
                "SILK's switchReady, DTX, budget-driven loss of a redundant frame) are nondeterministic in the model; the implementation is "
                "exercised on enumerated/sampled histories, not on all signals."),
)
