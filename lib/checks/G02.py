"""G02 - FrameHdr: the bit-exact frame-header layers of the two codecs as decoders of symbol sequences (growth module).

Model: spec/FrameHdr.tla (MDCT-layer frame header with its budget guards, speech-layer packet header with VAD/LBRR flags,
LBRR frames, stereo weights / mid-only flag, conditional coding, normal / lost / FEC decoding), design theorems in
spec/FrameHdr_mc.tla, binding in spec/FrameHdrTrace.tla + harness/framehdr.c.
"""
import json, os, random, re
import vf

LEVEL = "model_checking"

# every decision of the MDCT-layer machine must have been seen taken (+) and skipped (-) on the implementation side,
# and the speech-layer ones as listed: vacuity guard over the plans that were executed
NEED_CELT = ["silence+", "silence-", "pf+", "pf-", "octave+", "period+", "gain+", "tapset+", "tapset-", "transient+", "transient-",
             "intra+", "intra-", "coarse+", "coarse2+", "coarse1+", "coarse0-", "tf+", "tf-", "tfsel+", "tfsel-", "spread+", "spread-",
             "dyn+", "dyn-", "trim+", "trim-"]
NEED_SILK = ["vad+", "lbrrflag+", "lbrrsym+", "lbrr_pred+", "lbrr_midonly+", "lbrr_frame+", "pred+", "midonly+", "midonly-", "frame+",
             "frame_side-"]

BANDS_REAL = [(0, 13), (0, 17), (0, 19), (0, 21), (17, 19), (17, 21)]
BANDS_SMALL = [(0, 1), (0, 2), (0, 3), (0, 9), (17, 18), (17, 19), (17, 20)]   # the decoder asserts start in {0, 17}


# ------------------------------------------------------------------------------------------------------------
# requests

def rnd_vals(rng, n, flavour):
    out = []
    for _ in range(n):
        u = rng.random()
        if flavour == 0:          # mostly zeros: cheap symbols, flags off
            v = 0 if u < 0.8 else rng.randrange(0, 4)
        elif flavour == 1:        # flags on, small values
            v = rng.randrange(0, 3) if u < 0.7 else rng.randrange(0, 12)
        elif flavour == 2:        # anything
            v = rng.randrange(-6, 7) if u < 0.6 else rng.randrange(0, 600)
        else:                     # ones: everything switched on, dynalloc boosts pile up
            v = 1 if u < 0.85 else rng.randrange(0, 40)
        out.append(v)
    return out


def celt_request(rng, rid, near_end=False):
    LM = rng.randrange(4)
    C = rng.choice([1, 2])
    start, end = rng.choice(BANDS_REAL) if rng.random() < 0.7 else rng.choice(BANDS_SMALL)
    u = rng.random()
    ln = rng.randrange(2, 12) if u < 0.45 else rng.randrange(12, 60) if u < 0.85 else rng.randrange(60, 400)
    pre = 0
    if start > 0 or rng.random() < 0.15:
        # frame starts late in the packet (the speech layer of a hybrid frame came first)
        v = rng.random()
        if v < 0.5 or near_end:
            pre = max(0, 8 * ln - 1 - rng.randrange(0, 40))          # 0..39 bits left
        elif v < 0.9:
            pre = rng.randrange(0, 8 * ln)
        else:
            pre = 8 * ln - 1 + rng.randrange(0, 12)                  # nothing left / already over
    fl = rng.randrange(4)
    vals = rnd_vals(rng, 10 + 6 * (end - start) * C, fl)
    if rng.random() < 0.5 and vals:
        vals[0] = 0 if pre else vals[0]                                # silence flag mostly off so that the rest is reached
    if pre == 0 and rng.random() < 0.9 and vals:
        vals[0] = 0
    return dict(k="C", id=rid, len=ln, LM=LM, C=C, s=start, e=end, pre=pre, vals=vals, seed=rng.randrange(1, 1 << 30))


def silk_request(rng, rid):
    ms = rng.choice([10, 20, 20, 40, 40, 60, 60, 60])
    nch = rng.choice([1, 2, 2])
    fs = rng.choice([8, 12, 16])
    nf = 1 if ms <= 20 else ms // 20
    nfl = (nf + 1) * nch
    # flags drawn explicitly so that LBRR / VAD patterns are well spread, the rest arbitrary
    p_l = rng.choice([0.0, 0.3, 0.7, 1.0])
    vals = []
    for n in range(nch):
        vals += [1 if rng.random() < 0.6 else 0 for _ in range(nf)]
        vals += [1 if rng.random() < p_l else 0]
    vals += [rng.randrange(0, 1000) for _ in range(12 + 12 * nf * nch)]
    return dict(k="S", id=rid, fs=fs, ms=ms, nch=nch, vals=vals, seed=rng.randrange(1, 1 << 30))


def build_harness():
    """the harness uses internal headers (range coder, rate.h, SILK structs): compile it with the library's own defines"""
    var = vf.build_variant("hk")
    with open(os.path.join(var["dir"], "build.ninja")) as f:
        txt = f.read()
    m = re.search(r"build [^\n]*celt_decoder\.c\.o:(.*?)\n\n", txt, re.S)
    d = re.search(r"DEFINES = (.*)", m.group(1)) if m else None
    if not d:
        raise vf.Infra("cannot find the compile rule of celt/celt_decoder.c in build.ninja")
    defs = [x for x in d.group(1).split() if not x.startswith("-D_FORTIFY") and x != "-DHAVE_CONFIG_H"]
    return vf.build_hx(var, "framehdr.c", extra=defs)


def cover_sample(rng, leaves, cap, sigpos, nkinds, per_kind=12):
    """a sample of the generated behaviours that contains every kind of decision (the signature printed by TLC says which kinds
    a behaviour has) at least per_kind times when that many exist, filled up at random"""
    if len(leaves) <= cap:
        return leaves
    order = list(leaves)
    rng.shuffle(order)
    chosen, count = [], [0] * nkinds
    rest = []
    for lf in order:
        sig = lf[1][sigpos]
        if any((sig >> j) & 1 and count[j] < per_kind for j in range(nkinds)):
            chosen.append(lf)
            for j in range(nkinds):
                count[j] += (sig >> j) & 1
        else:
            rest.append(lf)
    chosen += rest[:max(0, cap - len(chosen))]
    return sorted(chosen)


def leaves_from_tlc(r):
    """REQ lines printed by FrameHdr_mc (Gen = TRUE)"""
    out = []
    for p in r.prints:
        m = re.match(r'"REQ ([CS]) <<([^>]*)>> <<([^>]*)>>"', p)
        if not m:
            continue
        head = [int(x) for x in re.findall(r"-?\d+", m.group(2))]
        vals = [int(x) for x in re.findall(r"-?\d+", m.group(3))]
        out.append((m.group(1), head, vals))
    return out


# ------------------------------------------------------------------------------------------------------------
# plan pass: TLC evaluates the model on the requests

def plan(ctx, reqs, tag, nparts=None):
    """returns (plans: id -> dict(hdr, ops, names), tables: tid -> list)"""
    if not reqs:
        return {}, {}
    path = ctx.path("req_%s.ndjson" % tag)
    with open(path, "w") as f:
        for q in reqs:
            f.write(json.dumps(q, separators=(",", ":")) + "\n")
    nparts = nparts or max(1, min(vf.NCPU, len(reqs) // 150))
    chunks = vf.split_file_lines(path, nparts, path + ".part")

    def one(ch):
        p, n = ch
        return vf.tlc("FrameHdrTrace", "FrameHdrPlan.cfg", workers=1, env={"TRACE": p}, timeout=1700, heap="3g",
                      tag="g02plan_" + tag + os.path.basename(p))
    plans, tables = {}, {}
    for r in vf.parallel(one, chunks):
        if r.error or r.violation:
            raise vf.Infra("plan pass %s: %s" % (tag, (r.error or r.violation)[:2000] + r.out[-1500:]))
        ctx.add_tlc(r, "plan " + tag)
        for pr in r.prints:
            m = re.match(r'"PLAN ([CS]) (\d+) \| (.*)"$', pr)
            if m:
                secs = m.group(3).split(" | ")
                ints = [[int(x) for x in re.findall(r"-?\d+", s)] for s in secs[:-1]]
                names = re.findall(r'\\"([a-z0-9_]+[+-])\\"', secs[-1])
                if m.group(1) == "C":
                    plans[int(m.group(2))] = dict(hdr=ints[0], ops=ints[1], names=names)
                else:
                    plans[int(m.group(2))] = dict(ops=ints[0], names=names)
                continue
            m = re.match(r'"TABLE (\d+) <<([^>]*)>>"', pr)
            if m:
                tables[int(m.group(1))] = [int(x) for x in re.findall(r"\d+", m.group(2))]
    missing = [q["id"] for q in reqs if q["id"] not in plans]
    if missing:
        raise vf.Infra("plan pass %s: no plan for %d requests (e.g. id %s)" % (tag, len(missing), missing[:3]))
    if len(tables) < 10:
        raise vf.Infra("plan pass %s: tables not printed" % tag)
    return plans, tables


def harness_lines(reqs, plans, tables, rng):
    """stdin of hx_framehdr for a list of requests (one harness process)"""
    out = ["T %d %d %s" % (t, len(v), " ".join(map(str, v))) for t, v in sorted(tables.items())]
    in_silk = False
    for q in reqs:
        p = plans.get(q.get("id"))
        if q["k"] == "C":
            out.append("C %d %d %d %d %d %d %d %d | %s | %s | %s" % (q["id"], q["len"], q["LM"], q["C"], q["s"], q["e"], q["pre"], q["seed"],
                                                                     " ".join(map(str, p["hdr"])), " ".join(map(str, p["ops"])),
                                                                     " ".join(map(str, q["vals"]))))
        elif q["k"] == "S":
            if not in_silk or q.get("new"):
                out.append("N %d %d" % (q.get("dfs", 16000), q.get("dch", 2)))
                in_silk = True
            out.append("S %d %d %d %d %d | %s | %s" % (q["id"], q["fs"], q["ms"], q["nch"], q["seed"], " ".join(map(str, p["ops"])),
                                                        " ".join(map(str, q["vals"]))))
        elif q["k"] == "A":
            out.append("A %d %d %d %d %d" % (q["s"], q["e"], q["C"], q["LM"], q["total"]))
        elif q["k"] == "E":
            out.append("E %d %d %d %d %d %d %d %d | %s" % (q["id"], q["LM"], q["C"], q["s"], q["e"], q["cx"], q["seed"], q.get("lfe", 0),
                                                          " ".join("%d %d %d" % tuple(f) for f in q["frames"])))
        elif q["k"] == "O":
            out.append("O %d %d %d %d %d %d %d %d %d %d %d" % (q["id"], q["fs"], q["ch"], q["app"], q["br"], q["fec"], q["loss"], q["dur2"], q["mode"],
                                                              q["seed"], q["n"]))
    return out


def execute(ctx, exe, reqs, plans, tables, tag, nproc):
    """run the harness over the requests in nproc processes; returns list of (stdin_path, out_path, rc, err)"""
    nproc = max(1, min(nproc, len(reqs) // (8 if tag == "openc" else 50) or 1))
    per = (len(reqs) + nproc - 1) // nproc
    jobs = []
    for k in range(nproc):
        part = reqs[k * per:(k + 1) * per]
        if not part:
            continue
        ip = ctx.path("in_%s_%02d.txt" % (tag, k))
        with open(ip, "w") as f:
            f.write("\n".join(harness_lines(part, plans, tables, None)) + "\n")
        jobs.append((k, ip))

    def one(job):
        k, ip = job
        op = ctx.path("ev_%s_%02d.ndjson" % (tag, k))
        rc, err = vf.run_hx(exe, [], op, stdin_path=ip, timeout=3000)
        return ip, op, rc, err
    return vf.parallel(one, jobs)


# ------------------------------------------------------------------------------------------------------------

def which_clause(ev):
    k = ev.get("k")
    if k == "celt":
        return ("MDCT-layer frame header: the decoder did not consume the symbols of the model's order/guards "
                "(final range, post-filter period, silence or duration differ) - clause of C02/C03 'identical range-coder final state', C01 duration")
    if k == "silk":
        return ("speech-layer packet header: the decoder did not consume the symbols of the model's order (final range after normal or FEC "
                "decoding, opus_packet_has_lbrr, or duration differ) - clauses of C02/C03 final range, C06 LBRR helper, C09/C01 duration")
    if k == "alloc":
        return "reservations at the head of clt_compute_allocation differ from the model (intensity / dual stereo)"
    if k == "openc":
        return ("speech/hybrid mode: the real Opus encoder and decoder did not stay in lock-step (final range / duration), or opus_packet_has_lbrr "
                "disagrees with the flag the model reads from the first payload byte - clauses of C02 final range, C06 LBRR helper")
    if k == "cenc":
        return ("MDCT layer: the real encoder and the real decoder did not stay in lock-step on a frame with a budget near the header guards "
                "(final range / duration / post-filter period) - clause of C02 'range-coder final state identical to the one the encoder reports'")
    return "event of unknown kind"


def judge(ctx, evpath, reqs_by_id, tag, tier):
    """validate an event file; returns (rejected events, ids of drifting events)"""
    n = vf.count_lines(evpath)
    if n == 0:
        return [], set()
    nparts = max(1, min(vf.NCPU, n // 120))
    drifting = set()
    rej, total = validate(ctx, evpath, "G02 " + tag, nparts, drifting)
    ctx.traces += total - len(rej)
    bad = []
    for p, ln, tr in rej:
        # a chunk reports its first rejected line: judge the lines after it too (bounded)
        lines = open(p).read().splitlines()
        if not ln:
            bad.append(dict(k="?", raw=tr.out[-800:]))
            continue
        bad.append(json.loads(lines[ln - 1]))
        rest = lines[ln:]
        seen = 0
        while rest and seen < 3:
            seen += 1
            rp = ctx.path("rest_%s_%d.ndjson" % (os.path.basename(p), seen))
            with open(rp, "w") as f:
                f.write("\n".join(rest) + "\n")
            r2, t2 = validate(ctx, rp, "G02 rest " + tag, 1, drifting)
            if not r2 or not r2[0][1]:
                break
            l2 = r2[0][1]
            bad.append(json.loads(rest[l2 - 1]))
            rest = rest[l2:]
    return bad, drifting


def validate(ctx, evpath, what, nparts, drifting):
    """vf.validate_cases + collection of the DRIFT notes printed by the same TLC pass"""
    chunks = vf.split_file_lines(evpath, nparts, evpath + ".part")
    rejected = []

    def one(ch):
        p, n = ch
        return ch, vf.tlc("FrameHdrTrace", "FrameHdrTrace.cfg", workers=1, env={"TRACE": p}, timeout=1700, heap="3g",
                          tag=what.replace(" ", "_") + os.path.basename(p))
    total = 0
    for (p, n), r in vf.parallel(one, chunks):
        if r.error:
            raise vf.Infra("%s: %s" % (what, r.error))
        ctx.add_tlc(r, "trace %s %s" % (what, os.path.basename(p)))
        total += n
        for pr in r.prints:
            m = re.match(r'"DRIFT (\d+)"', pr)
            if m:
                drifting.add(int(m.group(1)))
        if r.violation:
            m = re.search(r"\bl = (\d+)", r.state_dump or r.out)
            rejected.append((p, int(m.group(1)) if m else 0, r))
    vf.log("[trace] %-36s lines=%d chunks=%d rejected_chunks=%d" % (what, total, len(chunks), len(rejected)))
    return rejected, total


def scan_events(ctx, evpath, names_seen, plans):
    """evidence counters (measurements only)"""
    n = 0
    with open(evpath) as f:
        for ln in f:
            n += 1
            try:
                e = json.loads(ln)
            except ValueError:
                continue
            k = e.get("k")
            if k in ("celt", "silk"):
                key = (k, tuple(e.get("ops", ())), e.get("len", e.get("ms")))
                ctx.nontrivial.add(hash(key))
                for nm in plans.get(e["id"], {}).get("names", ()):
                    names_seen.add(("C:" if k == "celt" else "S:") + nm)
                if k == "silk":
                    OBS["silk_packets"] += 1
                    OBS["fec_eq_plc"] += e.get("feq", 0)
                    OBS["has_lbrr"] += 1 if e.get("lb") == 1 else 0
                else:
                    OBS["celt_frames"] += 1
                    OBS["celt_silence_zero"] += 1 if e["hd"][0] == 1 and e["mx"] == 0 else 0
                    OBS["celt_pf_on"] += 1 if e["hd"][1] == 1 else 0
            elif k == "bad":
                raise vf.Infra("harness refused a plan line: " + ln[:300])
            elif k == "sbig":
                OBS["silk_too_big"] += 1
            elif k == "alloc":
                OBS["alloc_probes"] += 1
            elif k == "openc":
                OBS["opus_packets"] += 1
                OBS["opus_packets_lbrr"] += 1 if e.get("lb") == 1 else 0
                ctx.nontrivial.add(hash(("openc", e.get("toc"), e.get("n"), e.get("eh"), e.get("el"))))
            elif k == "cenc":
                OBS["encoder_frames"] += 1
                OBS["encoder_pf_on"] += 1 if e.get("pp", 0) > 0 else 0
                ctx.nontrivial.add(hash(("cenc", e["len"], e["pre"], e["LM"], e["C"], e["s"], e["e"], e["eh"], e["el"])))
    return n


OBS = dict(opus_packets=0, opus_packets_lbrr=0, encoder_frames=0, encoder_pf_on=0, celt_frames=0, celt_silence_zero=0, celt_pf_on=0, silk_packets=0, fec_eq_plc=0, has_lbrr=0, silk_too_big=0, alloc_probes=0,
           mc_leaves_celt=0, mc_leaves_silk=0)


def cenc_request(rng, rid):
    """a run of frames through the real MDCT-layer encoder: budgets around the guard thresholds"""
    LM = rng.randrange(4); C = rng.choice([1, 2])
    s, e = rng.choice([(0, 13), (0, 17), (0, 19), (0, 21), (0, 21), (17, 19), (17, 21), (17, 21)])
    frames = []
    for k in range(rng.randrange(3, 9)):
        u = rng.random()
        ln = rng.randrange(2, 10) if u < 0.5 else rng.randrange(10, 40) if u < 0.9 else rng.randrange(40, 200)
        pre = 0
        if s > 0:
            v = rng.random()
            pre = max(0, 8 * ln - 1 - rng.randrange(0, 48)) if v < 0.6 else rng.randrange(0, 8 * ln)
        sig = rng.choice([0, 1, 1, 2, 2, 2, 3, 4])
        frames.append((ln, pre, sig))
    lfe = 1 if (s == 0 and rng.random() < 0.25) else 0             # the LFE stream asks for dynalloc boosts in band 0 whatever the budget
    if lfe:
        C = 1
    return dict(k="E", id=rid, LM=LM, C=C, s=s, e=e, cx=rng.choice([0, 2, 5, 8, 10]), seed=rng.randrange(1, 1 << 30), frames=frames, lfe=lfe)


def opus_request(rng, rid, n):
    """a run of packets through the real Opus encoder in the speech / hybrid mode with in-band FEC"""
    hybrid = rng.random() < 0.3
    fs = rng.choice([24000, 48000]) if hybrid else rng.choice([8000, 12000, 16000, 48000])
    ch = rng.choice([1, 2, 2])
    dur2 = rng.choice([20, 40]) if hybrid else rng.choice([20, 40, 80, 120])
    br = rng.choice([24000, 32000, 48000, 64000]) if hybrid else rng.choice([12000, 16000, 24000, 32000, 40000])
    return dict(k="O", id=rid, fs=fs, ch=ch, app=rng.choice([2048, 2048, 2049]), br=br * (2 if ch == 2 and rng.random() < 0.5 else 1), fec=1 if rng.random() < 0.8 else 0,
                loss=rng.choice([5, 15, 30]), dur2=dur2, mode=1001 if hybrid else 1000, seed=rng.randrange(1, 1 << 30), n=n)


def alloc_requests():
    out = []
    for (s, e) in [(0, 21), (0, 13), (17, 21), (17, 19), (0, 1), (0, 2), (17, 18)]:
        for C in (1, 2):
            for LM in (0, 2, 3):
                thr = [0, 8, 8 + [0, 8, 13, 16, 19, 21, 23, 24, 26, 27, 28, 29, 30, 31, 32, 32, 33, 34, 34, 35, 36, 36, 37, 37][e - s]]
                tot = set([-8, -1, 0, 400, 3000])
                for t in thr:
                    for d in (-2, -1, 0, 1, 2, 7, 8, 9):
                        tot.add(t + d)
                for t in sorted(tot):
                    out.append(dict(k="A", s=s, e=e, C=C, LM=LM, total=t))
    return out


def run(ctx):
    tier = ctx.tier
    ctx.rule = ("TLC checks the FrameHdr design theorems over every symbol stream reachable within the budget grid (guard adequacy: tell never "
                "passes the budget; decoder/encoder mirror image; reservations; speech-layer FEC-is-a-prefix, bookkeeping, placeholder, the LBRR "
                "flag layout against Framing!HasLbrrOf); the leaves of that exploration and seeded random requests are turned into plans by TLC, "
                "written with the library's range encoder in the model's order, decoded by the real decoders, and every recorded observation is "
                "judged by FrameHdrTrace!CaseOK; runs of frames through the real MDCT-layer encoder with budgets around the guards are decoded by the "
                "real decoder and judged too (equal final ranges). non-trivial = distinct (op sequence, length) executions decoded by the real decoders "
                "and distinct (parameters, encoder final range) frames of the encoder runs")
    ctx.assumptions = ["TLC and the CommunityModules Json reader are trusted",
                       "the rest of an MDCT frame after the header (allocation, fine energy, PVQ, anti-collapse bit, finalise) is not modelled: the harness "
                       "re-decodes it with the library's own functions from the model's header ('shadow decoder') and TLC compares the real decoder's "
                       "final range with the shadow's - a difference in those library functions themselves is invisible to this module",
                       "speech-frame bodies (indices, excitation) are opaque ops written by silk_encode_indices/silk_encode_pulses",
                       "float build with assertions and ASan/UBSan (variant hk)"]
    if ctx.replay:
        return replay(ctx)
    rng = random.Random(ctx.seed)
    q = tier == "quick"
    # 1. design theorems
    leaves = []
    for mod, cfg, what, w in (("FrameHdr_mc", "FrameHdr_mc_celt_%s.cfg" % tier, "MDCT header: guards x streams", 8),
                              ("FrameHdr_mc", "FrameHdr_mc_silk_%s.cfg" % tier, "speech header: decoder", 4),
                              ("FrameHdr_mc", "FrameHdr_mc_senc_%s.cfg" % tier, "speech header: encoder mirror", 4),
                              ("FrameHdr_mc", "FrameHdr_mc_layout.cfg", "LBRR flag layout vs Framing!HasLbrrOf", 4),
                              ("FrameHdrLap_mc", "FrameHdrLap_mc_%s.cfg" % tier, "Laplace transcription vs SymCodes", 2)):
        r = ctx.mc(mod, cfg, what=what, deadlock=True, workers=w, timeout=1500 if q else 3000, heap="6g")
        if r.violation:
            raise vf.Infra("FrameHdr design theorem %s violated:\n%s" % (r.violation, r.state_dump[:2500]))
        if r.distinct < 9:
            raise vf.Infra("%s explored only %d states (vacuous)" % (cfg, r.distinct))
        leaves += leaves_from_tlc(r)
    nl_c = sum(1 for k, h, v in leaves if k == "C"); nl_s = len(leaves) - nl_c
    OBS["mc_leaves_celt"] = nl_c; OBS["mc_leaves_silk"] = nl_s
    if nl_c < 100 or nl_s < 20:
        raise vf.Infra("FrameHdr_mc printed too few leaves (%d, %d): vacuous generation" % (nl_c, nl_s))
    ctx.exhaustive = True
    ctx.notes["exhaustive_scope"] = "model side: every symbol stream over the alphabets and budget grid of the FrameHdr_mc_*_%s cfgs; implementation side sampled" % tier
    # 2. requests: the leaves (a deterministic sample when there are many) + seeded random ones
    leaves.sort()
    cap_c, cap_s = (1200, 300) if q else (30000, 4000)
    lc = [x for x in leaves if x[0] == "C"]; ls = [x for x in leaves if x[0] == "S"]
    lc = cover_sample(rng, lc, cap_c, 6, len(NEED_CELT))
    ls = cover_sample(rng, ls, cap_s, 2, len(NEED_SILK))
    reqs = []
    rid = 0
    for k, h, v in lc:
        rid += 1
        reqs.append(dict(k="C", id=rid, len=h[0], LM=h[1], C=h[2], s=h[3], e=h[4], pre=h[5], vals=v, seed=rng.randrange(1, 1 << 30)))
    nrc, nrs = (1300, 450) if q else (40000, 9000)
    for i in range(nrc):
        rid += 1
        reqs.append(celt_request(rng, rid, near_end=(i % 3 == 0)))
    sreqs = []
    for k, h, v in ls:
        rid += 1
        nf, nch = h[0], h[1]
        ms = 20 * nf if nf > 1 else rng.choice([10, 20])
        sreqs.append(dict(k="S", id=rid, fs=rng.choice([8, 12, 16]), ms=ms, nch=nch, vals=v, seed=rng.randrange(1, 1 << 30)))
    for i in range(nrs):
        rid += 1
        sreqs.append(silk_request(rng, rid))
    rng.shuffle(sreqs)
    # speech-layer executions: runs of packets on one decoder (rate and channel count of the decoder vary)
    i = 0
    while i < len(sreqs):
        sreqs[i]["new"] = 1; sreqs[i]["dfs"] = rng.choice([8000, 16000, 16000, 48000]); sreqs[i]["dch"] = rng.choice([1, 2, 2])
        i += rng.randrange(3, 9)
    dfs, dch = 16000, 2
    for s in sreqs:
        if s.get("new"):
            dfs, dch = s["dfs"], s["dch"]
        s["dfs"], s["dch"] = dfs, dch
    areqs = alloc_requests()
    ereqs = []
    for i in range(350 if q else 8000):
        rid += 1
        ereqs.append(cenc_request(rng, rid))
    oreqs = []
    for i in range(60 if q else 600):
        rid += 1
        oreqs.append(opus_request(rng, rid, 30 if q else 40))
    ctx.notes["requests"] = dict(celt=len(reqs), silk=len(sreqs), alloc=len(areqs), encoder_runs=len(ereqs), opus_encoder_runs=len(oreqs))
    # 3. plans
    plans, tables = plan(ctx, reqs + sreqs, "all")
    # 4. execute on the current tree
    exe = build_harness()
    nproc = 8 if q else 12
    # chunks of speech requests must start with a new execution
    outs = execute(ctx, exe, reqs, plans, tables, "celt", nproc)
    bounds = [i for i, s in enumerate(sreqs) if s.get("new")]
    souts = []
    nchunk = max(1, min(nproc, len(bounds) // 4 or 1))
    per = (len(bounds) + nchunk - 1) // nchunk
    for c in range(nchunk):
        b = bounds[c * per:(c + 1) * per]
        if not b:
            continue
        lo = b[0]; hi = bounds[(c + 1) * per] if (c + 1) * per < len(bounds) else len(sreqs)
        souts += execute(ctx, exe, sreqs[lo:hi], plans, tables, "silk%02d" % c, 1)
    aouts = execute(ctx, exe, areqs, plans, tables, "alloc", 1)
    aouts += execute(ctx, exe, ereqs, plans, tables, "cenc", 4 if q else nproc)
    aouts += execute(ctx, exe, oreqs, plans, tables, "openc", 4 if q else nproc)
    by_id = {x["id"]: x for x in reqs + sreqs + ereqs + oreqs}
    names_seen = set()
    for ip, op, rc, err in outs + souts + aouts:
        if rc != 0:
            # sanitizer / assertion abort or hang of a decoder on a well-formed byte string: memory-safety / totality (C01)
            last = ""
            with open(op, "rb") as f:
                data = f.read()
            data = data[:data.rfind(b"\n") + 1]
            with open(op, "wb") as f:
                f.write(data)
            if re.search(r"error in \S*(/silk/enc|/silk/encode_|/celt/entenc)", err):
                # an assertion of the WRITER's library functions on the harness's synthetic encoder state says nothing about the decoders
                raise vf.Infra("hx_framehdr: the packet writer aborted (input domain of the harness): " + err[-1200:])
            ctx.violation("hx_framehdr aborted rc=%d (decoder abort/hang on a packet written in the model's order; C01 totality): %s" % (rc, err[-1500:]),
                          replay_src=None, replay_text=replay_text_for_abort(ip, op))
    # 5. judge: all recorded events in one parallel TLC pass
    allev = ctx.path("events_all.ndjson")
    with open(allev, "w") as fo:
        for ip, op, rc, err in outs + souts + aouts:
            n = scan_events(ctx, op, names_seen, plans)
            ctx.evaluations += n
            if n:
                ctx.sample(dict(event=vf.file_line(op, min(n, 2))[:500]), limit=6)
            with open(op) as fi:
                fo.write(fi.read())
    bad, drifting = judge(ctx, allev, by_id, "events", tier)
    for ev in bad:
        report(ctx, exe, ev, by_id, tables)
    # 6. vacuity guard on what was executed
    miss = [n for n in NEED_CELT if "C:" + n not in names_seen] + [n for n in NEED_SILK if "S:" + n not in names_seen]
    if miss and not ctx.violations:
        raise vf.Infra("decisions never exercised on the implementation side (vacuous run): %s" % miss)
    ctx.notes["decisions_seen"] = sorted(names_seen)
    # 7. stricter sub-model: SPEC-DRIFT only
    if not ctx.violations:
        for i in sorted(drifting)[:3]:
            ctx.spec_drift("FrameHdr", "FEC decoding of a packet that carries LBRR data for the mid channel returned the (non-degenerate) concealment samples: request %s" %
                           json.dumps(by_id.get(i, {}))[:300])
    ctx.notes["observed"] = OBS


def replay_text_for_abort(ip, op):
    """the request being executed when the harness died = the stdin line after the last completed event"""
    n = vf.count_lines(op)
    lines = [l for l in open(ip).read().splitlines()]
    head = [l for l in lines if l.startswith("T ")]
    body = [l for l in lines if not l.startswith("T ")]
    done = 0; k = 0
    for k, l in enumerate(body):
        if done >= n:
            break
        done += 1
    cur = body[k:k + 1]
    # keep the execution context of a speech packet
    ctxl = []
    if cur and cur[0].startswith("S "):
        j = k
        while j >= 0 and not body[j].startswith("N "):
            j -= 1
        ctxl = body[max(j, 0):k]
    return "RAW\n" + "\n".join(head + ctxl + cur)


def request_of_event(ev, by_id):
    q = by_id.get(ev.get("id"))
    if q is not None:
        return q
    return None


def report(ctx, exe, ev, by_id, tables):
    """R4: re-run the rejected case once; report it if it repeats"""
    if ev.get("k") == "?":
        raise vf.Infra("TLC rejected a chunk without a line number: " + ev.get("raw", "")[:800])
    q = request_of_event(ev, by_id) if ev.get("k") in ("celt", "silk", "cenc", "openc") else dict(k="A", s=ev["s"], e=ev["e"], C=ev["C"], LM=ev["LM"], total=ev["total"], id=0)
    if q is None:
        raise vf.Infra("rejected event without request: " + json.dumps(ev)[:300])
    again = rerun(ctx, exe, [q], tables, "rerun%d" % len(ctx.violations))
    if not again:
        raise vf.Infra("rejection did not repeat (R4): " + json.dumps(ev)[:400])
    rp = ctx.path("replay_%d.ndjson" % (len(ctx.violations) + 1))
    with open(rp, "w") as f:
        f.write(json.dumps(q, separators=(",", ":")) + "\n")
    ctx.violation("%s :: %s" % (which_clause(ev), json.dumps(trim(ev))[:900]), replay_src=rp)


def trim(ev):
    e = dict(ev)
    for k in ("sv", "st", "sf", "sh", "sl", "vals"):
        if k in e and isinstance(e[k], list) and len(e[k]) > 12:
            e[k] = e[k][:12] + ["..."]
    if "ops" in e and len(e["ops"]) > 48:
        e["ops"] = e["ops"][:48] + ["..."]
    if isinstance(e.get("rh"), list):
        e.pop("rh"); e.pop("rl", None)
    return e


def rerun(ctx, exe, qs, tables_unused, tag):
    """plan + execute + judge a handful of requests; returns the rejected events"""
    qs = [dict(x) for x in qs]
    first = True
    for i, x in enumerate(qs):
        x.setdefault("id", i + 1)
        if x["k"] == "S" and first:
            x["new"] = 1; first = False
    planned = [x for x in qs if x["k"] in ("C", "S")]
    plans, tables = plan(ctx, planned, tag, nparts=1) if planned else ({}, tables_unused)
    outs = execute(ctx, exe, qs, plans, tables, tag, 1)
    bad = []
    for ip, op, rc, err in outs:
        if rc != 0:
            bad.append(dict(k="abort", rc=rc, err=err[-600:]))
            continue
        ctx.evaluations += vf.count_lines(op)
        bad += judge(ctx, op, {}, tag, "quick")[0]
    return bad


def replay(ctx):
    exe = build_harness()
    txt = open(ctx.replay).read()
    if txt.startswith("RAW\n"):
        ip = ctx.path("replay_in.txt")
        with open(ip, "w") as f:
            f.write(txt[4:])
        op = ctx.path("replay_out.ndjson")
        rc, err = vf.run_hx(exe, [], op, stdin_path=ip, timeout=600)
        ctx.states = max(ctx.states, 1); ctx.transitions = max(ctx.transitions, 1); ctx.nontrivial_count = 2
        if rc != 0:
            ctx.violation("replayed execution aborts again rc=%d: %s" % (rc, err[-800:]), replay_src=ctx.replay)
        else:
            ctx.evaluations += vf.count_lines(op); ctx.traces += 1
        return
    qs = [json.loads(l) for l in txt.splitlines() if l.strip().startswith("{")]
    if not qs:
        raise vf.Infra("replay file holds no request")
    bad = rerun(ctx, exe, qs, {}, "replay")
    ctx.nontrivial_count = max(2, len(qs))
    ctx.sample(dict(replayed=json.dumps(qs[0])[:400]))
    for ev in bad:
        ctx.violation("replayed case rejected again: %s :: %s" % (which_clause(ev), json.dumps(trim(ev))[:700]), replay_src=ctx.replay)


META = dict(
    engine="FrameHdr",
    technique=("TLA+ state machines of the MDCT-layer frame header and of the speech-layer packet header as decoders of symbol sequences, with the "
               "range coder's bit counter; TLC exhaustive over budgets x symbol streams; TLC-planned packets written with the library's range "
               "encoder and decoded by the real decoders; TLC trace validation"),
    level_text=("TLC proves on the model (all symbol streams over small alphabets, budgets around every guard) that no header symbol passes the "
                "budget, that encoder and decoder orders are mirror images, the reservation arithmetic, and for the speech layer that FEC decoding "
                "reads a prefix of normal decoding, the nFramesDecoded bookkeeping, the flag placeholder and the LBRR flag layout of "
                "Framing!HasLbrrOf; packets written symbol by symbol in the model's order are decoded by celt_decode_with_ec / opus_decode and "
                "TLC judges final range (against a shadow decoder that follows the model), post-filter period, silence output, durations, "
                "opus_packet_has_lbrr, FEC final range, and the model's tell/tell_frac/rng after every op."),
    level_note=("Growth module: describes how the implementation behaves. The band data after the header and the speech-frame bodies are "
                "outside the model. Trusted: TLC, Json module, my reading of RFC 6716 4.2/4.3 through the pinned code."),
)
