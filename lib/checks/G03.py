"""G03 - growth module `Surround`: surround / ambisonics rate allocation and per-stream control in the
multistream encoder (modules Surround, Surround_mc, SurroundTrace; harness/surround.c).

A disagreement between the model and the code is SPEC-DRIFT (printed, exit 0) except where it breaks a clause of
a listed property: C10 (prescribed layout, valid multistream packet of equal sub-packet durations) and C05 (return
value / buffer limit / CBR size of a multistream packet) - those are VIOLATIONs (the detail line names the property)."""
import json, os, random, re
import vf

LEVEL = "model_checking"

APPS = [2048, 2049, 2051]
BWS = [1101, 1102, 1103, 1104, 1105, -1000]

# regimes of the allocation that the model run must have visited (vacuity guard)
REQUIRED_TAGS = {"none", "surround", "ambi", "shared", "minimum", "so-zero", "so-mid", "so-sat", "lfe", "clamp-coupled",
                 "clamp-mono", "auto", "max", "explicit", "extra-inputs", "bw-1101", "bw-1103", "bw-1104", "bw-1105"}


# ---------------------------------------------------------------------------------------------- model side
def model_runs(ctx):
    tier = ctx.tier
    cfg = "Surround_mc_quick.cfg" if tier == "quick" else "Surround_mc_thorough.cfg"
    r = ctx.mc("Surround_mc", cfg, what="Surround theorems over objects x rates x frame sizes x bitrate grid",
               deadlock=True, workers=min(vf.NCPU, 12), timeout=2400 if tier == "thorough" else 600, heap="6g")
    if r.violation:
        raise vf.Infra("Surround design theorem %s refuted on the model:\n%s" % (r.violation, r.state_dump[:2500]))
    plan, tags = [], set()
    for p in r.prints:
        m = re.match(r'^"PLAN (\w+) (-?\d+) (\d+) (\d+) (\d+) (\d+) (\d+) (-?\d+) \| <<([^>]*)>> \| \{(.*)\}"$', p)
        if not m:
            continue
        tg = re.findall(r'\\"([^\\]+)\\"', m.group(10))
        tags.update(tg)
        plan.append(dict(kind=m.group(1), f=int(m.group(2)), ch=int(m.group(3)), S=int(m.group(4)), C=int(m.group(5)),
                         fs=int(m.group(6)), q=int(m.group(7)), b=int(m.group(8)),
                         map=[int(x) for x in m.group(9).split(",")] if m.group(9).strip() else [], tags=tg))
    if not plan:
        raise vf.Infra("Surround_mc printed no plan line")
    missing = REQUIRED_TAGS - tags
    if missing:
        raise vf.Infra("Surround_mc never visited the regimes %s (vacuous model run)" % sorted(missing))
    # TLC's print order depends on the worker interleaving: sort (R4)
    plan.sort(key=lambda d: (d["kind"], d["f"], d["ch"], d["S"], d["C"], d["fs"], d["q"], d["b"]))
    ctx.notes["plan_points"] = len(plan)
    ctx.notes["regimes_visited"] = sorted(tags)
    # witnesses: statements that are NOT theorems must be refuted (guards against theorems that hold vacuously)
    for wcfg, inv in (("Surround_mc_witness_mono.cfg", "StrictlyMonotone"), ("Surround_mc_witness_overflow.cfg", "SafeTheorems")):
        w = ctx.mc("Surround_mc", wcfg, what="witness " + inv, deadlock=True, workers=4, timeout=300, heap="3g")
        if w.violation != inv:
            raise vf.Infra("witness run %s: expected TLC to refute %s, got %s" % (wcfg, inv, w.violation))
    ctx.notes["witnesses_refuted"] = ["StrictlyMonotone (rates fall back by one unit where an offset steps up)",
                                      "SafeTheorems on plain layouts with >= 29 input channels on one coupled stream "
                                      "(the code's channel_rate*coupled_ratio leaves 32 bits; observation, see findings/OBS_g03_*)"]
    return plan


# ---------------------------------------------------------------------------------------------- plan -> executions
def case_key(p):
    return (p["kind"], p["f"], p["ch"], p["S"], p["C"])


def layout_text(p):
    if p["kind"] == "enc":
        return "%d %d %d %s" % (p["ch"], p["S"], p["C"], " ".join(str(x) for x in p["map"]))
    return "%d %d" % (p["f"], p["ch"])


def pick_maxb(rng, p, q, b, vbr):
    S = p["S"]
    smallest = 2 * S - 1 + (S if q == 40 else 0)
    u = rng.random()
    if b > 0:
        need = max(smallest, b * q // 3200)
    else:
        need = S * 400
    if u < 0.55:
        return min(4000000, need + S * 40 + rng.randrange(0, 2000))             # generous
    if u < 0.75:
        return max(1, min(need, smallest + rng.randrange(0, max(1, need - smallest + 1))))     # between smallest and the rate's bytes
    if u < 0.90:
        return smallest + rng.randrange(0, 3 * S + 8)                            # tight
    if u < 0.96:
        return rng.choice([need, need + 1, max(1, need - 1), 1276 * S, 1275 * S + 7])
    return rng.randrange(1, 4 * S + 2)                                           # may be too small


def make_execution(rng, pts, idx):
    """pts: 1..3 plan points of one (object, Fs); returns the command line"""
    p0 = pts[0]
    app = rng.choice(APPS)
    cx = rng.choice([0, 0, 1, 2, 5]) if p0["S"] <= 8 else 0
    seed = rng.randrange(1, 1 << 30)
    steps = []
    vbr = 1
    for j, p in enumerate(pts):
        S = p["S"]
        if j > 0:
            u = rng.random()
            if u < 0.35:
                steps.append("P %d %d" % (rng.randrange(0, S), rng.choice([6000, 12345, 64000, 200000, 500, 300001])))
            elif u < 0.50:
                steps.append("W %d" % rng.choice(BWS))
            elif u < 0.60:
                steps.append("R")
        u = rng.random()
        if u < 0.05:
            steps.append("B %d" % rng.choice([0, -5, -999]))                     # illegal: refused, setting kept
        elif u < 0.10 and p["b"] > 0:
            steps.append("B %d" % rng.choice([1, 499, 2000000000]))              # clamped by the multistream ctl
        steps.append("B %d" % p["b"])
        if rng.random() < (0.45 if j == 0 else 0.35):
            vbr = 1 - vbr
            steps.append("V %d" % vbr)
        q = p["q"]
        n = 1 if (S * q > 400 or rng.random() < 0.5) else 2
        steps.append("E %d %d %d" % (q, pick_maxb(rng, p, q, p["b"], vbr), n))
        if rng.random() < 0.15 and S * q <= 400:                                  # the same settings, another frame size
            q2 = rng.choice([1, 2, 4, 8, 16, 24, 32, 40, 48])
            steps.append("E %d %d 1" % (q2, pick_maxb(rng, p, q2, p["b"], vbr)))
    return "X %s %d %d %d %d | %s | %s" % (p0["kind"], p0["fs"], app, cx, seed, layout_text(p0), " ".join(steps))


def build_commands(ctx, plan):
    rng = random.Random(ctx.seed * 7919 + 3)
    per_case = 54 if ctx.tier == "quick" else 900
    groups = {}
    for p in plan:
        groups.setdefault(case_key(p), {}).setdefault(p["fs"], []).append(p)
    cmds = []
    for ck in sorted(groups):
        byfs = groups[ck]
        S = ck[3]
        n = per_case if S <= 8 else max(6, per_case * 8 // S) if S <= 64 else max(4, per_case // 12)
        fss = sorted(byfs)
        for i in range(n):
            fs = fss[i % len(fss)]
            pool = byfs[fs]
            k = 1 if S > 64 else rng.choice([1, 2, 2, 3])
            edge = [p for p in pool if "edge" in p["tags"]]
            # a third of the points from the regime boundaries of the allocation (tagged by TLC)
            pts = [rng.choice(edge) if (edge and rng.random() < 0.34) else rng.choice(pool) for _ in range(k)]
            if S > 64:
                # keep the 100+ stream objects affordable: short frames mostly
                pts = [p for p in pts if p["q"] <= 8] or [min(pool, key=lambda d: d["q"])]
            cmds.append(make_execution(rng, pts, len(cmds)))
    # creation refusals: unsupported (family, channels) pairs and invalid plain layouts (C10: rejected at creation)
    for f, ch in [(1, 9), (1, 0), (0, 3), (2, 2), (2, 5), (2, 228), (3, 4), (4, 2), (255, 256), (254, 2), (2, 227)]:
        cmds.append("X surr 48000 2049 0 1 | %d %d | B 64000 E 8 4000 1" % (f, ch))
    for f, ch in [(3, 5), (3, 3), (2, 4), (3, 49), (3, 38), (1, 6)]:
        cmds.append("X penc 48000 2049 0 1 | %d %d | B 64000 E 8 4000 1" % (f, ch))
    for lay in ["3 2 1 0 1 1", "3 2 1 0 1 255", "2 1 1 0 0", "4 2 2 0 1 2 3", "3 1 1 0 1 2"]:
        cmds.append("X enc 48000 2049 0 1 | %s | B 64000 E 8 4000 1" % lay)
    return cmds


# ---------------------------------------------------------------------------------------------- execution + judgement
def run_chunk(ctx, exe, exe_plain, cmds, tag):
    """run the commands; a sanitizer / assertion abort is attributed to its command, which is then re-executed without
    the sanitizer so that the model can still judge it; the rest of the chunk continues in a new process.
    returns (trace_path, [(cmd, rc, stderr_tail)])"""
    out_all = ctx.path("t_%s.ndjson" % tag)
    crashes = []
    rest = list(cmds)
    part = 0
    with open(out_all, "w") as fo:
        while rest:
            inp = ctx.path("in_%s_%d.txt" % (tag, part)); outp = ctx.path("o_%s_%d.ndjson" % (tag, part))
            with open(inp, "w") as f:
                f.write("\n".join(rest) + "\n")
            rc, err = vf.run_hx(exe, [], outp, stdin_path=inp, timeout=3000)
            with open(outp, "rb") as f:
                data = f.read()
            data = data[:data.rfind(b"\n") + 1].decode("utf-8", "replace")
            lines = data.splitlines()
            done = sum(1 for ln in lines if ln.startswith('{"k":"x"'))
            started = sum(1 for ln in lines if ln.startswith('{"k":"b"'))
            # keep complete executions only
            keep = [ln for ln in lines if ln.startswith('{"k":"x"')]
            fo.write("".join(k + "\n" for k in keep))
            os.remove(inp); os.remove(outp)
            if rc == 0:
                if done != len(rest):
                    raise vf.Infra("hx_surround: %d of %d executions recorded without a crash" % (done, len(rest)))
                break
            if started <= done or started > len(rest):
                raise vf.Infra("hx_surround rc=%d outside an execution: %s" % (rc, err[-800:]))
            bad = rest[started - 1]
            crashes.append((bad, rc, err))
            # what does the code do there without the sanitizer?  (judged by the model like every other execution)
            if exe_plain and len(crashes) <= 3:
                inp2 = ctx.path("in_%s_c%d.txt" % (tag, part)); outp2 = ctx.path("o_%s_c%d.ndjson" % (tag, part))
                with open(inp2, "w") as f:
                    f.write(bad + "\n")
                rc2, err2 = vf.run_hx(exe_plain, [], outp2, stdin_path=inp2, timeout=600)
                if rc2 == 0:
                    with open(outp2) as f:
                        fo.write("".join(ln for ln in f if ln.startswith('{"k":"x"')))
                os.remove(inp2); os.remove(outp2)
            rest = rest[started:]
            part += 1
            if len(crashes) > 8:
                break
    return out_all, crashes


def classify_crash(err):
    if "AddressSanitizer" in err or "ssertion" in err or "Hang" in err or "LeakSanitizer" in err:
        return "violation"
    if "runtime error:" in err:
        return "drift"
    return "violation"


def explain(ctx, trace_path, what):
    """names of the failed obligations of every execution in the file: {line_no: (prop_names, model_names)}"""
    r = vf.tlc("SurroundTrace", "SurroundTraceExplain.cfg", workers=1, env={"TRACE": trace_path}, timeout=1700, heap="3g",
               tag=what.replace(" ", "_") + os.path.basename(trace_path))
    if r.error or r.violation:
        raise vf.Infra("%s: explain run failed: %s" % (what, r.error or r.violation))
    ctx.add_tlc(r, "explain " + what)
    res = {}
    for p in r.prints:
        m = re.match(r'^"WHY (\d+) prop \{(.*?)\} model \{(.*?)\}"$', p)
        if m:
            res[int(m.group(1))] = (re.findall(r'\\"([^\\]+)\\"', m.group(2)), re.findall(r'\\"([^\\]+)\\"', m.group(3)))
    return res


def event_summary(ev):
    try:
        e = json.loads(ev)
    except ValueError:
        return ev[:300]
    return "%s" % e.get("cmd", "")[:400]


def judge(ctx, exe, trace_path, what, rerun=True):
    """validate a trace file; report VIOLATION / SPEC-DRIFT per rejected execution. returns number of executions accepted."""
    n = vf.count_lines(trace_path)
    if n == 0:
        return 0
    nparts = max(1, min(10, n // 150))
    rej, total = vf.validate_cases(ctx, "SurroundTrace", "SurroundTrace.cfg", trace_path, what, nparts=nparts, heap="2g")
    bad_total = 0
    shown = 0
    for p, ln, tr in rej:
        why = explain(ctx, p, what)
        if ln not in why:
            raise vf.Infra("%s: TLC rejected line %d of %s but the explain run does not" % (what, ln, p))
        bad_total += len(why)
        for k in sorted(why):
            props, models = why[k]
            # every rejected execution is counted; the first few are re-executed (R4) and reported verbatim,
            # executions that break a property clause first
            cls = "prop" if props else "model"
            ctx.notes.setdefault("rejected_" + cls, 0)
            ctx.notes["rejected_" + cls] += 1
        order = sorted(why, key=lambda k: (0 if why[k][0] else 1, k))
        for k in order[:2]:
            if shown >= 10:
                break
            shown += 1
            props, models = why[k]
            ev = vf.file_line(p, k)
            cmd = json.loads(ev).get("cmd", "")
            if rerun:
                # R4: execute the same command once more and judge it again
                inp = ctx.path("rr_in.txt"); outp = ctx.path("rr_out.ndjson")
                with open(inp, "w") as f:
                    f.write(cmd + "\n")
                rc, err = vf.run_hx(exe, [], outp, stdin_path=inp, timeout=900)
                again = explain(ctx, outp, what + " rerun") if rc == 0 and vf.count_lines(outp) else {}
                a_props = sorted(set(x for v in again.values() for x in v[0]))
                a_models = sorted(set(x for v in again.values() for x in v[1]))
                if rc == 0 and (a_props != sorted(props) or a_models != sorted(models)):
                    raise vf.Infra("%s: rejection not repeatable for command %s (first %s / %s, then %s / %s)" % (
                        what, cmd[:300], props, models, a_props, a_models))
            report(ctx, props, models, cmd)
    if bad_total:
        vf.log("[G03] %d executions rejected (%d with a property clause broken, %d model only); %d reported" % (
            bad_total, ctx.notes.get("rejected_prop", 0), ctx.notes.get("rejected_model", 0), shown))
    return total - bad_total


def report(ctx, props, models, cmd):
    if props:
        pids = sorted(set(x.split(":")[0] for x in props))
        ctx.violation("clause of %s broken (obligations %s%s) in execution: %s" % (
            "/".join(pids), ", ".join(props), ("; model also: " + ", ".join(models)) if models else "", cmd[:600]),
            replay_text=cmd)
    else:
        ctx.spec_drift("Surround", "obligations %s fail in execution: %s" % (", ".join(models), cmd[:400]))


def run_commands(ctx, cmds, what, variants=("hk",)):
    var = vf.build_variant(variants[0])
    exe = vf.build_hx(var, "surround.c")
    try:
        exe_plain = vf.build_hx(vf.build_variant("hko"), "surround.c")
    except vf.Infra:
        exe_plain = None
    nchunks = max(1, min(vf.NCPU - 2, len(cmds) // 40))
    chunks = [cmds[i::nchunks] for i in range(nchunks)]

    def one(job):
        i, c = job
        return run_chunk(ctx, exe, exe_plain, c, "%s_%d" % (what, i))
    results = vf.parallel(one, list(enumerate(chunks)), nproc=nchunks)
    merged = ctx.path("trace_%s.ndjson" % what)
    ncrash = 0
    with open(merged, "w") as fo:
        for path, crashes in results:
            with open(path) as f:
                for ln in f:
                    fo.write(ln)
            os.remove(path)
            for cmd, rc, err in crashes:
                ncrash += 1
                kind = classify_crash(err)
                tail = err[-1500:]
                if kind == "violation":
                    ctx.violation("clause of C05 broken (an encode call must return a length in 1..max_data_bytes without touching memory "
                                  "outside the buffer): hx_surround aborted rc=%d in execution %s\n%s" % (rc, cmd[:400], tail), replay_text=cmd)
                else:
                    m = re.search(r"[^\n]*runtime error:[^\n]*", err)
                    ctx.spec_drift("Surround", "undefined behaviour reported by UBSan (%s) in execution: %s" % (
                        m.group(0)[:300] if m else "?", cmd[:400]))
    return exe, merged, ncrash


def scan_evidence(ctx, trace_path):
    seen = ctx.nontrivial
    with open(trace_path) as f:
        for ln in f:
            try:
                e = json.loads(ln)
            except ValueError:
                continue
            br, vbr = -1000, 1
            for s in e.get("st", []):
                if s.get("o") == "B" and s.get("r") == 0:
                    br = s["v"]
                elif s.get("o") == "V" and s.get("r") == 0:
                    vbr = s["v"]
                elif s.get("o") == "E":
                    ctx.evaluations += 1
                    if s.get("n", 0) > 0 and e.get("ok") == 1:
                        seen.add(hash((e["kind"], e["f"], e["ch"], e["fs"], s["q"], br, vbr)))
            if e.get("ok") == 1 and len(ctx.samples) < 4 and e.get("st"):
                es = [s for s in e["st"] if s.get("o") == "E"]
                ctx.sample({"command": e["cmd"][:300], "S": e.get("S"), "C": e.get("C"),
                            "first_encode": {k: es[0][k] for k in ("q", "mb", "n", "gb", "bw", "lf", "fm") if k in es[0]} if es else None})


def run(ctx):
    ctx.rule = ("TLC evaluates the Surround design theorems (floor, offsets, sum vs request, coded ratios, monotonicity, per-stream clamp, "
                "CBR budget, forced bandwidth, 32-bit safety of the code's products) at every point of objects x sampling rates x frame sizes x "
                "bitrate grid (every point is a state) and prints a coarser plan grid; hx_surround creates the real surround / ambisonics / "
                "projection / plain multistream encoders, walks seeded histories over those plan points (bitrate, VBR, bandwidth requests, "
                "direct pokes at a stream, resets, encode calls) and records per stream after every encode call the bitrate, working bitrate, "
                "bandwidth, mode, forced mode, LFE flag and the sub-packet headers; SurroundTrace folds each history in TLC. "
                "non-trivial = distinct (object, Fs, frame size, bitrate request in force, VBR flag) for which an encode call returned a "
                "packet whose per-stream observations were compared with the model")
    ctx.assumptions = ["TLC 1.8.0 and the CommunityModules Json reader are trusted",
                       "gcc's >> of a negative int is an arithmetic shift (the model floors)",
                       "the implementation is exercised on a seeded sample of the plan grid, not all of it; ASan/UBSan observe those executions only",
                       "FEC and DTX stay off in the recorded executions (the forced-bandwidth clause is asserted on MDCT-coded sub-packets only)"]
    if ctx.replay:
        return replay(ctx)
    plan = model_runs(ctx)
    ctx.exhaustive = True
    ctx.notes["exhaustive_scope"] = "the grid of Surround_mc_%s.cfg (model side); implementation side is a seeded sample of its plan points" % ctx.tier
    cmds = build_commands(ctx, plan)
    ctx.notes["executions_planned"] = len(cmds)
    exe, trace, ncrash = run_commands(ctx, cmds, "main")
    ctx.notes["aborted_executions"] = ncrash
    scan_evidence(ctx, trace)
    ok = judge(ctx, exe, trace, "G03 main")
    ctx.traces += ok
    if ctx.evaluations == 0 or not ctx.nontrivial:
        raise vf.Infra("no encode call was recorded")


def replay(ctx):
    with open(ctx.replay) as f:
        cmds = [ln.strip() for ln in f if ln.startswith("X ")]
    if not cmds:
        raise vf.Infra("replay file holds no command")
    exe, trace, ncrash = run_commands(ctx, cmds, "replay")
    scan_evidence(ctx, trace)
    ctx.traces += judge(ctx, exe, trace, "G03 replay", rerun=False)
    ctx.states = max(ctx.states, 1); ctx.transitions = max(ctx.transitions, 1)
    if not ctx.nontrivial:
        ctx.nontrivial_count = 1


META = dict(
    engine="Surround+MS+Cvbr+EncCtl",
    technique=("TLA+ integer model of the multistream encoder's rate allocation and per-stream control; TLC exhaustive over objects x rates x "
               "frame sizes x bitrate grid; TLC-generated plan points replayed through real encoders; TLC folds recorded histories"),
    level_text=("TLC checks the design theorems of the transcribed rate allocation (every stream >= its floor, the sum equals the request to "
                "within one unit per ratio step or sits on the minimum above it, coupled = 2 x mono and LFE = mono/8 above the offsets, "
                "monotonicity up to one unit, clamps, CBR budget, forced-bandwidth steps, no 32-bit overflow on every object the create calls "
                "make) at every grid point, refutes two non-theorems as vacuity guard, and judges every recorded execution of the real encoders: "
                "per-stream bitrates equal the model's exactly, LFE stream MDCT-only narrowband, forced mode/channels/bandwidth, plus the C10/C05 "
                "clauses on every packet."),
    level_note=("Growth module: model/code disagreement is SPEC-DRIFT unless a clause of C10 or C05 breaks. The energy-mask computation and the "
                "stream encoders' own decisions are not modelled; the implementation is sampled."),
)
