"""G04 - growth module `Alloc`: the CELT bit allocation (celt/rate.c clt_compute_allocation / interp_bits2pulses,
init_caps, rate.h bits2pulses / pulses2bits / get_pulses, the integer budget arithmetic of the band splitter in
celt/bands.c) - modules Alloc, Alloc_mc, AllocTrace; harness/alloc.c.

The layer is normative (RFC 6716 4.3.3): encoder and decoder run the same integer function.  A disagreement between
the model's exact values and the code is SPEC-DRIFT (printed, exit 0).  Two clauses are decided at the level of a
listed property, C02 ("decodes in lock-step with the encoder ... no call ever fails with an internal error"):
  * mirror  - the decoder role, fed the symbols the encoder role wrote, arrives at the identical allocation; in situ every
              allocation the decoder computes from a packet is one the encoder computed while producing that packet;
  * budget  - the allocation never hands out more than the frame's budget nor a negative amount (either would desynchronise
              or bust the frame), and none of the function's own assertions fires.
Those are VIOLATIONs (the detail line names C02)."""
import json, os, random, re
import vf

LEVEL = "model_checking"

WRAPS = ["clt_compute_allocation", "ec_enc_bit_logp", "ec_dec_bit_logp", "ec_enc_uint", "ec_dec_uint"]
EB = [0, 1, 2, 3, 4, 5, 6, 7, 8, 10, 12, 14, 16, 20, 24, 28, 34, 40, 48, 60, 78, 100]      # only used to *craft* inputs
RANGES = [(0, 13), (0, 17), (0, 19), (0, 21), (17, 19), (17, 21)]

TIERS = {
    "quick": dict(mc_cfg="Alloc_mc_quick.cfg", mc_workers=10, mc_timeout=900, mono_cfg=None, random_cases=2400, plan_cases=2000,
                  situ_exec=60, situ_packets=40, situ_hk=6, chunks=8, tlc_timeout=900),
    "thorough": dict(mc_cfg="Alloc_mc_thorough.cfg", mc_workers=10, mc_timeout=3000, mono_cfg="Alloc_mc_mono_thorough.cfg",
                     random_cases=60000, plan_cases=40000, situ_exec=1500, situ_packets=60, situ_hk=120, chunks=16,
                     tlc_timeout=3000, fixed_slice=(8000, 200, 20)),
}

# regimes of the allocation that the model run must have visited (vacuity guard)
REQUIRED_TAGS = {"stop-coded", "stop-forced", "skips>=3", "intensity-reserve-dropped", "intensity-coded", "dual-coded",
                 "dual-reserve-returned", "above-top-vector", "below-first-vector", "balance-left", "one-coefficient-bands",
                 "no-skip-reserve", "negative-total", "dynalloc-floor", "max-fine-bits", "one-band-coded", "all-bands-coded",
                 "hybrid-start"}
# theorems whose failure on the exported tables is a defect of the allocation as the property needs it (C02), not of the model
C02_THEOREMS = {"Mirror": "decoding the symbols the encoder role coded does not reproduce the encoder's allocation",
                "WithinBudget": "the allocation hands out more than the frame's budget",
                "NoBad": "one of the function's own assertions fails / a negative value reaches the unsigned division"}


# ---------------------------------------------------------------------------------------------- build
def lib_defines(var):
    """-D flags the library's own rate.c was compiled with (so that the included copy in hx_alloctu is the same code)."""
    txt = open(os.path.join(var["dir"], "build.ninja")).read()
    m = re.search(r"build CMakeFiles/opus\.dir/celt/rate\.c\.o:.*?\n((?:  .*\n)+)", txt)
    if not m:
        raise vf.Infra("cannot find the compile rule of celt/rate.c in build.ninja")
    d = re.search(r"DEFINES = (.*)", m.group(1))
    defs = d.group(1).split() if d else []
    return [x for x in defs if not x.startswith("-D_FORTIFY") and x != "-DHAVE_CONFIG_H"]


def build(variant):
    var = vf.build_variant(variant)
    defs = lib_defines(var)
    exe = vf.build_hx(var, "alloc.c", out="alloc", extra=defs + ["-Wl,--wrap=" + s for s in WRAPS])
    return var, defs, exe


def build_tu(var, defs):
    return vf.build_hx(var, "alloc.c", out="alloctu", extra=defs + ["-DALLOC_TU"])


# ---------------------------------------------------------------------------------------------- inputs
def quanta(j, LM):
    w = (EB[j + 1] - EB[j]) << LM
    return min(w << 3, max(6 << 3, w))


def random_cases(rng, n):
    """seeded random inputs: P lines (real encoder role then real decoder role) and D lines (decoder role on crafted symbols)"""
    out = []
    for _ in range(n):
        C = rng.choice([1, 2]); LM = rng.randrange(4)
        st, en = rng.choice(RANGES + [(0, 21), (0, 21)])
        trim = rng.randrange(11)
        if rng.random() < 0.12:
            tot = rng.choice([-5, -1, 0, 1, 7, 8, 9, 15, 16, 17, 24, 31, 32, 40, 47, 48, 63, 64])
        else:
            tot = min(81600, int(10 ** (rng.random() * 4.92)))
        off = [0] * 21
        pat = rng.randrange(5)
        if pat >= 1:
            for j in range(st, en):
                if rng.random() < [0, 0.1, 0.3, 0.05, 0.6][pat]:
                    off[j] = quanta(j, LM) * rng.randrange(1, 1 + rng.choice([1, 2, 4, 8, 30]))
        offs = " ".join(map(str, off))
        if rng.random() < 0.6:
            ii = rng.randrange(st, en + 1); di = rng.randrange(2)
            prev = rng.choice([0, 0, rng.randrange(22)])
            sbw = rng.choice([en - 1, en - 1, rng.randrange(-1, 22), 1])
            out.append("P %d %d %d %d %d %d %d %d %d %d | %s" % (C, LM, st, en, trim, tot, ii, di, prev, sbw, offs))
        else:
            if rng.random() < 0.8:
                nz = rng.choice([0, 0, 1, 2, 3, 5, 8, 12, 20]) if rng.random() < 0.7 else rng.randrange(22)
                sk = [0] * nz + [1]
            else:
                sk = [rng.randrange(2) for _ in range(25)]
            out.append("D %d %d %d %d %d %d %d 0 0 -1 | %s | %s" % (C, LM, st, en, trim, tot, rng.randrange(1 << 30),
                                                                     " ".join(map(str, sk)), offs))
    return out


_re_plan = re.compile(r'^"PLAN (\d+) (\d+) (\d+) (\d+) (\d+) (-?\d+) (\d+) (\d+) (\d+) (-?\d+) (-?\d+) \| <<([^>]*)>> \| <<([^>]*)>> \| \{(.*)\}"$')


def plan_cases(rng, prints, limit):
    """TLC-generated inputs: every printed point becomes a D line (exactly the symbols of the model run) and a P line
    (the real encoder, steered towards the same stop by signalBandwidth)"""
    pts, tags = [], set()
    for p in prints:
        m = _re_plan.match(p)
        if not m:
            continue
        tg = re.findall(r'\\"([^\\]+)\\"', m.group(14))
        tags.update(tg)
        pts.append((tuple(int(m.group(i)) for i in range(1, 12)), m.group(12), m.group(13)))
    pts.sort()                      # TLC's print order depends on the worker interleaving (R4)
    if len(pts) > limit:
        pts = rng.sample(pts, limit)
        pts.sort()
    cases = []
    for (C, LM, st, en, trim, tot, ii, di, ift, isym, dsym), sk, off in pts:
        sks = " ".join(x.strip() for x in sk.split(",") if x.strip())
        offs = " ".join(x.strip() for x in off.split(","))
        cases.append("D %d %d %d %d %d %d %d %d %d %d | %s | %s" % (C, LM, st, en, trim, tot, rng.randrange(1 << 30), ift,
                                                                     max(isym, 0), dsym, sks, offs))
        nsk = len(sks.split())
        # the encoder's rule stops at the first offered band <= signalBandwidth (above its depth threshold): aim at the same band
        sbw = rng.choice([en - 1, en - 1 - nsk, en - 2 - nsk, rng.randrange(-1, 22)])
        cases.append("P %d %d %d %d %d %d %d %d %d %d | %s" % (C, LM, st, en, trim, tot, ii, di, rng.choice([0, rng.randrange(22)]),
                                                               sbw, offs))
    return cases, tags, len(pts)


def situ_commands(rng, n, npk):
    cmds = []
    for i in range(n):
        fs = rng.choice([8000, 12000, 16000, 24000, 48000, 48000, 48000])
        if i % 10 == 9:
            # a 5.1 surround encoder: its LFE stream runs the allocation with signalBandwidth = 1
            cmds.append("M %d %d %d %d" % (rng.randrange(1, 1 << 30), rng.choice([24000, 48000, 48000]), rng.choice([2049, 2051]), max(6, npk // 3)))
            continue
        cmds.append("X %d %d %d %d %d" % (rng.randrange(1, 1 << 30), fs, rng.choice([1, 2, 2]),
                                          rng.choice([2048, 2049, 2049, 2051, 2051]), npk))
    return cmds


# ---------------------------------------------------------------------------------------------- execution
def run_lines(ctx, exe, cmd, lines, tag, start_marker=None):
    """feed the lines to `exe cmd`; a sanitizer / assertion abort is attributed to the line being executed and the rest continues in a
    new process.  returns (trace_path with complete pkt lines, [(line, rc, stderr_tail)])"""
    out_all = ctx.path("t_%s.ndjson" % tag)
    crashes = []
    rest = list(lines)
    part = 0
    with open(out_all, "w") as fo:
        while rest:
            inp = ctx.path("in_%s_%d.txt" % (tag, part)); outp = ctx.path("o_%s_%d.ndjson" % (tag, part))
            with open(inp, "w") as f:
                f.write("\n".join(rest) + "\n")
            rc, err = vf.run_hx(exe, [cmd], outp, stdin_path=inp, timeout=3000)
            with open(outp, "rb") as f:
                data = f.read()
            data = data[:data.rfind(b"\n") + 1].decode("utf-8", "replace")
            ls = data.splitlines()
            os.remove(inp); os.remove(outp)
            if cmd == "situ":
                done = sum(1 for x in ls if x.startswith('{"k":"x"'))
                started = sum(1 for x in ls if x.startswith('{"k":"b"'))
            else:
                done = sum(1 for x in ls if x.startswith('{"k":"pkt"'))
                started = done + (1 if rc != 0 else 0)
            fo.write("".join(x + "\n" for x in ls if x.startswith('{"k":"pkt"')))
            if rc == 0:
                if done != len(rest):
                    raise vf.Infra("hx_alloc %s: %d of %d lines executed without a crash" % (cmd, done, len(rest)))
                break
            if started <= done or started > len(rest):
                raise vf.Infra("hx_alloc %s rc=%d outside a case: %s" % (cmd, rc, err[-800:]))
            crashes.append((rest[started - 1], rc, err))
            rest = rest[started:]
            part += 1
            if len(crashes) > 6:
                break
    return out_all, crashes


def report_crashes(ctx, crashes, what):
    for line, rc, err in crashes[:3]:
        ctx.violation("clause of C02 broken (no call may fail with an internal error / abort): hx_alloc %s aborted rc=%d (sanitizer or "
                      "assertion inside the allocation / codec) on: %s\n%s" % (what, rc, line[:400], err[-1500:]), replay_text=line)
    ctx.notes["aborted_executions"] = ctx.notes.get("aborted_executions", 0) + len(crashes)


def explain(ctx, trace_path, tab, what):
    """{line_no: (prop_names, model_names)} for every rejected line of the file"""
    r = vf.tlc("AllocTrace", "AllocTraceExplain.cfg", workers=1, env={"TRACE": trace_path, "ALLOCTAB": tab}, timeout=1700, heap="3g",
               tag="G04x_" + what.replace(" ", "_") + os.path.basename(trace_path))
    if r.error or r.violation:
        raise vf.Infra("%s: explain run failed: %s" % (what, r.error or r.violation))
    ctx.add_tlc(r, "explain " + what)
    res = {}
    for p in r.prints:
        m = re.match(r'^"WHY (\d+) prop \{(.*?)\} model \{(.*)\}"$', p)
        if m:
            res[int(m.group(1))] = (re.findall(r'\\"([^\\]+)\\"', m.group(2)), re.findall(r'\\"([^\\]+)\\"', m.group(3)))
    return res


def cmd_of(line):
    try:
        e = json.loads(line)
    except ValueError:
        return ""
    return e.get("cmd", "") if e.get("k") == "pkt" else "%s" % e.get("k")


def rerun_names(ctx, exes, tab, cmd, ix):
    """R4: execute the same command once more and judge it again; returns (props, models) of the same packet, or None when
    the command cannot be re-executed (table lines)"""
    if not cmd or cmd[0] not in "PDXM":
        return None
    exe = exes["main"]
    outp = ctx.path("rr_out.ndjson"); inp = ctx.path("rr_in.txt")
    with open(inp, "w") as f:
        f.write(cmd + "\n")
    rc, err = vf.run_hx(exe, ["situ" if cmd[0] in "XM" else "cases"], outp, stdin_path=inp, timeout=900)
    if rc != 0:
        return None
    keep = ctx.path("rr_pk.ndjson")
    pos = {}
    with open(outp) as f, open(keep, "w") as g:
        n = 0
        for ln in f:
            if ln.startswith('{"k":"pkt"'):
                n += 1
                g.write(ln)
                pos[json.loads(ln).get("ix")] = n
    if ix not in pos:
        return ([], [])
    again = explain(ctx, keep, tab, "rerun")
    return again.get(pos[ix], ([], []))


def judge(ctx, exes, tab, trace_path, what, rerun=True):
    """TLC judges every line; returns number of lines accepted"""
    n = vf.count_lines(trace_path)
    if n == 0:
        return 0
    c = TIERS[ctx.tier]
    nparts = max(1, min(c["chunks"], n // 120 + 1))
    rej, total = vf.validate_cases(ctx, "AllocTrace", "AllocTrace.cfg", trace_path, "G04 " + what, nparts=nparts,
                                   timeout=c["tlc_timeout"], heap="3g", extra_env={"ALLOCTAB": tab})
    bad_total = 0
    shown = 0
    nprop = nmodel = 0
    for p, ln, tr in rej:
        why = explain(ctx, p, tab, what)
        if ln not in why:
            raise vf.Infra("%s: TLC rejected line %d of %s but the explain run does not" % (what, ln, p))
        bad_total += len(why)
        for k in why:
            cls = "prop" if why[k][0] else "model"
            ctx.notes["rejected_" + cls] = ctx.notes.get("rejected_" + cls, 0) + 1
            if why[k][0]:
                nprop += 1
            else:
                nmodel += 1
        order = sorted(why, key=lambda k: (0 if why[k][0] else 1, k))
        for k in order[:2]:
            if shown >= 8:
                break
            shown += 1
            props, models = why[k]
            ev = vf.file_line(p, k)
            cmd = cmd_of(ev)
            if rerun:
                try:
                    ix = json.loads(ev).get("ix")
                except ValueError:
                    ix = None
                again = rerun_names(ctx, exes, tab, cmd, ix)
                if again is not None and (sorted(again[0]) != sorted(props) or sorted(again[1]) != sorted(models)):
                    raise vf.Infra("%s: rejection not repeatable for %s (first %s / %s, then %s / %s)" % (
                        what, cmd[:300], props, models, again[0], again[1]))
            report(ctx, props, models, cmd, ev)
    if bad_total:
        vf.log("[G04] %s: %d lines rejected (%d with a C02 clause broken, %d model only); %d reported" % (
            what, bad_total, nprop, nmodel, shown))
    return total - bad_total


def report(ctx, props, models, cmd, ev):
    if props:
        ctx.violation("clause of C02 broken (encoder/decoder lock-step of the bit allocation; obligations %s%s) in: %s" % (
            ", ".join(props), ("; model also: " + ", ".join(models)) if models else "", (cmd or ev)[:700]),
            replay_text=cmd if cmd and cmd[0] in "PDXM" else ev)
    else:
        ctx.spec_drift("Alloc", "recorded behaviour differs from the model (%s) in: %s" % (", ".join(models), (cmd or ev)[:500]))


# ---------------------------------------------------------------------------------------------- evidence
def scan(ctx, trace_path, cov):
    with open(trace_path) as f:
        for ln in f:
            if not ln.startswith('{"k":"pkt"'):
                ctx.evaluations += 1
                continue
            try:
                e = json.loads(ln)
            except ValueError:
                continue
            calls = e["enc"] + e["dec"]
            ctx.evaluations += len(calls)
            cov["packets_" + e["m"]] = cov.get("packets_" + e["m"], 0) + 1
            cov["calls_enc"] = cov.get("calls_enc", 0) + len(e["enc"])
            cov["calls_dec"] = cov.get("calls_dec", 0) + len(e["dec"])
            for c in calls:
                key = "C%d LM%d %d-%d" % (c["C"], c["LM"], c["st"], c["en"])
                if e["m"] == "situ":
                    cov.setdefault("situ_shapes", {})
                    cov["situ_shapes"][key] = cov["situ_shapes"].get(key, 0) + 1
                    if c["r"] == 0 and not c["inpkt"]:
                        cov["situ_decoder_own_silence_frames"] = cov.get("situ_decoder_own_silence_frames", 0) + 1
                if c["cb"] >= c["st"] + 2:
                    ctx.nontrivial.add(hash((c["C"], c["LM"], c["st"], c["en"], c["cb"], c["nsk"], c["nu"], c["nd"], c["trim"],
                                             c["tot"] // 64, c["io"])))
            if len(ctx.samples) < 5 and calls and calls[0]["cb"] > calls[0]["st"] + 3 and e["m"] not in cov.get("_sampled", set()):
                cov.setdefault("_sampled", set()).add(e["m"])
                c = calls[0]
                ctx.sample({"mode": e["m"], "cmd": e["cmd"][:160], "call": {k: c[k] for k in ("r", "C", "LM", "st", "en", "trim", "tot", "sk", "isym", "ift",
                                                                                               "dsym", "cb", "io", "do", "bal", "p", "e", "f")}})


# ---------------------------------------------------------------------------------------------- model side
def mc_outcome(ctx, r, c, what):
    if r.error:
        raise vf.Infra("%s: %s" % (what, r.error))
    ctx.add_tlc(r, what)
    vf.log("[mc] %-44s distinct=%d generated=%d depth=%d %s (%.1fs)" % (what, r.distinct, r.generated, r.diameter,
                                                                       "OK" if r.ok else "VIOLATED " + str(r.violation), r.wall))
    if r.violation:
        if r.violation in C02_THEOREMS:
            m = re.findall(r"q \|->\s*(\[.*?\]),", r.state_dump or r.out, re.S)
            st = re.sub(r"\s+", " ", (r.state_dump or r.out)[:3000])
            ctx.violation("clause of C02 broken on the model instantiated with the tables of the tree under test: Alloc_mc!%s - %s. %s" % (
                r.violation, C02_THEOREMS[r.violation], st[:1200]),
                replay_text=json.dumps({"k": "mc", "inv": r.violation, "cfg": c["mc_cfg"]}))
            return False
        ctx.spec_drift("Alloc", "design theorem Alloc_mc!%s does not hold for the tables of the tree under test: %s" % (
            r.violation, re.sub(r"\s+", " ", (r.state_dump or "")[:700])))
        return False
    return True


def witness(ctx, cfg, inv):
    w = ctx.mc("Alloc_mc", cfg, what="witness " + inv, deadlock=True, workers=2, timeout=600, heap="3g", env={"ALLOCTAB": ctx.tab})
    return w.violation == inv


def record_suite(ctx, exes, exe, exetu, exe_o, tab, rng, n_random, n_situ, npk, n_situ_san, label, cov):
    """tables + look-ups, seeded random inputs and in-situ executions of one build, each judged by TLC against that build's tables"""
    lk = ctx.path("t_lookups.ndjson")
    with open(lk, "w") as fo:
        fo.write(open(tab).read())
        for name, ex, cmd in (("lk_b2p", exe, "b2p"), ("lk_qn", exetu, "qn")):
            outp = ctx.path(name + ".ndjson")
            rc, err = vf.run_hx(ex, [cmd], outp, timeout=600)
            if rc != 0:
                report_crashes(ctx, [(cmd, rc, err)], cmd)
                continue
            fo.write(open(outp).read())
            os.remove(outp)
    scan(ctx, lk, cov)
    ctx.traces += judge(ctx, exes, tab, lk, label + "tables and look-ups")
    cov["lookup_lines"] = vf.count_lines(lk)
    if cov["lookup_lines"] < 300 and not ctx.violations:
        raise vf.Infra("look-up export thinner than expected: %d lines" % cov["lookup_lines"])

    rc_lines = random_cases(rng, n_random)
    nch = max(1, min(8, len(rc_lines) // 1500))
    outs = vf.parallel(lambda a: run_lines(ctx, exe, "cases", a[1], "rand%d" % a[0]), list(enumerate(rc_lines[i::nch] for i in range(nch))), nproc=nch)
    tr = ctx.path("t_random.ndjson")
    with open(tr, "w") as fo:
        for path, crashes in outs:
            fo.write(open(path).read()); os.remove(path)
            report_crashes(ctx, crashes, "cases")
    scan(ctx, tr, cov)
    ctx.traces += judge(ctx, exes, tab, tr, label + "random inputs")
    os.remove(tr)

    situ = situ_commands(rng, n_situ, npk)
    groups = [(exe, situ[:n_situ_san])] + [(exe_o, situ[n_situ_san:][i::10]) for i in range(10)]
    groups = [g for g in groups if g[1]]
    outs = vf.parallel(lambda a: run_lines(ctx, a[1][0], "situ", a[1][1], "situ%d" % a[0]), list(enumerate(groups)), nproc=min(11, len(groups)))
    ts = ctx.path("t_situ.ndjson")
    with open(ts, "w") as fo:
        for path, crashes in outs:
            fo.write(open(path).read()); os.remove(path)
            report_crashes(ctx, crashes, "situ")
    scan(ctx, ts, cov)
    ctx.traces += judge(ctx, exes, tab, ts, label + "codec in situ")
    os.remove(ts)


# ---------------------------------------------------------------------------------------------- run
def run(ctx):
    c = TIERS[ctx.tier]
    ctx.rule = ("TLC evaluates the Alloc design theorems (no assertion of the C code can fail, mirror, budget conservation to the 1/8 bit, ranges, "
                "caps, stereo-parameter rules, reserve = charge) at every point of LM x C x band range x total x trim x dynalloc pattern x every skip "
                "prefix the algorithm offers x the encoder's intensity / dual-stereo values (every point is a state) and prints a plan sample; "
                "hx_alloc runs the REAL clt_compute_allocation in both roles on the plan points and on seeded random inputs, and records every call "
                "the codec itself makes (link-time wrap) while real encoders and decoders process synthetic audio; AllocTrace judges every call "
                "(outputs and coded symbols equal Alloc!Run, encoder and decoder role identical, budget) and the table / look-up exports. "
                "non-trivial = distinct (C, LM, start, end, codedBands, skip symbols, stereo symbols present, trim, total/64, intensity) of recorded "
                "calls that code at least two bands")
    ctx.assumptions = ["TLC 1.8.0 and the CommunityModules Json reader are trusted",
                       "gcc's >> of a negative int is an arithmetic shift (the model floors)",
                       "hx_alloctu reads the file-static LOG2_FRAC_TABLE and calls the static compute_qn by compiling celt/rate.c and celt/bands.c of the "
                       "tree under test into the harness with the library's own -D flags; every allocation call is made on libopus.a",
                       "caps passed to the function are always init_caps(LM, C) (what both callers pass); dynalloc offsets are multiples of the band's quanta",
                       "the implementation is exercised on the plan sample, seeded random inputs and the calls of seeded codec executions, not on every input"]
    if ctx.replay:
        return replay(ctx)
    var, defs, exe = build("hk")
    exetu = build_tu(var, defs)
    exes = {"main": exe}
    rng = random.Random(ctx.seed * 104729 + 4)
    cov = {}

    # ---- 1. tables of this build
    tab = ctx.path("alloctab.ndjson")
    rc, err = vf.run_hx(exetu, ["tables"], tab, timeout=300)
    if rc != 0 or vf.count_lines(tab) != 1:
        raise vf.Infra("hx_alloctu tables failed rc=%d %s" % (rc, err[-600:]))
    ctx.tab = tab

    # ---- 2. theorems of the model on these tables (in the background while the code is recorded and judged)
    from concurrent.futures import ThreadPoolExecutor
    pool = ThreadPoolExecutor(max_workers=3)
    mc_future = pool.submit(vf.tlc, "Alloc_mc", c["mc_cfg"], workers=c["mc_workers"], env={"ALLOCTAB": tab}, timeout=c["mc_timeout"],
                            deadlock=True, heap="8g")

    mono_future = pool.submit(vf.tlc, "Alloc_mc", c["mono_cfg"], workers=3, env={"ALLOCTAB": tab}, timeout=2400, deadlock=True,
                              heap="4g") if c["mono_cfg"] else None
    lk_future = pool.submit(vf.tlc, "Alloc_mc", "Alloc_mc_lookups.cfg", workers=1, env={"ALLOCTAB": tab}, timeout=900, deadlock=True, heap="3g")

    # ---- 3. look-up exports, seeded random inputs, the codec's own calls
    try:
        _, _, exe_o = build("hko")
    except vf.Infra:
        exe_o = exe
    record_suite(ctx, exes, exe, exetu, exe_o, tab, rng, c["random_cases"], c["situ_exec"], c["situ_packets"], c["situ_hk"], "", cov)
    if c.get("fixed_slice"):
        # the fixed-point build has its own static mode tables and its own encoder decisions: same function, same theorems
        fr, fs, fh = c["fixed_slice"]
        varf, defsf, exef = build("hkfix")
        exetuf = build_tu(varf, defsf)
        tabf = ctx.path("alloctab_fix.ndjson")
        rc, err = vf.run_hx(exetuf, ["tables"], tabf, timeout=300)
        if rc != 0 or vf.count_lines(tabf) != 1:
            raise vf.Infra("hx_alloctu (hkfix) tables failed rc=%d %s" % (rc, err[-600:]))
        try:
            _, _, exefo = build("hkfixo")
        except vf.Infra:
            exefo = exef
        covf = {}
        record_suite(ctx, {"main": exef}, exef, exetuf, exefo, tabf, rng, fr, fs, c["situ_packets"], fh, "fixed-point build: ", covf)
        covf.pop("_sampled", None)
        ctx.notes["recorded_fixed_point_build"] = covf

    # ---- 4. outcome of the model run, plan points through the real function
    r = mc_future.result()
    what = "Alloc theorems (%s)" % c["mc_cfg"]
    ok = mc_outcome(ctx, r, c, what)
    if ok:
        cases, tags, npts = plan_cases(rng, r.prints, c["plan_cases"])
        if not cases:
            raise vf.Infra("Alloc_mc printed no plan line")
        missing = REQUIRED_TAGS - tags
        if missing:
            raise vf.Infra("Alloc_mc never visited the regimes %s (vacuous model run)" % sorted(missing))
        ctx.notes["plan_points"] = npts
        ctx.notes["regimes_visited"] = sorted(tags)
        nch = max(1, min(8, len(cases) // 1500))
        outs = vf.parallel(lambda a: run_lines(ctx, exe, "cases", a[1], "plan%d" % a[0]), list(enumerate(cases[i::nch] for i in range(nch))), nproc=nch)
        tp = ctx.path("t_plan.ndjson")
        with open(tp, "w") as fo:
            for path, crashes in outs:
                fo.write(open(path).read()); os.remove(path)
                report_crashes(ctx, crashes, "cases")
        scan(ctx, tp, cov)
        ctx.traces += judge(ctx, exes, tab, tp, "plan points")
        os.remove(tp)
        ctx.exhaustive = True
        ctx.notes["exhaustive_scope"] = ("model side: the grid of %s; implementation side: a seeded sample of its plan points, seeded random "
                                         "inputs and the calls of seeded codec executions" % c["mc_cfg"])
        # statements that are NOT theorems must be refuted (guards against theorems that hold vacuously)
        if not witness(ctx, "Alloc_mc_w_monofirst.cfg", "MonoFirst"):
            raise vf.Infra("witness run: expected TLC to refute MonoFirst")
        ctx.notes["witnesses_refuted"] = ["MonoFirst: with the policy 'stop at the first offered band' more total can LOWER codedBands "
                                          "(C=2, LM=0, bands 0-13, trim 0: total 100 -> 101)"]
        if mono_future:
            mc_outcome(ctx, mono_future.result(), c, "MonoLast (forced minimum of codedBands is monotone in total)")

    lr = lk_future.result()
    mc_outcome(ctx, lr, c, "look-up theorems (bits2pulses nearest/monotone, compute_qn range/monotone, split partition)")

    # ---- 5. vacuity guards on what was recorded
    cov.pop("_sampled", None)
    ctx.notes["recorded"] = cov
    if not ctx.violations:
        for k in ("packets_pair", "packets_craft", "packets_situ", "calls_enc", "calls_dec"):
            if cov.get(k, 0) == 0:
                raise vf.Infra("nothing recorded for " + k)
        shapes = cov.get("situ_shapes", {})
        seen = lambda pat: any(re.search(pat, s) for s in shapes)
        for pat in (r"^C1 ", r"^C2 ", r" LM0 ", r" LM1 ", r" LM2 ", r" LM3 ", r" 0-13$", r" 0-17$", r" 0-19$", r" 0-21$", r" 17-"):
            if not seen(pat):
                raise vf.Infra("in-situ recording never saw a call of shape %s" % pat)


def replay(ctx):
    var, defs, exe = build("hk")
    exetu = build_tu(var, defs)
    exes = {"main": exe}
    tab = ctx.path("alloctab.ndjson")
    rc, err = vf.run_hx(exetu, ["tables"], tab, timeout=300)
    if rc != 0:
        raise vf.Infra("hx_alloctu tables failed rc=%d %s" % (rc, err[-600:]))
    ctx.tab = tab
    with open(ctx.replay) as f:
        lines = [ln.strip() for ln in f if ln.strip()]
    cov = {}
    cases = [ln for ln in lines if ln[0] in "PD" and "|" in ln]
    situ = [ln for ln in lines if ln.startswith("X ") or ln.startswith("M ")]
    other = [ln for ln in lines if ln.startswith("{")]
    ctx.states = max(ctx.states, 1); ctx.transitions = max(ctx.transitions, 1)
    for kind, ls in (("cases", cases), ("situ", situ)):
        if not ls:
            continue
        path, crashes = run_lines(ctx, exe, kind, ls, "replay_" + kind)
        report_crashes(ctx, crashes, kind)
        scan(ctx, path, cov)
        ctx.traces += judge(ctx, exes, tab, path, "replay " + kind, rerun=False)
    for ln in other:
        try:
            e = json.loads(ln)
        except ValueError:
            continue
        if e.get("k") == "mc":
            r = vf.tlc("Alloc_mc", e.get("cfg", "Alloc_mc_quick.cfg"), workers=8, env={"ALLOCTAB": tab}, timeout=3000, deadlock=True, heap="8g")
            ctx.evaluations += 1
            mc_outcome(ctx, r, dict(mc_cfg=e.get("cfg", "Alloc_mc_quick.cfg")), "replay Alloc theorems")
        else:
            # a recorded table / look-up line: export again and judge
            lk = ctx.path("t_lookups.ndjson")
            with open(lk, "w") as fo:
                fo.write(open(tab).read())
                for ex, cmd in ((exe, "b2p"), (exetu, "qn")):
                    outp = ctx.path("lk.ndjson")
                    rc, err = vf.run_hx(ex, [cmd], outp, timeout=600)
                    if rc == 0:
                        fo.write(open(outp).read())
            scan(ctx, lk, cov)
            ctx.traces += judge(ctx, exes, tab, lk, "replay look-ups", rerun=False)
            break
    if not ctx.nontrivial:
        ctx.nontrivial_count = 1
    if ctx.evaluations == 0:
        raise vf.Infra("replay file holds nothing to execute")


META = dict(
    engine="Alloc",
    technique=("TLA+ transcription of the CELT bit allocation (RFC 6716 4.3.3) with the coded symbols as explicit arguments; TLC exhaustive over an "
               "input grid x every skip prefix; static tables exported from the built library; the real function called in both roles on TLC-generated "
               "and random inputs, and every call the codec makes recorded through a link-time wrapper; TLC judges every recorded call"),
    level_text=("TLC proves on the model, instantiated with the tables of the tree under test: none of the C code's assertions can fail and no negative value "
                "reaches an unsigned division; decoding the symbols the encoder role codes reproduces the encoder's allocation; PVQ bits + fine bits + "
                "balance + charged symbols equal the frame's budget to the 1/8 bit; codedBands in (start,end]; per-band values inside [0,cap], fine bits "
                "in 0..8, nothing written outside [start,end); intensity / dual-stereo coding rules; the intensity reserve equals its charge; the forced "
                "minimum of codedBands is monotone in the budget while 'stop at the first offer' is not (refuted witness). TLC then judges every recorded "
                "call of the real function - stand-alone in both roles, and all calls real encoders / decoders make on synthetic audio - for equality with "
                "the model in every output and coded symbol, plus the exported tables against RFC 6716 and bits2pulses / pulses2bits / get_pulses / "
                "compute_qn / bitexact_cos / bitexact_log2tan against their transcriptions over their whole reachable domain."),
    level_note=("Growth module: exact-value disagreement is SPEC-DRIFT; mirror and budget failures are C02 VIOLATIONs. Not modelled: the band splitter beyond "
                "its integer budget arithmetic (quant_all_bands' rebalancing across bands, the B0>1 delta adjustments), the dynalloc / trim decisions of "
                "the encoder, anti-collapse reservation (it only lowers `total` before the call). The real cost of the coded symbols in the range coder is "
                "recorded (field tf) but not asserted."),
)
