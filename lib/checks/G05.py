"""G05 - growth module DecOp: an operational model of opus_decode_native() / opus_decode_frame() (and the wrappers) that
refines the contract model DecCtl, with the concealment bookkeeping underneath (CELT loss_duration / skip_plc; SILK lossCnt,
first_frame_after_reset, last_frame_lost, prevSignalType, nFramesDecoded, LBRR flag use) and a ghost count of decoder-gain
applications (modules DecOp, DecOp_mc, DecOpTrace; harness/decop.c)."""
import json, os, random, re, time
from concurrent.futures import ThreadPoolExecutor
import vf

LEVEL = "model_checking"

# Deviations found on the unchanged tree that are not (yet) in known_findings.json would be listed here
# (entry format of known_findings.json; `key` is matched field by field against the rejected event).
PROVISIONAL = []

FS = [8000, 12000, 16000, 24000, 48000]

# sub-steps of the machine that the runs must really have taken (vacuity guards)
MC_TAGS = {   # per model-checking configuration: tags TLC must print
    "ref": {"wrapReject", "wrapClamp", "argsReject", "lost", "invalid", "fecFallback", "fecPlcPart", "fecDirect", "room", "multiFrame",
            "dtxFrame", "zeros", "chunk", "round5", "silkShort", "transCelt", "transSilkPending", "transSilk", "silkResetAfterCelt",
            "silkMultiFrame", "fecLbrr", "fecNoLbrr", "glue", "silkConceal", "redC2s", "redS2c", "redReplacesTransition", "c2sFirst",
            "s2cLast", "celtDecode", "celtResetDecode", "sanity", "pitchPlc", "noisePlc", "celtResetConceal", "fecHybridCeltConceals",
            "silence", "silenceSkipped", "skipCleared", "xfFull", "xfShort", "c2sFadeUsed", "c2sAudioDropped", "gain",
            "gainOnTransition", "gainSuppressed"},
    "celt": {"pitchPlc", "noisePlc", "saturated", "skipCleared", "celtResetDecode", "celtResetConceal", "silence", "c2sFirst", "s2cLast",
             "fecHybridCeltConceals", "round10", "round5"},
    "silk": {"silkConceal", "glue", "midOnly", "sideReset", "monoToStereo", "fecLbrr", "fecNoLbrr", "silkResetAfterCelt"},
    "silkmono": {"silkConceal", "glue", "fecLbrr", "fecNoLbrr", "silkResetAfterCelt", "silkMultiFrame", "rateSwitch", "silkShort"},
}
PCS = {"n_ctl", "n_wrap", "n_args", "n_parse", "n_fec", "n_fec2", "n_fec3", "n_room", "n_loop", "n_loopr", "n_fin", "n_plc", "n_plcr",
       "n_plcfin", "f_enter", "f_mode", "f_chunk", "f_trans", "f_room", "f_silk", "f_silkfr", "f_red", "f_trsilk", "f_cpre", "f_celt",
       "f_cpost", "f_fade", "f_gain", "f_upd", "f_ret", "f_callT", "f_callS", "f_callK"}
TRACE_TAGS = {"lost", "zeros", "chunk", "reset", "setGain", "wrapReject", "wrapClamp", "fecFallback", "fecPlcPart", "fecDirect", "room",
              "multiFrame", "dtxFrame", "round10", "round5", "silkShort", "transCelt", "transSilk", "silkResetAfterCelt",
              "silkMultiFrame", "fecLbrr", "fecNoLbrr", "glue", "silkConceal", "midOnly", "sideReset", "rateSwitch", "monoToStereo",
              "redC2s", "redS2c", "redReplacesTransition", "c2sFirst", "s2cLast", "celtDecode", "celtResetDecode", "pitchPlc",
              "noisePlc", "celtResetConceal", "fecHybridCeltConceals", "saturated", "silence", "silenceSkipped", "skipCleared", "xfFull", "xfShort",
              "c2sFadeUsed", "gain", "gainOnTransition", "gainSuppressed", "invalid", "argsReject"}

TIERS = dict(
    quick=dict(mc=[("ref", "DecOp_mc_ref_quick.cfg", 6), ("celt", "DecOp_mc_celt_quick.cfg", 3), ("silk", "DecOp_mc_silk_quick.cfg", 3)],
               gens=[("tour", "DecOp_gen_quick.cfg", 4, 2600), ("triples", "DecOp_gen_triples_quick.cfg", 2, 900)],
               seq_chunk=450, stream=360, stream_chunk=45, fuzz=128, fuzz_chunk=32, nproc=12),
    thorough=dict(mc=[("ref", "DecOp_mc_ref_thorough.cfg", 6), ("ref", "DecOp_mc_ref_rates.cfg", 3), ("celt", "DecOp_mc_celt_thorough.cfg", 3),
                      ("silk", "DecOp_mc_silk_thorough.cfg", 5), ("silkmono", "DecOp_mc_silkmono_quick.cfg", 2)],
                  gens=[("tour", "DecOp_gen_thorough.cfg", 4, 40000), ("tour_q", "DecOp_gen_quick.cfg", 3, 30284), ("triples", "DecOp_gen_triples.cfg", 3, 13824)],
                  seq_chunk=3000, stream=6000, stream_chunk=250, fuzz=2000, fuzz_chunk=125, nproc=12),
)


def known_entries():
    return vf.known_findings("G05") + PROVISIONAL


def match_known(ev):
    for k in known_entries():
        key = k.get("key") or {}
        if key and all(ev.get(f) == v for f, v in key.items()):
            return k
    return None


# ---------------------------------------------------------------------------------------------------------------
# TLC side: model checking and generation

def tags_of(r):
    t = set()
    for p in r.prints:
        if p.startswith('"TAGS'):
            t |= set(re.findall(r'\\"(\w+)\\"', p))
    return t


def model_checking(ctx, T, pool):
    def one(job):
        name, cfg, workers = job
        r = ctx.mc("DecOp_mc", cfg, what="DecOp %s: %s" % (name, cfg), workers=workers, timeout=3000, heap="8g")
        if r.violation:
            raise vf.Infra("DecOp model theorem %s violated (%s):\n%s" % (r.violation, cfg, r.state_dump[:3000]))
        if r.distinct < 1000:
            raise vf.Infra("DecOp_mc %s explored almost nothing (%d states)" % (cfg, r.distinct))
        t = tags_of(r)
        missing = (MC_TAGS[name] | (PCS if name == "ref" else set())) - t
        if missing:
            raise vf.Infra("vacuous model run %s: sub-steps never taken: %s" % (cfg, sorted(missing)))
        return name, sorted(t)
    futs = [pool.submit(one, j) for j in T["mc"]]

    def witness():
        r = vf.tlc("DecOp_mc", "DecOp_mc_w_gain.cfg", workers=2, timeout=900)
        if r.error:
            raise vf.Infra("witness DecOp_mc_w_gain.cfg: " + r.error)
        ctx.add_tlc(r, "witness DecOp_mc_w_gain.cfg (GainFix = FALSE: the tree before ec737545)")
        if r.violation != "GainOnce":
            raise vf.Infra("witness DecOp_mc_w_gain.cfg: expected GainOnce to be violated, got %s (vacuous model)" % r.violation)
        return "witness", ["GainOnce refuted for GainFix = FALSE"]
    futs.append(pool.submit(witness))
    return futs


def seqs_from_prints(prints):
    seen = set()
    for p in prints:
        m = re.match(r'"SEQ (<<.*>>)"$', p)
        if not m:
            continue
        calls = re.findall(r"<<(-?\d+), (-?\d+), (-?\d+), (-?\d+), (-?\d+), (-?\d+), (-?\d+)>>", m.group(1))
        if calls:
            seen.add(tuple(tuple(int(v) for v in c) for c in calls))
    return sorted(seen)            # TLC's print order depends on the worker interleaving (R4)


def seq_line(i, calls, seed):
    combo = (i + seed) % 30            # every (Fs, channels, entry point) combination in turn
    return "%d %d %d %d %s" % (FS[combo % 5], 1 + (combo // 5) % 2, combo // 10, len(calls),
                               " ".join(" ".join(str(v) for v in c) for c in calls))


# ---------------------------------------------------------------------------------------------------------------
# implementation side: one job = run hx_decop, then let TLC (DecOpTrace) judge what it recorded

class Job:
    def __init__(self, name, args, stdin=None, header=None):
        self.name, self.args, self.stdin = name, args, stdin
        self.header = header or {}
        self.out = None
        self.rc = 0
        self.err = ""
        self.events = 0
        self.execs = 0
        self.calls = {}
        self.hashes = set()
        self.rej = []          # (line, class, names)
        self.seen = set()
        self.complete = False
        self.sample = ""
        self.exe = None


def scan(job):
    lines = []
    with open(job.out) as f:
        for ln in f:
            if not ln.endswith("}\n") or ln.startswith('{"k":"Hang"'):
                continue
            lines.append(ln)
            if ln.startswith('{"k":"dec"'):
                i = ln.find(',"r":')
                j = ln.find(',', i + 5)
                r = int(ln[i + 5:j])
                lost = ',"n":0,' in ln or ',"nul":1,' in ln
                fec = ',"fec":1,' in ln
                kind = ("lost" if lost else "fec" if fec else "dec") + ("_ok" if r > 0 else "_err")
                job.calls[kind] = job.calls.get(kind, 0) + 1
                if r > 0:
                    job.hashes.add(hash(ln[ln.find(',"h"'):j]))
                    if not job.sample and ',"hk":[1,' in ln:
                        job.sample = ln.strip()[:600]
            elif ln.startswith('{"k":"new"'):
                job.execs += 1
            elif ln.startswith('{"k":"ctl"'):
                job.calls["ctl"] = job.calls.get("ctl", 0) + 1
    job.events = len(lines)
    return lines


def validate(ctx, path, what):
    r = vf.tlc("DecOpTrace", "DecOpTrace.cfg", workers=1, env={"TRACE": path}, timeout=3000, heap="3g",
               tag=what.replace(" ", "_") + os.path.basename(path))
    if r.error:
        raise vf.Infra("%s: %s" % (what, r.error))
    ctx.add_tlc(r, "trace %s %s" % (what, os.path.basename(path)))
    rej, seen = [], set()
    for m in re.finditer(r'"REJ <<(\d+), \\"(\w+)\\", \{(.*?)\}>>"', r.out):
        rej.append((int(m.group(1)), m.group(2), sorted(re.findall(r'\\"([\w.]+)\\"', m.group(3)))))
    m = re.search(r'"SEEN \{(.*?)\}"', r.out, re.S)
    if m:
        seen = set(re.findall(r'\\"(\w+)\\"', m.group(1)))
    return rej, seen, (r.violation is None and m is not None)


def run_job(ctx, exe, job):
    exe = job.exe or exe
    t0 = time.time()
    job.out = ctx.path("t_%s.ndjson" % job.name)
    job.rc, job.err = vf.run_hx(exe, job.args, job.out, timeout=3000, stdin_path=job.stdin)
    lines = scan(job)
    if job.rc != 0:
        with open(job.out, "w") as f:          # judge what was recorded completely
            f.writelines(lines)
    if not lines:
        job.complete = True
        return job
    t1 = time.time()
    job.rej, job.seen, job.complete = validate(ctx, job.out, "G05 " + job.name)
    vf.log("[job] %-14s events=%d harness %.1fs validate %.1fs rejected=%d" % (job.name, job.events, t1 - t0, time.time() - t1, len(job.rej)))
    return job


def summarize_err(err):
    m = re.search(r"SUMMARY: .*", err)
    if m:
        return m.group(0)[:300]
    m = re.search(r"(Fatal \(internal\) error.*|runtime error:.*|AddressSanitizer.*|hx_decop:.*)", err)
    return (m.group(0) if m else err.strip()[-300:])[:300]


def exec_of_line(path, lineno):
    x = 0
    with open(path) as f:
        for i, ln in enumerate(f, 1):
            m = re.match(r'\{"k":"\w+","x":(\d+)', ln)
            if m:
                x = int(m.group(1))
            if i == lineno:
                return x, ln.strip()
    return x, ""


def rerun_args(job, x):
    h = job.header
    if h["mode"] == "seq":
        return ["seq", h["seed"], x], h["lines"][x - h["first"]]
    return [h["mode"], h["seed"], x, 1], None


def judge_again(ctx, exe, job, x):
    """R4: the execution that contains a rejected event (or in which the harness aborted) is re-run alone and judged again.
    Returns (job2, replay_text)."""
    args, seqline = rerun_args(job, x)
    hdr = dict(check="G05", mode=job.header["mode"], seed=job.header["seed"], exec=x)
    stdin = None
    if seqline is not None:
        hdr["line"] = seqline
        stdin = ctx.path("rr_%s_%d.txt" % (job.name, x))
        with open(stdin, "w") as f:
            f.write(seqline + "\n")
    j2 = Job("rr_%s_%d" % (job.name, x), args, stdin=stdin, header=dict(job.header))
    j2.exe = job.exe
    run_job(ctx, exe, j2)
    text = json.dumps(hdr) + "\n"
    if os.path.exists(j2.out):
        with open(j2.out) as f:
            text += f.read(300000)
    if j2.rc != 0:
        text += "\n# stderr:\n" + j2.err[-3000:]
    return j2, text


NPROP = [0]


def report(ctx, exe, job, drifts):
    if job.rc != 0:
        # sanitizer / assertion abort or the watchdog: C01 (memory-safe, terminates, never an internal error)
        last_x = 0
        with open(job.out) as f:
            for ln in f:
                m = re.match(r'\{"k":"\w+","x":(\d+)', ln)
                if m:
                    last_x = int(m.group(1))
        what = "Hang (a call did not return within 5 s of CPU time)" if job.rc == 97 else summarize_err(job.err)
        if job.rc in (2, 3):
            raise vf.Infra("hx_decop %s rc=%d: %s" % (job.name, job.rc, what))
        k = match_known(dict(abort=what))
        if k:
            ctx.known_finding("%s [%s]" % (k["what"], what))
        else:
            j2, text = judge_again(ctx, exe, job, last_x)
            if j2.rc == 0:
                raise vf.Infra("hx_decop %s aborted (rc=%d, %s) in execution %d but not when that execution was re-run alone"
                               % (job.name, job.rc, what, last_x))
            ctx.violation("property C01: hx_decop %s execution %d aborted rc=%d: %s" % (job.name, last_x, job.rc, what), replay_text=text)
    if not job.complete and job.rc == 0:
        raise vf.Infra("DecOpTrace did not consume %s" % job.out)
    for (ln, cls, names) in job.rej:
        x, ev = exec_of_line(job.out, ln)
        if cls == "prop":
            NPROP[0] += 1
            try:
                evd = json.loads(ev)
            except ValueError:
                evd = {}
            k = match_known(evd)
            if k:
                ctx.known_finding(k["what"])
                continue
            if len(ctx.violations) >= 5:
                continue
            j2, text = judge_again(ctx, exe, job, x)
            if j2.rc == 0 and not [r for r in j2.rej if r[1] == "prop"]:
                raise vf.Infra("rejection not repeatable: %s line %d %s" % (job.out, ln, names))
            props = sorted({n.split(".")[0] for n in names})
            ctx.violation("property %s clause(s) %s rejected by DecOpTrace at %s line %d (execution %d): %s" % (
                "/".join(props), names, os.path.basename(job.out), ln, x, ev[:900]), replay_text=text)
        else:
            drifts.setdefault(tuple(names), []).append((job.name, ln, x, ev))


def run(ctx):
    tier = ctx.tier
    T = TIERS[tier]
    ctx.rule = ("DecOp_mc: TLC runs the operational machine (one action per program counter of opus_decode_native / opus_decode_frame) "
                "for every call of the DecCtl alphabet from every reachable state to the fixpoint and checks Op <= Contract (return value, "
                "successor control state, output class), the concealment pieces, gain-once and the bookkeeping theorems; a witness variant "
                "(gain not suppressed in the transition concealment) must be refuted. hx_decop replays TLC-generated call sequences "
                "(transition tour with planned redundancy classes + all triples) on all Fs x channels x entry points with corpus frames of "
                "every mode, and runs seeded stream executions (real encoder with layer switches, redundancy, DTX, FEC; lossy receiver) "
                "and damaged packets; after every call the hook fields, the CELT and SILK bookkeeping and the float gain twins are judged "
                "by DecOpTrace. non-trivial = distinct decode calls (header bytes, len, frame_size, fec) that returned samples")
    ctx.assumptions = [
        "TLC and the CommunityModules Json reader are trusted",
        "float build, DRED / deep PLC / OSCE compiled out; the SILK bookkeeping is read from the decoder's memory through the library's "
        "own internal headers (layout checked at start-up against silk_Get_Decoder_Size and freshly initialised contents)",
        "the model has no failure inside opus_decode_frame (SILK / CELT sub-decoder errors): a call that returned one would be a C01 rejection",
        "bookkeeping theorems are model-checked with scaled constants (LossSat, NoiseAt) and a capped SILK loss counter; the traces are "
        "judged with the code's constants (10000, 40, no cap)",
        "operational conformance is SPEC-DRIFT; only the C01 return contract / memory clauses and the C19 gain-once clause raise a VIOLATION",
    ]
    # bulk executions on the optimised build (assertions on), the damaged-packet family under ASan/UBSan
    var = vf.build_variant("hk")
    exe = vf.build_hx(var, "decop.c")
    if ctx.replay:
        return replay(ctx, exe)
    varo = vf.build_variant("hko")
    exeo = vf.build_hx(varo, "decop.c")
    seed = ctx.seed
    rng = random.Random(seed)
    pool = ThreadPoolExecutor(max_workers=8)

    # 1. the model
    mc_futs = model_checking(ctx, T, pool)

    # 2. behaviours for replay
    def gen_one(g):
        name, cfg, workers, keep = g
        r = vf.tlc("DecOp_mc", cfg, workers=workers, timeout=3000, heap="6g", deadlock=True)
        if r.error or r.violation:
            raise vf.Infra("DecOp gen %s: %s" % (name, r.error or r.violation))
        ctx.add_tlc(r, "gen DecOp_mc/" + cfg)
        vf.log("[gen] %-28s distinct=%d (%.1fs)" % (cfg, r.distinct, r.wall))
        return name, keep, seqs_from_prints(r.prints)
    gen_futs = [pool.submit(gen_one, g) for g in T["gens"]]

    jobs = []
    for first in range(0, T["stream"], T["stream_chunk"]):
        jobs.append(Job("stream_%d" % first, ["stream", seed, first, min(T["stream_chunk"], T["stream"] - first)],
                        header=dict(mode="stream", seed=seed)))
        jobs[-1].exe = exeo
    for first in range(0, T["fuzz"], T["fuzz_chunk"]):
        jobs.append(Job("fuzz_%d" % first, ["fuzz", seed, first, min(T["fuzz_chunk"], T["fuzz"] - first)],
                        header=dict(mode="fuzz", seed=seed)))
    # the stream / fuzz jobs do not need TLC's behaviours: start them now
    run_pool = ThreadPoolExecutor(max_workers=T["nproc"])
    run_futs = [run_pool.submit(run_job, ctx, exe, j) for j in jobs]

    all_lines = []
    gen_note = {}
    for fut in gen_futs:
        name, keep, seqs = fut.result()
        gen_note[name] = dict(generated=len(seqs), replayed=min(keep, len(seqs)))
        if len(seqs) > keep:
            seqs = rng.sample(seqs, keep)
        for calls in seqs:
            all_lines.append(seq_line(len(all_lines), calls, seed))
    if not all_lines:
        raise vf.Infra("DecOp gen emitted no sequence")
    ctx.notes["generated_sequences"] = gen_note
    for first in range(0, len(all_lines), T["seq_chunk"]):
        part = all_lines[first:first + T["seq_chunk"]]
        p = ctx.path("seq_%d.txt" % first)
        with open(p, "w") as f:
            f.write("\n".join(part) + "\n")
        j = Job("seq_%d" % first, ["seq", seed, first], stdin=p, header=dict(mode="seq", seed=seed, first=first, lines=part))
        j.exe = exeo
        jobs.append(j)
        run_futs.append(run_pool.submit(run_job, ctx, exe, j))

    done = [f.result() for f in run_futs]
    run_pool.shutdown()
    tags_mc = {}
    for fut in mc_futs:
        name, t = fut.result()
        tags_mc[name] = sorted(set(tags_mc.get(name, [])) | set(t))
    pool.shutdown()
    ctx.notes["model_tags"] = tags_mc
    ctx.exhaustive = True
    ctx.notes["exhaustive_scope"] = ("model side: all call sequences over the alphabets of %s (fixpoint); implementation side: generated "
                                     "sequences, stream and damaged-packet executions (sampled)" % [c for _, c, _ in T["mc"]])

    totals, seen, drifts, tag_jobs = {}, set(), {}, {}
    for j in done:
        ctx.evaluations += j.events
        ctx.nontrivial |= j.hashes
        for k, v in j.calls.items():
            totals[k] = totals.get(k, 0) + v
        seen |= j.seen
        for t in j.seen:
            tag_jobs[t] = tag_jobs.get(t, 0) + 1
        fam = re.sub(r"_\d+$", "", j.name)
        if j.sample and not any(s.get("driver") == fam for s in ctx.samples if isinstance(s, dict)):
            ctx.sample({"driver": fam, "event": j.sample}, limit=6)
        report(ctx, exe, j, drifts)
        if j.rc == 0 and not [r for r in j.rej if r[1] == "prop"]:
            ctx.traces += j.execs
        if os.path.exists(j.out) and os.environ.get("VERIF_KEEP") != "1":
            os.remove(j.out)
    for key, lst in sorted(drifts.items()):
        name, ln, x, ev = lst[0]
        ctx.spec_drift("DecOp", "%s: %d event(s), first at %s line %d (execution %d): %s" % (list(key), len(lst), name, ln, x, ev[:700]))
    ctx.notes["recorded_calls"] = totals
    ctx.notes["trace_tags_seen"] = sorted(seen)
    ctx.notes["trace_tag_jobs"] = dict(sorted(tag_jobs.items()))           # in how many of the jobs each sub-step was taken
    ctx.notes["property_clause_rejections"] = NPROP[0]
    # vacuity guards on the implementation side
    for k in ("dec_ok", "lost_ok", "fec_ok", "dec_err", "ctl"):
        if totals.get(k, 0) == 0 and not ctx.violations:
            raise vf.Infra("vacuous run: no recorded call of kind %s (%s)" % (k, totals))
    missing = TRACE_TAGS - seen
    if missing:
        ctx.notes["trace_tags_missing"] = sorted(missing)
        if not ctx.violations and not ctx.drift:
            raise vf.Infra("vacuity guard: sub-steps of the machine never exercised by the accepted executions: %s" % sorted(missing))


def replay(ctx, exe):
    """re-execute the recorded execution against the current tree and judge it again; a file of raw events is judged as it is"""
    with open(ctx.replay) as f:
        first = f.readline()
    try:
        hdr = json.loads(first)
    except ValueError:
        hdr = {}
    ctx.nontrivial_count = 1
    drifts = {}
    if hdr.get("check") != "G05":
        out = ctx.path("raw.ndjson")
        with open(ctx.replay) as f, open(out, "w") as g:
            g.writelines(ln for ln in f if ln.startswith("{"))
        rej, seen, complete = validate(ctx, out, "G05 replay raw")
        ctx.evaluations += vf.count_lines(out)
        for (ln, cls, names) in rej:
            ev = vf.file_line(out, ln)[:700]
            if cls == "prop":
                ctx.violation("recorded trace rejected at line %d %s: %s" % (ln, names, ev), replay_src=ctx.replay)
            else:
                ctx.spec_drift("DecOp", "%s at line %d: %s" % (names, ln, ev[:400]))
        if not [r for r in rej if r[1] == "prop"]:
            ctx.traces += 1
        return
    x = int(hdr.get("exec", 0))
    mode = hdr["mode"]
    stdin = None
    if mode == "seq":
        args = ["seq", hdr["seed"], x]
        stdin = ctx.path("replay_seq.txt")
        with open(stdin, "w") as f:
            f.write(hdr["line"] + "\n")
    else:
        args = [mode, hdr["seed"], x, 1]
    j = Job("replay", args, stdin=stdin, header=dict(hdr, first=x, lines=[hdr.get("line", "")]))
    run_job(ctx, exe, j)
    ctx.evaluations += j.events
    if j.rc != 0:
        what = "Hang" if j.rc == 97 else summarize_err(j.err)
        k = match_known(dict(abort=what))
        if k:
            ctx.known_finding(k["what"])
        else:
            ctx.violation("property C01: replayed execution aborted rc=%d: %s" % (j.rc, what), replay_src=ctx.replay)
        return
    bad = False
    for (ln, cls, names) in j.rej:
        _, ev = exec_of_line(j.out, ln)
        if cls == "prop":
            bad = True
            props = sorted({n.split(".")[0] for n in names})
            ctx.violation("property %s clause(s) %s rejected again at line %d: %s" % ("/".join(props), names, ln, ev[:700]), replay_src=ctx.replay)
        else:
            ctx.spec_drift("DecOp", "%s at line %d: %s" % (names, ln, ev[:400]))
    if not bad:
        ctx.traces += 1


META = dict(
    engine="DecCtl+DecOp",
    technique=("TLA+ small-step machine of opus_decode_native / opus_decode_frame (one action per program counter, activation records for "
               "the recursive concealment calls) with CELT / SILK concealment bookkeeping and a ghost gain counter; TLC exhaustive to the "
               "fixpoint: refinement of the DecCtl contract model + bookkeeping theorems + a refuted witness; TLC-generated call sequences, "
               "seeded stream executions and damaged packets replayed through libopus; TLC runs the machine on every recorded call and "
               "compares with the hook fields, the CELT / SILK counters and float gain twins (stateful cursor)"),
    level_text=("TLC proves on the DecOp model, for every call of the DecCtl alphabet from every reachable state: the machine's return "
                "value, successor control state and output class are among those DecCtl allows (Op <= Contract); the leaf pieces of a "
                "concealment request are DecCtl!PlcPieces and FEC = concealment of frame_size - packet_frame_size + one LBRR frame; the "
                "gain multiplies every delivered sample exactly once (refuted for the pre-fix variant, finding F12); loss_duration advances "
                "by exactly the concealed duration, saturates, and is reset by a decoded frame; skip_plc = 'further decoded frames needed "
                "before pitch concealment'; SILK lossCnt increments per concealed frame and resets on a decoded one; last_frame_lost <=> "
                "lossCnt > 0. The model is bound to libopus by running the same machine in TLC on every recorded call: operational "
                "conformance (hook fields 0-14, CELT and SILK counters) is SPEC-DRIFT, the C01 return / memory clauses and the C19 "
                "gain-once clause (float twins: one common factor 10^(g/5120)) are violations."),
    level_note=("Trusted: TLC, Json module, the read-only peek hooks and the harness's read-only view of the SILK state. What depends on "
                "coded bits (redundancy flag and direction, mid-only flag, LBRR flags, signal type) is an oracle in the model: observed "
                "where the hooks expose it, otherwise branched over. The implementation is exercised on enumerated / sampled histories."),
)
