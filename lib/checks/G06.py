"""G06 - SilkIdx: the speech-layer frame (side information + excitation) as a decoder / encoder of a symbol sequence
(growth module; it begins where G02 FrameHdr stops: FrameHdr's opaque "frame body" op).

Model: spec/SilkIdx.tla (order and table of every symbol of silk_decode_indices / silk_decode_pulses and of the encoder
mirror, over FrameHdr's range-coder bit counter), spec/SilkIdxTables.tla (the RFC table words), design theorems in
spec/SilkIdx_mc.tla, binding in spec/SilkIdxTrace.tla + harness/silkidx.c.
"""
import hashlib, json, os, random, re
import vf

LEVEL = "model_checking"
PROVISIONAL = []

# branches of the model that must have been executed on the implementation side (vacuity guard over the executed plans)
NEED = ["type_vad", "type_novad", "gain_abs", "gain_delta", "nlsf_ext_lo", "nlsf_ext_hi", "nlsf_plain", "interp", "interp_skip",
        "voiced", "unvoiced", "lag_abs", "lag_delta", "lag_escape", "ltpscale", "ltpscale_skip", "count_plain", "count_chain",
        "count_chain_max", "shell", "shell_skip", "lsb", "sign_lsb_only", "blocks_rounded_up"]

OBS = dict(frames=0, twins=0, voiced=0, conditional=0, lbrr=0, max_ops=0, packets=0, mc_leaves=0)       # measured while running


# ------------------------------------------------------------------------------------------------------------
# requests

def frame_request(rng, rid, flavour=None):
    """one frame: parameters + abstract symbol stream.  flavour shapes the stream so that rare branches are common"""
    fs = rng.choice([8, 12, 16]); nb = rng.choice([2, 4, 4])
    lb = 1 if rng.random() < 0.25 else 0
    cc = rng.choice([0, 1, 2, 2])
    vad = 1 if rng.random() < 0.75 else 0
    ps = rng.choice([0, 1, 2, 2])
    pl = rng.randrange(0, 16 * fs) if rng.random() < 0.8 else rng.choice([-16, -1, 0, 1, 16 * fs - 1, 16 * fs + 10, 16 * fs + 21])
    fl = rng.randrange(8) if flavour is None else flavour
    n = 1400
    vals = []
    for i in range(n):
        u = rng.random()
        if fl == 0:      # sparse: most symbols 0
            v = 0 if u < 0.8 else rng.randrange(0, 64)
        elif fl == 1:    # anything
            v = rng.randrange(0, 5000)
        elif fl == 2:    # ends of the alphabets (residues 0 and 8 for stage 2, escape 17 for the counts ...)
            v = rng.choice([0, 0, 8, 17, 17, 53, 71, 9 * 17 * 8 - 1])
        elif fl == 3:    # small values: quiet frames, short shells
            v = rng.randrange(0, 3)
        elif fl == 4:    # escape chains: many 17s after the side information
            v = 17 * 18 * rng.randrange(1, 50) + 17 if (i > 30 and u < 0.7) else rng.randrange(0, 400)
        elif fl == 5:    # voiced, delta-coded lag
            v = rng.randrange(0, 5000)
        elif fl == 6:    # loud: large pulse counts
            v = rng.choice([16, 15, 14, 33, 34]) if u < 0.6 else rng.randrange(0, 5000)
        else:            # zeros then anything
            v = 0 if i < rng.randrange(0, 60) else rng.randrange(0, 3000)
        vals.append(v)
    if fl in (4, 5) or rng.random() < 0.3:
        vals[0] = rng.choice([2, 3, 6, 7])           # type symbol: voiced when the activity table is used
        if fl == 5:
            cc = 2; ps = 2; lb = rng.choice([0, 0, 1]); vad = 1
    return dict(k="F", id=rid, fs=fs, nb=nb, fi=rng.randrange(3), lb=lb, cc=cc, vad=vad, ps=ps, pl=pl, vals=vals)


def directed_requests(rng, rid0):
    """requests built to reach the rare branches with certainty: the stream is all zeros except where stated"""
    out = []
    rid = rid0
    for fs in (8, 12, 16):
        for nb in (2, 4):
            order = 16 if fs == 16 else 10
            nidx_unvoiced = 1 + 2 + (nb - 1) + 1 + order + (1 if nb == 4 else 0) + 1      # no extension symbols: stage-2 value 4
            # unvoiced, all stage-2 symbols plain (value 4): then rate level, then the counts
            base = [0, 0, 0] + [0] * (nb - 1) + [0] + [4] * order + ([0] if nb == 4 else []) + [0]
            nblk = (nb * 5 * fs + 15) // 16
            # (a) first block takes the full chain of 10 escapes and ends with count 0 (LSB-only signs), second takes 3 escapes
            v = base + [0] + [17] * 11 + [0] * 0
            # after 10 escapes the alphabet has 17 symbols: the 11th "17" is read modulo 17 = 0 -> count 0
            v += [17, 17, 17, 5]
            v += [0] * (nblk - 2)
            v += [1] * 4000
            rid += 1
            out.append(dict(k="F", id=rid, fs=fs, nb=nb, fi=0, lb=0, cc=0, vad=1, ps=0, pl=0, vals=v[:5200]))
            # (b) every block one escape, count 16
            v = base + [3] + [17, 16] * nblk + [1, 0] * 2000
            rid += 1
            out.append(dict(k="F", id=rid, fs=fs, nb=nb, fi=1, lb=1, cc=1, vad=0, ps=2, pl=5, vals=v[:4000]))
            # (c) voiced, conditional after a voiced frame: delta escape then absolute; delta at both ends
            # (d) the escape followed by an absolute lag just inside / outside what the delta symbol could have coded
            for dlt in (-9, -8, 11, 12):
                lag = 40 + dlt
                v = [2, 7] + [11] * (nb - 1) + [5] + [4] * order + ([2] if nb == 4 else []) + [0] + [lag // (fs // 2), lag % (fs // 2), 1, 2] + [3] * nb + [1, 2] + [9] * 60 + [1, 0, 3] * 300
                rid += 1
                out.append(dict(k="F", id=rid, fs=fs, nb=nb, fi=1, lb=0, cc=2, vad=1, ps=2, pl=40, vals=v))
            for dsym, pl in ((0, 20), (1, 20), (20, 20), (1, 3), (20, 16 * fs - 2), (9, 40)):
                v = [2, 7] + [11] * (nb - 1) + [5] + [0, 6, 8, 6] * (order // 2) + ([2] if nb == 4 else []) + [dsym] + [31, fs // 2 - 1, 1, 2] + [9] * nb + [3, 2] + [9] * 60 + [1, 0, 3] * 300
                rid += 1
                out.append(dict(k="F", id=rid, fs=fs, nb=nb, fi=2, lb=0, cc=2, vad=1, ps=2, pl=pl, vals=v))
    return out, rid


def leaves_from_tlc(r):
    out = []
    for p in r.prints:
        m = re.match(r'"REQ F <<([^>]*)>> <<([^>]*)>>"', p)
        if m:
            out.append(([int(x) for x in re.findall(r"-?\d+", m.group(1))], [int(x) for x in re.findall(r"-?\d+", m.group(2))]))
    return out


# ------------------------------------------------------------------------------------------------------------

def build_harness():
    var = vf.build_variant("hk")
    with open(os.path.join(var["dir"], "build.ninja")) as f:
        txt = f.read()
    m = re.search(r"build [^\n]*celt_decoder\.c\.o:(.*?)\n\n", txt, re.S)
    d = re.search(r"DEFINES = (.*)", m.group(1)) if m else None
    if not d:
        raise vf.Infra("cannot find the compile rule of celt/celt_decoder.c in build.ninja")
    defs = [x for x in d.group(1).split() if not x.startswith("-D_FORTIFY") and x != "-DHAVE_CONFIG_H"]
    return vf.build_hx(var, "silkidx.c", extra=defs)


def export_tables(ctx, exe):
    tab = ctx.path("sidx_tables.json")
    rc, err = vf.run_hx(exe, ["tables"], tab, timeout=120)
    if rc != 0:
        raise vf.Infra("hx_silkidx tables failed rc=%d %s" % (rc, err[-800:]))
    try:
        with open(tab) as f:
            t = json.loads(f.readline())
        assert t["k"] == "tables" and len(t["cb"]) == 2 and len(t["ppb"]) == 180
    except Exception as e:                                   # noqa
        raise vf.Infra("exported tables unreadable: %s" % e)
    return tab, t


def plan(ctx, reqs, tag, env, nparts=None):
    """TLC evaluates the model on the requests: id -> dict(nidx, ops (pairs flattened), tags); tables: tid -> list"""
    if not reqs:
        return {}, {}
    path = ctx.path("req_%s.ndjson" % tag)
    with open(path, "w") as f:
        for q in reqs:
            f.write(json.dumps(q, separators=(",", ":")) + "\n")
    nparts = nparts or max(1, min(vf.NCPU, len(reqs) // 40))
    chunks = vf.split_file_lines(path, nparts, path + ".part")

    def one(ch):
        p, n = ch
        e = dict(env); e["TRACE"] = p
        return vf.tlc("SilkIdxTrace", "SilkIdxPlan.cfg", workers=1, env=e, timeout=1700, heap="3g", tag="g06plan_" + tag + os.path.basename(p))
    plans, tables = {}, {}
    for r in vf.parallel(one, chunks):
        if r.error or r.violation:
            raise vf.Infra("plan pass %s: %s" % (tag, (r.error or r.violation)[:2000] + r.out[-1500:]))
        ctx.add_tlc(r, "plan " + tag)
        for m in re.finditer(r'"PLAN F (\d+) \| (\d+) \| <<([^>]*)>> \| \{([^}]*)\}"', r.out):
            ints = [int(x) for x in re.findall(r"-?\d+", m.group(3))]
            plans[int(m.group(1))] = dict(nidx=int(m.group(2)), ops=ints, tags=re.findall(r'\\"([a-z0-9_]+)\\"', m.group(4)))
        for m in re.finditer(r'"TABLE (\d+) <<([^>]*)>>"', r.out):
            tables[int(m.group(1))] = [int(x) for x in re.findall(r"\d+", m.group(2))]
    missing = [q["id"] for q in reqs if q["id"] not in plans]
    if missing:
        raise vf.Infra("plan pass %s: no plan for %d requests (e.g. id %s)" % (tag, len(missing), missing[:3]))
    if len(tables) != 32:
        raise vf.Infra("plan pass %s: tables not printed (%d)" % (tag, len(tables)))
    return plans, tables


def harness_lines(reqs, plans, tables):
    out = ["T %d %d %s" % (t, len(v), " ".join(map(str, v))) for t, v in sorted(tables.items())]
    for q in reqs:
        if q["k"] == "F":
            p = plans[q["id"]]
            ops = []
            pr = p["ops"]
            for j in range(0, len(pr), 2):
                ref, sym = pr[j], pr[j + 1]
                if ref // 1000 == 32:
                    ops += [8, 8, ref % 1000, sym]
                else:
                    ops += [2, 8, ref, sym]
            nops = len(ops) // 4
            out.append("F %d %d %d %d %d %d %d %d %d %d | %s | %s" % (q["id"], q["fs"], q["nb"], q["fi"], q["lb"], q["cc"], q["vad"], q["ps"], q["pl"],
                                                                   p["nidx"], " ".join(map(str, ops)), " ".join(map(str, q["vals"][:nops]))))
        elif q["k"] == "O":
            out.append("O %d %d %d %d %d %d %d %d %d" % (q["id"], q["fs"], q["ch"], q["ms"], q["br"], q["cx"], q["seed"], q["n"], q.get("fec", 0)))
    return out


def execute(ctx, exe, reqs, plans, tables, tag, nproc):
    nproc = max(1, min(nproc, len(reqs) // 20 or 1))
    per = (len(reqs) + nproc - 1) // nproc
    jobs = []
    for k in range(nproc):
        part = reqs[k * per:(k + 1) * per]
        if not part:
            continue
        ip = ctx.path("in_%s_%02d.txt" % (tag, k))
        with open(ip, "w") as f:
            f.write("\n".join(harness_lines(part, plans, tables)) + "\n")
        jobs.append((k, ip))

    def one(job):
        k, ip = job
        op = ctx.path("ev_%s_%02d.ndjson" % (tag, k))
        rc, err = vf.run_hx(exe, [], op, stdin_path=ip, timeout=3000)
        return ip, op, rc, err
    return vf.parallel(one, jobs)


def judge(ctx, evpath, what, env, nparts=None):
    """SilkIdxTrace!Judge on every line.  Returns list of (kind, id, verdict list) for the rejected events"""
    n = vf.count_lines(evpath)
    if n == 0:
        return []
    nparts = nparts or max(1, min(vf.NCPU, n // 30))
    chunks = vf.split_file_lines(evpath, nparts, evpath + ".part")

    def one(ch):
        p, k = ch
        e = dict(env); e["TRACE"] = p
        return ch, vf.tlc("SilkIdxTrace", "SilkIdxTrace.cfg", workers=1, env=e, timeout=2400, heap="3g", tag=what.replace(" ", "_") + os.path.basename(p))
    rej = []
    total = 0
    for (p, k), r in vf.parallel(one, chunks):
        if r.error or r.violation:
            raise vf.Infra("%s: %s" % (what, (r.error or r.violation)[:1500] + r.out[-1200:]))
        if r.distinct != k:
            raise vf.Infra("%s: TLC judged %d of %d events of %s" % (what, r.distinct, k, p))
        ctx.add_tlc(r, "trace %s %s" % (what, os.path.basename(p)))
        total += k
        for m in re.finditer(r'"(REJ|PKREJ) <<([^>]*)>>"', r.out):
            parts = [x.strip() for x in m.group(2).split(",")]
            item = (m.group(1), int(parts[0]), [x == "TRUE" for x in parts[1:]] if m.group(1) == "REJ" else parts[1:])
            if item not in rej:                      # (TLC evaluates the invariant of an initial state more than once)
                rej.append(item)
        OBS["packets_not_parsed"] = OBS.get("packets_not_parsed", 0) + len(set(re.findall(r'"PKSKIP <<[^>]*>>', r.out)))
        for m in set(re.findall(r'"PKLBRR <<(\d+, \d+, \d+)>>', r.out)):
            OBS["packets_with_lbrr"] = OBS.get("packets_with_lbrr", 0) + 1
            OBS["lbrr_frames_parsed"] = OBS.get("lbrr_frames_parsed", 0) + int(m.split(",")[2])
        if re.search(r'"BAD ', r.out):
            raise vf.Infra("%s: the harness refused a plan line (event k=bad) in %s" % (what, p))
    vf.log("[trace] %-36s lines=%d chunks=%d rejected=%d" % (what, total, len(chunks), len(rej)))
    ctx.traces += total - len(rej)
    return rej


GROUPS = ["writer", "modelDec", "domain", "lock", "modelEnc"]


def classify(verdict):
    """verdict: [writer, modelDec, domain, lock, modelEnc] (True = holds).  Returns (level, text)"""
    w, md, dom, lock, me = verdict
    if not w:
        return "infra", "the planned ops were not what the library's range encoder wrote (bit counter / writer)"
    if not lock:
        return "violation", ("C02 (and C18 'quantising on the encoder side and dequantising gives the values the decoder will reconstruct'): what the real "
                             "silk_encode_indices/silk_encode_pulses wrote is not read back in lock-step by the real silk_decode_indices/silk_decode_pulses "
                             "(range / bit count after a stage, side information or excitation differ)")
    if not dom:
        return "violation", "C18: side information decoded from a bitstream lies outside the index domains the dequantisers are specified on"
    if not md:
        return "drift", "the real decoder does not read the symbol sequence of the model (RFC 6716 4.2.7) although the real encoder and decoder stay in lock-step"
    return "drift", "the real encoder does not write the symbol sequence of the model's encoder order although the real decoder reads it in lock-step"


def scan_events(ctx, evpath, plans, tags_seen):
    n = 0
    with open(evpath) as f:
        for ln in f:
            n += 1
            try:
                e = json.loads(ln)
            except ValueError:
                continue
            k = e.get("k")
            if k == "fr":
                OBS["frames"] += 1
                OBS["twins"] += e.get("tw", 0)
                OBS["voiced"] += 1 if e.get("sig") == 2 else 0
                OBS["conditional"] += 1 if e.get("cc") == 2 else 0
                OBS["lbrr"] += e.get("lb", 0)
                OBS["max_ops"] = max(OBS["max_ops"], e.get("nops", 0))
                for t in plans.get(e["id"], {}).get("tags", ()):
                    tags_seen.add(t)
                ctx.nontrivial.add(hash((e["fs"], e["nb"], e["lb"], e["cc"], e["vad"], e["dfh"], e["dfl"], e["dtf"])))
            elif k == "pk":
                OBS["packets"] += 1
                ctx.nontrivial.add(hash(("pk", e.get("eh"), e.get("el"), e.get("n"))))
    return n


def pk_requests(rng, rid0, n, npk):
    out = []
    for i in range(n):
        out.append(dict(k="O", id=rid0 + i + 1, fs=rng.choice([8000, 12000, 16000]), ch=rng.choice([1, 1, 2]), ms=rng.choice([10, 20, 20, 40, 60]),
                        br=rng.choice([6000, 9000, 12000, 16000, 24000, 32000, 40000]), cx=rng.choice([0, 2, 5, 8, 10]), seed=rng.randrange(1, 1 << 30), n=npk,
                        fec=1 if i % 2 == 1 else 0))
    return out


# ------------------------------------------------------------------------------------------------------------

def run(ctx):
    tier = ctx.tier
    q = tier == "quick"
    ctx.rule = ("TLC checks the SilkIdx design theorems over the parameter grid x stream policies (every symbol from a proper inverse CDF of the "
                "stated alphabet, lag coding rules, index domains incl. the cross-check with SilkParams, encoder/decoder mirror both ways, structure "
                "of the excitation stage); leaves of that exploration, directed and seeded random requests are turned into plans by TLC, written with "
                "the library's range encoder, read by the real silk_decode_indices + silk_decode_pulses, re-encoded by the real "
                "silk_encode_indices + silk_encode_pulses and read again; every recorded observation is judged by SilkIdxTrace. "
                "non-trivial = distinct (parameters, decoder final range, bit count) frames and distinct whole-codec packets")
    ctx.assumptions = ["TLC and the CommunityModules Json reader are trusted",
                       "the table words the model computes with are exported from the built library at check time; they are compared word by word with the "
                       "RFC 6716 values kept in spec/SilkIdxTables.tla (generated once from the pinned tree)",
                       "the encoder state of the twin runs is set up by the harness (table pointers as silk_decoder_set_fs chooses them; the encoder's own "
                       "choice in the static silk_setup_fs is bound by the whole-codec packets only)",
                       "float build with assertions and ASan/UBSan (variant hk)"]
    exe = build_harness()
    tab, tables_json = export_tables(ctx, exe)
    env = {"SIDXTAB": tab, "SILKTAB": tab}
    ctx.notes["tables_digest"] = hashlib.sha1(open(tab, "rb").read()).hexdigest()[:16]
    if ctx.replay:
        return replay(ctx, exe, env)
    rng = random.Random(ctx.seed)
    # 1. design theorems
    tags_mc = set()
    leaves = []
    for sysn, what, w in (("I", "side information: parameters x policies", 8), ("P", "whole frames: excitation policies", 8),
                          ("E", "encoder mirror: records, excitations, block scaling", 8), ("L", "lag index over a packet vs SilkParams' domain", 2)):
        r = ctx.mc("SilkIdx_mc", "SilkIdx_mc_%s_%s.cfg" % (sysn, tier), what=what, env=env, deadlock=True, workers=w if q else 12,
                   timeout=1500 if q else 3000, heap="6g")
        failed = sorted(set(re.findall(r'"FAILED ([A-Za-z0-9_]+)"', r.out)))
        for m in re.finditer(r'"TABLEDIFF (\{[^}]*\})"', r.out):
            ctx.spec_drift("SilkIdx", "tables of the built library differ from the RFC 6716 values of SilkIdxTables: " + m.group(1).replace('\\"', ""))
        if '"CONSTDIFF"' in r.out:
            ctx.spec_drift("SilkIdx", "constants / table shapes of the built library differ from the model's (SilkIdx!SxConstOK: NLSF amplitude, pulses per block, "
                           "rate levels, the encoder's silk_max_pulses_table, shell table offsets, codebook sizes)")
        if r.violation:
            if "WholeTablesOK" in failed:
                ctx.violation("C17 ('every static inverse-CDF table is strictly decreasing and ends at zero'): a table of the speech-frame layer, as exported from "
                              "the built library, is not a proper inverse CDF over the alphabet the format gives it (SilkIdx!WholeTablesOK)",
                              replay_text="MC " + sysn)
                return
            if True:
                raise vf.Infra("SilkIdx design theorem violated (%s, failed %s):\n%s" % (r.violation, failed, r.state_dump[:2500]))
        if r.distinct < 50:
            raise vf.Infra("SilkIdx_mc %s explored only %d states (vacuous)" % (sysn, r.distinct))
        for m in re.finditer(r'"TAGS \{([^}]*)\}"', r.out):
            tags_mc.update(re.findall(r'\\"([a-z0-9_]+)\\"', m.group(1)))
        leaves += leaves_from_tlc(r)
    r = ctx.mc("SilkIdx_mc", "SilkIdx_mc_witness.cfg", what="witness: the mirror depends on the shifted table after 10 escapes", env=env, deadlock=True, workers=2, timeout=600, heap="3g")
    if r.violation != "WitnessChainMax":
        raise vf.Infra("witness configuration not refuted (%s): the excitation theorems are vacuous" % r.violation)
    miss = [t for t in NEED if t not in tags_mc]
    if miss:
        raise vf.Infra("branches of the model never reached by the exhaustive runs (vacuous): %s" % miss)
    OBS["mc_leaves"] = len(leaves)
    if len(leaves) < 500:
        raise vf.Infra("SilkIdx_mc printed too few leaves (%d)" % len(leaves))
    ctx.exhaustive = True
    ctx.notes["exhaustive_scope"] = "model side: the parameter grids x policy sets of the SilkIdx_mc_*_%s cfgs; implementation side sampled" % tier
    # 2. requests: directed ones, a seeded sample of the leaves, seeded random ones
    reqs, rid = directed_requests(rng, 0)
    leaves.sort()
    rng.shuffle(leaves)
    for h, v in leaves[:(150 if q else 2000)]:
        rid += 1
        reqs.append(dict(k="F", id=rid, fs=h[0], nb=h[1], fi=h[2], lb=h[3], cc=h[4], vad=h[5], ps=h[6], pl=h[7], vals=v))
    nrand = 500 if q else 8000
    for i in range(nrand):
        rid += 1
        reqs.append(frame_request(rng, rid))
    oreqs = pk_requests(rng, rid, 16 if q else 120, 16 if q else 40)
    ctx.notes["requests"] = dict(frames=len(reqs), encoder_runs=len(oreqs))
    plans, tables = plan(ctx, reqs, "all", env)
    outs = execute(ctx, exe, reqs, plans, tables, "fr", 8 if q else 12)
    outs += execute(ctx, exe, oreqs, plans, tables, "pk", 4 if q else 12)
    by_id = {x["id"]: x for x in reqs + oreqs}
    tags_seen = set()
    allev = ctx.path("events_all.ndjson")
    with open(allev, "w") as fo:
        for ip, op, rc, err in outs:
            if rc != 0:
                ctx.violation("hx_silkidx aborted rc=%d (C01 totality / memory safety of the speech-frame decoder, or an assertion of the encoder on a record the "
                              "decoder produced): %s" % (rc, err[-1500:]), replay_text="RAW\n" + open(ip).read())
                data = open(op, "rb").read()
                data = data[:data.rfind(b"\n") + 1]
                open(op, "wb").write(data)
            n = scan_events(ctx, op, plans, tags_seen)
            ctx.evaluations += n
            if n:
                ctx.sample(dict(event=vf.file_line(op, min(n, 2))[:500]), limit=4)
            with open(op) as fi:
                fo.write(fi.read())
    # shuffle the lines so that the chunks cost about the same
    lines = open(allev).read().splitlines()
    random.Random(ctx.seed).shuffle(lines)
    with open(allev, "w") as fo:
        fo.write("\n".join(lines) + "\n")
    rej = judge(ctx, allev, "G06 events", env)
    report(ctx, exe, env, rej, by_id)
    miss = [t for t in NEED if t not in tags_seen]
    if miss and not ctx.violations:
        raise vf.Infra("branches of the model never executed on the implementation side (vacuous run): %s" % miss)
    if OBS["packets"] - OBS.get("packets_not_parsed", 0) < (100 if q else 2000) and not ctx.violations:
        raise vf.Infra("too few whole-codec packets parsed by the model: %d of %d" % (OBS["packets"] - OBS.get("packets_not_parsed", 0), OBS["packets"]))
    if OBS["twins"] * 3 < OBS["frames"] and not ctx.violations:
        raise vf.Infra("too few frames went through the real encoder (twin runs): %d of %d" % (OBS["twins"], OBS["frames"]))
    ctx.notes["branches_seen"] = sorted(tags_seen)
    ctx.notes["observed"] = OBS


def report(ctx, exe, env, rej, by_id):
    ndrift = 0
    ctx.notes["rejected_events"] = len(rej)
    for kind, rid, verdict in rej[:12]:
        q = by_id.get(rid)
        if q is None:
            raise vf.Infra("rejected event without request: %s %s" % (kind, rid))
        if kind == "PKREJ":
            f, lock, model = int(verdict[0]), verdict[1] == "TRUE", verdict[2] == "TRUE"
            again = [x for x in rerun(ctx, exe, env, [q], "rerun%d" % rid) if x[0] == "PKREJ" and x[2] == verdict]
            if not again:
                raise vf.Infra("packet rejection did not repeat (R4): run %d packet %d" % (rid, f))
            detail = "run %s, packet %d" % (json.dumps(q), f)
            if not lock:
                rp = ctx.path("replay_%d.ndjson" % (len(ctx.violations) + 1))
                with open(rp, "w") as fo:
                    fo.write(json.dumps(q, separators=(",", ":")) + "\n")
                ctx.violation("C02: a speech-mode packet of the real encoder is not decoded in lock-step by the real decoder (final range / duration) :: " + detail, replay_src=rp)
            else:
                ndrift += 1
                if ndrift <= 3:
                    ctx.spec_drift("SilkIdx", "the model, parsing the bytes of a speech-mode packet of the real encoder in its own symbol order, does not end at the final "
                                   "range encoder and decoder report (they agree with each other) :: " + detail)
            continue
        level, text = classify(verdict)
        again = rerun(ctx, exe, env, [q], "rerun%d" % rid)
        if not again or again[0][2] != verdict:
            raise vf.Infra("rejection did not repeat (R4): request %d verdict %s -> %s" % (rid, verdict, again))
        detail = "%s :: groups %s :: request %s" % (text, dict(zip(GROUPS, verdict)), json.dumps(dict(q, vals=q["vals"][:40]))[:500])
        if level == "infra":
            raise vf.Infra(detail)
        if level == "violation":
            rp = ctx.path("replay_%d.ndjson" % (len(ctx.violations) + 1))
            with open(rp, "w") as f:
                f.write(json.dumps(q, separators=(",", ":")) + "\n")
            ctx.violation(detail, replay_src=rp)
        else:
            ndrift += 1
            if ndrift <= 3:
                ctx.spec_drift("SilkIdx", detail)


def rerun(ctx, exe, env, qs, tag):
    qs = [dict(x) for x in qs]
    plans, tables = plan(ctx, [x for x in qs if x["k"] == "F"] or [dict(k="F", id=0, fs=8, nb=2, fi=0, lb=0, cc=0, vad=0, ps=0, pl=0, vals=[0])], tag, env, nparts=1)
    outs = execute(ctx, exe, qs, plans, tables, tag, 1)
    rej = []
    for ip, op, rc, err in outs:
        if rc != 0:
            rej.append(("ABORT", qs[0]["id"], [rc]))
            continue
        ctx.evaluations += vf.count_lines(op)
        rej += judge(ctx, op, "G06 " + tag, env, nparts=1)
    return rej


def replay(ctx, exe, env):
    txt = open(ctx.replay).read()
    ctx.nontrivial_count = 2
    if txt.startswith("RAW\n"):
        ip = ctx.path("replay_in.txt")
        with open(ip, "w") as f:
            f.write(txt[4:])
        op = ctx.path("replay_out.ndjson")
        rc, err = vf.run_hx(exe, [], op, stdin_path=ip, timeout=600)
        ctx.states = max(ctx.states, 1); ctx.transitions = max(ctx.transitions, 1)
        if rc != 0:
            ctx.violation("replayed execution aborts again rc=%d: %s" % (rc, err[-800:]), replay_text=txt)
        else:
            ctx.evaluations += vf.count_lines(op); ctx.traces += 1
        return
    if txt.startswith("MC "):
        r = ctx.mc("SilkIdx_mc", "SilkIdx_mc_I_quick.cfg", what="replay: tables", env=env, deadlock=True, workers=8, timeout=1500, heap="6g")
        if r.violation:
            ctx.violation("model invariant still violated with the tables of the built library: %s" % sorted(set(re.findall(r'"FAILED ([A-Za-z0-9_]+)"', r.out))), replay_text=txt)
        return
    qs = [json.loads(l) for l in txt.splitlines() if l.strip().startswith("{")]
    if not qs:
        raise vf.Infra("replay file holds no request")
    ctx.sample(dict(replayed=json.dumps(qs[0])[:400]))
    for kind, rid, verdict in rerun(ctx, exe, env, qs, "replay"):
        if kind == "PKREJ":
            level, text = ("violation", "C02: packet not decoded in lock-step") if verdict[1] != "TRUE" else ("drift", "model does not parse the packet to its final range")
        else:
            level, text = classify(verdict) if kind == "REJ" else ("violation", "abort")
        if level == "violation":
            ctx.violation("replayed case rejected again: %s :: %s" % (text, verdict), replay_text=txt)
        elif level == "drift":
            ctx.spec_drift("SilkIdx", "replayed case: " + text)


META = dict(
    engine="SilkIdx",
    technique=("TLA+ model of the speech-layer frame (side information and excitation) as decoder and mirror-image encoder of a symbol sequence "
               "over the range coder's bit counter; tables exported from the built library at check time and compared with the RFC values kept in "
               "the spec; TLC exhaustive over parameters x stream policies; TLC-planned frames written with the library's range encoder, decoded by "
               "the real silk_decode_indices/silk_decode_pulses, re-encoded by the real silk_encode_indices/silk_encode_pulses and decoded again; "
               "real speech-mode packets of opus_encode parsed from their bytes by the model with the full-width range decoder; TLC trace validation"),
    level_text=("TLC proves on the model, with the table words of the built library: every symbol is read from a proper inverse CDF whose alphabet is "
                "the one the format states (and every sub-table of the layer is one: clause of C17); table offsets are whole rows; the decoded indices "
                "lie in the domains module SilkParams (C18) dequantises (cross-module: gain and residual domains, lag constants, the lag index over a "
                "three-frame packet stays inside the range C18 checks PitchLags on); signal type 0 iff the no-activity table; conditional coding reads "
                "an absolute lag only after the delta escape or an unvoiced frame, LTP scaling only when coded independently; a frame that is not "
                "conditionally coded does not depend on ec_prevSignalType/ec_prevLagIndex; structure and symbol count of the excitation stage "
                "(escape chains 0..10, shell tree, LSBs, signs); mirror decoder->encoder on canonical streams and encoder->decoder for every record "
                "of a grid an encoder can want x excitation families x rate levels; the encoder never scales a block more than 7 times and a scaled "
                "block keeps a pulse (why it never needs the shifted table, witness run must be refuted). Bound on recorded executions: the real "
                "decoder functions reach exactly the model's range, bit count (whole and 1/8), side information, excitation and ec_prev* memory after "
                "each stage of TLC-planned frames; the real encoder functions write exactly the model's encoder order for the decoded record "
                "(range and bit count after each stage), and the real decoder reads that in lock-step to the same record (C02/C18 clauses: "
                "VIOLATION); real speech-only packets (mono/stereo, 10-60 ms, NB/MB/WB) are parsed from their bytes by FrameHdr's packet-header order "
                "+ this module's frames to exactly the final range encoder and decoder report."),
    level_note=("Growth module: describes how the implementation behaves; model-vs-code disagreement with encoder and decoder still in lock-step is "
                "SPEC-DRIFT, as is a table word that differs from the RFC copy but is still a proper inverse CDF. The twin runs set the encoder's table "
                "pointers in the harness (silk_setup_fs is static); the encoder's own choice is bound by the whole-codec packets only. LBRR frames are "
                "bound through planned frames and twins, not through whole-codec packets (packets with LBRR data are counted and skipped). The meaning "
                "of the indices (dequantisation) is module SilkParams. Trusted: TLC, Json module, my reading of RFC 6716 4.2.7 through the pinned code."),
)
