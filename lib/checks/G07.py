"""G07 - growth module `BandBits`: the bit ledger of CELT band quantisation (celt/bands.c quant_all_bands, quant_band,
quant_band_stereo, quant_partition, compute_theta, quant_band_n1) - modules BandBits (EXTENDS Alloc), BandBits_mc,
BandBitsTrace; harness/bandbits.c.

The model is an exact integer function of the coded symbols and their real costs: every b, qn, theta code and ft, delta,
mbits / sbits, rebalance, q, K, ctx.remaining_bits, balance, the folding offsets and the collapse masks.  A disagreement
between the model's values and the code is SPEC-DRIFT (printed, exit 0).  Two clauses are decided at the level of a listed
property, C02 ("decodes in lock-step with the encoder ... no call ever fails with an internal error"):
  * lock-step - every quant_all_bands call the decoder makes on a packet went through exactly the band ledger (tell at
                every band top, b, theta symbols, q, K, real costs) of a call the encoder made while producing that packet;
  * budget    - band quantisation never ends beyond the packet (the decoder then fails with an internal error) and never
                leaves the range coder's error flag set; and it never aborts (sanitizer / assertion).
Those are VIOLATIONs (the detail line names C02)."""
import json, os, random, re
import vf

LEVEL = "model_checking"

TIERS = {
    "quick": dict(mc_cfg="BandBits_mc_quick.cfg", mc_workers=8, mc_timeout=900, jit_cfg=None, situ_exec=40, situ_packets=30, situ_hk=4,
                  plan_cases=260, stress_cases=240, chunks=12, tlc_timeout=900),
    "thorough": dict(mc_cfg="BandBits_mc_thorough.cfg", mc_workers=8, mc_timeout=3000, jit_cfg="BandBits_mc_jit.cfg", situ_exec=420,
                     situ_packets=40, situ_hk=30, plan_cases=2400, stress_cases=3000, chunks=16, tlc_timeout=3000, fixed_slice=(50, 8, 300)),
}

# regimes of the ledger the model run must have visited (vacuity guard)
REQUIRED_TAGS = {"range-coded theta", "uniform theta", "inversion flag", "split without symbol", "one-coefficient band",
                 "two-coefficient stereo side sign", "leaf cut back by the budget", "rebalance", "LM -1 leaf", "three levels of splits",
                 "band starts past the budget", "dual stereo band", "intensity stereo band", "recombine", "time divide",
                 "folding from lower bands", "skipped band", "b clamped to remaining_bits+1", "hybrid start"}
# theorems whose failure on the exported tables is a defect of the ledger as C02 needs it, not of the model
C02_THEOREMS = {"Mirror": "the encoder role and the decoder role do not compute the same ledger from the same symbols",
                "BudgetSafe": "a band pushes ec_tell_frac past total_bits although every symbol cost at most its bound",
                "FrameBudget": "band quantisation ends past total_bits although every symbol cost at most its bound",
                "Terminates": "the partition recursion goes below LM = -1 / deeper than LM+1 splits"}


# ---------------------------------------------------------------------------------------------- build
def lib_defines(var, src="bands"):
    """-D flags the library's own bands.c was compiled with (so that the copy included in hx_bandbits is the same code)."""
    txt = open(os.path.join(var["dir"], "build.ninja")).read()
    m = re.search(r"build CMakeFiles/opus\.dir/celt/%s\.c\.o:.*?\n((?:  .*\n)+)" % src, txt)
    if not m:
        raise vf.Infra("cannot find the compile rule of celt/%s.c in build.ninja" % src)
    d = re.search(r"DEFINES = (.*)", m.group(1))
    defs = d.group(1).split() if d else []
    return [x for x in defs if not x.startswith("-D_FORTIFY") and x != "-DHAVE_CONFIG_H"]


def build(variant):
    var = vf.build_variant(variant)
    defs = lib_defines(var)
    exe = vf.build_hx(var, "bandbits.c", out="bandbits", extra=defs)
    return var, defs, exe


def export_tables(ctx, var, defs, name):
    """the static tables Alloc / BandBits read (G04's exporter, built under our own name)"""
    exetab = vf.build_hx(var, "alloc.c", out="g07tab", extra=defs + ["-DALLOC_TU"])
    tab = ctx.path(name)
    rc, err = vf.run_hx(exetab, ["tables"], tab, timeout=300)
    if rc != 0 or vf.count_lines(tab) != 1:
        raise vf.Infra("table export failed rc=%d %s" % (rc, err[-600:]))
    return tab


# ---------------------------------------------------------------------------------------------- inputs
def situ_commands(rng, n, npk):
    cmds = []
    for i in range(n):
        fs = rng.choice([8000, 12000, 16000, 24000, 48000, 48000, 48000])
        cmds.append("X %d %d %d %d %d" % (rng.randrange(1, 1 << 30), fs, rng.choice([1, 2, 2]), rng.choice([2048, 2049, 2049, 2051, 2051]), npk))
    return cmds


EB = [0, 1, 2, 3, 4, 5, 6, 7, 8, 10, 12, 14, 16, 20, 24, 28, 34, 40, 48, 60, 78, 100]      # only used to *craft* inputs
RANGES = [(0, 13), (0, 17), (0, 19), (0, 21), (17, 19), (17, 21)]
TF_LONG = {0: [0, -1], 1: [0, -1, -2], 2: [0, -2, -3], 3: [0, -2, -3]}
TF_SHORT = {1: [1, 0, -1], 2: [2, 0, 1, -1], 3: [3, 0, 1, -1]}


def stress_cases(rng, n):
    """seeded random frames that no allocation would produce: arbitrary pulses[] / balance / stereo parameters / tf_change against
    packets that are too short or far too long for them (the ledger must hold its guards for any input of the right types)"""
    out = []
    for _ in range(n):
        C = rng.choice([1, 2, 2]); LM = rng.choice([0, 0, 1, 1, 2, 3])
        st, en = rng.choice(RANGES + [(0, 21), (0, 21)])
        cb = rng.randrange(st + 1, en + 1)
        short = (1 << LM) if (LM > 0 and rng.random() < 0.4) else 0
        vals = TF_SHORT[LM] if short else TF_LONG[LM]
        two = [rng.choice(vals), rng.choice(vals)]
        tf = [rng.choice(two) if st <= j < en else 0 for j in range(21)]
        dens = rng.choice([2, 6, 12, 24, 48])
        pu = [(rng.randrange(0, 1 + dens * ((EB[j + 1] - EB[j]) << LM) * C) if st <= j < cb else 0) for j in range(21)]
        dual = rng.randrange(2) if C == 2 else 0
        inten = rng.choice([st, cb, rng.randrange(st, en + 1), en]) if C == 2 else 0
        pre = rng.randrange(40, 400)
        want = pre + sum(pu)
        # (never shorter than what was coded before the bands: the frame must start inside the packet)
        ln = max((pre + 63) // 64 + 1, min(1275, int(want * rng.choice([0.3, 0.6, 0.9, 1.0, 1.1, 2.0]) / 64) + rng.randrange(3)))
        out.append("Q %d %d %d %d %d %d %d %d %d %d %d %d %d %d %d %d %d | %s | %s" % (
            C, LM, st, en, cb, inten, dual, short, rng.randrange(4), ln, rng.choice([0, 0, 8]), pre, rng.randrange(0, 300),
            rng.choice([0, 5, 10]), rng.randrange(2), rng.randrange(1, 1 << 30), rng.choice([9, 9, 0, 3, 5, 6]),
            " ".join(map(str, tf)), " ".join(map(str, pu))))
    return out


_re_plan = re.compile(r'^"PLAN (\d+) (\d+) (\d+) (\d+) (\d+) (\d+) (\d+) (\d+) (\d+) (\d+) (\d+) (-?\d+) (-?\d+) (\d+) \| <<([^>]*)>> \| <<([^>]*)>>"$')


def plan_cases(rng, prints, limit):
    """TLC-generated frames (allocations computed by Alloc!Run): each becomes Q lines for the harness, which calls the real
    quant_all_bands in the encoder role on random spectra of several shapes and in the decoder role on the bytes"""
    pts = []
    for p in prints:
        m = _re_plan.match(p)
        if m:
            pts.append((tuple(int(m.group(i)) for i in range(1, 15)), m.group(15), m.group(16)))
    pts = sorted(set(pts))              # TLC's print order depends on the worker interleaving (R4)
    cases = []
    for (C, LM, st, en, cb, inten, dual, short, spread, ln, rsv, tell0, bal, role), tf, pu in pts:
        tfs = " ".join(x.strip() for x in tf.split(","))
        pus = " ".join(x.strip() for x in pu.split(","))
        # the frame as allocated, on mixed and on one-sided spectra; and the same allocation in shorter packets, so that the
        # budget runs out in the middle of band quantisation (every guard of the ledger is then exercised band after band)
        variants = [(ln, 9), (ln, rng.randrange(7)), (ln, rng.choice([5, 6]))]
        need = (max(tell0, 0) + 63) // 64 + 1
        for frac in (rng.uniform(0.15, 0.5), rng.uniform(0.5, 0.95)):
            short_ln = max(1, min(ln, need + int(frac * max(0, ln - need))))
            variants.append((short_ln, rng.choice([9, 9, 0, 5, 6])))
        for vln, shape in variants:
            cx = 10 if role == 2 else rng.choice([0, 5, 10])
            cases.append("Q %d %d %d %d %d %d %d %d %d %d %d %d %d %d %d %d %d | %s | %s" % (
                C, LM, st, en, cb, inten, dual, short, spread, vln, rsv, max(tell0, 0), bal, cx, rng.randrange(2), rng.randrange(1, 1 << 30), shape,
                tfs, pus))
    if len(cases) > limit:
        cases = sorted(rng.sample(cases, limit))
    return cases, len(pts)


# ---------------------------------------------------------------------------------------------- execution
def run_lines(ctx, exe, cmd, lines, tag):
    """feed the lines to `exe cmd`; a sanitizer / assertion abort is attributed to the line being executed and the rest continues in a
    new process.  returns (trace_path with the complete pkt lines, [(line, rc, stderr_tail)])"""
    out_all = ctx.path("t_%s.ndjson" % tag)
    crashes = []
    rest = list(lines)
    part = 0
    with open(out_all, "w") as fo:
        while rest:
            inp = ctx.path("in_%s_%d.txt" % (tag, part)); outp = ctx.path("o_%s_%d.ndjson" % (tag, part))
            with open(inp, "w") as f:
                f.write("\n".join(rest) + "\n")
            rc, err = vf.run_hx(exe, [cmd], outp, stdin_path=inp, timeout=3000)
            with open(outp, "rb") as f:
                data = f.read()
            data = data[:data.rfind(b"\n") + 1].decode("utf-8", "replace")
            ls = data.splitlines()
            os.remove(inp); os.remove(outp)
            if cmd == "situ":
                done = sum(1 for x in ls if x.startswith('{"k":"x"'))
                started = sum(1 for x in ls if x.startswith('{"k":"b"'))
            else:
                done = sum(1 for x in ls if x.startswith('{"k":"pkt"'))
                started = done + (1 if rc != 0 else 0)
            fo.write("".join(x + "\n" for x in ls if x.startswith('{"k":"pkt"')))
            if rc == 0:
                if done != len(rest):
                    raise vf.Infra("hx_bandbits %s: %d of %d lines executed without a crash" % (cmd, done, len(rest)))
                break
            if started <= done or started > len(rest):
                raise vf.Infra("hx_bandbits %s rc=%d outside a case: %s" % (cmd, rc, err[-800:]))
            crashes.append((rest[started - 1], rc, err))
            rest = rest[started:]
            part += 1
            if len(crashes) > 6:
                break
    return out_all, crashes


def report_crashes(ctx, crashes, what):
    for line, rc, err in crashes[:3]:
        ctx.violation("clause of C02 broken (no call may fail with an internal error / abort): hx_bandbits %s aborted rc=%d (sanitizer or "
                      "assertion inside band quantisation / the codec) on: %s\n%s" % (what, rc, line[:400], err[-1500:]), replay_text=line)
    ctx.notes["aborted_executions"] = ctx.notes.get("aborted_executions", 0) + len(crashes)


def explain(ctx, trace_path, tab, what):
    """{line_no: (prop_names, model_names)} for every rejected line of the file"""
    r = vf.tlc("BandBitsTrace", "BandBitsTraceExplain.cfg", workers=1, env={"TRACE": trace_path, "ALLOCTAB": tab}, timeout=1700, heap="3g",
               tag="G07x_" + what.replace(" ", "_") + os.path.basename(trace_path))
    if r.error or r.violation:
        raise vf.Infra("%s: explain run failed: %s" % (what, r.error or r.violation))
    ctx.add_tlc(r, "explain " + what)
    res = {}
    for p in r.prints:
        m = re.match(r'^"WHY (\d+) prop \{(.*?)\} model \{(.*)\}"$', p)
        if m:
            res[int(m.group(1))] = (re.findall(r'\\"([^\\]+)\\"', m.group(2)), re.findall(r'\\"([^\\]+)\\"', m.group(3)))
    return res


def cmd_of(line):
    try:
        e = json.loads(line)
    except ValueError:
        return "", None
    return e.get("cmd", ""), e.get("ix")


def rerun_names(ctx, exe, tab, cmd, ix):
    """R4: execute the same command once more and judge the same packet again"""
    if not cmd or cmd[0] not in "QX":
        return None
    outp = ctx.path("rr_out.ndjson"); inp = ctx.path("rr_in.txt")
    with open(inp, "w") as f:
        f.write(cmd + "\n")
    rc, err = vf.run_hx(exe, ["situ" if cmd[0] == "X" else "cases"], outp, stdin_path=inp, timeout=900)
    if rc != 0:
        return None
    keep = ctx.path("rr_pk.ndjson")
    pos = {}
    with open(outp) as f, open(keep, "w") as g:
        n = 0
        for ln in f:
            if ln.startswith('{"k":"pkt"'):
                n += 1
                g.write(ln)
                pos[json.loads(ln).get("ix")] = n
    if ix not in pos:
        return ([], [])
    again = explain(ctx, keep, tab, "rerun")
    return again.get(pos[ix], ([], []))


def strip_at(names):
    return sorted(set(re.sub(r" @band \d+$", "", n) for n in names))


def judge(ctx, exe, tab, trace_path, what, rerun=True):
    """TLC judges every line; returns the number of lines accepted"""
    n = vf.count_lines(trace_path)
    if n == 0:
        return 0
    c = TIERS[ctx.tier]
    nparts = max(1, min(c["chunks"], n // 25 + 1))
    rej, total = vf.validate_cases(ctx, "BandBitsTrace", "BandBitsTrace.cfg", trace_path, "G07 " + what, nparts=nparts,
                                   timeout=c["tlc_timeout"], heap="3g", extra_env={"ALLOCTAB": tab})
    bad_total = shown = nprop = nmodel = 0
    for p, ln, tr in rej:
        why = explain(ctx, p, tab, what)
        if ln not in why:
            raise vf.Infra("%s: TLC rejected line %d of %s but the explain run does not" % (what, ln, p))
        bad_total += len(why)
        for k in why:
            if why[k][0]:
                nprop += 1
            else:
                nmodel += 1
        order = sorted(why, key=lambda k: (0 if why[k][0] else 1, k))
        for k in order[:2]:
            if shown >= 8:
                break
            shown += 1
            props, models = why[k]
            ev = vf.file_line(p, k)
            cmd, ix = cmd_of(ev)
            if rerun:
                again = rerun_names(ctx, exe, tab, cmd, ix)
                if again is not None and (strip_at(again[0]) != strip_at(props) or strip_at(again[1]) != strip_at(models)):
                    raise vf.Infra("%s: rejection not repeatable for %s #%s (first %s / %s, then %s / %s)" % (
                        what, cmd[:300], ix, props, models, again[0], again[1]))
            report(ctx, props, models, cmd, ix, ev)
    ctx.notes["rejected_prop"] = ctx.notes.get("rejected_prop", 0) + nprop
    ctx.notes["rejected_model"] = ctx.notes.get("rejected_model", 0) + nmodel
    if bad_total:
        vf.log("[G07] %s: %d packets rejected (%d with a C02 clause broken, %d model only); %d reported" % (what, bad_total, nprop, nmodel, shown))
    return total - bad_total


def report(ctx, props, models, cmd, ix, ev):
    where = "%s packet #%s" % (cmd[:300], ix)
    if props:
        ctx.violation("clause of C02 broken (encoder/decoder lock-step and budget of band quantisation; obligations %s%s) in: %s" % (
            ", ".join(props), ("; model also: " + ", ".join(models[:6])) if models else "", where), replay_text=cmd if cmd and cmd[0] in "QX" else ev)
    else:
        ctx.spec_drift("BandBits", "recorded ledger differs from the model (%s) in: %s" % (", ".join(models[:8]), where))


# ---------------------------------------------------------------------------------------------- evidence
def scan(ctx, trace_path, cov):
    with open(trace_path) as f:
        for ln in f:
            try:
                e = json.loads(ln)
            except ValueError:
                continue
            calls = e["enc"] + e["dec"]
            cov["packets_" + e["m"]] = cov.get("packets_" + e["m"], 0) + 1
            cov["calls_enc"] = cov.get("calls_enc", 0) + len(e["enc"])
            cov["calls_dec"] = cov.get("calls_dec", 0) + len(e["dec"])
            for c in calls:
                key = "C%d LM%d %d-%d" % (c["C"], c["LM"], c["st"], c["en"])
                sh = cov.setdefault(e["m"] + "_shapes", {})
                sh[key] = sh.get(key, 0) + 1
                nsplit = nleaf = nsign = ntrial = ncut = 0
                kinds = set()
                for b in c["bands"]:
                    ctx.evaluations += 1
                    ntrial += len(b["tr"]) - 1
                    for t in b["tr"]:
                        for ev in t:
                            if ev[0] == 1:
                                nsplit += 1; kinds.add(ev[3])
                            elif ev[0] == 7:
                                nleaf += 1
                                if ev[6] and ev[6] < 1000 and ev[9] > 0:
                                    pass
                            elif ev[0] == 6:
                                nsign += 1
                cov["splits"] = cov.get("splits", 0) + nsplit
                cov["leaves"] = cov.get("leaves", 0) + nleaf
                cov["sign_bits"] = cov.get("sign_bits", 0) + nsign
                cov["rdo_trials"] = cov.get("rdo_trials", 0) + ntrial
                for k in kinds:
                    cov["theta_kind_%d" % k] = cov.get("theta_kind_%d" % k, 0) + 1
                if c["dual"]:
                    cov["dual_stereo_calls"] = cov.get("dual_stereo_calls", 0) + 1
                if c["short"]:
                    cov["transient_calls"] = cov.get("transient_calls", 0) + 1
                if c["bands"] and c["bands"][0]["tell"] >= c["total"] - 64:
                    cov["starved_calls"] = cov.get("starved_calls", 0) + 1
                if c["r"] == 0 and not c["inpkt"]:
                    cov["decoder_own_silence_frames"] = cov.get("decoder_own_silence_frames", 0) + 1
                if nsplit + nleaf >= 4:
                    ctx.nontrivial.add(hash((c["C"], c["LM"], c["st"], c["en"], c["cb"], c["short"], c["dual"], c["inten"], c["total"] // 64,
                                             nsplit, nleaf, nsign, ntrial)))
            if len(ctx.samples) < 4 and calls and e["m"] not in cov.get("_sampled", set()) and any(
                    ev[0] == 1 and ev[3] for b in calls[0]["bands"] for t in b["tr"] for ev in t):
                cov.setdefault("_sampled", set()).add(e["m"])
                c = calls[0]
                ctx.sample({"mode": e["m"], "cmd": e["cmd"][:120], "call": {k: c[k] for k in ("r", "C", "LM", "st", "en", "cb", "inten", "dual", "short",
                                                                                               "total", "bal", "p", "tellEnd")},
                            "first_band_with_a_split": next(({"tell": b["tell"], "events": b["tr"][0][:6]} for b in c["bands"]
                                                             if any(ev[0] == 1 and ev[3] for ev in b["tr"][0])), None)})


# ---------------------------------------------------------------------------------------------- model side
def mc_outcome(ctx, r, cfg, what):
    if r.error:
        raise vf.Infra("%s: %s" % (what, r.error))
    ctx.add_tlc(r, what)
    vf.log("[mc] %-44s distinct=%d generated=%d depth=%d %s (%.1fs)" % (what, r.distinct, r.generated, r.diameter,
                                                                       "OK" if r.ok else "VIOLATED " + str(r.violation), r.wall))
    if r.violation:
        st = re.sub(r"\s+", " ", (r.state_dump or r.out)[-2500:])
        if r.violation in C02_THEOREMS:
            ctx.violation("clause of C02 broken on the model instantiated with the tables of the tree under test: BandBits_mc!%s - %s. %s" % (
                r.violation, C02_THEOREMS[r.violation], st[:1200]), replay_text=json.dumps({"k": "mc", "inv": r.violation, "cfg": cfg}))
        else:
            ctx.spec_drift("BandBits", "design theorem BandBits_mc!%s does not hold for the tables of the tree under test: %s" % (r.violation, st[:700]))
        return False
    return True


def extremes(prints):
    ex = {}
    tags = set()
    for p in prints:
        m = re.match(r'^<<"(MINREM|MAXOVER|MAXLEAFB|MAXITEMS)", (-?\d+)', p)
        if m:
            k, v = m.group(1), int(m.group(2))
            ex[k] = min(ex.get(k, v), v) if k == "MINREM" else max(ex.get(k, v), v)
        elif p.startswith('<<"TAGS"'):
            tags.update(re.findall(r'"([^"]+)"', p[8:]))
    return ex, tags


def record_suite(ctx, exe, exe_o, tab, rng, n_situ, npk, n_situ_san, label, cov):
    situ = situ_commands(rng, n_situ, npk)
    groups = [(exe, situ[:n_situ_san])] + [(exe_o, situ[n_situ_san:][i::10]) for i in range(10)]
    groups = [g for g in groups if g[1]]
    outs = vf.parallel(lambda a: run_lines(ctx, a[1][0], "situ", a[1][1], "situ%d" % a[0]), list(enumerate(groups)), nproc=min(11, len(groups)))
    ts = ctx.path("t_situ.ndjson")
    with open(ts, "w") as fo:
        for path, crashes in outs:
            fo.write(open(path).read()); os.remove(path)
            report_crashes(ctx, crashes, "situ")
    scan(ctx, ts, cov)
    ctx.traces += judge(ctx, exe, tab, ts, label + "codec in situ")
    os.remove(ts)


def run_cases(ctx, exe, tab, cases, label, cov):
    nch = max(1, min(8, len(cases) // 40))
    outs = vf.parallel(lambda a: run_lines(ctx, exe, "cases", a[1], "plan%d" % a[0]), list(enumerate(cases[i::nch] for i in range(nch))), nproc=nch)
    tp = ctx.path("t_plan.ndjson")
    with open(tp, "w") as fo:
        for path, crashes in outs:
            fo.write(open(path).read()); os.remove(path)
            report_crashes(ctx, crashes, "cases")
    scan(ctx, tp, cov)
    ctx.traces += judge(ctx, exe, tab, tp, label + "plan frames")
    os.remove(tp)


# ---------------------------------------------------------------------------------------------- run
def run(ctx):
    c = TIERS[ctx.tier]
    ctx.rule = ("TLC checks the BandBits design theorems (no model assertion fails - cache slots, even N at every split, qn <= 256, fill and "
                "collapse masks within B bits, fold range and lowband inside what was written; the recursion ends at LM >= -1 within LM+1 splits; "
                "budget safety; the overdraft bound of remaining_bits; leaf b within the band's b; balance identity; mirror) on frames whose "
                "allocation comes from G04's Alloc!Run, with the theta values, the real cost of every symbol and the PVQ collapse masks chosen "
                "by TLC inside their bounds (first Depth entries of every band from menus at several tells, the rest by four policies), and "
                "prints the frames; hx_bandbits - the tree's celt/bands.c compiled into the harness with logging wrappers around the range "
                "coder / bits2pulses / alg_quant calls, everything else from libopus.a - records every band of every quant_all_bands call "
                "while real encoders and decoders process synthetic audio (every packet decoded) and while the real function runs in both "
                "roles on the TLC frames (as allocated, on one-sided spectra, in shortened packets) and on seeded random stress frames; BandBitsTrace judges each packet: recorded events equal the model's given the observed symbols and "
                "costs, costs inside their bounds, tell accounting, collapse masks, lock-step between the roles, budget.  evaluations = "
                "bands judged; non-trivial = distinct (C, LM, range, codedBands, transient, stereo parameters, total/64, numbers of splits / "
                "leaves / sign bits / RDO trials) of recorded calls with at least four ledger events")
    ctx.assumptions = ["TLC 1.8.0 and the CommunityModules Json / Bitwise modules are trusted",
                       "gcc's >> of a negative int is an arithmetic shift (the model floors)",
                       "the static quant_band / quant_band_stereo / quant_partition / compute_theta are observed by compiling celt/bands.c of the "
                       "tree under test into the harness with the library's own -D flags and macro-redirected calls; the copy replaces bands.o "
                       "for the whole codec linked from libopus.a (a defect that exists only in the library's own object code of bands.c "
                       "would not be seen)",
                       "model theorems hold for symbol costs inside the stated bounds (range-coded symbol: floor/ceil of 8*log2(ft/fs) with "
                       "slack; PVQ codeword: pulses2bits(q)-1-jit .. pulses2bits(q)+jit); the bounds themselves are checked on every recorded symbol",
                       "the implementation is exercised on TLC's frame sample and on seeded codec executions, not on every input"]
    if ctx.replay:
        return replay(ctx)
    var, defs, exe = build("hk")
    rng = random.Random(ctx.seed * 7919 + 7)
    cov = {}
    tab = export_tables(ctx, var, defs, "alloctab.ndjson")

    # ---- model theorems in the background while the code is recorded and judged
    from concurrent.futures import ThreadPoolExecutor
    pool = ThreadPoolExecutor(max_workers=3)
    mc_future = pool.submit(vf.tlc, "BandBits_mc", c["mc_cfg"], workers=c["mc_workers"], env={"ALLOCTAB": tab}, timeout=c["mc_timeout"],
                            deadlock=True, heap="8g")
    jit_future = pool.submit(vf.tlc, "BandBits_mc", c["jit_cfg"], workers=3, env={"ALLOCTAB": tab}, timeout=2400, deadlock=True,
                             heap="4g") if c["jit_cfg"] else None
    w_future = pool.submit(vf.tlc, "BandBits_mc", "BandBits_mc_w_ideal.cfg", workers=1, env={"ALLOCTAB": tab}, timeout=600, deadlock=True, heap="3g")

    # ---- the codec's own calls
    try:
        _, _, exe_o = build("hko")
    except vf.Infra:
        exe_o = exe
    record_suite(ctx, exe, exe_o, tab, rng, c["situ_exec"], c["situ_packets"], c["situ_hk"], "", cov)
    if c.get("fixed_slice"):
        fs_exec, fs_hk, fs_cases = c["fixed_slice"]
        varf, defsf, exef = build("hkfix")
        tabf = export_tables(ctx, varf, defsf, "alloctab_fix.ndjson")
        try:
            _, _, exefo = build("hkfixo")
        except vf.Infra:
            exefo = exef
        covf = {}
        record_suite(ctx, exef, exefo, tabf, rng, fs_exec, c["situ_packets"], fs_hk, "fixed-point build: ", covf)
    else:
        covf = None

    # ---- outcome of the model run; its frames through the real function
    r = mc_future.result()
    ok = mc_outcome(ctx, r, c["mc_cfg"], "BandBits theorems (%s)" % c["mc_cfg"])
    if ok:
        ex, tags = extremes(r.prints)
        missing = REQUIRED_TAGS - tags
        if missing:
            raise vf.Infra("BandBits_mc never visited the regimes %s (vacuous model run)" % sorted(missing))
        ctx.notes["regimes_visited"] = sorted(tags)
        ctx.notes["model_extremes"] = dict(min_remaining_bits_below_band_start_or_zero=ex.get("MINREM", 0),
                                           max_tell_beyond_max_of_total_and_band_start=ex.get("MAXOVER"),
                                           max_leaf_b_beyond_band_b=ex.get("MAXLEAFB", 0), max_oracle_entries_in_a_band=ex.get("MAXITEMS"))
        cases, npts = plan_cases(rng, r.prints, c["plan_cases"])
        if not cases:
            raise vf.Infra("BandBits_mc printed no plan line")
        ctx.notes["plan_frames"] = npts
        cases += stress_cases(rng, c["stress_cases"])
        run_cases(ctx, exe, tab, cases, "", cov)
        if covf is not None:
            run_cases(ctx, exef, tabf, cases[:c["fixed_slice"][2]], "fixed-point build: ", covf)
        ctx.exhaustive = True
        ctx.notes["exhaustive_scope"] = ("model side: the frame sample of %s x every band x tells around the policy path and near total_bits x all menu "
                                         "choices of the first entries; implementation side: those frames on random spectra and seeded codec "
                                         "executions" % c["mc_cfg"])
        w = w_future.result()
        if w.error:
            raise vf.Infra("witness run: %s" % w.error)
        ctx.add_tlc(w, "witness BudgetIdeal")
        if w.violation != "BudgetIdeal":
            raise vf.Infra("witness run: expected TLC to refute BudgetIdeal under a cost jitter of 1 (got %s)" % w.violation)
        ctx.notes["witnesses_refuted"] = ["BudgetIdeal: once a symbol may cost 1/8 bit more than its bound, a band can end past total_bits "
                                          "(the theorem BudgetSafe needs the cost bounds)"]
        if jit_future:
            rj = jit_future.result()
            if mc_outcome(ctx, rj, c["jit_cfg"], "BandBits theorems with cost jitter 1 (%s)" % c["jit_cfg"]):
                exj, _ = extremes(rj.prints)
                ctx.notes["model_extremes_jitter1"] = exj
    if covf is not None:
        covf.pop("_sampled", None)
        ctx.notes["recorded_fixed_point_build"] = covf

    # ---- vacuity guards on what was recorded
    cov.pop("_sampled", None)
    ctx.notes["recorded"] = cov
    if not ctx.violations:
        for k in ("packets_situ", "packets_pair", "calls_enc", "calls_dec", "splits", "leaves", "sign_bits", "rdo_trials", "theta_kind_3",
                  "theta_kind_4", "theta_kind_5", "transient_calls", "starved_calls"):
            if cov.get(k, 0) == 0:
                raise vf.Infra("nothing recorded for " + k)
        shapes = cov.get("situ_shapes", {})
        for pat in (r"^C1 ", r"^C2 ", r" LM0 ", r" LM1 ", r" LM2 ", r" LM3 ", r" 0-13$", r" 0-17$", r" 0-19$", r" 0-21$", r" 17-"):
            if not any(re.search(pat, s) for s in shapes):
                raise vf.Infra("in-situ recording never saw a call of shape %s" % pat)


def replay(ctx):
    var, defs, exe = build("hk")
    tab = export_tables(ctx, var, defs, "alloctab.ndjson")
    with open(ctx.replay) as f:
        lines = [ln.strip() for ln in f if ln.strip()]
    cov = {}
    cases = [ln for ln in lines if ln.startswith("Q ") and "|" in ln]
    situ = [ln for ln in lines if ln.startswith("X ")]
    other = [ln for ln in lines if ln.startswith("{")]
    ctx.states = max(ctx.states, 1); ctx.transitions = max(ctx.transitions, 1)
    for kind, ls in (("cases", cases), ("situ", situ)):
        if not ls:
            continue
        path, crashes = run_lines(ctx, exe, kind, ls, "replay_" + kind)
        report_crashes(ctx, crashes, kind)
        scan(ctx, path, cov)
        ctx.traces += judge(ctx, exe, tab, path, "replay " + kind, rerun=False)
    for ln in other:
        try:
            e = json.loads(ln)
        except ValueError:
            continue
        if e.get("k") == "mc":
            cfg = e.get("cfg", "BandBits_mc_quick.cfg")
            r = vf.tlc("BandBits_mc", cfg, workers=8, env={"ALLOCTAB": tab}, timeout=3000, deadlock=True, heap="8g")
            ctx.evaluations += 1
            mc_outcome(ctx, r, cfg, "replay BandBits theorems")
        elif e.get("k") == "pkt":
            # a recorded packet (e.g. with a corrupted field): judged as it stands
            p = ctx.path("replay_pkt.ndjson")
            with open(p, "w") as f:
                f.write(ln + "\n")
            scan(ctx, p, cov)
            ctx.traces += judge(ctx, exe, tab, p, "replay packet", rerun=False)
    if not ctx.nontrivial:
        ctx.nontrivial_count = 1
    if ctx.evaluations == 0:
        raise vf.Infra("replay file holds nothing to execute")


META = dict(
    engine="BandBits+Alloc",
    technique=("TLA+ model of the bit ledger of CELT band quantisation as an exact integer function of the coded symbols and their real costs "
               "(oracle); TLC explores frames allocated by G04's Alloc model with theta values, symbol costs and collapse masks chosen inside "
               "their bounds; the tree's bands.c compiled into the harness with logging wrappers records every band of every quant_all_bands "
               "call of real encoders / decoders and of direct calls on TLC's frames; TLC judges every recorded packet"),
    level_text=("TLC proves on the model, instantiated with the tables of the tree under test: every pulse-cache slot that is read exists, N is even at "
                "every split, qn is 1 or even and <= 256, the partition recursion ends with LM >= -1 after at most LM+1 splits, fill and collapse "
                "masks stay within B bits (B <= 16, <= 8 bits at the interleave tables, <= 4 at the deinterleave table), the fold range reads only "
                "collapse masks already written and the lowband lies inside the written part of norm; budget safety - with every symbol costing "
                "at most its bound a band that starts inside the budget never pushes ec_tell_frac past total_bits and a band that starts past it "
                "codes nothing; ctx.remaining_bits never drops below min(its value at the band top, 0) (no overdraft is tolerated at all: "
                "RemSlack = 0); the b of every leaf is within [0, the band's b]; b <= min(16383, remaining_bits+1); balance = bits allocated so "
                "far - bits spent so far; encoder role and decoder role compute the identical ledger from the same symbols. TLC then judges every "
                "recorded band of real executions: events (tell before/after each theta symbol, the symbol's code and ft, b / q at every leaf, "
                "K, sign bits, PVQ collapse mask and cost) equal the model's, costs inside their bounds, tell accounting, collapse masks "
                "equal, theta-RDO trial structure, encoder and decoder ledgers identical per band, final tell within the packet."),
    level_note=("Growth module: exact-value disagreement is SPEC-DRIFT; lock-step and budget failures are C02 VIOLATIONs. Signal-dependent choices "
                "(which theta the encoder picks, theta RDO, avoid_split_noise, inversion) are free in the model. Not modelled: the spectra "
                "themselves (folding content, resynthesis), anti_collapse, the PVQ search; tf_change / spread / shortBlocks / intensity / "
                "dual_stereo are inputs."),
)
