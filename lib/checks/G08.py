"""G08 - SilkSide2: the SILK side information module SilkParams (C18) does not cover: stereo predictors (dequantiser, the
encoder's search, the 8 ms interpolation and sample history of silk_stereo_MS_to_LR), LTP codebooks, LTP scaling and the
cumulative-gain arithmetic of silk_quant_LTP_gains (growth module).

Model: spec/SilkSide2.tla; design theorems in spec/SilkSide2_mc.tla (systems S Q I L + three witness configurations that must be
refuted); binding in spec/SilkSide2Trace.tla + harness/silkside2.c.  Table words come from the built library at check time and
are compared word for word with the RFC values kept in the spec.
"""
import hashlib, json, os, random, re
import vf

LEVEL = "model_checking"
PROVISIONAL = []          # provisional known-finding entries (same format as known_findings.json); none

# invariants of SilkSide2_mc whose failure (with the exported tables) breaks a clause C18 states; the others describe behaviour
C18_INVARIANTS = {"InvS_Range": "decoded stereo predictors leave the range the synthesis assumes (table span / 16-bit state)",
                  "InvQ": "the value silk_stereo_quant_pred writes back is not what the decoder reconstructs from the indices, or the indices are not codable",
                  "InvS_QuantFixpoint": "quantising a reconstructed predictor pair does not give back the same values",
                  "InvL_Tables": "LTP codebook / scale tables leave their format (Q7 in 8 bits, Q14 in 16 bits, proper inverse CDFs, attenuating scales) or the max-gain arithmetic leaves 32 bits"}

OBS = dict(wc=0, wc_claim=0, wc_voiced=0, wc_width=0, wc_midonly=0, wc_lost=0, wc_mono=0, wc_hybrid=0, wc_multiframe=0, wc_first_stereo_after_mono=0,
           wc_ltpscale_nonzero=0, wc_reduced_width=0, enc_sum_log_gain_max_Q7=0, ms_wrap=0, lr=0, lr_midonly=0, lr_reduced_width=0, lr_wrap=0, lq_per=[0, 0, 0], lq_clamped=0)


def _tables(ctx, exe):
    tab = ctx.path("s2_tables.json")
    rc, err = vf.run_hx(exe, ["tables"], tab, timeout=120)
    if rc != 0:
        raise vf.Infra("hx_silkside2 tables failed rc=%d %s" % (rc, err[-800:]))
    try:
        with open(tab) as f:
            t = json.loads(f.readline())
        assert t["k"] == "tables" and len(t["sp"]) >= 2 and len(t["sizes"]) == 3
    except Exception as e:                                   # noqa
        raise vf.Infra("exported tables unreadable: %s" % e)
    return tab, t


_CUT = {"sd": ',"p":[', "sq": ',"ix":[', "ms": ',"fs":', "lr": ',"fs":', "dp": ',"B":[', "lq": ',"fs":', "l2": ',"yh":', "ln": ',"y":', "wc": ',"len":'}


def _input_key(ln):
    k = ln[6:ln.find('"', 6)]
    cut = _CUT.get(k)
    j = ln.find(cut) if cut else -1
    return ln[:j] if j > 0 else ln


def _wc_claim(e):
    """counting rule only (the judgement is SilkSide2Trace!WcClaim)"""
    return (e["lost"] == 0 and e["nfr"] == 1 and e["fsz"] >= 2 and e["er"] == e["dr"] and (e["toc"] >> 3) < 16 and (e["toc"] >> 2) & 1 == 1
            and e["enci"] == 2 and e["dnci"] == 2 and e["dnapi"] == 2)


def _scan(ctx, ln, h):
    k = ln[6:ln.find('"', 6)]
    if k in ("sd", "sq", "lq"):
        ctx.nontrivial.add(h)
    if k in ("l2", "ln", "sd", "sq"):
        return
    try:
        e = json.loads(ln)
    except ValueError:
        return
    if k == "dp" and e["st"] == 2:
        ctx.nontrivial.add(h)
    elif k == "ms":
        if e["kind"] > 0:
            ctx.nontrivial.add(h)
        if any(abs(e["pr"][i] - e["pp"][i]) > 32767 for i in (0, 1)):
            OBS["ms_wrap"] += 1
    elif k == "lr":
        ctx.nontrivial.add(h)
        OBS["lr"] += 1
        OBS["lr_midonly"] += e["mo"]
        OBS["lr_reduced_width"] += 1 if e["nw"] not in (0, 16384) else 0
        OBS["lr_wrap"] += 1 if any(abs(e["npp"][i] - e["pp"][i]) > 32767 for i in (0, 1)) else 0
    elif k == "lq":
        OBS["lq_per"][e["per"] if 0 <= e["per"] <= 2 else 0] += 1
        OBS["lq_clamped"] += 1 if e["si"] > 5333 else 0
    elif k == "wc":
        OBS["wc"] += 1
        OBS["wc_lost"] += e["lost"]
        OBS["enc_sum_log_gain_max_Q7"] = max(OBS["enc_sum_log_gain_max_Q7"], e["eslg0"], e["eslg1"])
        if e["lost"] == 0 and (e["toc"] >> 2) & 1 == 0:
            OBS["wc_mono"] += 1
        if _wc_claim(e):
            OBS["wc_claim"] += 1
            ctx.nontrivial.add(h)
            OBS["wc_voiced"] += 1 if e["d0"]["st"] == 2 else 0
            OBS["wc_width"] += 1 if e["ew"] != 0 else 0
            OBS["wc_midonly"] += 1 if e["emid"][e["nf"] - 1] == 1 else 0
            OBS["wc_hybrid"] += 1 if (e["toc"] >> 3) >= 12 else 0
            OBS["wc_multiframe"] += 1 if e["nf"] > 1 else 0
            OBS["wc_ltpscale_nonzero"] += 1 if (e["d0"]["st"] == 2 and e["d0"]["lsc"] > 0) else 0
            OBS["wc_reduced_width"] += 1 if e["ew"] not in (0, 16384) else 0
            OBS["wc_first_stereo_after_mono"] += 1 if e["dncib"] != 2 else 0


def _match_known(ev):
    for k in vf.known_findings("G08") + vf.known_findings("C18") + PROVISIONAL:
        key = k.get("key", {})
        if key and key.get("module") == "SilkSide2" and all(ev.get(f) == v for f, v in key.items() if f != "module"):
            return k
    return None


def _judge(ctx, path, cfg, what, env, nparts):
    """one TLC invariant on every line; returns the rejected event lines (first per chunk, repeated after removing them)"""
    rejected = []
    cur = path
    for _round in range(6):
        rej, total = vf.validate_cases(ctx, "SilkSide2Trace", cfg, cur, what, nparts=nparts, heap="2g", extra_env=env, timeout=2400)
        if _round == 0 and cfg == "SilkSide2Trace.cfg":
            ctx.traces += total
        if not rej:
            break
        drop = set()
        for p, ln, tr in rej:
            ev = vf.file_line(p, ln)
            if not ev:
                raise vf.Infra("%s: TLC rejected a chunk but the line could not be located:\n%s" % (what, (tr.state_dump or tr.out)[-1500:]))
            drop.add(ev)
            rejected.append(ev)
        if len(rejected) >= 12:
            break
        nxt = path + ".%s.r%d" % (cfg[:-4], _round)
        with open(cur) as f, open(nxt, "w") as g:
            for ln in f:
                if ln.rstrip("\n") not in drop:
                    g.write(ln)
        cur = nxt
        nparts = max(1, nparts // 2)
    ctx.traces -= len(rejected) if cfg == "SilkSide2Trace.cfg" else 0
    return rejected


def _confirm(ctx, exe, env, ev_line, tag, cfg):
    """R4: execute the rejected case again on the real library and judge it again"""
    src = ctx.path("rej_%s.ndjson" % tag)
    with open(src, "w") as f:
        f.write(ev_line + "\n")
    out = ctx.path("rej_%s_rerun.ndjson" % tag)
    rc, err = vf.run_hx(exe, ["replay"], out, stdin_path=src, timeout=600)
    if rc != 0:
        return True, src, "(harness aborted rc=%d on the re-run: %s)" % (rc, err[-400:])
    if vf.count_lines(out) == 0:
        return True, src, "(the harness refused the recorded inputs)"
    rej, _ = vf.validate_cases(ctx, "SilkSide2Trace", cfg, out, "G08 confirm " + tag, nparts=1, heap="2g", extra_env=env)
    return bool(rej), src, vf.file_line(out, vf.count_lines(out))


def _mc(ctx, env, tier):
    q = tier == "quick"
    info = {}
    runs = [("S", "SilkSide2_mc_S.cfg", "stereo index domain 25x3x5x3x5", 5626, None),
            ("Q", "SilkSide2_mc_Q_%s.cfg" % tier, "encoder's predictor search, every integer input in the span + 32-bit boundaries", 30000, None),
            ("I", "SilkSide2_mc_I_%s.cfg" % tier, "8 ms interpolation over reachable predictor pairs x {8,12,16} kHz", 20000, None),
            ("I", "SilkSide2_mc_I_witness1.cfg", "witness: the 16-bit difference never wraps", 2, "WitnessNoWrapAnywhere"),
            ("I", "SilkSide2_mc_I_witness2.cfg", "witness: the ramp always moves towards the target", 2, "WitnessRampTowardsAlways"),
            ("L", "SilkSide2_mc_L.cfg", "LTP tables, log2lin/lin2log, max-gain arithmetic, cumulative-gain machine (hard policy)", 9000, None),
            ("L", "SilkSide2_mc_L_witness.cfg", "witness: cumulative gain bounded under any policy", 2, "WitnessSumBoundedAnyPolicy")]
    for sysn, cfg, what, minstates, witness in runs:
        r = ctx.mc("SilkSide2_mc", cfg, what=what, env=env, deadlock=True, workers=6 if q else 8, timeout=1500, heap="4g")
        for p in r.prints:
            m = re.match(r'<<"S2INFO", "(\w)", "\{([^}]*)\}", (\d+), (\d+), (\d+), (\d+)>>', p)
            if m:
                info[m.group(1)] = dict(tablediff=[x for x in re.findall(r'\\"(\w+)\\"', m.group(2))], abssum=int(m.group(3)), refs_ok=int(m.group(4)),
                                        comp0_values=int(m.group(5)), maxgap=int(m.group(6)))
        if witness:
            if r.violation != witness:
                raise vf.Infra("witness configuration %s not refuted (%s): the theorems next to it are vacuous" % (cfg, r.violation))
            continue
        if r.violation:
            dump = r.state_dump[:1200]
            if r.violation in C18_INVARIANTS:
                ctx.violation("C18 (decoded speech-layer parameters in range / quantise-dequantise agreement): model theorem %s fails with the tables of the built "
                              "library: %s\n%s" % (r.violation, C18_INVARIANTS[r.violation], dump), replay_text=json.dumps(dict(k="mc", cfg=cfg)) + "\n" + dump)
            else:
                ctx.spec_drift("SilkSide2", "design theorem %s of SilkSide2_mc (%s) does not hold with the tables of the built library: %s" % (r.violation, what, dump[:600].replace("\n", " ")))
            continue
        if r.distinct < minstates:
            raise vf.Infra("SilkSide2_mc %s explored only %d states (expected >= %d): vacuous" % (cfg, r.distinct, minstates))
    if not ctx.violations:
        for sysn in ("S", "Q", "I", "L"):
            if sysn not in info:
                raise vf.Infra("SilkSide2_mc system %s did not print its S2INFO line" % sysn)
    td = sorted(set(sum((v["tablediff"] for v in info.values()), [])))
    if td:
        ctx.spec_drift("SilkSide2", "tables / constants of the built library differ from the RFC 6716 values kept in SilkSide2.tla: " + ", ".join(td))
    if "L" in info:
        ctx.notes["ltp_abs_tap_sum_max_Q7"] = info["L"]["abssum"]
        if not info["L"]["refs_ok"] and "const" not in td and not any(x.startswith("vq") for x in td):
            ctx.spec_drift("SilkSide2", "LtpAbsSumRef / ConstOK: the table-derived bound sum|b| = 217 (Q7) or an arithmetic constant changed")
    if "Q" in info:
        ctx.notes["stereo_max_level_gap_Q13"] = info["Q"]["maxgap"]
    if "I" in info:
        ctx.notes["interp_component0_values_on_grid"] = info["I"]["comp0_values"]
    ctx.exhaustive = True
    ctx.notes["exhaustive_scope"] = ("model side: whole stereo index domain; every integer predictor input in the span of the Q cfg; reachable predictor pairs on the level "
                                     "grid of the I cfg; every log2lin argument -3..4100; every cumulative gain 0..9000; implementation side: the whole stereo index "
                                     "domain and every LTP vector are enumerated through the real coder/decoder, the rest is sampled")


def run(ctx):
    tier = ctx.tier
    q = tier == "quick"
    ctx.rule = ("model: TLC checks SilkSide2_mc (S: all 5625 stereo index points - range, strict monotonicity in all three index levels, table strictly increasing and "
                "symmetric, 75 levels strictly increasing, quantiser fixpoint; Q: the early-exit search = global nearest level with ties to the lower one, indices codable, "
                "write-back = dequantised value, error <= half the largest gap inside the span, for every integer input of the span and the 32-bit boundary points; "
                "I: increment / ramp end / 16-bit survival for reachable predictor pairs, component 1 never wraps; L: LTP table format, |sum b| <= gain <= sum|b|, "
                "log2lin inside 32 bits and monotone, lin2log(log2lin) within 3, max_gain arithmetic, cumulative gain <= 250 dB (+4/128) under the hard policy; "
                "three witness theorems must be refuted). implementation: hx_silkside2 records silk_stereo_encode_pred -> bytes -> silk_stereo_decode_pred "
                "(whole domain), silk_stereo_quant_pred (grid, level neighbourhoods, boundaries, random) + decode of its indices, silk_stereo_MS_to_LR on "
                "impulse/step/random/saturating input from arbitrary 16-bit states, the encoder's silk_stereo_LR_to_MS on panned/uncorrelated/out-of-phase/saturating input from random states, silk_decode_parameters with every LTP vector, silk_find_LTP_FLP + "
                "silk_quant_LTP_gains_FLP + silk_quant_LTP_gains (+ decode of the indices), silk_log2lin/silk_lin2log sweeps, and whole-codec stereo SILK-only / "
                "hybrid streams (8-48 kHz API rate, NB..FB, 10-60 ms, 12-64 kb/s, CBR/VBR, FEC, forced channel switches, losses) reading encoder sStereo / indices "
                "and decoder sStereo / indices / re-derived LTPCoef_Q14 through start-up-checked struct mirrors; every event judged by SilkSide2Trace!CaseOK (C18 clauses) "
                "and !ModelOK (behaviour, SPEC-DRIFT). non-trivial = distinct inputs of sd/sq/lq/lr events, voiced dp events, ms events with signal, wc packets for which the claim applies")
    ctx.assumptions = ["TLC and the CommunityModules Json reader are trusted",
                       "the table words the model computes with are exported from the built library at check time and compared word for word with the RFC 6716 values "
                       "kept in spec/SilkSide2.tla (typed once from the pinned tree)",
                       "encoder/decoder sub-states are read through struct mirrors checked at start-up (silk_Get_Decoder_Size, fresh-state contents)",
                       "the LTP coefficients of whole-codec packets are re-derived by running silk_decode_parameters on a copy of the decoder's channel state after the packet "
                       "(the decoder keeps only the indices)",
                       "float build with assertions and ASan/UBSan (variant hk)"]
    var = vf.build_variant("hk")
    exe = vf.build_hx(var, "silkside2.c")
    tab, tables = _tables(ctx, exe)
    env = {"S2TAB": tab}
    if ctx.replay:
        return replay(ctx, exe, env)
    ctx.notes["tables_digest"] = hashlib.sha1(open(tab, "rb").read()).hexdigest()[:16]

    # ---- 1. design theorems --------------------------------------------------------------------
    _mc(ctx, env, tier)

    # ---- 2. bind to the implementation ---------------------------------------------------------
    s = ctx.seed
    if q:
        jobs = [("sd", []), ("sq", [s + 1, 3000]), ("ms", [s + 2, 90]), ("ms", [s + 12, 90]), ("lr", [s + 5, 300]), ("dp", [s + 3, 400]), ("lq", [s + 4, 800]), ("ll", [])]
        jobs += [("codec", [s + 20 + i, 14, 50]) for i in range(5)]
    else:
        jobs = [("sd", []), ("sq", [s + 1, 60000]), ("dp", [s + 3, 6000]), ("lq", [s + 4, 8000]), ("lq", [s + 14, 8000]), ("ll", [])]
        jobs += [("ms", [s + 2 + 100 * i, 400]) for i in range(6)]
        jobs += [("lr", [s + 5 + 100 * i, 1500]) for i in range(4)]
        jobs += [("codec", [s + 20 + i, 40, 100]) for i in range(12)]

    def gen(job):
        i, (cmd, args) = job
        out = ctx.path("t_%s_%d.ndjson" % (cmd, i))
        rc, err = vf.run_hx(exe, [cmd] + args, out, timeout=1500)
        return cmd, args, out, rc, err
    outs = vf.parallel(gen, list(enumerate(jobs)), nproc=8)
    lines = []
    per_kind = {}
    for cmd, args, out, rc, err in outs:
        with open(out) as f:
            ls = f.read().split("\n")
        ls = [x for x in ls if x.startswith('{"k":') and x.endswith("}")]
        if rc == 3:
            raise vf.Infra("hx_silkside2: struct mirror check failed: " + err[-600:])
        if rc != 0:
            ctx.violation("hx_silkside2 %s aborted rc=%d (sanitizer / assertion inside the library on in-domain side information: C01/C18): %s" % (cmd, rc, err[-1200:]),
                          replay_text=json.dumps(dict(k="crash", cmd=[cmd] + [str(a) for a in args])) + "\n" + err[-3000:])
        if ls:
            ctx.sample({"driver": cmd, "event": ls[len(ls) // 2][:400]})
        per_kind[cmd] = per_kind.get(cmd, 0) + len(ls)
        lines += ls
        os.remove(out)
    ctx.notes["events_per_driver"] = per_kind
    seen = set()
    uniq = []
    for ln in lines:
        h = hash(_input_key(ln))
        if h in seen:
            continue
        seen.add(h)
        uniq.append(ln)
        _scan(ctx, ln, h)
    lines = uniq
    ctx.evaluations += len(lines)
    ctx.notes["distinct_input_cases"] = len(lines)
    n_err = sum(1 for x in lines if x.startswith('{"k":"wc_err"'))
    ctx.notes["observed"] = OBS
    if not ctx.violations:
        if per_kind.get("sd", 0) != 5625:
            raise vf.Infra("stereo index domain not enumerated: %d of 5625 events" % per_kind.get("sd", 0))
        need = dict(wc_claim=300 if q else 8000, wc_voiced=60 if q else 1500, wc_width=100 if q else 2500, wc_midonly=10 if q else 200, wc_lost=10 if q else 200,
                    wc_mono=10 if q else 200, wc_hybrid=20 if q else 500, wc_multiframe=30 if q else 800, wc_first_stereo_after_mono=2 if q else 30, ms_wrap=2 if q else 30,
                    wc_ltpscale_nonzero=3 if q else 100, wc_reduced_width=3 if q else 100,
                    lr=250 if q else 5000, lr_midonly=5 if q else 100, lr_reduced_width=50 if q else 1000)
        low = {k: (OBS[k], v) for k, v in need.items() if OBS[k] < v}
        if n_err or low:
            raise vf.Infra("whole-codec / synthesis drivers did not reach what the check claims to cover (vacuity guard): errors=%d, below minimum (seen, needed): %s" % (n_err, low))
        if min(OBS["lq_per"]) < (5 if q else 100) or per_kind.get("dp", 0) < 112 or per_kind.get("ll", 0) < 8000:
            raise vf.Infra("LTP drivers too thin: per-codebook choices %s, dp events %d, ll events %d" % (OBS["lq_per"], per_kind.get("dp", 0), per_kind.get("ll", 0)))
    random.Random(s).shuffle(lines)
    allp = ctx.path("events.ndjson")
    with open(allp, "w") as f:
        f.write("\n".join(lines) + "\n")
    rejected = _judge(ctx, allp, "SilkSide2Trace.cfg", "G08 events", env, nparts=12 if q else vf.NCPU)
    ctx.notes["rejected_events"] = len(rejected)
    for n, ev in enumerate(rejected[:6]):
        try:
            kf = _match_known(json.loads(ev))
        except ValueError:
            kf = None
        if kf:
            ctx.known_finding(kf["what"])
            continue
        still, src, fresh = _confirm(ctx, exe, env, ev, "e%d" % n, "SilkSide2Trace.cfg")
        if not still:
            raise vf.Infra("rejection did not repeat on re-execution (R4): %s" % ev[:400])
        ctx.violation("recorded call violates C18 (SilkSide2Trace!CaseOK: decoded stereo-predictor / LTP parameters equal the dequantiser's on the coded indices and are in "
                      "range; the encoder's quantised value is what the decoder reconstructs): %s" % fresh[:900], replay_src=src)

    # ---- 3. behaviour beyond the property's clauses: SPEC-DRIFT only -----------------------------
    dr = [ln for ln in lines if ln[6:8] in ("sq", "ms", "lr", "lq", "l2", "ln", "wc") and not ln.startswith('{"k":"wc_err"')]
    drp = ctx.path("drift.ndjson")
    with open(drp, "w") as f:
        f.write("\n".join(dr) + "\n")
    rej = _judge(ctx, drp, "SilkSide2TraceDrift.cfg", "G08 behaviour", env, nparts=12 if q else vf.NCPU)
    ctx.notes["drift_events"] = len(rej)
    shown = set()
    for ev in rej:
        k = ev[6:8]
        if k in shown:
            continue
        shown.add(k)
        what = {"sq": "silk_stereo_quant_pred does not choose the indices of the model's search (StereoQuantPred)",
                "ms": "silk_stereo_MS_to_LR output / state differs from the model (interpolation, history, synthesis arithmetic)",
                "lr": "silk_stereo_LR_to_MS (encoder): mid / residual side samples, history or the width / mid-only bookkeeping differ from the model (LrToMs)",
                "lq": "silk_quant_LTP_gains: cumulative sum_log_gain_Q7 / prediction gain differ from the model's chain (SumChain) or from the float wrapper",
                "l2": "silk_log2lin differs from the model", "ln": "silk_lin2log differs from the model",
                "wc": "whole codec: decoder state rules on loss / mono packets or the encoder's stereo-width bookkeeping differ from the model (WcModel)"}.get(k, "event")
        ctx.spec_drift("SilkSide2", what + " :: " + ev[:500])


def replay(ctx, exe, env):
    with open(ctx.replay) as f:
        first = f.readline().strip()
    try:
        head = json.loads(first)
    except ValueError:
        head = {}
    ctx.sample(first[:500])
    ctx.nontrivial_count = 2
    ctx.states = max(ctx.states, 1); ctx.transitions = max(ctx.transitions, 1)
    if head.get("k") == "crash":
        out = ctx.path("replay_crash.ndjson")
        rc, err = vf.run_hx(exe, head["cmd"], out, timeout=1500)
        ctx.evaluations += 1
        if rc != 0:
            ctx.violation("replayed driver aborts again rc=%d: %s" % (rc, err[-800:]), replay_src=ctx.replay)
        return
    if head.get("k") == "mc":
        r = ctx.mc("SilkSide2_mc", head["cfg"], what="replay model run " + head["cfg"], env=env, deadlock=True, workers=6, timeout=1500, heap="4g")
        ctx.evaluations += 1
        if r.violation in C18_INVARIANTS:
            ctx.violation("model theorem %s still fails with the tables of the built library:\n%s" % (r.violation, r.state_dump[:1000]), replay_src=ctx.replay)
        elif r.violation:
            ctx.spec_drift("SilkSide2", "replay: design theorem %s does not hold" % r.violation)
        return
    out = ctx.path("replay.ndjson")
    rc, err = vf.run_hx(exe, ["replay"], out, stdin_path=ctx.replay, timeout=600)
    if rc != 0:
        ctx.violation("replay aborted rc=%d %s" % (rc, err[-800:]), replay_src=ctx.replay)
        return
    n = vf.count_lines(out)
    if n == 0:
        raise vf.Infra("replay file holds no executable event: " + ctx.replay)
    # a whole-codec replay re-runs the stream up to the recorded packet and prints that packet only
    ctx.evaluations += n
    rej, total = vf.validate_cases(ctx, "SilkSide2Trace", "SilkSide2Trace.cfg", out, "G08 replay", nparts=1, heap="2g", extra_env=env)
    ctx.traces += total - len(rej)
    for p, ln, tr in rej:
        ev = vf.file_line(p, ln)
        try:
            kf = _match_known(json.loads(ev))
        except ValueError:
            kf = None
        if kf:
            ctx.known_finding(kf["what"])
        else:
            ctx.violation("replayed case rejected again (C18, SilkSide2Trace!CaseOK): " + ev[:800], replay_src=ctx.replay)
    rej, total = vf.validate_cases(ctx, "SilkSide2Trace", "SilkSide2TraceDrift.cfg", out, "G08 replay behaviour", nparts=1, heap="2g", extra_env=env)
    for p, ln, tr in rej:
        ctx.spec_drift("SilkSide2", "replayed case differs from the behavioural model (ModelOK): " + vf.file_line(p, ln)[:400])


META = dict(
    engine="SilkSide2",
    technique=("TLA+ integer model of the SILK stereo-predictor dequantiser and encoder search, the predictor interpolation and sample history of "
               "silk_stereo_MS_to_LR, the LTP codebooks / scale table and the cumulative-gain arithmetic of silk_quant_LTP_gains (silk_log2lin, silk_lin2log "
               "transcribed exactly); tables exported from the built library and compared with the RFC values kept in the spec; TLC exhaustive over the stereo "
               "index domain, the predictor input span, reachable interpolation pairs, the log domain and the cumulative-gain machine, with witness theorems that "
               "must be refuted; TLC trace validation of recorded calls of the real functions and of whole-codec stereo packets"),
    level_text=("TLC proves on the model, with the table words of the built library: every stereo index point dequantises inside the table span, the difference "
                "pred[0] fits the 16-bit state; strict monotonicity in all three index levels; the 16-entry table strictly increasing and symmetric, the 75 levels "
                "strictly increasing; the encoder's early-exit search is the global nearest-level search (ties to the lower level), its indices are codable and the "
                "value it writes back is the dequantised value (C18 agreement clause); the interpolation increment moves towards the target and ends within "
                "N/2 + |d|/1024 + 1 of it whenever the 16-bit difference does not wrap (component 1 never wraps; component 0 CAN: witness refuted); LTP tables fit "
                "Q7/8-bit and Q14/16-bit, effective gains lie between |sum b| and sum |b| (max 217/128), scales only attenuate; silk_log2lin stays inside 32 bits "
                "exactly because of its 3967 cut-off; the cumulative LTP gain stays below MAX_SUM_LOG_GAIN_DB + 4/128 under the hard reading of the penalty and is "
                "unbounded under the soft one (witness refuted). Bound on recorded executions by exact equality: the real stereo decoder on the whole index domain "
                "through the real range coder, the real quantiser + decoder, every LTP vector through silk_decode_parameters, the LTP quantiser's output vs the decoder's "
                "reconstruction (integer function and float wrapper), and per whole-codec packet: decoder pred_prev_Q13 = dequantiser(encoder predIx of the last frame), "
                "encoder pred_prev_Q13 = decoder's whenever a side signal is coded, mid-only flag, PER/LTP/scale indices and re-derived LTPCoef_Q14 / LTP_scale_Q14 on both "
                "channels; silk_stereo_LR_to_MS leaves codable indices and goes on with exactly the dequantised predictors (or zero at zero width) (C18 clauses: VIOLATION). silk_stereo_MS_to_LR samples and state, the encoder's mid / residual-side samples with the cross-faded width (second half of silk_stereo_LR_to_MS), its width / mid-only / silent-side bookkeeping, silk_log2lin / silk_lin2log, the cumulative-gain chain, the encoder's chosen "
                "indices and the decoder's state rules on loss / mono packets are bound by exact equality at SPEC-DRIFT level."),
    level_note=("Growth module. Not modelled: silk_stereo_find_predictor and the width / rate heuristics of silk_stereo_LR_to_MS (which predictors, which width: encoder free; the model takes the state the call leaves behind as given and checks the integer rules that connect it), "
                "silk_VQ_WMat_EC's search (which vector), the LTP scale decision of silk_LTP_scale_ctrl, the side-channel reset inside silk_Decode when "
                "prev_decode_only_middle (not observable after the packet). The cumulative-gain bound is a theorem about the hard-constraint reading only. "
                "Trusted: TLC, Json module, the RFC table copy typed from the pinned tree."),
)
