"""G09 - growth module `Energy`: CELT band-energy quantisation (celt/quant_bands.c: coarse / fine / final bits, both roles) and the
energy state encoder and decoder carry from frame to frame (celt_decoder.c / celt_encoder.c: oldEBands, oldLogE, oldLogE2,
backgroundLogE, energyError, delayedIntra, recovery after loss, noise-PLC decay) - modules Energy (EXTENDS FrameHdr), Energy_mc,
EnergyTrace; harness/energy.c.  Fixed-point build (celt_glog = Q24 integer), so the model is exact.

A disagreement between the model's values and the code is SPEC-DRIFT (printed, exit 0).  Decided at the level of a listed property:
  * C02 ("decodes in lock-step with the encoder"): the decoder's band energies differ from the encoder's AND the final ranges differ
    (the range coder lost lock-step inside the energy symbols), or the decoder's range coder reports an error on an encoder-made packet;
  * C01/C02 ("no call ever fails / memory-safe"): the harness aborts (sanitizer / assertion) inside the energy code or the codec.
Those are VIOLATIONs (the detail line names the property).  The one-bit-tier deviation (findings/OBS_g02_coarse_one_bit_tier.c) and the
missing upper clamp of the encoder are modelled as what the code does and named (OneBitTierDeviation, UpperClampDeviation)."""
import json, os, random, re
import vf

LEVEL = "model_checking"

TIERS = {
    "quick": dict(mc_cfg="Energy_mc_quick.cfg", mc_timeout=600, situ=40, situ_san=4, npk=20, plan=400, rand=300, chunks=14, tlc_timeout=900),
    "thorough": dict(mc_cfg="Energy_mc_thorough.cfg", mc_timeout=2400, situ=600, situ_san=40, npk=30, plan=6000, rand=5000, chunks=16, tlc_timeout=2400),
}
Q = 1 << 24
REQUIRED_REGIMES = ["tier15", "tier2", "tier1", "tier0", "onebit_deviation", "clamped_by_budget", "laplace_clamp", "fine_bits", "final_bits"]
C02_THEOREMS = {"Mirror": "decoding the symbols the encoder role codes does not reproduce its energies outside the named deviations",
                "Alphabet": "the encoder role codes a coarse symbol outside the alphabet of its budget tier"}


def lib_defines(var, src="quant_bands"):
    txt = open(os.path.join(var["dir"], "build.ninja")).read()
    m = re.search(r"build CMakeFiles/opus\.dir/celt/%s\.c\.o:.*?\n((?:  .*\n)+)" % src, txt)
    if not m:
        raise vf.Infra("cannot find the compile rule of celt/%s.c in build.ninja" % src)
    d = re.search(r"DEFINES = (.*)", m.group(1))
    defs = d.group(1).split() if d else []
    return [x for x in defs if not x.startswith("-D_FORTIFY") and x != "-DHAVE_CONFIG_H"]


def build(variant):
    var = vf.build_variant(variant)
    return vf.build_hx(var, "energy.c", out="energy", extra=lib_defines(var))


# ---------------------------------------------------------------------------------------------- inputs
def tile(vals, start, end, C, jitter=0, rng=None):
    out = [0] * 42
    for c in range(C):
        for i in range(start, end):
            v = (vals[(i - start + c) % len(vals)] - 112) * (Q // 4) + c * 1234567
            if jitter and rng:
                v += rng.randrange(-jitter, jitter + 1)
            out[i + 21 * c] = v
    return out


def qline(C, LM, start, end, force, twopass, ln, pre, nbav, lfe, lossrate, dI, seed, fq, pr, eb, old):
    return "Q %d %d %d %d %d %d %d %d %d %d %d %d %d | %s | %s | %s | %s" % (
        C, LM, start, end, force, twopass, ln, pre, nbav, lfe, lossrate, dI, seed, " ".join(map(str, fq)), " ".join(map(str, pr)),
        " ".join(map(str, eb)), " ".join(map(str, old)))


_re_plan = re.compile(r'^"PLAN <<([^>]*)>> \| <<([^>]*)>> \| <<([^>]*)>> \| <<([^>]*)>> \| <<\{([^}]*)\}, (\w+), (\w+), (\w+), (\w+), (\w+), (\w+)>>"$')


def plan_cases(rng, prints, limit, regimes):
    pts = []
    for p in prints:
        m = _re_plan.match(p)
        if not m:
            continue
        head = tuple(int(x) for x in m.group(1).split(","))
        fq = tuple(int(x) for x in m.group(2).split(","))
        xs = tuple(int(x) for x in m.group(3).split(","))
        olds = tuple(int(x) for x in m.group(4).split(","))
        tiers = set(int(x) for x in m.group(5).split(",") if x.strip())
        flags = [m.group(i) == "TRUE" for i in range(6, 12)]
        for t in tiers:
            regimes.add("tier%d" % t)
        for name, f in zip(("onebit_deviation", "upper_clamp_deviation", "clamped_by_budget", "final_bits", "fine_bits", "laplace_clamp"), flags):
            if f:
                regimes.add(name)
        pts.append((head, fq, xs, olds, flags[0]))
    pts = sorted(set(pts))
    dev = [p for p in pts if p[4]]
    rest = [p for p in pts if not p[4]]
    if len(dev) > limit // 4:
        dev = sorted(rng.sample(dev, limit // 4))
    if len(rest) > limit - len(dev):
        rest = sorted(rng.sample(rest, limit - len(dev)))
    cases = []
    for (C, LM, start, end, intra, tell0, gap, lfe, left), fq, xs, olds, _ in dev + rest:
        extra = rng.choice([0, 0, 1, 3])
        ln = max(1, (gap + 1 + 7) // 8) + extra
        pre = 8 * ln - 1 - gap
        wide = rng.random() < 0.5
        e2 = end if not wide else (21 if start == 0 else rng.choice([19, 21]))
        if lfe:
            e2 = end
        fql = [0] * 21
        for i in range(start, e2):
            fql[i] = fq[(i - start) % len(fq)]
        pr = [(i + gap) % 2 for i in range(21)]
        jit = rng.choice([0, 0, Q // 3])
        cases.append(qline(C, LM, start, e2, intra, 0, ln, pre, ln, lfe, 0, 0, rng.randrange(1, 1 << 30), fql, pr,
                           tile(xs, start, e2, C, jit, rng), tile(olds, start, e2, C, jit, rng)))
        if rng.random() < 0.3:     # the same point through the two-pass choice
            cases.append(qline(C, LM, start, e2, 0, 1, ln, pre, ln, lfe, rng.choice([0, 5, 20]), rng.choice([0, 3, 90]), rng.randrange(1, 1 << 30), fql, pr,
                               tile(xs, start, e2, C, jit, rng), tile(olds, start, e2, C, jit, rng)))
    return cases, len(pts)


def random_cases(rng, n):
    out = []
    for _ in range(n):
        C = rng.choice([1, 2]); LM = rng.randrange(4)
        start, end = rng.choice([(0, 21), (0, 21), (0, 13), (0, 17), (0, 19), (17, 19), (17, 21), (0, 3), (5, 9)])
        ln = rng.choice([1, 2, 3, 4, 6, 10, 20, 40, 80, 200])
        pre = rng.choice([0, 0, rng.randrange(0, 8 * ln), max(0, 8 * ln - 1 - rng.randrange(0, 40))])
        shape = rng.choice(["flat", "rand", "fall", "low", "high"])
        eb = [0] * 42; old = [0] * 42
        base = rng.uniform(-10, 12)
        for c in range(C):
            for i in range(start, end):
                if shape == "flat": v = base + rng.uniform(-0.6, 0.6)
                elif shape == "rand": v = rng.uniform(-20, 20)
                elif shape == "fall": v = base - 1.3 * (i - start) + rng.uniform(-1, 1)
                elif shape == "low": v = rng.uniform(-28, -12)
                else: v = rng.uniform(10, 24)
                eb[i + 21 * c] = int(max(-31.9, min(31.9, v)) * Q)
                o = rng.choice([v + rng.uniform(-2, 2), rng.uniform(-28.7, 28.7), -28.0, 0.0])
                old[i + 21 * c] = int(max(-28.7, min(28.7, o)) * Q)
        fq = [rng.choice([0, 0, 1, 2, 3, 5, 8]) if start <= i < end else 0 for i in range(21)]
        pr = [rng.randrange(2) for _ in range(21)]
        lfe = 1 if (C == 1 and start == 0 and rng.random() < 0.1) else 0
        out.append(qline(C, LM, start, end, rng.choice([0, 0, 1]), rng.choice([0, 1, 1]), ln, pre, rng.choice([ln, ln, 2, 200]), lfe,
                         rng.choice([0, 0, 10, 40]), rng.choice([0, 0, 10, 100, 5000]), rng.randrange(1, 1 << 30), fq, pr, eb, old))
    return out


def situ_commands(rng, n, npk):
    cmds = []
    for _ in range(n):
        C = rng.choice([1, 2]); CC = rng.choice([C, 2]); LM = rng.randrange(4)
        start = rng.choice([0, 0, 17]); end = rng.choice([21, 21, 19, 17, 13]) if start == 0 else rng.choice([19, 21])
        vbr = rng.choice([0, 0, 0, 24, 64]) if start == 0 else 0
        regime = rng.choice(["tiny", "small", "mid", "mix", "mix", "big"])
        pk = []
        burst = 0
        for k in range(npk):
            if regime == "tiny": ln = rng.randrange(2, 9)
            elif regime == "small": ln = rng.randrange(6, 40)
            elif regime == "mid": ln = rng.randrange(30, 160)
            elif regime == "big": ln = rng.randrange(150, 700)
            else: ln = rng.choice([2, 3, 5, 8, 12, 20, 40, 80, 160, 400])
            pre = 0
            if start == 17:
                pre = rng.choice([0, rng.randrange(0, 8 * ln), max(0, 8 * ln - 1 - rng.randrange(0, 48)), max(0, 8 * ln - 1 - rng.randrange(0, 4))])
            sig = rng.choice([0, 1, 2, 2, 2, 3, 4, 5, 6, 7]) if k % 7 else rng.choice([0, 3, 4])
            if burst > 0:
                how = 1; burst -= 1
            else:
                how = rng.choice([0, 0, 0, 0, 0, 0, 1, 2, 3])
                if how == 1 and rng.random() < 0.4:
                    burst = rng.randrange(1, 12)
            pk += [ln, pre, sig, how]
        cmds.append("X %d %d %d %d %d %d %d %d %d | %s" % (rng.randrange(1, 1 << 30), C, CC, LM, start, rng.choice([0, 2, 5, 10]), vbr, end,
                                                          rng.choice([0, 0, 10, 30]), " ".join(map(str, pk))))
    return cmds


# ---------------------------------------------------------------------------------------------- execution
def run_lines(ctx, exe, cmd, lines, tag):
    inp = ctx.path("in_%s.txt" % tag); outp = ctx.path("o_%s.ndjson" % tag)
    with open(inp, "w") as f:
        f.write("\n".join(lines) + "\n")
    rc, err = vf.run_hx(exe, [cmd], outp, stdin_path=inp, timeout=2400)
    if rc != 0:
        # which line was being executed: the one after the last complete record
        done = set()
        with open(outp, "rb") as f:
            for ln in f.read().decode("utf-8", "replace").splitlines():
                try:
                    done.add(json.loads(ln).get("cmd"))
                except ValueError:
                    pass
        cur = next((x for x in lines if x not in done), lines[-1])
        ctx.violation("clause of C01 / C02 broken (no call may abort / fail with an internal error): hx_energy %s aborted rc=%d (sanitizer or "
                      "assertion inside the energy code / the codec) on: %s\n%s" % (cmd, rc, cur[:300], err[-1500:]), replay_text=cur)
        with open(outp, "rb") as f:
            data = f.read()
        data = data[:data.rfind(b"\n") + 1]
        with open(outp, "wb") as f:
            f.write(data)
    os.remove(inp)
    return outp


def explain(ctx, trace_path, what):
    r = vf.tlc("EnergyTrace", "EnergyTraceExplain.cfg", workers=1, env={"TRACE": trace_path}, timeout=1700, heap="3g",
               tag="G09x_" + what.replace(" ", "_") + os.path.basename(trace_path))
    if r.error or r.violation:
        raise vf.Infra("%s: explain run failed: %s" % (what, r.error or r.violation))
    ctx.add_tlc(r, "explain " + what)
    res = {}
    for p in r.prints:
        m = re.match(r'^"WHY (\d+) prop \{(.*?)\} model \{(.*)\}"$', p)
        if m:
            res[int(m.group(1))] = (re.findall(r'\\"([^\\]+)\\"', m.group(2)), re.findall(r'\\"([^\\]+)\\"', m.group(3)))
    return res


def census(ctx, trace_path, cov):
    r = vf.tlc("EnergyTrace", "EnergyTraceCensus.cfg", workers=4, env={"TRACE": trace_path}, timeout=1700, heap="3g", tag="G09c_" + os.path.basename(trace_path))
    if r.error or r.violation:
        raise vf.Infra("census run failed: %s" % (r.error or r.violation))
    ctx.add_tlc(r, "census of named deviations")
    for p in r.prints:
        if p.startswith('"DEV '):
            if " onebit" in p:
                cov["onebit_deviation_packets"] = cov.get("onebit_deviation_packets", 0) + 1
                if " differ" in p:
                    cov["onebit_deviation_energies_differ"] = cov.get("onebit_deviation_energies_differ", 0) + 1
            if " hi" in p:
                cov["upper_clamp_deviation_packets"] = cov.get("upper_clamp_deviation_packets", 0) + 1


def rerun_names(ctx, exe, ev):
    cmd = ev.get("cmd", "")
    if not cmd or cmd[0] not in "QX":
        return None
    outp = ctx.path("rr_out.ndjson"); inp = ctx.path("rr_in.txt")
    with open(inp, "w") as f:
        f.write(cmd + "\n")
    rc, err = vf.run_hx(exe, ["situ" if cmd[0] == "X" else "cases"], outp, stdin_path=inp, timeout=900)
    if rc != 0:
        return None
    keep = ctx.path("rr_one.ndjson")
    n = 0
    with open(outp) as f, open(keep, "w") as g:
        for ln in f:
            e = json.loads(ln)
            if e.get("k") == ev.get("k") and (cmd[0] == "Q" or e.get("f") == ev.get("f")):
                g.write(ln); n += 1
    if n != 1:
        return ([], [])
    return explain(ctx, keep, "rerun").get(1, ([], []))


def judge(ctx, exe, trace_path, what, rerun=True):
    n = vf.count_lines(trace_path)
    if n == 0:
        return 0
    c = TIERS[ctx.tier]
    nparts = max(1, min(c["chunks"], n // 20 + 1))
    rej, total = vf.validate_cases(ctx, "EnergyTrace", "EnergyTrace.cfg", trace_path, "G09 " + what, nparts=nparts, timeout=c["tlc_timeout"], heap="3g")
    bad = shown = 0
    for p, ln, tr in rej:
        why = explain(ctx, p, what)
        if ln not in why:
            raise vf.Infra("%s: TLC rejected line %d of %s but the explain run does not" % (what, ln, p))
        bad += len(why)
        order = sorted(why, key=lambda k: (0 if why[k][0] else 1, k))
        for k in order[:2]:
            if shown >= 8:
                break
            shown += 1
            props, models = why[k]
            ev = json.loads(vf.file_line(p, k))
            if rerun:
                again = rerun_names(ctx, exe, ev)
                if again is not None and (sorted(again[0]) != sorted(props) or sorted(again[1]) != sorted(models)):
                    raise vf.Infra("%s: rejection not repeatable for %s (first %s / %s, then %s / %s)" % (what, ev.get("cmd", "")[:200], props, models, again[0], again[1]))
            report(ctx, props, models, ev, vf.file_line(p, k))
        ctx.notes["rejected_lines"] = ctx.notes.get("rejected_lines", 0) + len(why)
    return total - bad


def report(ctx, props, models, ev, raw):
    cmd = ev.get("cmd", "")
    where = "%s %s #%s frame %s" % (ev.get("k"), cmd[:200], ev.get("ix"), ev.get("f"))
    if props:
        ctx.violation("clause of a listed property broken (%s%s) in: %s" % ("; ".join(props), ("; model also: " + ", ".join(models[:5])) if models else "", where),
                      replay_text=cmd if cmd and cmd[0] in "QX" else raw)
    else:
        ctx.spec_drift("Energy", "recorded values differ from the model (%s) in: %s" % (", ".join(models[:8]), where))


def scan(ctx, trace_path, cov):
    with open(trace_path) as f:
        for ln in f:
            try:
                e = json.loads(ln)
            except ValueError:
                continue
            k = e.get("k")
            if k not in ("pkt", "decB"):
                continue
            cov["lines_" + (e.get("m") or k)] = cov.get("lines_" + (e.get("m") or k), 0) + 1
            uc = e.get("uc", {})
            tiers = []
            for key in ("qc", "uc"):
                c = e.get(key)
                if c and c.get("n") == 1:
                    for s in c["sl"]:
                        ctx.evaluations += 1
                        cov["%s_tier%d" % (key, s[1])] = cov.get("%s_tier%d" % (key, s[1]), 0) + 1
                        tiers.append(s[1])
                    if key == "qc" and len(c["sl"]) > (c["end"] - c["start"]) * c["C"]:
                        cov["two_pass_calls"] = cov.get("two_pass_calls", 0) + 1
            for key in ("qf", "qz", "uf", "uz"):
                c = e.get(key)
                if c and c.get("n") == 1:
                    cov[key + "_bits"] = cov.get(key + "_bits", 0) + len(c["bits"])
                    ctx.evaluations += len(c["bits"])
            if k == "decB":
                cov["decB_how%d" % e["how"]] = cov.get("decB_how%d" % e["how"], 0) + 1
                if e["how"] == 1 and e.get("hasS") == 1:
                    cov["lost_frames_with_state"] = cov.get("lost_frames_with_state", 0) + 1
                    if e["L0"] >= 40 or e["start"] != 0 or e["K0"]:
                        cov["noise_plc_frames"] = cov.get("noise_plc_frames", 0) + 1
                if e["how"] != 1 and e.get("hasS") == 1 and e["L0"] > 0 and uc.get("n") == 1:
                    cov["recovery_frames"] = cov.get("recovery_frames", 0) + 1
            if e.get("hasS") == 1:
                cov["lines_with_state"] = cov.get("lines_with_state", 0) + 1
            if uc.get("n") == 1 or k == "decB":
                ctx.nontrivial.add(hash((k, e.get("C"), e.get("LM"), e.get("start"), e.get("end"), tuple(sorted(set(tiers))), len(tiers),
                                         len(e.get("uf", {}).get("bits", [])), len(e.get("uz", {}).get("bits", [])), e.get("how"), min(e.get("L0", 0), 200) // 8)))
            if len(ctx.samples) < 4 and k == "pkt" and e["qc"].get("n") == 1 and 1 in [s[1] for s in e["qc"]["sl"]]:
                ctx.sample({"mode": e["m"], "cmd": e["cmd"][:100], "len": e["len"], "pre": e["pre"], "budget": e["qc"]["budget"],
                            "coarse_slots_tell_tier_coded_qi": e["qc"]["sl"][:6], "final_ranges_equal": (e["eh"], e["el"]) == (e["dh"], e["dl"])})


def mc_outcome(ctx, r, cfg, what):
    if r.error:
        raise vf.Infra("%s: %s" % (what, r.error))
    ctx.add_tlc(r, what)
    vf.log("[mc] %-44s distinct=%d generated=%d depth=%d %s (%.1fs)" % (what, r.distinct, r.generated, r.diameter,
                                                                       "OK" if r.ok else "VIOLATED " + str(r.violation), r.wall))
    if r.violation:
        st = re.sub(r"\s+", " ", (r.state_dump or r.out)[-2500:])
        if r.violation in C02_THEOREMS:
            ctx.violation("clause of C02 broken on the model: Energy_mc!%s - %s. %s" % (r.violation, C02_THEOREMS[r.violation], st[:1200]),
                          replay_text=json.dumps({"k": "mc", "inv": r.violation, "cfg": cfg}))
        else:
            ctx.spec_drift("Energy", "design theorem Energy_mc!%s does not hold: %s" % (r.violation, st[:700]))
        return False
    return True


def record_and_judge(ctx, exe, exe_o, rng, c, cov, tabline):
    situ = situ_commands(rng, c["situ"], c["npk"])
    groups = [(exe, situ[:c["situ_san"]])] + [(exe_o, situ[c["situ_san"]:][i::8]) for i in range(8)]
    groups = [g for g in groups if g[1]]
    outs = vf.parallel(lambda a: run_lines(ctx, a[1][0], "situ", a[1][1], "situ%d" % a[0]), list(enumerate(groups)), nproc=min(9, len(groups)))
    ts = ctx.path("t_situ.ndjson")
    with open(ts, "w") as fo:
        fo.write(tabline)
        for path in outs:
            fo.write(open(path).read()); os.remove(path)
    scan(ctx, ts, cov)
    ctx.traces += judge(ctx, exe_o, ts, "codec in situ")
    census(ctx, ts, cov)
    os.remove(ts)


def run_cases(ctx, exe, cases, cov, label):
    nch = max(1, min(8, len(cases) // 60))
    outs = vf.parallel(lambda a: run_lines(ctx, exe, "cases", a[1], "%s%d" % (label, a[0])), list(enumerate(cases[i::nch] for i in range(nch))), nproc=nch)
    tp = ctx.path("t_%s.ndjson" % label)
    with open(tp, "w") as fo:
        for path in outs:
            fo.write(open(path).read()); os.remove(path)
    scan(ctx, tp, cov)
    ctx.traces += judge(ctx, exe, tp, label + " cases")
    census(ctx, tp, cov)
    os.remove(tp)


def tables_line(ctx, exe):
    tab = ctx.path("tab.ndjson")
    rc, err = vf.run_hx(exe, ["tables"], tab, timeout=120)
    if rc != 0 or vf.count_lines(tab) != 1:
        raise vf.Infra("table export failed rc=%d %s" % (rc, err[-500:]))
    return open(tab).read()


def run(ctx):
    c = TIERS[ctx.tier]
    ctx.rule = ("TLC checks the Energy design theorems on a slice (3 bands from band 0 and band 17, a grid of band / previous energies, budgets around "
                "every tier boundary, symbol-cost policies, intra / inter, LM, C 1..2, lfe; the state machine of one band over decoded frames and "
                "losses): DomainClosed (no 32-bit intermediate overflows), Mirror (decoder energies after coarse + fine + final = encoder's outside "
                "OneBitTierDeviation / UpperClampDeviation), OneBitShape, Ranges, FineBits, ErrorShrinks, Alphabet, StateRange, BackgroundSlow, "
                "LossDecays; a witness run must refute Mirror without the exception.  hx_energy - the tree's celt/quant_bands.c compiled into the "
                "harness with logging wrappers around the range-coder calls, everything else from libopus.a (fixed-point build) - records every "
                "energy call while real CELT encoders / decoders process synthetic audio (a second decoder loses / gets damaged packets; the four "
                "state arrays of decoder and encoder are read after every packet) and while the real functions run in both roles on TLC's plan "
                "points and seeded random inputs; EnergyTrace judges each line.  evaluations = coarse slots and fine / final bits judged; "
                "non-trivial = distinct (kind, C, LM, band range, set of tiers, numbers of slots / fine / final bits, loss kind, loss_duration / 8)")
    ctx.assumptions = ["TLC and the CommunityModules Json module are trusted",
                       "gcc's >> of a negative int is an arithmetic shift and int64 -> int32 conversion wraps (the model floors / wraps)",
                       "the static tables and quant_coarse_energy_impl are observed by compiling celt/quant_bands.c of the tree under test into the "
                       "harness with the library's own -D flags; the copy replaces quant_bands.o for the whole codec linked from libopus.a",
                       "the energy state is read through the pointer the codec passes as oldEBands and the array order stated in celt_decoder.c / "
                       "celt_encoder.c (a different layout shows as a state-update disagreement on every packet)",
                       "fixed-point build only (hkfix / hkfixo); the float build's energies are not bound by this module",
                       "the implementation is exercised on TLC's plan sample and on seeded inputs, not on every input"]
    if ctx.replay:
        return replay(ctx)
    exe = build("hkfix")
    try:
        exe_o = build("hkfixo")
    except vf.Infra:
        exe_o = exe
    rng = random.Random(ctx.seed * 7919 + 9)
    cov = {}
    tabline = tables_line(ctx, exe)

    from concurrent.futures import ThreadPoolExecutor
    pool = ThreadPoolExecutor(max_workers=2)
    mc_future = pool.submit(vf.tlc, "Energy_mc", c["mc_cfg"], workers=8, timeout=c["mc_timeout"], deadlock=True, heap="8g")
    w_future = pool.submit(vf.tlc, "Energy_mc", "Energy_mc_w_strict.cfg", workers=2, timeout=600, deadlock=True, heap="3g")

    record_and_judge(ctx, exe, exe_o, rng, c, cov, tabline)

    r = mc_future.result()
    regimes = set()
    if mc_outcome(ctx, r, c["mc_cfg"], "Energy theorems (%s)" % c["mc_cfg"]):
        cases, npts = plan_cases(rng, r.prints, c["plan"], regimes)
        missing = [x for x in REQUIRED_REGIMES if x not in regimes]
        if missing:
            raise vf.Infra("Energy_mc never visited the regimes %s (vacuous model run)" % missing)
        if not cases:
            raise vf.Infra("Energy_mc printed no plan line")
        ctx.notes["regimes_visited_by_the_model"] = sorted(regimes)
        ctx.notes["plan_points"] = npts
        run_cases(ctx, exe, cases, cov, "plan")
        ctx.exhaustive = True
        ctx.notes["exhaustive_scope"] = "model side: the grid of %s; implementation side: a sample of those points and seeded inputs" % c["mc_cfg"]
    run_cases(ctx, exe, random_cases(rng, c["rand"]), cov, "random")
    w = w_future.result()
    if w.error:
        raise vf.Infra("witness run: %s" % w.error)
    ctx.add_tlc(w, "witness Mirror without the named deviations")
    if w.violation != "Mirror":
        raise vf.Infra("witness run: expected TLC to refute Mirror with Strict = TRUE (got %s)" % w.violation)
    ctx.notes["witnesses_refuted"] = ["Mirror with Strict = TRUE: in the one-bit tier the encoder goes on with qi <= -2 while the decoder reconstructs -1 "
                                      "(findings/OBS_g02_coarse_one_bit_tier.c)"]
    ctx.notes["recorded"] = cov
    if not ctx.violations:
        for k in ("lines_situ", "lines_pair", "lines_decB", "qc_tier15", "qc_tier2", "qc_tier1", "qc_tier0", "uc_tier15", "uc_tier2", "uc_tier0",
                  "qf_bits", "qz_bits", "uf_bits", "uz_bits", "two_pass_calls", "lost_frames_with_state", "noise_plc_frames", "recovery_frames",
                  "decB_how2", "decB_how3", "lines_with_state", "onebit_deviation_packets"):
            if cov.get(k, 0) == 0:
                raise vf.Infra("nothing recorded for " + k)


def replay(ctx):
    exe = build("hkfix")
    with open(ctx.replay) as f:
        lines = [ln.strip() for ln in f if ln.strip()]
    cov = {}
    ctx.states = max(ctx.states, 1); ctx.transitions = max(ctx.transitions, 1)
    for kind, pre in (("cases", "Q "), ("situ", "X ")):
        ls = [ln for ln in lines if ln.startswith(pre)]
        if ls:
            path = run_lines(ctx, exe, kind, ls, "replay_" + kind)
            scan(ctx, path, cov)
            ctx.traces += judge(ctx, exe, path, "replay " + kind, rerun=False)
    for ln in lines:
        if not ln.startswith("{"):
            continue
        try:
            e = json.loads(ln)
        except ValueError:
            continue
        if e.get("k") == "mc":
            cfg = e.get("cfg", "Energy_mc_quick.cfg")
            r = vf.tlc("Energy_mc", cfg, workers=8, timeout=2400, deadlock=True, heap="8g")
            ctx.evaluations += 1
            mc_outcome(ctx, r, cfg, "replay Energy theorems")
        else:
            p = ctx.path("replay_line.ndjson")
            with open(p, "w") as f:
                f.write(ln + "\n")
            scan(ctx, p, cov)
            ctx.evaluations += 1
            ctx.traces += judge(ctx, exe, p, "replay line", rerun=False)
    if not ctx.nontrivial:
        ctx.nontrivial_count = 1
    if ctx.evaluations == 0:
        raise vf.Infra("replay file holds nothing to execute")


META = dict(
    engine="Energy+FrameHdr",
    technique=("TLA+ model (exact Q24 integer transcription, fixed-point build) of CELT coarse / fine / final energy quantisation in both roles with the "
               "coded symbols and ec_tell as an oracle, and of the frame-to-frame energy state of decoder and encoder incl. loss; TLC checks mirror / "
               "range / overflow / bit-budget / background / decay theorems on a slice and prints plan points; the tree's quant_bands.c compiled "
               "into the harness with logging wrappers records every energy call and the state arrays of real CELT encoders / decoders; TLC "
               "judges every recorded line"),
    level_text=("TLC proves on the model: no 32-bit intermediate of the encoder overflows for energies in [-32, 32]; decoding the coded symbols "
                "reproduces the encoder's energies through coarse, fine and final bits in every budget tier except the two named deviations "
                "(one-bit tier without lower clamp; encoder without upper clamp); energies stay in [-28, 28] after coarse and within 3/4 of a step "
                "of that afterwards; fine / final bits never exceed fine_quant / bits_left, priority 0 before 1; residual error shrinks; background "
                "energy rises by at most min(160, loss_duration + M) * 0.001 per frame; energies never rise during loss and fall by 0.5 per frame "
                "down to the background in the noise PLC.  TLC then judges every recorded call and state transition of real executions."),
    level_note=("Growth module: exact-value disagreement is SPEC-DRIFT; energies differing together with the final range, a decoder coder error on an "
                "encoder-made packet or an abort are VIOLATIONs naming C02 / C01.  The intra/inter choice at equal badness, isTransient and silence "
                "are free in the model (existentially matched).  Not modelled: amp2Log2, the float build, anti_collapse, the Opus-level wrapper."),
)
