"""G10 - growth module SilkEncCtl: the SILK encoder's control and rate-bookkeeping state machine (silk/enc_API.c silk_Encode,
control_codec.c, control_audio_bandwidth.c, check_control_input.c, control_SNR.c) - modules SilkEncCtl, SilkEncCtl_mc,
SilkEncCtlTrace; harness/silkencctl.c."""
import json, os, random, re
import vf

LEVEL = "model_checking"

AUTO = -1000
# tags of model transitions / situations the executions must really have shown (vacuity guard)
REQUIRED_TAGS = {"init", "idle", "hold", "goingDown", "readyDown", "down", "readyUp", "up", "clamp", "mid", "stereo", "mono",
                 "prefill1", "prefill2", "half", "multi", "dtxZero", "reservoirFull", "reservoirMid", "lbrrBits", "lbrrOn",
                 "toMono", "toStereo", "midOnly", "readyTwice", "cbr", "allowed", "rampUpDone", "ckLegal", "ckIllegal",
                 "oSilk", "oSilkOnly", "oHybrid", "oStereo", "oMono", "oMulti", "oRateChange", "oMaxBwBinds", "oForcedChBinds",
                 "oDtxPacket", "oLbrr", "oSwitchReady", "oTransition", "oReset"}

WITNESSES = [("SilkEncCtl_mc_w_NoDown.cfg", "NoDown"), ("SilkEncCtl_mc_w_NoUp.cfg", "NoUp"), ("SilkEncCtl_mc_w_NoClamp.cfg", "NoClamp"),
             ("SilkEncCtl_mc_w_NoStereoToMono.cfg", "NoStereoToMono")]


# ---------------------------------------------------------------------------------------------------------------
# behaviours

def from_tlc(ctx, cfg, rng, keep):
    """control schedules enumerated by TLC (SilkEncCtl_mc, InitB/NextG) -> direct plan lines"""
    r = vf.tlc("SilkEncCtl_mc", cfg, workers=2, timeout=900)
    if r.error:
        raise vf.Infra("SilkEncCtl gen: " + r.error)
    ctx.add_tlc(r, "gen SilkEncCtl_mc/" + cfg)
    scheds = []
    for m in re.finditer(r'"SCHED <<(\d+), <<(.*)>>>>"\s*$', r.out, re.M):
        ops = re.findall(r'<<\\"(\w+)\\", (\d+)>>', m.group(2))
        scheds.append((int(m.group(1)), [(k, int(v)) for k, v in ops]))
    if not scheds:
        raise vf.Infra("SilkEncCtl gen emitted no schedule")
    scheds.sort()
    n = len(scheds)
    if n > keep:
        scheds = rng.sample(scheds, keep)
    lines = []
    for api, ops in scheds:
        toks = ["api=%d" % api, "na=2", "pa=1", "fec=1", "lo=10", "c%s3" % rng.choice("vm")]
        for k, v in ops:
            if k == "pf":
                toks.append("p%d" % v)
            elif k == "ni":
                toks.append("ni=%d" % v)
            else:
                toks.append("%s=%d" % (k, v))
            toks.append("c%s%d" % (rng.choice("vvmns"), rng.choice([2, 3, 5])))
        lines.append("D %d | %s" % (rng.randrange(1, 1 << 30), " ".join(toks)))
    return lines, n


CK_GRID = dict(api=[8000, 12000, 16000, 24000, 32000, 44100, 48000, 0, 11025, 96000, -8000], des=[8000, 12000, 16000, 0, 24000, 10000],
               max=[8000, 12000, 16000, 24000, 0], min=[8000, 12000, 16000, 4000, 0], ms=[10, 20, 40, 60, 0, 5, 30, 80, 100, 120, -20],
               lo=[0, 1, 50, 100, 101, -1, 255], cx=[0, 1, 5, 10, 11, -1], fec=[0, 1, 2, -1], dtx=[0, 1, 2, -1], cbr=[0, 1, 2, -1],
               na=[1, 2, 0, 3], ni=[1, 2, 0, 3])


def check_plans(rng, n_random):
    """check_control_input over a one-field-at-a-time grid, the rate-ordering triples, and random structures"""
    L = []
    toks = []
    for f, vals in sorted(CK_GRID.items()):
        for v in vals:
            toks += ["%s=%d" % (f, v), "k"]
        toks += ["%s=%d" % (f, dict(api=48000, des=16000, max=16000, min=8000, ms=20, lo=0, cx=5, fec=0, dtx=0, cbr=0, na=2, ni=1)[f])]
    L.append("D 1 | na=2 " + " ".join(toks))
    toks = []
    for mn in (8000, 12000, 16000):
        for de in (8000, 12000, 16000):
            for ma in (8000, 12000, 16000):
                toks += ["min=%d" % mn, "des=%d" % de, "max=%d" % ma, "k"]
    for na in (1, 2):
        for ni in (1, 2):
            toks += ["min=8000 des=16000 max=16000 na=%d ni=%d k" % (na, ni)]
    L.append("D 2 | " + " ".join(toks))
    for i in range(n_random):
        toks = []
        for _ in range(12):
            for f in rng.sample(sorted(CK_GRID), 3):
                toks.append("%s=%d" % (f, rng.choice(CK_GRID[f])))
            toks.append("k")
        L.append("D %d | %s" % (3 + i, " ".join(toks)))
    return L


def directed_direct(tier, rng):
    L = []
    sd = lambda: rng.randrange(1, 1 << 30)
    th = tier == "thorough"
    apis = [48000, 16000, 24000] if th else [48000, 16000]
    # A. the bandwidth-switching machine end to end under the Opus protocol: down through the full ramp (128 frames at double
    #    speed; permission needs low activity), up through 256 frames, forced (clamp) moves, a reversal in mid-ramp
    for api in apis:
        for ni in (1, 2):
            for ms in ([20, 10, 40, 60] if th else ([20, 40] if ni == 1 else [20])):
                per = max(1, ms // 20)
                n_dn, n_up = 150 // per + 6, 270 // per + 6
                L.append("D %d | api=%d na=2 ni=%d ms=%d pa=1 br=%d cv4 des=12000 cn%d cv3 des=8000 cs%d cv3 des=16000 cn6 cv%d cn4 cv3 "
                         "des=8000 cn40 des=16000 cn8 cv30 max=8000 des=8000 cv3 max=16000 des=16000 cn8 cv4 min=16000 cv3 min=8000 cv2" % (
                             sd(), api, ni, ms, rng.choice([16000, 24000, 32000]), n_dn, n_dn, n_up))
    # B. rate bookkeeping: bitrate walks 6-80 kb/s x packet sizes x CBR/VBR x tight and generous caps (reservoir, targets, maxBits split)
    for ni in (1, 2):
        for ms in (10, 20, 40, 60):
            for cbr in (0, 1):
                walk = " ".join("br=%d c%s%d" % (b, rng.choice("vm"), 3) for b in [6000, 8000, 12000, 20000, 32000, 50000, 80000, 24000, 9000])
                L.append("D %d | na=2 ni=%d ms=%d cbr=%d %s mb=%d %s" % (sd(), ni, ms, cbr, walk, rng.choice([400, 800, 1600]), walk))
    # the reservoir: a cap far above the target lets the coder overshoot (fills to 10000), silence empties it
    for ms in (20, 40, 60, 10):
        L.append("D %d | ms=%d br=6000 mb=8000 cw40 cs20 br=40000 cv5 br=6000 cm30 cs10" % (sd(), ms))
        L.append("D %d | na=2 ni=2 ms=%d br=8000 mb=9000 cw40 cs20 cm30" % (sd(), ms))
    # C. LBRR: on/off, loss walks (gain increases), with multi-frame packets; DTX with silence (zero-byte packets, refresh)
    for ni in (1, 2):
        for ms in (20, 40, 60, 10):
            L.append("D %d | na=2 ni=%d ms=%d br=24000 fec=1 lo=5 lb=1 cv6 lo=25 cv4 lo=60 cv3 lb=0 cv3 lb=1 lo=100 cv4 lo=0 lb=0 fec=0 cv2" % (sd(), ni, ms))
            L.append("D %d | na=2 ni=%d ms=%d br=16000 dtx=1 cv5 cs%d cv3 av=0 cv6 cm%d av=1 cv3 dtx=0 cs14" % (sd(), ni, ms, 1400 // ms, 700 // ms))
    # D. channel transitions, toMono, reduced dependency, prefill 1 / 2 (also in mid-ramp), half frames, API rate change
    for api in apis:
        L.append("D %d | api=%d na=2 ni=2 cw4 cv3 tm=1 cv1 tm=0 ni=1 cv3 ni=2 cv3 cm4 rd=1 cv2 rd=0 p1 cv3 p2 cv3 ni=1 p2 cv2 des=8000 pa=1 cn30 p2 cn20 p1 cv3" % (sd(), api))
        L.append("D %d | api=%d hv hv cv2 hv hv hm des=8000 hm cv2 ms=40 cv2 ms=20 hv api=%d hv cv3" % (sd(), api, 16000 if api != 16000 else 48000))
        L.append("D %d | api=%d na=2 ni=2 pa=1 br=30000 cw3 des=12000 cs160 cv3 des=16000 cs10 cw3 cv280 cs3" % (sd(), api))
    for cx in range(11):
        L.append("D %d | cx=%d cv2 ni=2 na=2 des=%d cv2" % (sd(), cx, rng.choice([8000, 12000])))
    return L


def random_direct(n, rng):
    L = []
    for _ in range(n):
        toks = ["api=%d" % rng.choice([48000, 48000, 16000, 24000, 8000, 12000]), "na=2", "pa=%d" % rng.choice([1, 1, 1, 0])]
        for _ in range(rng.randrange(8, 26)):
            u = rng.random()
            if u < 0.12:
                toks.append("des=%d" % rng.choice([8000, 12000, 16000]))
            elif u < 0.17:
                m = rng.choice([8000, 12000, 16000, 16000]); toks += ["max=%d" % m, "des=%d" % rng.choice([x for x in (8000, 12000, 16000) if x <= m])]
            elif u < 0.20:
                toks.append(rng.choice(["min=16000 des=16000 max=16000", "min=8000"]))
            elif u < 0.28:
                toks.append("ni=%d" % rng.choice([1, 2]))
            elif u < 0.36:
                toks.append("ms=%d" % rng.choice([10, 20, 20, 40, 60]))
            elif u < 0.46:
                toks.append("br=%d" % rng.choice([6000, 7000, 9000, 12000, 16000, 24000, 32000, 48000, 80000]))
            elif u < 0.50:
                toks.append("mb=%d" % rng.choice([-1, -1, 300, 600, 1200, 4000, 9000]))
            elif u < 0.55:
                lb = rng.randrange(2); toks.append("fec=%d lo=%d lb=%d" % (lb or rng.randrange(2), rng.choice([1, 5, 20, 50]) if lb else rng.choice([0, 10]), lb))
            elif u < 0.59:
                toks.append("cbr=%d" % rng.randrange(2))
            elif u < 0.63:
                toks.append("dtx=%d" % rng.randrange(2))
            elif u < 0.66:
                toks.append("cx=%d" % rng.randrange(11))
            elif u < 0.69:
                toks.append("av=%d" % rng.choice([-1, 0, 1, 1]))
            elif u < 0.72:
                toks.append(rng.choice(["rd=1", "rd=0", "tm=1", "tm=0", "cs=1"]))
            elif u < 0.76:
                toks.append(rng.choice(["p1", "p2", "p2"]))
            elif u < 0.79:
                toks.append("h%s h%s" % (rng.choice("vms"), rng.choice("vms")))
            else:
                toks.append("c%s%d" % (rng.choice("vvmmsnw"), rng.choice([1, 2, 3, 5, 9, 30])))
        toks.append("cv2")
        L.append("D %d | %s" % (rng.randrange(1, 1 << 30), " ".join(toks)))
    return L


def opus_plans(tier, rng, n_random):
    L = []
    sd = lambda: rng.randrange(1, 1 << 30)
    th = tier == "thorough"
    head = lambda fs, ch, app: "X %d %d %d %d |" % (fs, ch, app, sd())
    fss = [48000, 16000, 24000, 12000, 8000] if th else [48000, 16000]
    QS = [4, 8, 16, 24, 32, 40, 48]
    for fs in fss:
        for ch in (1, 2):
            # speech layer forced, bitrate walk 6-80 kb/s, every duration (SILK-only and hybrid), VOIP / AUDIO, CBR / VBR
            for q in (QS if th else [4, 8, 16, 24, 48]):
                walk = " ".join("br=%d e%s2" % (b, rng.choice("vm")) for b in [6000, 9000, 14000, 24000, 40000, 80000, 20000, 7000])
                L.append("%s fm=1000 q=%d vb=%d %s" % (head(fs, ch, rng.choice([2048, 2049])), q, rng.randrange(2), walk))
            # max bandwidth set before the first frame binds; changed mid-stream it goes through the transition
            for mb in (1101, 1102, 1103):
                L.append("%s fm=1000 mb=%d br=%d ev4 em3 q=16 ev2 q=8 br=9000 ev3 br=40000 ev3" % (head(fs, ch, 2048), mb, rng.choice([16000, 24000])))
            L.append("%s fm=1000 br=24000 bw=1103 ev8 bw=1101 en160 ev4 bw=1103 en12 ev20 mb=1102 en170 ev3 mb=1105 bw=-1000 ev4" % head(fs, ch, 2048))
            # FEC and loss changes, DTX, resets
            L.append("%s fm=1000 fe=1 lo=20 br=32000 ev4 br=14000 ev4 br=9000 ev4 lo=0 ev2 fe=2 lo=8 br=24000 em3 q=16 ev3 q=24 ev3 rs ev3 fe=0 ev2" % head(fs, ch, 2048))
            L.append("%s fm=1000 dx=1 br=20000 cx=5 ev5 es40 ev3 q=16 es20 ev2 q=24 es14 ev2 rs es16 ev2" % head(fs, ch, 2048))
            L.append("%s br=28000 sg=3001 ev4 fm=1002 ev3 fm=1000 ev3 fm=1001 ev3 fm=-1000 br=12000 ev4 br=64000 em4 mx=60 ev3 mx=1500 ev2" % head(fs, ch, 2048))
        # forced channels: before the first frame and mid-stream
        for fc in (1, 2):
            L.append("%s fm=1000 fc=%d br=32000 ev4 q=16 ev3 br=12000 ev3" % (head(fs, 2, 2048), fc))
        L.append("%s fm=1000 br=40000 ev4 fc=1 ev5 fc=2 ev5 fc=-1000 br=10000 ev5 br=48000 ev5 fc=1 ev4 q=16 ev3" % head(fs, 2, 2049))
    for _ in range(n_random):
        fs, ch = rng.choice([48000, 48000, 16000, 24000, 12000, 8000]), rng.choice([1, 2])
        toks = ["fm=%d" % rng.choice([1000, 1000, 1000, AUTO])]
        for _ in range(rng.randrange(6, 20)):
            u = rng.random()
            if u < 0.15:
                toks.append("br=%d" % rng.choice([6000, 8000, 10000, 12000, 16000, 20000, 24000, 32000, 40000, 64000, 80000]))
            elif u < 0.25:
                toks.append("q=%d" % rng.choice(QS))
            elif u < 0.31:
                toks.append("mb=%d" % rng.choice([1101, 1102, 1103, 1104, 1105]))
            elif u < 0.36:
                toks.append("bw=%d" % rng.choice([AUTO, 1101, 1102, 1103, 1104, 1105]))
            elif u < 0.42:
                toks.append("fc=%d" % rng.choice([AUTO, 1, 2][:2 + (ch == 2)]))
            elif u < 0.47:
                toks.append("fe=%d lo=%d" % (rng.randrange(3), rng.choice([0, 3, 10, 30])))
            elif u < 0.51:
                toks.append("vb=%d" % rng.randrange(2))
            elif u < 0.55:
                toks.append("dx=%d" % rng.randrange(2))
            elif u < 0.59:
                toks.append("cx=%d" % rng.choice([0, 3, 5, 7, 10]))
            elif u < 0.62:
                toks.append("mx=%d" % rng.choice([1500, 400, 120, 60]))
            elif u < 0.65:
                toks.append("fm=%d" % rng.choice([1000, 1001, 1002, AUTO]))
            elif u < 0.67:
                toks.append("rs")
            else:
                toks.append("e%s%d" % (rng.choice("vvvmmsnw"), rng.choice([1, 2, 3, 5, 9, 20])))
        toks.append("ev2")
        L.append("%s %s" % (head(fs, ch, rng.choice([2048, 2049])), " ".join(toks)))
    return L


# ---------------------------------------------------------------------------------------------------------------
# running and judging

def run_chunks(ctx, exe, lines, nchunks, tag):
    per = (len(lines) + nchunks - 1) // nchunks
    jobs = []
    for k in range(nchunks):
        part = lines[k * per:(k + 1) * per]
        if not part:
            continue
        ip = ctx.path("%s_plan_%02d.txt" % (tag, k))
        with open(ip, "w") as f:
            f.write("\n".join(part) + "\n")
        jobs.append((k, ip))

    def one(job):
        k, ip = job
        out = ctx.path("%s_trace_%02d.ndjson" % (tag, k))
        rc, err = vf.run_hx(exe, [], out, stdin_path=ip, timeout=3000)
        return k, ip, out, rc, err
    return vf.parallel(one, jobs, nproc=min(10, vf.NCPU))


def validate(ctx, out, what):
    r = vf.tlc("SilkEncCtlTrace", "SilkEncCtlTrace.cfg", workers=1, env={"TRACE": out}, timeout=2400, heap="3g",
               tag=what.replace(" ", "_") + os.path.basename(out))
    if r.error:
        raise vf.Infra("%s: %s" % (what, r.error))
    ctx.add_tlc(r, "trace %s %s" % (what, os.path.basename(out)))
    rej, seen = [], set()
    for m in re.finditer(r'"REJ <<(\d+), \\"(\w+)\\", \{(.*?)\}>>"', r.out):
        rej.append((int(m.group(1)), m.group(2), sorted(re.findall(r'\\"([\w.]+)\\"', m.group(3)))))
    m = re.search(r'"SEEN \{(.*?)\}"', r.out, re.S)
    if m:
        seen = set(re.findall(r'\\"(\w+)\\"', m.group(1)))
    complete = r.violation is None and m is not None
    return rej, seen, complete


def exec_of(out, ip, lineno):
    x = 0
    with open(out) as f:
        for i, ln in enumerate(f, 1):
            if ln.startswith('{"k":"dnew"') or ln.startswith('{"k":"onew"'):
                x = json.loads(ln)["x"]
            if i == lineno:
                break
    return vf.file_line(ip, x) if x else ""


ST = dict(silk_calls=0, opus_packets=0, check_calls=0, rate_changes=0, switch_ready=0)
NPROP = [0]


def stats(ctx, out):
    n = 0
    cur, nt = "", False
    prev_fs = 0
    with open(out) as f:
        for ln in f:
            n += 1
            k = ln[6:8]
            if k == "sc":
                e = json.loads(ln)
                ST["silk_calls"] += 1
                ST["switch_ready"] += e["sr"]
                fs = e["c0"][0]
                if prev_fs and fs != prev_fs:
                    ST["rate_changes"] += 1
                    nt = True
                    if len(ctx.samples) < 4:
                        ctx.sample(dict(cin=e["cin"], pf=e["pf"], out=e["out"], su=e["su"], c0=e["c0"][:30]))
                prev_fs = fs
                if e["sr"] or e["pf"]:
                    nt = True
            elif k == "oe":
                e = json.loads(ln)
                ST["opus_packets"] += 1
                fs = e["c0"][0]
                if prev_fs and fs and fs != prev_fs:
                    ST["rate_changes"] += 1
                    nt = True
                    if len(ctx.samples) < 7:
                        ctx.sample(dict(q=e["q"], r=e["r"], toc=e.get("toc"), sm=e["sm"], su=e["su"], c0=e["c0"][:30]))
                prev_fs = fs or prev_fs
                if e["sm"][21]:
                    nt = True
            elif k == "ck":
                ST["check_calls"] += 1
            elif k in ("dn", "on"):
                cur, nt, prev_fs = ln[:40], False, 0
            elif k == "en":
                ctx.traces += 1
                if nt:
                    ctx.nontrivial.add(os.path.basename(out) + cur)
    ctx.evaluations += n


def judge(ctx, exe, outs, tag):
    seen_all = set()
    drifts = {}
    good = []
    for k, ip, out, rc, err in outs:
        if rc in (-6, -11, -8, -7, -4, 98, 99):
            ctx.violation("property C02 (no call fails with an internal error): hx_silkencctl aborted rc=%d on %s: %s" % (rc, ip, err[-1500:]), replay_src=ip)
        elif rc != 0:
            raise vf.Infra("hx_silkencctl rc=%d on %s: %s" % (rc, ip, err[-800:]))
        else:
            good.append((k, ip, out))

    def val(job):
        k, ip, out = job
        return job, validate(ctx, out, "G10 %s %02d" % (tag, k))
    for (k, ip, out), (rej, seen, complete) in vf.parallel(val, good, nproc=min(10, vf.NCPU)):
        stats(ctx, out)
        seen_all |= seen
        if not complete:
            raise vf.Infra("SilkEncCtlTrace did not consume %s" % out)
        for (ln, cls, names) in rej:
            line = exec_of(out, ip, ln)
            ev = vf.file_line(out, ln)[:600]
            if cls == "prop":
                NPROP[0] += 1
                if len(ctx.violations) >= 5:
                    continue
                rp = ctx.path("rej_%s_%d.txt" % (os.path.basename(ip), ln))
                with open(rp, "w") as f:
                    f.write(line + "\n")
                out2 = rp + ".ndjson"
                rc2, err2 = vf.run_hx(exe, [], out2, stdin_path=rp, timeout=1200)      # R4: once more, alone
                rej2, _, _ = validate(ctx, out2, "G10 recheck") if rc2 == 0 else ([], None, None)
                if rc2 == 0 and not [x for x in rej2 if x[1] == "prop"]:
                    raise vf.Infra("rejection not repeatable: %s line %d %s" % (out, ln, names))
                prop = sorted({n.split(".")[0] for n in names})
                ctx.violation("property %s clause(s) %s rejected by SilkEncCtlTrace at %s line %d: execution [%s] event %s" % (
                    "/".join(prop), names, os.path.basename(out), ln, line[:500], ev), replay_src=rp)
            else:
                drifts.setdefault(tuple(names), []).append((out, ln, line, ev))
    for key, lst in sorted(drifts.items()):
        out, ln, line, ev = lst[0]
        ctx.spec_drift("SilkEncCtl", "%s: %d event(s), first at %s line %d: execution [%s] event %s" % (
            list(key), len(lst), os.path.basename(out), ln, line[:300], ev[:400]))
    return seen_all


def model_checking(ctx):
    tier = ctx.tier
    inv_cfgs = [("SilkEncCtl_mc_tables.cfg", "rule tables (Snr, complexity table, LBRR gain, maxBits split)", 2),
                ("SilkEncCtl_mc_bw.cfg", "bandwidth-switch machine, Opus protocol, closed graph (ramp length abstracted to 8)", 6),
                ("SilkEncCtl_mc_rate_%s.cfg" % tier, "reservoir / targets / maxBits / LBRR / channels / prefill at bounded depth", 8)]
    if tier == "thorough":
        inv_cfgs.append(("SilkEncCtl_mc_bwfree.cfg", "bandwidth-switch machine, arbitrary opusCanSwitch, prefill 2", 8))
    for cfg, what, w in inv_cfgs:
        r = ctx.mc("SilkEncCtl_mc", cfg, what=what, workers=w, timeout=2400, heap="3g")
        if r.violation:
            raise vf.Infra("SilkEncCtl theorem %s violated (%s):\n%s" % (r.violation, cfg, r.state_dump[:3000]))
    r = ctx.mc("SilkEncCtl_mc", "SilkEncCtl_mc_live.cfg", what="liveness: a requested lower rate is eventually reached (WF)", workers=4, timeout=1200, heap="3g")
    if r.violation:
        raise vf.Infra("SilkEncCtl liveness violated:\n%s" % r.state_dump[:3000])

    def wit(w):
        cfg, inv = w
        return w, vf.tlc("SilkEncCtl_mc", cfg, workers=2, timeout=900, heap="2g")
    for (cfg, inv), r in vf.parallel(wit, WITNESSES, nproc=4):
        if r.error:
            raise vf.Infra("witness %s: %s" % (cfg, r.error))
        ctx.add_tlc(r, "witness " + cfg)
        if r.violation != inv:
            raise vf.Infra("witness %s: expected %s to be violated, got %s (vacuous model)" % (cfg, inv, r.violation))
    ctx.notes["witnesses_refuted"] = [w[1] for w in WITNESSES]


def run(ctx):
    tier = ctx.tier
    ctx.rule = ("TLC explores the SilkEncCtl machine (one action per silk_Encode call, an inner step per coded frame, oracles for "
                "everything the signal decides) and proves the step theorems; rule tables over their grids; witnesses refuted; "
                "liveness under WF. TLC-enumerated, directed and seeded random control schedules drive silk_Encode directly and "
                "the real Opus encoder; after every call the private SILK state is read through the structs and judged by "
                "SilkEncCtlTrace (direct calls: exact equality with the model's next state). non-trivial = distinct executions "
                "with an internal-rate change, a switchReady or a prefill call")
    ctx.assumptions = ["TLC 1.8.0 and the CommunityModules Json reader are trusted",
                       "float build; the harness reads silk_encoder / OpusEncoder.silk_mode through the library's own headers and a "
                       "start-up-checked mirror of OpusEncoder's first members",
                       "model conformance is SPEC-DRIFT; only clauses that C02 / C05 / C11 / C20 state raise a VIOLATION",
                       "C11 rate clause: max-bandwidth in force before the first frame; forced channels after three audio packets",
                       "under the Opus encoder the individual silk_Encode calls are not observed: state theorems and tables only"]
    var = vf.build_variant("hko")
    exe = vf.build_hx(var, "silkencctl.c")
    if ctx.replay:
        return replay(ctx, exe)
    model_checking(ctx)
    ctx.exhaustive = True
    ctx.notes["exhaustive_scope"] = ("model side: closed graph of the bandwidth-switch machine under arbitrary single-field control changes; "
                                     "rate bookkeeping at bounded depth; implementation side sampled")
    rng = random.Random(ctx.seed)
    gl, ntlc = from_tlc(ctx, "SilkEncCtl_gen_%s.cfg" % tier, rng, 250 if tier == "quick" else 2500)
    ck = check_plans(rng, 20 if tier == "quick" else 300)
    dl = directed_direct(tier, rng)
    rl = random_direct(120 if tier == "quick" else 2500, rng)
    ol = opus_plans(tier, rng, 60 if tier == "quick" else 1500)
    ctx.notes["executions"] = dict(tlc_generated=ntlc, tlc_replayed=len(gl), check_control=len(ck), directed_direct=len(dl),
                                   random_direct=len(rl), opus=len(ol))
    lines = gl + ck + dl + rl + ol
    rng.shuffle(lines)
    outs = run_chunks(ctx, exe, lines, 10 if tier == "quick" else 20, "o")
    seen = judge(ctx, exe, outs, "hko")
    # a slice under ASan/UBSan + assertions
    var2 = vf.build_variant("hk")
    exe2 = vf.build_hx(var2, "silkencctl.c")
    sl = rng.sample(dl, min(len(dl), 10 if tier == "quick" else 60)) + rng.sample(rl, 20 if tier == "quick" else 200) + \
        rng.sample(ol, min(len(ol), 16 if tier == "quick" else 150)) + ck[:2]
    outs2 = run_chunks(ctx, exe2, sl, 8, "s")
    seen |= judge(ctx, exe2, outs2, "hk")
    ctx.notes["executions"]["asan_slice"] = len(sl)
    ctx.notes["tags_seen"] = sorted(seen)
    ctx.notes["observed"] = ST
    ctx.notes["property_clause_rejections"] = NPROP[0]
    missing = REQUIRED_TAGS - seen
    # whether the random executions drive the reservoir to its upper clamp depends on the seed (coordinator: seeds 1 and 3
    # did not, seed 2 did); in the quick tier its absence is recorded, not fatal
    soft = {"reservoirFull"} if tier == "quick" else set()
    if missing & soft:
        ctx.notes["tags_missing_soft"] = sorted(missing & soft)
        missing -= soft
    if missing:
        ctx.notes["tags_missing"] = sorted(missing)
        if not ctx.violations and not ctx.drift:
            raise vf.Infra("vacuity guard: model transitions never exercised by the executions: %s" % sorted(missing))


def replay(ctx, exe):
    outs = run_chunks(ctx, exe, [ln.rstrip("\n") for ln in open(ctx.replay) if ln[:1] in "DX"], 1, "r")
    judge(ctx, exe, outs, "replay")
    ctx.nontrivial_count = 0 if ctx.nontrivial else 1


META = dict(
    engine="SilkEncCtl",
    technique=("TLA+ state machine of silk_Encode's control and rate bookkeeping (control_encoder, bandwidth-switch machine, setup_fs / "
               "complexity / LBRR, SNR tables, reservoir, per-frame targets and maxBits split, stereo/mono transitions, prefill) with "
               "signal-dependent decisions as oracles; TLC exhaustive (closed graph for the switching machine, bounded depth for rates) + "
               "rule tables + refuted witnesses + liveness; TLC-generated, directed and random control schedules replayed on "
               "silk_Encode directly and through the Opus encoder; TLC trace validation of the private state after every call"),
    level_text=("TLC proves on the SilkEncCtl model, for arbitrary single-field control changes between calls and every oracle class: "
                "control input accepted iff check_control_input's predicate; nBitsExceeded in [0,10000]; per-frame targets within "
                "[min(rate,5000), max(rate,5000)], maxBits caps non-negative, cumulative and never above what was handed down; a "
                "whole packet codes exactly nFramesPerPacket frames; the internal rate changes only at a packet boundary, only with "
                "opusCanSwitch (one step, through the transition counter: down at double speed with the filter fully closed under the "
                "Opus protocol, up followed by TRANSITION_FRAMES filtered frames) or on the forced clamp path; switchReady needs "
                "permission; rate within max/min/Nyquist; first frame after a rate change coded independently; LBRR follows the "
                "control; in-DTX agrees with Dtx.tla; a requested lower rate is eventually reached. Bound to libopus: every direct "
                "silk_Encode call must reproduce the model's next state exactly (SPEC-DRIFT); under the Opus encoder the state theorems "
                "and tables are drift, C02 / C05 / C11 / C20 clauses are violations."),
    level_note=("Trusted: TLC, Json module, the library's own struct definitions. Signal-dependent quantities (activity, bits used, "
                "stereo split, LBRR bits) are oracles derived from the observation; the implementation is exercised on enumerated / "
                "sampled schedules and synthetic signals, not on all signals."),
)
