"""G11 - AnalysisRing: the tonality-analysis ring buffer and its index machine (modules AnalysisRing, AnalysisRing_mc,
AnalysisRing_gen, AnalysisRingTrace; harness/analysisring.c)."""
import json, os, random, re
import vf

LEVEL = "model_checking"
FS = [16000, 24000, 48000]
UNITS = [1, 2, 4, 8, 16, 24, 32, 40, 48]            # legal frame sizes in 2.5 ms units
PATH_KIND = {"N": 1, "S": 0, "X": 2}

THEOREMS = "Ranges MemSafe GetTotal ValidIsWritten OffsetRange KeepsTime NeverOvertakes NoDrift ResetIsInit MultiFrameSame FullPieceLemma FeedIsPieces"
WITNESSES = ["NoLap", "NeverInvalid", "NeverDrift", "NeverFull", "NeverManyWin", "ReadsOnlyWritten"]


def mc_cfg(ctx, name, **c):
    """write a TLC configuration for AnalysisRing_mc into the work directory"""
    inv = c.pop("inv")
    lines = ["SPECIFICATION Spec", "CONSTANTS"]
    for k, v in c.items():
        lines.append(" %s = %s" % (k, v))
    lines += ["INVARIANTS " + inv, "CONSTRAINT Bound", "CHECK_DEADLOCK FALSE"]
    p = ctx.path(name + ".cfg")
    with open(p, "w") as f:
        f.write("\n".join(lines) + "\n")
    return p


def S(xs):
    return "{" + ", ".join(('"%s"' % x) if isinstance(x, str) else str(x) for x in xs) + "}"


def model_runs(ctx):
    q = ctx.tier == "quick"
    allu = S(UNITS)
    runs = []
    # (a) the real ring, callers that keep their look-ahead promise: every theorem incl. NoDrift.  In 2.5 ms units the three
    #     sampling rates drive the machine identically (To24(Fs, n*Fs/400) = 60 n): thorough closes the larger grids at 48 kHz and
    #     the quick grid at each of the other two rates
    def cons(fsc, las, sel):
        return dict(CountMax=17, DS=100, FsC=S(fsc), LookAheads=S(las), FrameSel=S(sel), Paths=S(["N"]), Consistent="TRUE",
                    AheadCap=100000, WithBareGet="FALSE", inv=THEOREMS)
    if q:
        runs.append(("consistent", cons([48000], [0, 800], [1, 8, 48]), None))
    else:
        runs.append(("consistent_48k", cons([48000], [0, 8, 800], [1, 4, 8, 24, 48]), None))
        runs.append(("consistent_48k_all_frame_sizes", cons([48000], [0, 1], UNITS), None))
        runs.append(("consistent_16k_24k", cons([16000, 24000], [0, 800], [1, 8, 48]), None))
    # (b) any mix of calls (look-ahead withdrawn, bare reads): everything but NoDrift, up to a little over one lap
    #     (quick: a ring of 20 slots - both look-ahead thresholds of tonality_get_info, 10 and 15, are still inside it)
    runs.append(("free", dict(CountMax=17, DS=20 if q else 100, FsC=S([48000]),
                              LookAheads=S([0, 8, 800]), FrameSel=S([8, 48]), Paths=S(["N"]), Consistent="FALSE",
                              AheadCap=10500 if q else 52000, WithBareGet="TRUE",
                              inv=THEOREMS.replace(" NoDrift", "").replace(" FeedIsPieces", "")), None))
    if not q:
        runs.append(("free_small_ring_all_rates", dict(CountMax=17, DS=20, FsC=S(FS), LookAheads=S([0, 8, 800]), FrameSel=S([1, 8, 48]),
                                                       Paths=S(["N"]), Consistent="FALSE", AheadCap=10500, WithBareGet="TRUE",
                                                       inv=THEOREMS.replace(" NoDrift", "").replace(" FeedIsPieces", "")), None))
    # (c) all three window oracles (validity flags, counters) on a short ring
    runs.append(("pathmix", dict(CountMax=2, DS=6 if q else 8, FsC=S([48000]), LookAheads=S([0, 800]),
                                 FrameSel=S([8] if q else [4, 8]), Paths=S(["N", "S", "X"]), Consistent="TRUE",
                                 AheadCap=100000, WithBareGet="FALSE", inv=THEOREMS), None))
    if not q:
        runs.append(("pathmix_16k_24k", dict(CountMax=2, DS=6, FsC=S([16000, 24000]), LookAheads=S([0, 800]), FrameSel=S([8]),
                                             Paths=S(["N", "S", "X"]), Consistent="TRUE", AheadCap=100000, WithBareGet="FALSE",
                                             inv=THEOREMS), None))
    # (d) witnesses: each of these must be refuted (reachability of the interesting corners = vacuity guard)
    for w in WITNESSES:
        runs.append(("witness_" + w, dict(CountMax=17, DS=100, FsC=S([48000]), LookAheads=S([0, 8, 800]), FrameSel=S([4, 8, 48]),
                                          Paths=S(["N"]), Consistent="FALSE", AheadCap=52000, WithBareGet="TRUE", inv=w), w))

    def one(job):
        name, c, expect = job
        cfg = mc_cfg(ctx, "mc_" + name, **dict(c))
        return job, vf.tlc("AnalysisRing_mc", cfg, workers=2 if expect else (4 if q else 6), timeout=1500, heap="4g", tag="G11_" + name)
    res = vf.parallel(one, runs, nproc=4 if q else 2)
    closed = {}
    for (name, c, expect), r in res:
        if r.error:
            raise vf.Infra("AnalysisRing_mc %s: %s" % (name, r.error))
        ctx.add_tlc(r, "mc AnalysisRing_mc/" + name)
        vf.log("[mc] %-28s distinct=%d generated=%d depth=%d %s (%.1fs)" % (name, r.distinct, r.generated, r.diameter,
                                                                          "OK" if r.ok else "violated " + str(r.violation), r.wall))
        if expect:
            if r.violation != expect:
                raise vf.Infra("witness %s was not refuted (vacuous model?): %s" % (expect, r.violation))
        else:
            if r.violation:
                raise vf.Infra("AnalysisRing theorem %s fails in configuration %s:\n%s" % (r.violation, name, (r.state_dump or "")[:1500]))
            closed[name] = dict(distinct=r.distinct, generated=r.generated, depth=r.diameter, wall_s=round(r.wall, 1))
    ctx.notes["model_closed"] = closed
    ctx.notes["witnesses_refuted"] = WITNESSES
    ctx.exhaustive = True
    ctx.notes["exhaustive_scope"] = ("model side: closed state graphs of the index machine (see model_closed: sampling rates, frame sizes, look-aheads "
                                     "per tier); implementation side sampled (TLC-generated and seeded random call sequences)")


def generated(ctx):
    """call sequences enumerated by TLC's simulator from AnalysisRing_gen"""
    q = ctx.tier == "quick"
    r = vf.tlc("AnalysisRing_gen", "AnalysisRing_gen.cfg", workers=4, simulate=4 if q else 40, depth=31, timeout=900,
               extra=["-seed", str(ctx.seed % (1 << 31))], tag="G11_gen")
    if r.error or r.violation:
        raise vf.Infra("AnalysisRing_gen: %s" % (r.error or r.violation))
    ctx.add_tlc(r, "gen AnalysisRing_gen")
    seqs = {}
    for p in sorted(set(r.prints)):
        m = re.match(r'<<"SEQ", (\d+), "(.*)">>', p)
        if not m:
            continue
        ops = re.findall(r'<<\\"(\w)\\", (\d+), (\d+), \\"(\w)\\">>', m.group(2))
        if ops:
            # the simulator prints every candidate last step: keep a few per walk (same first 29 calls)
            key = (m.group(1), tuple(ops[:-1]))
            seqs.setdefault(key, []).append((int(m.group(1)), [(k, int(a), int(b), pth) for k, a, b, pth in ops]))
    out = []
    for key in sorted(seqs):
        v = seqs[key]
        out += v[::max(1, len(v) // 3)][:3]
    if not out:
        raise vf.Infra("AnalysisRing_gen emitted no sequence")
    return out


def gen_lines(ctx, seqs, rng):
    lines = []
    for i, (fs, ops) in enumerate(seqs):
        ch = 1 + i % 2
        toks, etoks, ok_e = [], [], True
        for k, a, b, pth in ops:
            if k == "r":
                toks.append("r%d,%d,%d" % (a, b, PATH_KIND[pth]))
                etoks.append("e%d,%d,%d" % (a, b, min(PATH_KIND[pth], 1)))
            elif k == "g":
                toks.append("g%d" % a)
            else:
                toks.append("R"); etoks.append("R")
        lines.append("D %d %d %d | %s" % (fs, ch, rng.randrange(1, 1 << 30), " ".join(toks)))
        if i % 3 == 0:
            lines.append("E %d %d %d %d %d | %s" % (fs, ch, rng.choice([2048, 2049, 2051]), rng.choice([7, 8, 9, 10]),
                                                   rng.randrange(1, 1 << 30), " ".join(etoks)))
    return lines


def rand_afs(rng, fs, fr, style):
    sub = fs // 400
    u = rng.random()
    if style == 0 or u < 0.35:
        return fr
    if u < 0.6:
        return fr + sub * rng.choice([1, 2, 3, 4, 8, 12, 16, 24, 40])
    if u < 0.8:
        return fr + rng.randrange(0, 3 * fs // 50)                 # any sample count, odd ones included
    if u < 0.93:
        return fr + rng.randrange(0, fs)
    return rng.choice([95 * fs // 50 - 2, 95 * fs // 50, 95 * fs // 50 + 1, 2 * fs, 96 * fs // 50 + fr])


def random_lines(ctx, rng, n_direct, n_insitu, nops_d, nops_e):
    lines = []
    for i in range(n_direct):
        fs = FS[i % 3]; ch = 1 + (i // 3) % 2
        style = i % 4                       # 0: no look-ahead; 1: constant look-ahead; 2,3: anything goes
        toks = []; kind = rng.choice([0, 1, 1, 2]); la_const = rng.choice([1, 4, 8, 24, 48]) * (fs // 400)
        fr = (fs // 400) * rng.choice(UNITS)
        for j in range(rng.randrange(nops_d // 2, nops_d)):
            if rng.random() < 0.25:
                fr = (fs // 400) * rng.choice(UNITS)
            if rng.random() < 0.12:
                kind = rng.choice([0, 1, 1, 1, 2])
            u = rng.random()
            if u < 0.015:
                toks.append(rng.choice(["R", "R", "I"]))
            elif u < 0.05 and style >= 2:
                toks.append("g%d" % rng.choice([fr, fr, (fs // 400) * rng.choice(UNITS), rng.randrange(0, 6 * fs // 50)]))
            else:
                afs = fr + la_const if style == 1 else rand_afs(rng, fs, fr, style)
                toks.append("r%d,%d,%d" % (afs, fr, kind))
        lines.append("D %d %d %d | %s" % (fs, ch, rng.randrange(1, 1 << 30), " ".join(toks)))
    for i in range(n_insitu):
        fs = FS[i % 3]; ch = 1 + (i // 3) % 2
        app = [2049, 2048, 2051, 2049][(i // 6) % 4]
        cx = rng.choice([7, 8, 9, 10, 10, 10])
        style = i % 3
        toks = []; kind = rng.choice([0, 1, 1]); fr = (fs // 400) * rng.choice(UNITS)
        la_const = rng.choice([1, 4, 8, 24, 48]) * (fs // 400)
        for j in range(rng.randrange(nops_e // 2, nops_e)):
            if rng.random() < 0.3:
                fr = (fs // 400) * rng.choice(UNITS)
            if rng.random() < 0.15:
                kind = rng.choice([0, 1, 1])
            u = rng.random()
            if u < 0.03:
                toks.append("R")
            elif u < 0.08:
                toks.append("c%d" % rng.choice([0, 3, 6, 7, 10, 10]))
            else:
                afs = fr + la_const if style == 1 else rand_afs(rng, fs, fr, style)
                toks.append("e%d,%d,%d" % (afs, fr, kind))
        lines.append("E %d %d %d %d %d | %s" % (fs, ch, app, cx, rng.randrange(1, 1 << 30), " ".join(toks)))
    return lines


OBS = dict(run=0, get=0, enc=0, rst=0, new=0, windows=0, silence_copies=0, invalid_windows=0, returned_invalid=0,
           lookahead_calls=0, clamp_calls=0, encoder_analysis_off=0, wrapped_writer=0)


def stats(ctx, out):
    wraps = 0
    with open(out) as f:
        prev_wp = 0
        for ln in f:
            try:
                e = json.loads(ln)
            except ValueError:
                continue
            k = e.get("k")
            if k in OBS:
                OBS[k] += 1
            if k in ("run", "enc", "get", "rst"):
                ctx.evaluations += 1
            if k == "new":
                ctx.traces += 1
                cur = (e["mode"], e["fs"], e["ch"])
                prev_wp = 0
            if k in ("run", "enc"):
                w = e.get("w", [])
                n = max(0, len(w) - 1)
                OBS["windows"] += n
                for i in range(n):
                    if w[i + 1] == w[i]:
                        OBS["silence_copies"] += 1
                    elif w[i + 1][0] == 0:
                        OBS["invalid_windows"] += 1
                if e["afs"] > e["fs"]:
                    OBS["lookahead_calls"] += 1
                if e["afs"] - (e["afs"] & 1) > 95 * cur[1] // 50:
                    OBS["clamp_calls"] += 1
                if (k == "run" and e["ret"] == 0) or (k == "enc" and e["dbw"] == 0):
                    OBS["returned_invalid"] += 1
                if k == "enc" and e["cx"] < 7:
                    OBS["encoder_analysis_off"] += 1
                if e["st"][0] < prev_wp:
                    OBS["wrapped_writer"] += 1
                prev_wp = e["st"][0]
                if n > 0:
                    ctx.nontrivial.add(hash((cur, e["afs"], e["fs"], e["kind"], tuple(e["st"]))))
                    if len(ctx.samples) < 6 and n > 1:
                        ctx.sample(ln.strip()[:400])


def execute(ctx, lines, tag, variant="hk"):
    var = vf.build_variant(variant)
    exe = vf.build_hx(var, "analysisring.c")
    nch = max(1, min(vf.NCPU, len(lines) // 6))
    per = (len(lines) + nch - 1) // nch
    jobs = []
    for k in range(nch):
        part = lines[k * per:(k + 1) * per]
        if part:
            ip = ctx.path("%s_in_%02d.txt" % (tag, k))
            with open(ip, "w") as f:
                f.write("\n".join(part) + "\n")
            jobs.append((k, ip))

    def one(job):
        k, ip = job
        out = ctx.path("%s_tr_%02d.ndjson" % (tag, k))
        rc, err = vf.run_hx(exe, [], out, stdin_path=ip, timeout=1500)
        return k, ip, out, rc, err
    res = vf.parallel(one, jobs, nproc=8)
    good = []
    for k, ip, out, rc, err in res:
        if rc == 3:
            raise vf.Infra("hx_analysisring set-up failure on %s: %s" % (ip, err[-600:]))
        if rc != 0:
            # R4: once more before it is reported
            rc2, err2 = vf.run_hx(exe, [], out, stdin_path=ip, timeout=1500)
            if rc2 == 0:
                raise vf.Infra("hx_analysisring aborted once (rc=%d) and not again on %s" % (rc, ip))
            ctx.violation("C02 (no call ever fails with an internal error / memory safety of the analysis index machine): hx_analysisring "
                          "aborted rc=%d (sanitizer, assertion or hang) on %s: %s" % (rc2, os.path.basename(ip), err2[-1500:]), replay_src=ip)
        else:
            good.append((k, ip, out))
    return good


def judge(ctx, good, tag):
    def v1(job):
        k, ip, out = job
        return job, vf.validate_seq(ctx, "AnalysisRingTrace", "AnalysisRingTrace.cfg", out, "G11 prop %s %02d" % (tag, k), heap="3g")
    clean = []
    for (k, ip, out), (acc, rej, tr) in vf.parallel(v1, good, nproc=8):
        stats(ctx, out)
        if acc:
            clean.append((k, ip, out))
            continue
        acc2, rej2, tr2 = vf.validate_seq(ctx, "AnalysisRingTrace", "AnalysisRingTrace.cfg", out, "G11 prop-again %s %02d" % (tag, k), heap="3g")
        if acc2 or rej2 != rej:
            raise vf.Infra("non-repeatable rejection on %s" % out)
        ev = vf.file_line(out, rej or 1)
        kind = json.loads(ev).get("k") if ev.strip().startswith("{") else "?"
        prop = "C02 (each encode call succeeds and the packet announces the submitted frame size)" if kind == "enc" else \
               "C12 (after a reset the object is exactly a newly created one: the analysis state's reset region is not all zero / Fs lost)"
        ctx.violation("%s: event %s of %s rejected: %s" % (prop, rej, os.path.basename(out), ev[:600]), replay_src=ip)

    def v2(job):
        k, ip, out = job
        return job, vf.validate_seq(ctx, "AnalysisRingTrace", "AnalysisRingTraceStrict.cfg", out, "G11 model %s %02d" % (tag, k), heap="3g")
    nd = 0
    for (k, ip, out), (acc, rej, tr) in vf.parallel(v2, clean, nproc=8):
        if not acc:
            nd += 1
            if nd <= 3:
                ctx.spec_drift("AnalysisRing", "recorded call is not a step of the model (index fields / validity flags / returned valid / returned "
                               "bandwidth / forced window path) at %s line %s: %s" % (os.path.basename(out), rej, vf.file_line(out, rej or 1)[:500]))
                rp = os.path.join(vf.REPLAY, "G11_%s_drift_%d.txt" % (ctx.tier, nd))
                if vf.REPO == "/repo":
                    import shutil
                    shutil.copyfile(ip, rp)
    ctx.notes["drift_chunks"] = ctx.notes.get("drift_chunks", 0) + nd


def self_test(ctx, good):
    """binding self-test: corrupt one logged field of an accepted trace -> TLC must reject it"""
    src = None
    for k, ip, out in good:
        if vf.count_lines(out) > 30:
            src = out
            break
    if not src:
        return
    evs = [json.loads(x) for x in open(src).read().splitlines()[:400]]
    rng = random.Random(ctx.seed + 11)
    idx = [i for i, e in enumerate(evs) if e["k"] in ("run", "enc") and len(e.get("w", [])) > 1 and i > 3]
    if len(idx) < 4:
        return
    muts = []
    for (name, fn) in [("write_pos+1", lambda e: e["st"].__setitem__(0, (e["st"][0] + 1) % 100)),
                       ("read_pos+1", lambda e: e["st"].__setitem__(1, (e["st"][1] + 1) % 100)),
                       ("read_subframe", lambda e: e["st"].__setitem__(2, (e["st"][2] + 1) % 8)),
                       ("count-1", lambda e: e["st"].__setitem__(3, e["st"][3] - 1)),
                       ("mem_fill+2", lambda e: e["st"].__setitem__(4, e["st"][4] + 2)),
                       ("analysis_offset+2", lambda e: e["st"].__setitem__(5, e["st"][5] + 2)),
                       ("E_count", lambda e: e["st"].__setitem__(7, (e["st"][7] + 1) % 8)),
                       ("valid bit", lambda e: e["vb"].__setitem__(2, e["vb"][2] ^ 64)),
                       ("returned valid", lambda e: e.__setitem__("ret", 1 - e["ret"]) if "ret" in e else e.__setitem__("dbw", 0 if e["dbw"] else 1105))]:
        i = rng.choice(idx)
        c = [json.loads(json.dumps(e)) for e in evs]
        fn(c[i])
        p = ctx.path("corrupt_%d.ndjson" % len(muts))
        with open(p, "w") as f:
            f.write("\n".join(json.dumps(e, separators=(",", ":")) for e in c) + "\n")
        muts.append((name, p))

    def one(m):
        name, p = m
        return name, vf.validate_seq(ctx, "AnalysisRingTrace", "AnalysisRingTraceStrict.cfg", p, "G11 corrupt", heap="2g")[0]
    res = vf.parallel(one, muts, nproc=5)
    missed = [n for n, acc in res if acc]
    ctx.notes["corrupted_fields_rejected"] = "%d of %d" % (len(res) - len(missed), len(res))
    if missed:
        raise vf.Infra("binding self-test: corrupted field(s) accepted by AnalysisRingTrace: %s" % missed)


def replay(ctx):
    lines = [x for x in open(ctx.replay).read().splitlines() if x[:1] in "DE"]
    good = execute(ctx, lines, "replay")
    judge(ctx, good, "replay")
    ctx.nontrivial_count = max(1, len(ctx.nontrivial))


def run(ctx):
    q = ctx.tier == "quick"
    ctx.rule = ("TLC closes the state graph of the analysis ring's index machine (write_pos, read_pos, read_subframe, count, mem_fill, "
                "analysis_offset, initialized, E_count, the 100 valid flags + ghosts for true writer/reader distance) under three regimes and "
                "refutes five witnesses; TLC-simulated and seeded random call sequences are executed on a stand-alone TonalityAnalysisState and "
                "on real encoders (state read through a start-up-checked mirror) and every recorded call is validated as a step of the model. "
                "non-trivial = distinct (mode, Fs, channels, analysis size, frame size, input kind, resulting index vector) of calls that "
                "completed at least one analysis window")
    ctx.assumptions = ["TLC and the CommunityModules (Json, SequencesExt) are trusted",
                       "float build; analysis runs for complexity >= 7 and Fs >= 16 kHz (opus_encoder.c:1183)",
                       "which way a completed window went (full / silence copy / invalid) is inferred from a 60-bit digest of the slot (copy of the "
                       "previous slot <=> equal digests); it is demanded only when the window and the 10 ms before it are of one input kind",
                       "in situ the returned valid flag is observed as detected_bandwidth != 0 (hook field 17); the per-coded-frame re-reads of the "
                       "multi-frame loop are covered by theorem MultiFrameSame, not observed",
                       "direct mode plants random bandwidth values (1..20) in freshly written valid slots so that the scan sets of "
                       "tonality_get_info are visible in the returned maximum; slot contents are signal-dependent oracles for the model",
                       "the model summarises run_analysis' while loop (FullPieceLemma / FeedIsPieces are checked by TLC at every reachable state)"]
    if ctx.replay:
        return replay(ctx)
    model_runs(ctx)
    rng = random.Random(ctx.seed)
    seqs = generated(ctx)
    lines = gen_lines(ctx, seqs, rng)
    ctx.notes["tlc_generated_sequences"] = len(seqs)
    lines += random_lines(ctx, rng, 48 if q else 600, 18 if q else 240, 70 if q else 160, 30 if q else 60)
    # hand-written corners: writer laps the reader; clamp; look-ahead withdrawn; long silence then noise; frame-size sweep
    for fs in FS:
        c = fs // 50
        lines.append("D %d 1 %d | %s" % (fs, rng.randrange(1, 1 << 30), " ".join(
            ["r%d,%d,1" % (95 * c + 500, c), "r%d,%d,1" % (c, c)] * 4 + ["r%d,%d,0" % (c, c)] * 8 + ["r%d,%d,1" % (6 * c, 6 * c)] * 20 + ["R"] +
            ["r%d,%d,0" % (c // 8, c // 8)] * 30 + ["r%d,%d,1" % (c // 8, c // 8)] * 30 + ["r%d,%d,2" % (c, c)] * 6 + ["r%d,%d,1" % (c, c)] * 110)))
        lines.append("E %d 2 2049 10 %d | %s" % (fs, rng.randrange(1, 1 << 30), " ".join(
            ["e%d,%d,1" % (u * c // 8, u * c // 8) for u in UNITS] + ["e%d,%d,1" % (3 * c, c)] * 6 + ["e%d,%d,1" % (c, c), "R"] +
            ["e%d,%d,0" % (c, c)] * 5 + ["c5", "e%d,%d,1" % (c, c), "c10"] + ["e%d,%d,1" % (c // 2 + 2 * c, c // 2)] * 8)))
    rng.shuffle(lines)
    ctx.notes["executions"] = len(lines)
    good = execute(ctx, lines, "main")
    judge(ctx, good, "main")
    if not ctx.violations and not ctx.drift:
        self_test(ctx, good)
    ctx.notes["observed"] = OBS
    # vacuity guard on the implementation side
    need = ["run", "get", "enc", "rst", "silence_copies", "invalid_windows", "returned_invalid", "lookahead_calls", "clamp_calls",
            "encoder_analysis_off", "wrapped_writer"]
    if not ctx.violations:
        miss = [k for k in need if OBS[k] == 0]
        if miss:
            raise vf.Infra("vacuous run: no %s event observed" % miss)


META = dict(
    engine="AnalysisRing",
    technique="TLA+ model of the tonality-analysis ring (writer, reader, chunking, validity flags); TLC closes the index machine and refutes "
              "witnesses; TLC-simulated + random call sequences replayed on a stand-alone state and on real encoders; TLC trace validation",
    level_text=("TLC proves on the AnalysisRing model, for 16/24/48 kHz, every legal frame size, analysis buffers with 0..2 s of look-ahead "
                "(clamp included), resets and bare reads, to the fixpoint: all indices stay in range, no write beyond inmem, every loop of "
                "tonality_get_info ends and reads only ring slots, a valid return is a slot written since the last reset, analysis_offset "
                "stays in [0, 95 chunks), the index positions keep time exactly (writer - reader = audio pushed - audio consumed modulo the "
                "ring), the reader never overtakes the writer, no drift and no lapping for callers that keep their look-ahead promise (drift "
                "grows by exactly the withdrawn look-ahead otherwise and the writer can lap the reader - witness), reset = init, and the "
                "encoder's per-frame re-reads end where the single read ended. Bound to libopus by trace validation of every recorded call."),
    level_note=("Growth module: a disagreement between model and code is SPEC-DRIFT; VIOLATIONs are raised only for C02 (an encode call fails, "
                "announces a wrong duration, or the harness aborts under the sanitizer) and C12 (reset region of the analysis state not "
                "identical to a new object's). The implementation is exercised on sampled call sequences."),
)
