"""G12 - growth module CeltDecState: the CELT decoder's (and the encoder's mirrored) frame-to-frame control state - post-filter
parameter pipeline, loss_duration / skip_plc / pitch-vs-noise concealment, fades, prefilter_and_fold, rng (exact LCG), start / end /
stream_channels ctls, reset region; encoder prefilter triple, consec_transient, lastCodedBands, tapset decision, vbr_count and the
constrained-VBR reservoir (modules CeltDecState, CeltDecState_mc, CeltDecStateTrace; harness/celtdecstate.c)."""
import json, os, random, re, time
from concurrent.futures import ThreadPoolExecutor
import vf

LEVEL = "model_checking"

# Deviations found on the unchanged tree that are not (yet) in known_findings.json would be listed here
PROVISIONAL = []

FS = [48000, 24000, 16000, 12000, 8000]

MC_TAGS = {
    "mirror": {"oldClamped", "offKeepsPeriod", "silence", "tapsetCoded", "skipKept", "skipCleared", "foldByDecode", "pitchPlc", "noisePlc"},
    "loss": {"pitchPlc", "noisePlc", "foldByDecode", "foldByNoise", "foldRearmed", "saturated", "skipKept", "skipCleared", "plcOdd", "hybridFrame",
             "hybridNoise", "silence"},
    "enc": {"vbrCount", "lcbSlew", "consecTransient"},
}
TRACE_TAGS = {"new", "pitchPlc", "noisePlc", "foldByDecode", "foldByNoise", "foldRearmed", "hybridNoise", "noiseAfter100ms", "plcPieces", "pfOn", "pfOff",
              "skipKept", "skipCleared", "lm0", "lm1", "lm2", "lm3", "hybrid", "multiFrame", "downsample", "fecAsPlc", "plcOdd", "twinDec", "twinEnc",
              "offKeepsPeriod", "oldDiffers", "oldClamped", "consecTransient", "lcbSlew", "resetDec", "resetEnc", "cvbr", "vbr", "cbr", "silence",
              "saturated", "reservoirFilled", "plcBeforeAnyFrame"}

TIERS = dict(
    quick=dict(mc=[("mirror", "CeltDecState_mc_quick.cfg", 5), ("loss", "CeltDecState_mc_loss_quick.cfg", 3), ("enc", "CeltDecState_mc_enc_quick.cfg", 3)],
               gen=("CeltDecState_gen_quick.cfg", 500), streams=140, chunk=80, nproc=8),
    # (the larger model configurations CeltDecState_mc_thorough.cfg / _loss_thorough.cfg exist but were not sized within the builder's time:
    #  the thorough tier runs the measured ones and spends its budget on the implementation side)
    thorough=dict(mc=[("mirror", "CeltDecState_mc_quick.cfg", 5), ("loss", "CeltDecState_mc_loss_quick.cfg", 3), ("enc", "CeltDecState_mc_enc_quick.cfg", 3)],
                  gen=("CeltDecState_gen_thorough.cfg", 6000), streams=1500, chunk=400, nproc=10),
)


def known_entries():
    return vf.known_findings("G12") + PROVISIONAL


def match_known(ev):
    for k in known_entries():
        key = k.get("key") or {}
        if key and all(ev.get(f) == v for f, v in key.items()):
            return k
    return None


# ---------------------------------------------------------------------------------------------------------------
# TLC side

def tags_of(r):
    t = set()
    for p in r.prints:
        if p.startswith('"TAGS'):
            t |= set(re.findall(r'\\"(\w+)\\"', p))
    return t


def model_checking(ctx, T, pool):
    def one(job):
        name, cfg, workers = job
        r = vf.tlc("CeltDecState_mc", cfg, workers=workers, timeout=1500, heap="6g")
        if r.error:
            raise vf.Infra("CeltDecState_mc %s: %s" % (cfg, r.error))       # (a failed step assertion ends up here as well)
        ctx.add_tlc(r, "CeltDecState %s: %s" % (name, cfg))
        vf.log("[mc] %-34s distinct=%d generated=%d depth=%d %s (%.1fs)" % (cfg, r.distinct, r.generated, r.diameter,
                                                                           "OK" if r.ok else "VIOLATED " + str(r.violation), r.wall))
        if r.violation:
            raise vf.Infra("CeltDecState model theorem %s violated (%s):\n%s" % (r.violation, cfg, r.state_dump[:3000]))
        if r.distinct < 500:
            raise vf.Infra("CeltDecState_mc %s explored almost nothing (%d states)" % (cfg, r.distinct))
        missing = MC_TAGS[name] - tags_of(r)
        if missing:
            raise vf.Infra("vacuous model run %s: never visited: %s" % (cfg, sorted(missing)))
        return name, sorted(tags_of(r))
    return [pool.submit(one, j) for j in T["mc"]]


def gen_sequences(ctx, T):
    cfg, keep = T["gen"]
    r = vf.tlc("CeltDecState_mc", cfg, workers=4, timeout=900, heap="4g")
    if r.error or r.violation:
        raise vf.Infra("CeltDecState gen %s: %s" % (cfg, r.error or r.violation))
    ctx.add_tlc(r, "gen CeltDecState_mc/" + cfg)
    seqs = set()
    for p in r.prints:
        m = re.match(r'"SEQ <<(.*)>>"$', p)
        if m:
            seqs.add(tuple(int(v) for v in m.group(1).split(",")))
    vf.log("[gen] %s: %d op histories (%.1fs)" % (cfg, len(seqs), r.wall))
    return sorted(seqs), keep


# ---------------------------------------------------------------------------------------------------------------
# execution lines

OPS = {1: "e1", 2: "l1", 3: "L3", 4: "L5", 5: "r", 6: "B", 7: "R"}


def params(i, rng):
    """(fsd, chd, fse, che, mode, q, fam, bitrate, vbr, cx): every (Fs, channels, frame size) combination in turn, the rest seeded"""
    fsd = FS[i % 5]
    chd = 1 + (i // 5) % 2
    mode = 1 if (i // 10) % 4 == 3 else 0
    if mode:
        q = [4, 8, 16][(i // 40) % 3]
        fse = 48000
    else:
        q = [1, 2, 4, 8, 16, 24][(i // 40) % 6]
        fse = rng.choice([48000, 48000, 24000, 16000, 8000])
    che = rng.choice([1, 2])
    fam = rng.choice([1, 1, 1, 5, 2, 3, 4])
    br = rng.choice([32000, 48000, 64000, 96000] if mode else [16000, 24000, 32000, 48000, 64000, 96000, 128000, 256000])
    return fsd, chd, fse, che, mode, q, fam, br, rng.choice([0, 1, 2]), rng.choice([0, 2, 4, 5, 7, 9, 10, 10])


def head(x, p, seed):
    fsd, chd, fse, che, mode, q, fam, br, vbr, cx = p
    return "X %d %d %d %d %d %d %d | x%d b%d v%d s%d d%d" % (x, fsd, chd, fse, che, mode, seed % 100000, cx, br, vbr, fam, q)


def line_for_seq(x, seq, rng, seed):
    p = params(x, rng)
    toks = ["e%d" % rng.choice([2, 3, 4])] + [OPS[o] for o in seq] + ["e2"]
    return head(x, p, seed + x) + " " + " ".join(toks)


def line_random(x, rng, seed):
    p = params(x, rng)
    mode = p[4]
    toks = []
    for _ in range(rng.randint(6, 16)):
        k = rng.random()
        if k < 0.34:
            toks.append("e%d" % rng.randint(1, 6))
        elif k < 0.50:
            toks.append("l%d" % rng.choice([1, 1, 2, 3, 5, 12]))
        elif k < 0.58:
            toks.append("L%d" % rng.choice([1, 2, 3, 5, 6, 7, 9, 11, 13, 20, 48]))
        elif k < 0.64 and not mode:
            toks.append("f%d" % rng.choice([0, 0, 1, 3, 8]))
        elif k < 0.70:
            toks.append(rng.choice(["r", "R", "B"]))
        elif k < 0.78:
            toks.append("s%d" % rng.choice([0, 1, 1, 2, 3, 4, 5]))
        elif k < 0.86:
            toks.append("d%d" % (rng.choice([4, 8, 16]) if mode else rng.choice([1, 2, 4, 8, 16, 24])))
        elif k < 0.92:
            toks.append("b%d" % rng.choice([32000, 40000, 80000, 160000] if mode else [12000, 20000, 40000, 80000, 160000, 510000]))
        elif k < 0.96:
            toks.append("v%d" % rng.choice([0, 1, 2]))
        else:
            toks.append("x%d" % rng.choice([0, 1, 3, 5, 8, 10]))
    return head(x, p, seed + x) + " " + " ".join(toks) + " e2"


def special_lines(x0, tier, seed):
    out = []
    # loss_duration to its saturation (10000 units = 25 s), CELT-only and hybrid; the pitch -> noise change at 100 ms in every frame size
    out.append("X %d 48000 1 48000 1 0 %d | x9 b64000 v1 s1 d8 e4 " % (x0, seed % 1000) + " ".join(["L48"] * 212) + " e3")
    out.append("X %d 16000 2 48000 2 1 %d | x9 b40000 v1 s1 d8 e4 " % (x0 + 1, seed % 1000) + " ".join(["L48"] * 30) + " e3")
    for i, q in enumerate([1, 2, 4, 8]):
        out.append("X %d 48000 %d 48000 2 0 %d | x10 b96000 v1 s1 d%d e5 l%d e1 l3 e2 l1 e3" % (x0 + 2 + i, 1 + i % 2, seed % 1000 + i, q, 48 // q + 3))
    # constrained VBR: the reservoir over changing signals / rates / frame sizes; vbr_count towards its saturation
    for i in range(6 if tier == "quick" else 24):
        q = [8, 4, 2, 1, 8, 8][i % 6]
        out.append("X %d 48000 1 48000 %d 0 %d | x%d b%d v2 s%d d%d e12 s0 e4 s2 e8 b%d e8 s3 e8 s1 d%d e8 R e4" % (
            x0 + 6 + i, 1 + i % 2, seed % 1000 + i, [10, 5, 8][i % 3], [24000, 48000, 96000, 32000][i % 4], [1, 4, 2, 5][i % 4], q,
            [64000, 20000, 128000][i % 3], [4, 8, 2][i % 3]))
    out.append("X %d 48000 1 48000 1 0 %d | x5 b48000 v2 s1 d1 e%d" % (x0 + 40, seed % 1000, 1000 if tier == "thorough" else 120))
    for i in range(12 if tier == "quick" else 60):
        r = random.Random(seed * 13 + i)
        q = [1, 2, 4, 8][i % 4]
        toks = []
        for _ in range(10):
            toks += ["e%d" % r.randint(1, 40 // q + 2), "l%d" % r.choice([1, 2, 3, 60 // q])]
        out.append("X %d %d %d 48000 %d 0 %d | x%d b%d v1 s%d d%d " % (x0 + 100 + i, FS[i % 5], 1 + i % 2, 1 + (i // 2) % 2, seed % 1000 + i, r.choice([5, 10]),
                                                                     r.choice([32000, 96000]), [3, 5, 3, 1][i % 4], q) + " ".join(toks))
    # post-filter on / off / silence / transient sequences with frame-size changes, loss-free (the mirror)
    for i in range(8 if tier == "quick" else 40):
        r = random.Random(seed * 7 + i)
        toks = []
        for _ in range(14):
            toks.append("s%d" % r.choice([1, 1, 0, 3, 5, 2, 4]))
            toks.append("d%d" % r.choice([1, 2, 4, 8, 16]))
            toks.append("e%d" % r.randint(1, 4))
        out.append("X %d %d %d 48000 %d 0 %d | x10 b%d v%d " % (x0 + 50 + i, FS[i % 5], 1 + i % 2, 1 + (i // 2) % 2, seed % 1000 + i,
                                                               r.choice([48000, 96000, 160000]), r.choice([0, 1, 2])) + " ".join(toks))
    return out


# ---------------------------------------------------------------------------------------------------------------
# implementation side

class Job:
    def __init__(self, name, lines):
        self.name, self.lines = name, lines
        self.out = None
        self.rc, self.err = 0, ""
        self.events = self.execs = 0
        self.calls = {}
        self.hashes = set()
        self.rej, self.seen, self.complete = [], set(), False
        self.sample = ""
        self.levels = []
        self.excess = []


def scan(job):
    n = 0
    lv = []            # levels of the last 24 decoded calls (the pitch concealment copies from up to 42 ms back = 17 frames of 2.5 ms) of the execution (what CeltDecStateTrace!PushLv keeps)
    with open(job.out) as f:
        for ln in f:
            if not ln.endswith("}\n"):
                continue
            n += 1
            if ln.startswith('{"k":"dec"'):
                e = json.loads(ln)
                if e["kind"] == 0 and e["r"] > 0:
                    lv = (lv + [e["cb"]])[-24:]
                elif e["kind"] != 0 and e["pm"] != 3 and lv:
                    job.excess.append(e["cb"] - max(lv))
                kind = ("dec", "lost", "fec")[e["kind"]] + ("_ok" if e["r"] > 0 else "_err")
                job.calls[kind] = job.calls.get(kind, 0) + 1
                job.hashes.add(hash((e["kind"], e["n"], e["lm"], e["hy"], str(e["fr"])[:80], e["ld"], e["skip"], e["fold"], e["pp"], e["ppo"], e["u"])))
                if not job.sample and e["kind"] == 1 and e["fold"] == 1:
                    job.sample = ln.strip()[:700]
                if e["kind"] != 0 and e["pm"] != 3:
                    job.levels.append((e["cb"], e["pre"], e["ld"], e["fold"]))
            elif ln.startswith('{"k":"new"'):
                job.execs += 1
                lv = []
            elif ln.startswith('{"k":"enc"'):
                job.calls["enc"] = job.calls.get("enc", 0) + 1
            elif ln.startswith('{"k":"rst"'):
                job.calls["rst"] = job.calls.get("rst", 0) + 1
                if '"who":1' not in ln:
                    lv = []
    job.events = n
    return n


def validate(ctx, path, what):
    r = vf.tlc("CeltDecStateTrace", "CeltDecStateTrace.cfg", workers=1, env={"TRACE": path}, timeout=1500, heap="3g",
               tag=what.replace(" ", "_") + os.path.basename(path))
    if r.error:
        raise vf.Infra("%s: %s" % (what, r.error))
    ctx.add_tlc(r, "trace %s %s" % (what, os.path.basename(path)))
    rej, seen = [], set()
    for m in re.finditer(r'"REJ <<(\d+), \\"(\w+)\\", \{(.*?)\}>>"', r.out):
        rej.append((int(m.group(1)), m.group(2), sorted(re.findall(r'\\"([\w.]+)\\"', m.group(3)))))
    m = re.search(r'"SEEN \{(.*?)\}"', r.out, re.S)
    if m:
        seen = set(re.findall(r'\\"(\w+)\\"', m.group(1)))
    return rej, seen, (r.violation is None and m is not None)


def run_job(ctx, exe, job):
    t0 = time.time()
    inp = ctx.path("in_%s.txt" % job.name)
    with open(inp, "w") as f:
        f.write("\n".join(job.lines) + "\n")
    job.out = ctx.path("t_%s.ndjson" % job.name)
    job.rc, job.err = vf.run_hx(exe, [], job.out, timeout=1500, stdin_path=inp)
    n = scan(job)
    if job.rc in (2, 3):
        raise vf.Infra("hx_celtdecstate %s rc=%d: %s" % (job.name, job.rc, job.err.strip()[-400:]))
    if n == 0:
        job.complete = True
        return job
    t1 = time.time()
    job.rej, job.seen, job.complete = validate(ctx, job.out, "G12 " + job.name)
    vf.log("[job] %-12s execs=%d events=%d harness %.1fs validate %.1fs rejected=%d" % (job.name, job.execs, job.events, t1 - t0, time.time() - t1, len(job.rej)))
    return job


def exec_of_line(path, lineno):
    x = 0
    with open(path) as f:
        for i, ln in enumerate(f, 1):
            m = re.match(r'\{"k":"\w+","x":(\d+)', ln)
            if m:
                x = int(m.group(1))
            if i == lineno:
                return x, ln.strip()
    return x, ""


def line_of_exec(job, x):
    for ln in job.lines:
        if ln.startswith("X %d " % x):
            return ln
    return None


def judge_again(ctx, exe, job, x):
    """R4: the execution that contains a rejected event is re-run alone and judged again. Returns (job2, replay_text)."""
    ln = line_of_exec(job, x)
    j2 = Job("rr_%s_%d" % (job.name, x), [ln])
    run_job(ctx, exe, j2)
    text = json.dumps(dict(check="G12", line=ln)) + "\n"
    if os.path.exists(j2.out):
        with open(j2.out) as f:
            text += f.read(400000)
    if j2.rc != 0:
        text += "\n# stderr:\n" + j2.err[-3000:]
    return j2, text


def summarize_err(err):
    m = re.search(r"SUMMARY: .*", err)
    if m:
        return m.group(0)[:300]
    m = re.search(r"(Fatal \(internal\) error.*|runtime error:.*|AddressSanitizer.*|hx_celtdecstate:.*)", err)
    return (m.group(0) if m else err.strip()[-300:])[:300]


NPROP = [0]


def report(ctx, exe, job, drifts):
    if job.rc != 0:
        last_x = 0
        with open(job.out) as f:
            for ln in f:
                m = re.match(r'\{"k":"\w+","x":(\d+)', ln)
                if m:
                    last_x = int(m.group(1))
        what = "Hang (a call did not return within 20 s)" if job.rc == 97 else summarize_err(job.err)
        k = match_known(dict(abort=what))
        if k:
            ctx.known_finding("%s [%s]" % (k["what"], what))
        else:
            j2, text = judge_again(ctx, exe, job, last_x)
            if j2.rc == 0:
                raise vf.Infra("hx_celtdecstate %s aborted (rc=%d, %s) in execution %d but not when it was re-run alone" % (job.name, job.rc, what, last_x))
            ctx.violation("property C01/C02 (memory-safe, no internal error): hx_celtdecstate %s execution %d aborted rc=%d: %s" % (job.name, last_x, job.rc, what),
                          replay_text=text)
        return
    if not job.complete:
        raise vf.Infra("CeltDecStateTrace did not consume %s" % job.out)
    for (ln, cls, names) in job.rej:
        x, ev = exec_of_line(job.out, ln)
        if cls == "prop":
            NPROP[0] += 1
            try:
                evd = json.loads(ev)
            except ValueError:
                evd = {}
            k = match_known(evd)
            if k:
                ctx.known_finding(k["what"])
                continue
            if len(ctx.violations) >= 5:
                continue
            j2, text = judge_again(ctx, exe, job, x)
            if j2.rc == 0 and not [r for r in j2.rej if r[1] == "prop"]:
                raise vf.Infra("rejection not repeatable: %s line %d %s" % (job.out, ln, names))
            props = sorted({n.split(".")[0] for n in names})
            ctx.violation("property %s clause(s) %s rejected by CeltDecStateTrace at %s line %d (execution %d: %s): %s" % (
                "/".join(props), names, os.path.basename(job.out), ln, x, (line_of_exec(job, x) or "")[:300], ev[:700]), replay_text=text)
        else:
            drifts.setdefault(tuple(names), []).append((job.name, ln, x, ev))


def run(ctx):
    tier = ctx.tier
    T = TIERS[tier]
    ctx.rule = ("CeltDecState_mc: TLC runs one encoder + lossy channel + one decoder over LM x post-filter on/off/silence/transient x loss patterns x "
                "odd concealment sizes x resets x layer changes (scaled LossSat / NoiseAt) and asserts the step theorems on every transition and the "
                "state theorems on every state. hx_celtdecstate replays TLC-generated op histories and seeded stream executions through a real "
                "OpusEncoder / OpusDecoder pair (CELT-only and hybrid, all frame sizes, mono / stereo, 8-48 kHz) and records the private control "
                "state after every call; CeltDecStateTrace replays the machine on every event. non-trivial = distinct decoder calls "
                "(kind, size, LM, coded header, resulting loss_duration / skip_plc / fold / periods)")
    ctx.assumptions = [
        "TLC and the CommunityModules Json reader are trusted",
        "float build, DRED / deep PLC compiled out, RESYNTH off (the encoder's *_old copies are model ghosts, not observable)",
        "the private structs are read through mirrors declared in harness/celtdecstate.c; the layout is checked at start-up against "
        "celt_decoder_get_size / celt_encoder_get_size, the freshly initialised contents and, after every call, the OPUS_VERIF peek hooks",
        "the coded header fields (silence, post-filter, transient) of each CELT frame are read by the harness with the library's own range decoder "
        "(an oracle: a wrong reading shows up as drift); hybrid frames carry no post-filter (start band 17)",
        "executions keep one layer (CELT-only or hybrid) each: mode transitions / redundancy are G05's (DecOp) domain",
        "model theorems are checked with scaled LossSat / NoiseAt; the traces are judged with the code's 10000 / 40",
        "state conformance is SPEC-DRIFT; VIOLATION only for C02 (mirror broken together with a final-range / count mismatch), C09 (duration, "
        "finite, level bound with the calibrated margin), C12 (reset object vs fresh twin: samples, final range, bytes)",
    ]
    var = vf.build_variant("hk")
    exe = vf.build_hx(var, "celtdecstate.c")
    if ctx.replay:
        return replay(ctx, exe)
    seed = ctx.seed
    rng = random.Random(seed)
    pool = ThreadPoolExecutor(max_workers=4)
    skip_mc = os.environ.get("G12_SKIP_MC") == "1"          # experiments only (mutation runs): recorded in the evidence notes
    if skip_mc:
        ctx.notes["model_checking_skipped"] = True
    mc_futs = [] if skip_mc else model_checking(ctx, T, pool)
    seqs, keep = gen_sequences(ctx, T)
    if not seqs:
        raise vf.Infra("CeltDecState gen emitted no op history")
    ctx.notes["generated_histories"] = dict(generated=len(seqs), replayed=min(keep, len(seqs)))
    if len(seqs) > keep:
        seqs = rng.sample(seqs, keep)
    lines = []
    for s in seqs:
        lines.append(line_for_seq(len(lines) + 1, s, rng, seed))
    for _ in range(T["streams"]):
        lines.append(line_random(len(lines) + 1, rng, seed))
    lines += special_lines(len(lines) + 1, tier, seed)
    jobs = [Job("c%d" % (i // T["chunk"]), lines[i:i + T["chunk"]]) for i in range(0, len(lines), T["chunk"])]
    run_pool = ThreadPoolExecutor(max_workers=T["nproc"])
    done = [f.result() for f in [run_pool.submit(run_job, ctx, exe, j) for j in jobs]]
    run_pool.shutdown()
    tags_mc = {}
    for fut in mc_futs:
        name, t = fut.result()
        tags_mc[name] = t
    pool.shutdown()
    ctx.notes["model_tags"] = tags_mc
    ctx.exhaustive = True
    ctx.notes["exhaustive_scope"] = ("model side: all behaviours over the constants of %s (fixpoint); implementation side: all generated op "
                                     "histories of the gen cfg (or a seeded sample of them) + seeded streams (sampled)" % [c for _, c, _ in T["mc"]])
    totals, seen, drifts, levels, excess = {}, set(), {}, [], []
    for j in done:
        ctx.evaluations += j.events
        ctx.nontrivial |= j.hashes
        for k, v in j.calls.items():
            totals[k] = totals.get(k, 0) + v
        seen |= j.seen
        levels += j.levels
        excess += j.excess
        if j.sample and len(ctx.samples) < 4:
            ctx.sample({"job": j.name, "event": j.sample}, limit=4)
        report(ctx, exe, j, drifts)
        if j.rc == 0 and not [r for r in j.rej if r[1] == "prop"]:
            ctx.traces += j.execs
        if os.path.exists(j.out) and os.environ.get("VERIF_KEEP") != "1":
            os.remove(j.out)
    for key, lst in sorted(drifts.items()):
        name, ln, x, ev = lst[0]
        ctx.spec_drift("CeltDecState", "%s: %d event(s), first at %s line %d (execution %d): %s" % (list(key), len(lst), name, ln, x, ev[:600]))
    ctx.notes["recorded_calls"] = totals
    ctx.notes["trace_tags_seen"] = sorted(seen)
    ctx.notes["property_clause_rejections"] = NPROP[0]
    # measured margins of the calibrated clauses (R3): concealed level minus the level of the last decoded call, 1/100 dB
    if excess:
        ctx.notes["C09_bounded_calibration_cdB"] = dict(measured_max_excess_over_loudest_of_last_24_decoded=max(excess), concealed_calls=len(excess),
                                                        BoundUp=3000, margin=3000 - max(excess))
        if 3000 - max(excess) < 600 and not ctx.violations:
            raise vf.Infra("R3: the calibrated bound BoundUp has less than 6 dB margin over the measured maximum (%d)" % max(excess))
    for k in ("dec_ok", "lost_ok", "fec_ok", "enc", "rst"):
        if totals.get(k, 0) == 0 and not ctx.violations:
            raise vf.Infra("vacuous run: no recorded call of kind %s (%s)" % (k, totals))
    missing = TRACE_TAGS - seen
    if missing:
        ctx.notes["trace_tags_missing"] = sorted(missing)
        if not ctx.violations and not ctx.drift:
            raise vf.Infra("vacuity guard: steps of the machine never exercised by the accepted executions: %s" % sorted(missing))


def replay(ctx, exe):
    with open(ctx.replay) as f:
        first = f.readline()
    try:
        hdr = json.loads(first)
    except ValueError:
        hdr = {}
    ctx.nontrivial_count = 1
    if hdr.get("check") != "G12":
        out = ctx.path("raw.ndjson")          # a file of raw events is judged as it is
        with open(ctx.replay) as f, open(out, "w") as g:
            g.writelines(ln for ln in f if ln.startswith("{"))
        rej, seen, complete = validate(ctx, out, "G12 replay raw")
        ctx.evaluations += vf.count_lines(out)
        for (ln, cls, names) in rej:
            ev = vf.file_line(out, ln)[:700]
            if cls == "prop":
                ctx.violation("recorded trace rejected at line %d %s: %s" % (ln, names, ev), replay_src=ctx.replay)
            else:
                ctx.spec_drift("CeltDecState", "%s at line %d: %s" % (names, ln, ev[:400]))
        if not [r for r in rej if r[1] == "prop"]:
            ctx.traces += 1
        return
    j = Job("replay", [hdr["line"]])
    run_job(ctx, exe, j)
    ctx.evaluations += j.events
    if j.rc != 0:
        ctx.violation("replayed execution aborted rc=%d: %s" % (j.rc, summarize_err(j.err)), replay_src=ctx.replay)
        return
    bad = False
    for (ln, cls, names) in j.rej:
        _, ev = exec_of_line(j.out, ln)
        if cls == "prop":
            bad = True
            props = sorted({n.split(".")[0] for n in names})
            ctx.violation("property %s clause(s) %s rejected again at line %d: %s" % ("/".join(props), names, ln, ev[:700]), replay_src=ctx.replay)
        else:
            ctx.spec_drift("CeltDecState", "%s at line %d: %s" % (names, ln, ev[:400]))
    if not bad:
        ctx.traces += 1


META = dict(
    engine="CeltDecState",
    technique=("TLA+ state machine of the CELT decoder's / encoder's frame-to-frame control state (DecodeFrame / LoseFrame / Reset / Ctl / "
               "EncodeFrame with signal-dependent decisions as oracles, exact 32-bit LCG in split words); TLC exhaustive over LM x header choices x "
               "loss patterns with step theorems asserted on every transition (refinement of DecOp's CELT bookkeeping, Cvbr's bucket); "
               "TLC-generated op histories and seeded streams replayed through a real OpusEncoder / OpusDecoder pair, private state read after "
               "every call through start-up-checked mirrors + peek hooks; TLC replays the machine on every recorded event"),
    level_text=("TLC proves on the CeltDecState model: the post-filter mirror (after every delivered frame the decoder's (period, gain, tapset) is the "
                "encoder's wherever the gain is non-zero; on loss-free streams also the *_old copies, for every on/off/silence/transient sequence and "
                "frame-size change); periods are 0 or 15..1022 and no comb_filter call reads before decode_mem; loss_duration = concealed time in "
                "2.5 ms units, saturating, and selects pitch vs noise concealment as transcribed (refining DecOp!CeltGood / CeltLost / CeltNoise); "
                "pitch concealment fades by 1 then .8 per frame, noise concealment decays by 1.5 then .5, the pitch phase never follows the noise "
                "phase within a run; prefilter_and_fold is armed exactly while the last CELT frame was pitch-concealed and is consumed once; "
                "reset = init on the cleared region; the reservoir transcription equals Cvbr!BucketStep and stays within Cvbr!BucketBound. "
                "Bound to libopus in situ: every recorded decoder / encoder state equals the machine's (SPEC-DRIFT otherwise), including the exact "
                "rng after noise concealment; C02 / C09 / C12 clauses as violations."),
    level_note=("Trusted: TLC, Json module, the read-only mirrors (layout checked) and peek hooks, the harness's header reading. Signal-dependent "
                "encoder decisions (pitch, gain, tapset / spread decisions, codedBands, byte choice, drift) are oracles constrained by the "
                "deterministic branches of the code. The implementation is exercised on enumerated / sampled histories."),
)
