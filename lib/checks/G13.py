"""G13 - growth module SilkPlc: the speech decoder's concealment and comfort-noise PARAMETER state machine, exactly
(silk/PLC.c, silk/CNG.c, silk/decode_frame.c, silk/decoder_set_fs.c, silk/init_decoder.c; modules SilkPlc, SilkPlc_mc,
SilkPlcGen, SilkPlcTrace; harness/silkplc.c).

Model <-> code disagreement is SPEC-DRIFT (exit 0) except for the clauses that a listed property states:
  C09  decay of the speech layer's own concealment gains under sustained loss / the glue touches a decoded frame only right
       after a concealed one / concealment, FEC and decode calls return the requested duration
  C01  lossCnt and the concealment's pitch lag stay in the range its buffers and tables need
  C12  the state after silk_reset_decoder equals the state after silk_init_decoder
Those are printed as VIOLATION with the property's name in the detail line."""
import json, os, random, re, time
import vf

LEVEL = "model_checking"
PROVISIONAL = []          # (none: no deviation of the code from a listed property was found on the unchanged tree)

WRAP = ["-Wl,--wrap=silk_decode_frame,--wrap=silk_PLC,--wrap=silk_CNG,--wrap=silk_PLC_glue_frames,"
        "--wrap=silk_decoder_set_fs,--wrap=silk_init_decoder,--wrap=silk_reset_decoder"]

MC_ACTIONS = ["Good", "Lost", "Lbrr", "SetFsA", "ResetA"]
TIERS = dict(
    quick=dict(mc=[("SilkPlc_mc_quick.cfg", 8, MC_ACTIONS)], gen="SilkPlcGen_8.cfg", npat=192, per_stream=8, long_every=3,
               fn=(96, 8), nproc=10, chunks=10),
    thorough=dict(mc=[("SilkPlc_mc_quick.cfg", 6, MC_ACTIONS), ("SilkPlc_mc_long.cfg", 8, None), ("SilkPlc_mc_wide.cfg", 8, None)],
                  gen="SilkPlcGen_8.cfg", npat=None, per_stream=6, long_every=2, fn=(1000, 14), nproc=12, chunks=36, reps=2),
)
# tags the validated traces must have exercised (vacuity guard)
NEED = {'<<"good", 0>>', '<<"good", 1>>', '<<"good", 2>>', '<<"lost", 0, 0>>', '<<"lost", 0, 1>>', '<<"lost", 0, 2>>',
        '<<"lost", 1, 0>>', '<<"lost", 1, 1>>', '<<"lost", 1, 2>>', '<<"lbrr", 0>>', '<<"lbrr", 1>>', "plc.reset", "cng.reset",
        "cng.update", '<<"glue", TRUE>>', '<<"glue", FALSE>>', "glue.break", "decay.judged", "lost.with.cng", "fn", "situ",
        "init", "reset", '<<"setfs", TRUE, FALSE>>', '<<"setfs", FALSE, TRUE>>', '<<"setfs", FALSE, FALSE>>',
        "call.G", "call.L", "call.F"}


def stream_plan(ctx, pats, T):
    """Stream descriptions (lines for hx_silkplc situ): every pattern on a rotating configuration."""
    rnd = random.Random(ctx.seed * 7919 + 13)
    pats = list(pats)
    rnd.shuffle(pats)
    if T["npat"]:
        pats = pats[:T["npat"]]
    reps = T.get("reps", 1)
    lines, sid = [], 0
    cfgs = [(bw, ch, ms) for bw in range(5) for ch in (1, 2) for ms in (10, 20, 40, 60) if not (bw >= 3 and ms > 20)]
    rnd.shuffle(cfgs)
    groups = [pats[i:i + T["per_stream"]] for i in range(0, len(pats), T["per_stream"])]
    for rep in range(reps):
        for gi, g in enumerate(groups):
            bw, ch, ms = cfgs[(gi + rep * 7) % len(cfgs)]
            kind = (gi + rep) % 5
            fec = 1 if (gi + rep) % 4 != 3 else 0
            sw = (gi // 5 + rep) % 3 if ms <= 20 else ((gi // 5) % 2)
            words = list(g)
            if gi % T["long_every"] == 0:
                words.insert(len(words) // 2, "X")
            if gi % 4 == 1:
                words.insert(1, "RGLG")
            sid += 1
            lines.append("S %d %d %d %d %d %d %d %d %d %d | %s" % (sid, bw, ch, ms, kind, fec, sw, ctx.seed * 1000 + sid, 4 + gi % 5, 2 + gi % 3, " ".join(words)))
    return lines


def split_trace(path, nchunks, prefix):
    """Split at "new" events into at most nchunks files of similar size; returns [(file, [(first_line, new_id, what)])]."""
    segs, cur = [], None
    with open(path) as f:
        for ln in f:
            if ln.startswith('{"k":"new"'):
                e = json.loads(ln)
                cur = [e["id"], e["w"], []]
                segs.append(cur)
            if cur is None:
                raise vf.Infra("trace does not start with a new event: " + path)
            cur[2].append(ln)
    total = sum(len(s[2]) for s in segs)
    per = max(1, (total + nchunks - 1) // nchunks)
    out, buf, idx, n = [], [], [], 0
    for sid, w, lns in segs:
        idx.append((n + 1, sid, w))
        buf.extend(lns)
        n += len(lns)
        if n >= per:
            out.append((buf, idx)); buf, idx, n = [], [], 0
    if buf:
        out.append((buf, idx))
    res = []
    for i, (b, ix) in enumerate(out):
        p = "%s_%02d.ndjson" % (prefix, i)
        with open(p, "w") as f:
            f.writelines(b)
        res.append((p, ix, len(b)))
    return res


RE_REJ = re.compile(r'REJ <<(\d+), \\?"(\w+)\\?", (.*)>>')


def judge_chunks(ctx, chunks, what, nproc):
    """TLC replays the machine on every chunk.  Returns (rejections, seen tags, events) with
    rejections = [(class, detail, chunk_path, line, (segment id, kind))]."""
    def one(ch):
        p, ix, n = ch
        ok, rej, r = vf.validate_seq(ctx, "SilkPlcTrace", "SilkPlcTrace.cfg", p, what)
        return ch, r
    rejs, seen, events = [], set(), 0
    for (p, ix, n), r in vf.parallel(one, chunks, nproc):
        if r.violation:
            raise vf.Infra("%s: trace spec stopped (%s) on %s" % (what, r.violation, p))
        done = False
        for pr in r.prints:
            s = pr.replace('\\"', '"')
            if "SEEN {" in s:
                done = True
                s2 = s[s.index("SEEN {"):].replace("\\", "")
                seen |= set(re.findall(r'<<"\w+"[^<>]*>>', s2)) | set(re.findall(r'"([a-zA-Z][a-zA-Z.]*)"', s2))
            m = RE_REJ.search(pr)
            if m:
                ln = int(m.group(1))
                seg = [x for x in ix if x[0] <= ln][-1]
                rejs.append((m.group(2), m.group(3).replace('\\"', '"'), p, ln, (seg[1], seg[2])))
        if not done:
            raise vf.Infra("%s: the replay did not reach the end of %s" % (what, p))
        events += n
    return rejs, seen, events


def count_events(path, ctx):
    n = dict(df=0, setfs=0, init=0, call=0, lost=0, dec=0, lbrr=0)
    with open(path) as f:
        for ln in f:
            if ln.startswith('{"k":"df"'):
                e = json.loads(ln)
                n["df"] += 1
                n["dec" if e["dec"] == 1 else "lost"] += 1
                if e["lf"] == 2:
                    n["lbrr"] += 1
                pre = e["pre"]
                ctx.nontrivial.add(hash((e["emu"], e["dec"], e["lf"], e["sig"] if e["dec"] == 1 else pre[1], min(pre[0], 25), pre[4], pre[5],
                                         pre[23], tuple(e["gx"]) != tuple(e["gy"]), pre[29] > 0)))
                if n["df"] in (40, 4000, 40000) or (e["dec"] == 0 and pre[0] == 21 and n["lost"] % 97 == 0):
                    ctx.sample(dict(event="silk_decode_frame", lostFlag=e["lf"], decoded=e["dec"], lossCnt_before=pre[0], prevSignalType_before=pre[1],
                                    fs_kHz=pre[4], nb_subfr=pre[5], pitchL_Q8=[pre[11], e["post"][11]], LTPCoef_centre_Q14=[pre[14], e["post"][14]],
                                    randScale_Q14=[pre[20], e["post"][20]], CNG_smth_Gain_Q16=[pre[29], e["post"][29]], last_frame_lost=[pre[23], e["post"][23]]))
            else:
                for k in ("setfs", "init", "call"):
                    if ln.startswith('{"k":"%s"' % k):
                        n[k] += 1
    return n


def report(ctx, rejs, replay_of):
    """SPEC-DRIFT / VIOLATION lines from the rejections; at most a few of each."""
    nd = nv = 0
    seen_v = set()
    for cls, detail, p, ln, seg in rejs:
        if cls == "drift":
            nd += 1
            if nd <= 6:
                ctx.spec_drift("SilkPlc", "%s segment %s line %d of %s: %s" % (seg[1], seg[0], ln, os.path.basename(p), detail[:500]))
        else:
            key = (cls, detail.split(",")[0], seg)
            if key in seen_v:
                continue
            seen_v.add(key)
            nv += 1
            ctx.violation("%s clause %s rejected by SilkPlcTrace at event %d of %s segment %s: %s" % (cls, detail.split(",")[0].strip('<"'), ln, seg[1], seg[0], detail[:600]),
                          replay_text=replay_of(seg))
    if nd > 6:
        vf.log("  (%d SPEC-DRIFT rejections in total)" % nd)
    return nd, nv


def run_harness(ctx, exe, mode, arg, out):
    if mode == "fn":
        rc, err = vf.run_hx(exe, ["fn"] + [str(a) for a in arg], out, timeout=1500)
    else:
        inp = out + ".in"
        with open(inp, "w") as f:
            f.write("\n".join(arg) + "\n")
        rc, err = vf.run_hx(exe, ["situ"], out, timeout=1500, stdin_path=inp)
    if rc != 0:
        # a crash of the decoder under the sanitizer / assertions is the one thing the runner reports directly
        ctx.violation("C01: hx_silkplc %s ended with rc=%d (sanitizer / assertion / watchdog): %s" % (mode, rc, err[-1200:]),
                      replay_text=json.dumps(dict(mode=mode, arg=arg)))
        raise vf.Infra("harness rc=%d" % rc)


def replay(ctx, exe):
    d = json.loads(open(ctx.replay).read().strip().splitlines()[0])
    out = ctx.path("replay.ndjson")
    run_harness(ctx, exe, d["mode"], d["arg"], out)
    chunks = split_trace(out, 1, ctx.path("replay_chunk"))
    rejs, seen, events = judge_chunks(ctx, chunks, "replay", 1)
    ctx.evaluations += events
    nd, nv = report(ctx, rejs, lambda seg: json.dumps(d))
    if not rejs:
        ctx.traces += 1
    ctx.notes["replay"] = dict(source=ctx.replay, events=events, drift=nd, violations=nv)


def run(ctx):
    T = TIERS[ctx.tier]
    ctx.rule = ("SilkPlc_mc: TLC runs the concealment / comfort-noise parameter machine over the boundary grid of decoded parameters x loss runs x "
                "rate and frame-length changes x resets and checks the theorems listed in notes.theorems (32-bit TLC integers: a completed run "
                "also proves the transcribed expressions overflow-free on the grid). hx_silkplc interposes the real silk_decode_frame / silk_PLC / "
                "silk_CNG / silk_PLC_glue_frames / silk_decoder_set_fs / silk_init_decoder / silk_reset_decoder (link-time --wrap) and records the "
                "state before and after every call (a) at function level with hand-built silk_decoder_control at domain boundaries and (b) inside "
                "opus_decode of real speech-only / hybrid streams under every TLC-generated loss/FEC pattern of length 8 (SilkPlcGen) plus 24-packet "
                "loss runs and OPUS_RESET_STATE; SilkPlcTrace replays the machine on every recorded call. Non-trivial = distinct (level, decoded, "
                "lostFlag, signal type, lossCnt bucket, rate, sub-frames, last_frame_lost, glue touched the frame, comfort-noise estimate present).")
    ctx.assumptions = [
        "Model constants: attenuation tables HARM_ATT {32440,31130}, RAND_ATT_V {31130,26214}, RAND_ATT_UV {32440,29491}, NB_ATT 2, pitch drift 655/65536 "
        "per sub-frame clamped to 18 ms, tap limits 11469..15565 (Q14), BWE 64881/65536, CNG smoothing 4634 / 16348 / threshold 46396, CNG seed 3176576, "
        "silk_RAND multiplier 196314165 increment 907633515 (n-fold application as one affine map for n in {80,120,160,240,320}, checked against the iterated form).",
        "Oracles taken from the harness and only bounded in the model: silk_sum_sqr_shift of the frame (energy, shift) and silk_LPC_inverse_pred_gain (0..2^30).",
        "C09 decay clause (calibrated, R3): after DecayFrames = 20 consecutive concealed frames randScale_Q14 and |centre tap| are at most 1/2 of their value after "
        "the first concealed frame or at most 16 (Q14); the model proves 0.14 and 0.018 for every parameter combination (margins 3.6x and 27x). The comfort noise that "
        "silk_CNG ADDS on lost frames tends to CNG_smth_Gain_Q16 and is outside the clause (findings/OBS_c09_silk_concealment_no_decay.c): decay of the total is "
        "guaranteed only when CNG_smth_Gain_Q16 = 0, i.e. no inactive frame was decoded since the last rate change / reset.",
        "Streams: Opus encoder at 48 kHz, forced speech-only (8/12/16 kHz internal) or hybrid, 10-60 ms, mono/stereo, FEC on/off, DTX on/off, mid-stream bandwidth or "
        "frame-duration switches; decoder at 48 kHz through opus_decode.",
    ]
    var = vf.build_variant("hk")
    exe = vf.build_hx(var, "silkplc.c", extra=WRAP)
    if ctx.replay:
        return replay(ctx, exe)

    # 1. the model
    for cfg, workers, acts in T["mc"]:
        r = ctx.mc("SilkPlc_mc", cfg, workers=workers, require_actions=acts, heap="6g")
        if not r.ok:
            raise vf.Infra("SilkPlc_mc/%s: a theorem of the model is violated: %s\n%s" % (cfg, r.violation, (r.state_dump or "")[:1500]))
    if ctx.tier == "thorough":
        w = vf.tlc("SilkPlc_mc", "SilkPlc_mc_witness.cfg", workers=4, heap="4g")
        if w.error or w.violation != "TruncationWitness":
            raise vf.Infra("SilkPlc_mc witness: expected TruncationWitness to be refuted, got %s %s" % (w.violation, w.error))
        ctx.add_tlc(w, "mc SilkPlc_mc/witness (expected refutation)")
    ctx.notes["theorems"] = ["AttTablesOK", "NonIncreasing", "DecayClause", "FloorReached (72 frames)", "Ranges", "PitchMonotone", "Collapse", "CngOnlyInactive",
                             "CngSeedOnlyLoss", "CngGainRange", "GlueRamp", "GlueGridOK", "CngAddGridOK", "LflIffLoss (DecOp's invariant)", "GlueClears",
                             "SetFsEffect", "LazyResets", "RandN = RandIter"]
    ctx.notes["observation_tap_limit_truncation"] = (
        "silk_PLC_update: for 0 < LTP_Gain_Q14 < 359 (reachable: codebook-0 row {0,0,2,0,0} in every searched sub-frame gives 256) scale_Q10 = (11469<<10)/gain "
        "exceeds 16 bits and silk_SMULBB reads only its low 16 bits as a signed value: the centre tap becomes -4915 (Q14) instead of 11469, randScale_Q14 starts "
        "above 1.0 (up to 20234) and the negative tap decays to -1, never 0. Witness: SilkPlc_mc_witness.cfg (refuted as expected). No listed property is affected.")
    ctx.exhaustive = T["npat"] is None
    ctx.notes["exhaustive_scope"] = "the machine over the grids of SilkPlc_mc (cfgs: %s); loss patterns: %s words of SilkPlcGen" % (
        ", ".join(c for c, _, _ in T["mc"]), "a seeded sample of the" if T["npat"] else "all")

    # 2. loss patterns from the model's alphabet
    g = vf.tlc("SilkPlcGen", T["gen"], workers=2, heap="2g")
    if g.error or g.violation:
        raise vf.Infra("SilkPlcGen: %s %s" % (g.error, g.violation))
    ctx.add_tlc(g, "gen SilkPlcGen/" + T["gen"])
    pats = sorted(set(re.findall(r'"PAT", \\?"([GLF]+)', "\n".join(g.prints))))
    if len(pats) < 900:
        raise vf.Infra("SilkPlcGen produced %d patterns" % len(pats))
    lines = stream_plan(ctx, pats, T)
    ctx.notes["patterns"] = dict(generated=len(pats), used=len(set(w for l in lines for w in l.split("|")[1].split() if re.fullmatch("[GLF]{8}", w))), streams=len(lines))

    # 3. executions
    t0 = time.time()
    fn_out = ctx.path("fn.ndjson")
    fn_arg = [ctx.seed + 1, T["fn"][0], T["fn"][1]]
    run_harness(ctx, exe, "fn", fn_arg, fn_out)
    nproc = T["nproc"]
    parts = [lines[i::nproc] for i in range(nproc)]
    outs = [ctx.path("situ_%02d.ndjson" % i) for i in range(nproc)]
    vf.parallel(lambda j: run_harness(ctx, exe, "situ", parts[j], outs[j]) if parts[j] else None, list(range(nproc)), nproc)
    ctx.notes["harness_wall_s"] = round(time.time() - t0, 1)

    # 4. judgement by TLC
    chunks = split_trace(fn_out, max(1, T["chunks"] // 5), ctx.path("fnc"))
    counts = count_events(fn_out, ctx)
    by_id = {}
    for j in range(nproc):
        if not parts[j]:
            continue
        for l in parts[j]:
            by_id[int(l.split()[1])] = l
        chunks += split_trace(outs[j], max(1, T["chunks"] // nproc), ctx.path("sc%02d" % j))
        c = count_events(outs[j], ctx)
        for k in c:
            counts[k] += c[k]
    t0 = time.time()
    rejs, seen, events = judge_chunks(ctx, chunks, "SilkPlcTrace", nproc)
    ctx.notes["judge_wall_s"] = round(time.time() - t0, 1)

    def replay_of(seg):
        return json.dumps(dict(mode="fn", arg=fn_arg) if seg[1] == "fn" else dict(mode="situ", arg=[by_id[seg[0]]]))
    # R4: a property-level rejection is re-executed once before it is reported
    prop = [r for r in rejs if r[0] != "drift"]
    if prop:
        seg = prop[0][4]
        d = json.loads(replay_of(seg))
        out2 = ctx.path("again.ndjson")
        run_harness(ctx, exe, d["mode"], d["arg"], out2)
        r2, _, _ = judge_chunks(ctx, split_trace(out2, 1, ctx.path("againc")), "re-run", 1)
        if not [r for r in r2 if r[0] != "drift"]:
            raise vf.Infra("a rejection (%s) did not repeat on re-execution" % (prop[0][:2],))
    nd, nv = report(ctx, rejs, replay_of)
    bad_segs = set(r[4] for r in rejs)
    nseg = sum(len(ix) for _, ix, _ in chunks)
    ctx.traces += nseg - len(bad_segs)
    ctx.evaluations += counts["df"] + counts["setfs"] + counts["init"] + counts["call"]
    ctx.notes["events"] = counts
    ctx.notes["coverage_tags"] = sorted(seen)
    ctx.notes["rejections"] = dict(drift=nd, property=nv)
    missing = NEED - seen
    if missing and not rejs:
        raise vf.Infra("vacuous replay: never exercised %s" % sorted(missing))
    if events != sum(n for _, _, n in chunks):
        raise vf.Infra("event count mismatch")


META = dict(
    engine="SilkPlc",
    technique="TLA+ transcription of the speech decoder's concealment / comfort-noise parameter arithmetic; TLC theorems over boundary grids; "
              "link-time interposition of the real functions, function-level and in-situ traces replayed by TLC",
    level_text="model checking of the parameter machine within the grids + conformance of every recorded call of the real functions",
    level_note="growth module: SPEC-DRIFT by default; VIOLATION only for the C09 / C01 / C12 clauses named in the module's docstring",
)
