"""G14 - growth module Resampler: the SILK resampler (silk/resampler.c, resampler_private_down_FIR.c, resampler_private_IIR_FIR.c,
resampler_private_up2_HQ.c) as an exact integer index / state machine, and its callers' length contracts (silk/dec_API.c,
silk/enc_API.c, control_codec.c silk_setup_resamplers) - modules Resampler, Resampler_mc, Resampler_gen, ResamplerTrace;
harness/resampler.c."""
import json, os, random, re
import vf

LEVEL = "model_checking"

R5 = [8000, 12000, 16000, 24000, 48000]
R3 = [8000, 12000, 16000]
PAIRS = [(fi, fo, 1) for fi in R5 for fo in R3] + [(fi, fo, 0) for fi in R3 for fo in R5]
FOREIGN = [0, 8000, 11025, 12000, 16000, 22050, 24000, 32000, 44100, 48000, 96000]
WITNESSES = [("Resampler_mc_w_noloop.cfg", "T_Call"), ("Resampler_mc_w_NoDown.cfg", "W_NoDown"),
             ("Resampler_mc_w_NoIirFir.cfg", "W_NoIirFir"), ("Resampler_mc_w_NoReject.cfg", "W_NoReject")]
ABORT_RC = (-6, -11, -8, -7, -4, 97, 98, 99, 134, 139)
ST = dict(init=0, seq=0, chunk=0, mem=0, imp=0, dec=0, enc=0, insitu=0, insitu_compared=0, resampler_calls=0, non_ms_calls=0, enc_rate_switches=0)
SEEN = dict(seq_pairs=set(), fns=set(), dec_pairs=set(), enc_pairs=set(), insitu_pairs=set())
NPROP = [0]


# ---------------------------------------------------------------------------------------------------------------
# model side

def model_checking(ctx):
    tier = ctx.tier
    r = ctx.mc("Resampler_mc", "Resampler_mc_%s.cfg" % tier, deadlock=True, workers=4, timeout=1500, heap="3g",
               what="Resampler theorems: init accept set, per-call counts and safety, canonical taps, chunking, callers (%s)" % tier)
    if r.violation:
        raise vf.Infra("Resampler theorem %s violated:\n%s" % (r.violation, r.state_dump[:3000]))
    pairs = []
    for p in r.prints:
        m = re.match(r'<<"PAIR", (\d+), (\d+), (\d+), (\d+), (\d+), (\d+), (\d+), (\d+), (\d+)>>', p)
        if m:
            pairs.append(tuple(int(x) for x in m.groups()))
    if len(set(pairs)) != 30:
        raise vf.Infra("Resampler_mc visited %d accepted pairs, expected 30" % len(set(pairs)))
    ctx.notes["pairs_needing_roundup_loop"] = sorted("%d->%d %s (%d steps)" % (p[0], p[1], "enc" if p[2] else "dec", p[6]) for p in set(pairs) if p[6] > 0 and p[3] in (2, 3))
    ctx.notes["model_pairs"] = len(set(pairs))
    r = ctx.mc("Resampler_mc", "Resampler_mc_reinit.cfg", deadlock=True, workers=2, timeout=600, heap="2g",
               what="re-initialisation from any used state equals fresh init")
    if r.violation:
        raise vf.Infra("Resampler reinit theorem %s violated:\n%s" % (r.violation, r.state_dump[:3000]))

    def wit(w):
        return w, vf.tlc("Resampler_mc", w[0], workers=2, timeout=600, heap="2g", deadlock=True)
    for (cfg, inv), r in vf.parallel(wit, WITNESSES, nproc=2):
        if r.error:
            raise vf.Infra("witness %s: %s" % (cfg, r.error))
        ctx.add_tlc(r, "witness " + cfg)
        if r.violation != inv:
            raise vf.Infra("witness %s: expected %s to be violated, got %s (vacuous model)" % (cfg, inv, r.violation))
    ctx.notes["witnesses_refuted"] = [w[0] for w in WITNESSES]


def from_tlc(ctx, rng, keep):
    r = vf.tlc("Resampler_gen", "Resampler_gen.cfg", workers=2, timeout=900, heap="3g", deadlock=True)
    if r.error or r.violation:
        raise vf.Infra("Resampler_gen: %s %s" % (r.error, r.violation))
    ctx.add_tlc(r, "gen Resampler_gen")
    by_pair = {}
    for p in r.prints:
        m = re.match(r'<<"SCHED", (\d+), (\d+), (\d+), <<([\d, ]*)>>>>', p)
        if m:
            by_pair.setdefault((int(m.group(1)), int(m.group(2)), int(m.group(3))), []).append([int(x) for x in m.group(4).split(",")])
    n = sum(len(v) for v in by_pair.values())
    if len(by_pair) != 30 or n == 0:
        raise vf.Infra("Resampler_gen emitted schedules for %d pairs" % len(by_pair))
    lines = []
    per = max(1, keep // 30)
    for (fi, fo, enc), sch in sorted(by_pair.items()):
        sch.sort()
        for ks in (sch if len(sch) <= per else rng.sample(sch, per)):
            lines.append("S %d %d %d %d %s" % (fi, fo, enc, rng.randrange(1, 1 << 30), " ".join(str(k * (fi // 1000)) for k in ks)))
    return lines, n


# ---------------------------------------------------------------------------------------------------------------
# plans

def partition(rng, ms):
    out = []
    while ms > 0:
        k = min(ms, rng.choice([1, 1, 2, 3, 5, 7, 10, 10, 11, 19, 20, 20, 21, 40]))
        out.append(k); ms -= k
    return out


def plans(ctx, rng, asan):
    th = ctx.tier == "thorough"
    sd = lambda: rng.randrange(1, 1 << 30)
    L = []
    for (fi, fo, enc) in PAIRS:
        L.append("I %d %d %d" % (fi, fo, enc))
    if asan:           # rejected pairs: celt_assert(0) aborts in assertion / hardening builds: the harness tries them in a child
        for fi in FOREIGN:
            for fo in FOREIGN:
                for enc in (0, 1):
                    L.append("I %d %d %d" % (fi, fo, enc))
    for (fi, fo, enc) in PAIRS:
        kin = fi // 1000
        # arbitrary sample counts >= 1 ms (not only whole ms): the model's generic count incl. down_FIR's "inLen > 1" exit
        for _ in range(12 if th else 3):
            lens = [rng.choice([kin, kin + 1, kin + 2, 2 * kin - 1, 10 * kin + 1, 11 * kin, 11 * kin + 1, 11 * kin + 2, 21 * kin + 1,
                                rng.randrange(kin, 61 * kin)]) for _ in range(rng.randrange(3, 7))]
            L.append("S %d %d %d %d %s" % (fi, fo, enc, sd(), " ".join(map(str, lens))))
        for (a, b) in [([20], [10, 10]), ([20], [1] * 20), ([40], [20, 20]), ([60], [7, 2, 11, 40]), ([10, 10, 10], [30])]:
            L.append("C %d %d %d %d %s | %s" % (fi, fo, enc, sd(), " ".join(map(str, a)), " ".join(map(str, b))))
        for _ in range(30 if th else 3):
            ms = rng.choice([20, 40, 60, 33, 120])
            L.append("C %d %d %d %d %s | %s" % (fi, fo, enc, sd(), " ".join(map(str, partition(rng, ms))), " ".join(map(str, partition(rng, ms)))))
        for _ in range(8 if th else 2):
            ks = partition(rng, rng.choice([20, 30, 60]))
            L.append("M %d %d %d %d %d %s" % (fi, fo, enc, sd(), rng.randrange(0, len(ks) + 1), " ".join(map(str, ks))))
        for chunk in (30, 10, 1):
            for i in [0, kin - 1, kin, 10 * kin - 1, 10 * kin, 11 * kin, 11 * kin + 1] + [rng.randrange(0, 27 * kin) for _ in range(12 if th else 2)]:
                L.append("P %d %d %d 30 %d %d" % (fi, fo, enc, chunk, i))
    dl = []
    for api, ch in ([(48000, 1), (48000, 2)] + ([(16000, 1), (24000, 2)] if th else [])):
        for mode, bw in [(1000, 1101), (1000, 1102), (1000, 1103), (1001, 1104), (1001, 1105)]:
            if api < 48000 and bw > 1103:
                continue
            for fms in (10, 20, 40, 60):
                for dapi in R5:
                    for dch in (1, 2):
                        dl.append((bw, dapi, "D %d %d %d %d %d %d %d %d" % (api, ch, sd(), mode, bw, fms, dapi, dch)))
    if not th:        # stratified sample: every (bandwidth, decoder rate) cell keeps 3 executions
        cells = {}
        for bw, dapi, ln in dl:
            cells.setdefault((bw, dapi), []).append((bw, dapi, ln))
        dl = [x for k in sorted(cells) for x in rng.sample(cells[k], 3)]
    L += [x[2] for x in dl]
    vl = []
    for api, ch in [(48000, 1), (48000, 2), (16000, 1)]:
        for bw in (1101, 1102, 1103):
            for fms in (10, 20, 40, 60):
                for dapi in R5:
                    vl.append((bw, dapi, "V %d %d %d %d %d %d" % (api, ch, sd(), bw, fms, dapi)))
    if not th:        # stratified: 3 executions per (internal rate, decoder rate) cell
        cells = {}
        for bw, dapi, ln in vl:
            cells.setdefault((bw, dapi), []).append((bw, dapi, ln))
        vl = [x for k in sorted(cells) for x in rng.sample(cells[k], 3)]
    L += [x[2] for x in vl]
    for api in R5:
        for ch in (1, 2):
            for s in range(3 if th else 1):
                L.append("E %d %d %d" % (api, ch, sd() * 3 + s))
    return L


# ---------------------------------------------------------------------------------------------------------------
# running and judging

def run_chunks(ctx, exe, lines, nchunks, tag, args):
    per = (len(lines) + nchunks - 1) // nchunks
    jobs = []
    for k in range(nchunks):
        part = lines[k * per:(k + 1) * per]
        if part:
            ip = ctx.path("%s_plan_%02d.txt" % (tag, k))
            with open(ip, "w") as f:
                f.write("\n".join(part) + "\n")
            jobs.append((k, ip))

    def one(job):
        k, ip = job
        out = ctx.path("%s_trace_%02d.ndjson" % (tag, k))
        rc, err = vf.run_hx(exe, args, out, stdin_path=ip, timeout=1500)
        return k, ip, out, rc, err
    return vf.parallel(one, jobs, nproc=min(8, vf.NCPU))


def validate(ctx, out, what):
    n = vf.count_lines(out)
    if n == 0:
        return [], True
    r = vf.tlc("ResamplerTrace", "ResamplerTrace.cfg", workers=1, env={"TRACE": out}, timeout=1500, heap="2g",
               tag=what.replace(" ", "_") + os.path.basename(out))
    if r.error:
        raise vf.Infra("%s: %s" % (what, r.error))
    ctx.add_tlc(r, "trace %s %s" % (what, os.path.basename(out)))
    rej = []
    for p in r.prints:
        m = re.match(r'<<"REJ", (\d+), "(\w+)", "([\w.]+)">>', p)
        if m:
            rej.append((int(m.group(1)), m.group(2), m.group(3)))
    return sorted(set(rej)), (r.violation is None and r.distinct == n)


def stats(ctx, out):
    prev = {}
    with open(out) as f:
        for ln in f:
            try:
                e = json.loads(ln)
            except ValueError:
                continue
            k = e.get("k")
            if k not in ST:
                continue
            ST[k] += 1
            ctx.evaluations += 1
            if k == "seq" and e.get("r") == 0:
                kin = e["fi"] // 1000
                ST["resampler_calls"] += len(e["lens"])
                nm = sum(1 for x in e["lens"] if x % kin)
                ST["non_ms_calls"] += nm
                SEEN["seq_pairs"].add((e["fi"], e["fo"], e["enc"]))
                SEEN["fns"].add(e["st"][5])
                if e["st"][5] in (2, 3):
                    ctx.nontrivial.add("seq %s" % ln[:200])
                if nm and len(ctx.samples) < 3:
                    ctx.sample(e)
            elif k in ("chunk", "mem", "imp"):
                ctx.nontrivial.add("%s %s" % (k, ln[:200]))
                if k == "chunk" and len(ctx.samples) < 5 and len(e["cb"]) > 2:
                    ctx.sample(e)
                if k == "imp" and len(ctx.samples) < 6 and e["first"] > 100:
                    ctx.sample(e)
            elif k == "dec" and e.get("toc", -1) >= 0:
                cfg = e["toc"] >> 3
                if cfg < 16:
                    SEEN["dec_pairs"].add((e["st"][0], e["dapi"] // 1000))
                if len(ctx.samples) < 7 and e["dapi"] != 48000:
                    ctx.sample(e)
            elif k == "insitu":
                if e["tocsame"] == 1 and e["sh0"]:
                    ST["insitu_compared"] += 1
                    SEEN["insitu_pairs"].add((e["intfs"] // 1000, e["dapi"] // 1000))
                    ctx.nontrivial.add("insitu %s" % ln[:200])
                    if len(ctx.samples) < 8 and e["ch"] == 2:
                        ctx.sample(e)
            elif k == "enc":
                SEEN["enc_pairs"].add((e["st"][0], e["st"][1]))
                key = (e["x"], os.path.basename(out))
                if key in prev and prev[key] != e["fsk"]:
                    ST["enc_rate_switches"] += 1
                    ctx.nontrivial.add("encswitch %s %s" % (key, ln[:80]))
                    if len(ctx.samples) < 8:
                        ctx.sample(e)
                prev[key] = e["fsk"]


def plan_line_of(out, ip, lineno):
    ev = vf.file_line(out, lineno)
    try:
        x = json.loads(ev)["x"]
    except (ValueError, KeyError):
        return "", ev
    return vf.file_line(ip, x), ev


def judge(ctx, exe, outs, tag, args):
    drifts = {}
    good = []
    for k, ip, out, rc, err in outs:
        if rc in ABORT_RC:
            # the plan line being executed is the one after the last complete event
            x = 0
            with open(out, "rb") as f:
                data = f.read()
            data = data[:data.rfind(b"\n") + 1]
            for ln in data.decode("utf-8", "replace").splitlines()[-1:]:
                try:
                    x = json.loads(ln)["x"]
                except (ValueError, KeyError):
                    pass
            with open(out, "wb") as f:
                f.write(data)
            line = vf.file_line(ip, x + 1)
            rp = ctx.path("abort_%s_%d.txt" % (tag, k))
            with open(rp, "w") as f:
                f.write(line + "\n")
            rc2, err2 = vf.run_hx(exe, args, rp + ".ndjson", stdin_path=rp, timeout=600)        # R4: once more, alone
            if rc2 not in ABORT_RC:
                raise vf.Infra("abort not repeatable (rc=%d then rc=%d) on [%s]: %s" % (rc, rc2, line[:200], err[-800:]))
            ctx.violation("property C01/C05 (memory safety, no internal error): hx_resampler aborted rc=%d (sanitizer / assertion / hang) "
                          "in [%s]: %s" % (rc, line[:200], err[-1500:]), replay_src=rp)
            good.append((k, ip, out))
        elif rc != 0:
            raise vf.Infra("hx_resampler rc=%d on %s: %s" % (rc, ip, err[-800:]))
        else:
            good.append((k, ip, out))

    def val(job):
        k, ip, out = job
        return job, validate(ctx, out, "G14 %s %02d" % (tag, k))
    for (k, ip, out), (rej, complete) in vf.parallel(val, good, nproc=min(8, vf.NCPU)):
        if not complete:
            raise vf.Infra("ResamplerTrace did not judge every case of %s" % out)
        stats(ctx, out)
        ctx.traces += vf.count_lines(out) - len({x[0] for x in rej})        # recorded executions (cases) TLC accepted in full
        for (ln, cls, name) in rej:
            line, ev = plan_line_of(out, ip, ln)
            if cls == "prop":
                NPROP[0] += 1
                if len(ctx.violations) >= 5:
                    continue
                rp = ctx.path("rej_%s_%d_%d.txt" % (tag, k, ln))
                with open(rp, "w") as f:
                    f.write(line + "\n")
                out2 = rp + ".ndjson"
                rc2, err2 = vf.run_hx(exe, args, out2, stdin_path=rp, timeout=600)            # R4: once more, alone
                if rc2 == 0:
                    rej2, _ = validate(ctx, out2, "G14 recheck")
                    if not [x for x in rej2 if x[1] == "prop"]:
                        raise vf.Infra("rejection not repeatable: %s line %d %s" % (out, ln, name))
                ctx.violation("property %s: clause %s rejected by ResamplerTrace: execution [%s] event %s" % (
                    name.split(".")[0], name, line[:300], ev[:600]), replay_src=rp)
            else:
                drifts.setdefault(name, []).append((out, ln, line, ev))
    for name, lst in sorted(drifts.items()):
        out, ln, line, ev = lst[0]
        ctx.spec_drift("Resampler", "%s: %d case(s), first at %s line %d: execution [%s] event %s" % (
            name, len(lst), os.path.basename(out), ln, line[:200], ev[:500]))


def run(ctx):
    tier = ctx.tier
    ctx.rule = ("TLC explores the Resampler machine (Init over documented and foreign rate pairs, Call(k ms) sequences) and proves the "
                "count / safety / canonical-tap / chunking / caller theorems; witnesses refuted (round-up loop removed, vacuity). "
                "TLC-generated call schedules, arbitrary-length calls, chunkings, memcpy clones, impulse probes run through the real "
                "silk_resampler_init / silk_resampler on guarded and exactly-sized heap buffers (ASan build), real decoders at every "
                "API rate x internal rate and real encoders across bandwidth switches in situ; every recorded case judged by "
                "ResamplerTrace. non-trivial = distinct FIR-path call sequences, chunking / clone / impulse cases, encoder rate switches")
    ctx.assumptions = ["TLC and the CommunityModules Json reader are trusted",
                       "float build, OPUS_FAST_INT64 form of silk_SMULWW; sample values are not modelled (only counts, indices, fill marks)",
                       "model conformance is SPEC-DRIFT; VIOLATION only for clauses C01 / C02 / C05 / C12 state: decoder sample count and "
                       "last-packet-duration, canaries / sanitizer / assertion aborts, output independent of memory contents / chunking, "
                       "memcpy clone equivalence",
                       "the decoder / encoder private state is read through the library's own struct definitions and a start-up-checked "
                       "mirror of the first members of OpusDecoder / OpusEncoder",
                       "group-delay equalisation claimed by the delay matrices is not proved on the model (inputDelay values and the 1 ms bound are); "
                       "it is measured: impulse-peak delay within 250 us of the per-rate centre (calibrated, spread <= 65 us), SPEC-DRIFT"]
    var = vf.build_variant("hk")
    exe = vf.build_hx(var, "resampler.c")
    if ctx.replay:
        return replay(ctx, exe)
    model_checking(ctx)
    ctx.exhaustive = True
    ctx.notes["exhaustive_scope"] = ("model side: all 30 accepted pairs + foreign rates, call lengths %s ms, 3 calls per stream; "
                                     "implementation side: all 30 pairs, sampled schedules / signals" % ("1..60" if tier == "thorough" else "{1,2,3,5,9,10,11,19,20,21,40,60}"))
    rng = random.Random(ctx.seed)
    gl, ntlc = from_tlc(ctx, rng, 6000 if tier == "quick" else 51840)
    pl = plans(ctx, rng, True)
    lines = gl + pl
    rng.shuffle(lines)
    ctx.notes["executions"] = dict(tlc_generated=ntlc, tlc_replayed=len(gl), directed_and_random=len(pl))
    outs = run_chunks(ctx, exe, lines, 8 if tier == "quick" else 12, "a", ["exact"])
    judge(ctx, exe, outs, "hk", ["exact"])
    ctx.notes["observed"] = dict(ST)
    ctx.notes["coverage"] = dict(seq_pairs=len(SEEN["seq_pairs"]), functions=sorted(SEEN["fns"]), decoder_pairs_kHz=sorted(SEEN["dec_pairs"]),
                                 encoder_pairs_kHz=sorted(SEEN["enc_pairs"]), insitu_value_pairs_kHz=sorted(SEEN["insitu_pairs"]))
    ctx.notes["property_clause_rejections"] = NPROP[0]
    missing = []
    if len(SEEN["seq_pairs"]) != 30:
        missing.append("seq pairs %d/30" % len(SEEN["seq_pairs"]))
    if SEEN["fns"] != {0, 1, 2, 3}:
        missing.append("functions %s" % sorted(SEEN["fns"]))
    if len(SEEN["dec_pairs"]) != 15:
        missing.append("decoder pairs %d/15" % len(SEEN["dec_pairs"]))
    if len(SEEN["enc_pairs"]) < 9:
        missing.append("encoder pairs %d" % len(SEEN["enc_pairs"]))
    if len(SEEN["insitu_pairs"]) < 15:
        missing.append("in-situ value pairs %d" % len(SEEN["insitu_pairs"]))
    for k in ("init", "seq", "chunk", "mem", "imp", "dec", "enc", "insitu_compared", "non_ms_calls", "enc_rate_switches"):
        if ST[k] == 0:
            missing.append(k)
    if missing and not ctx.violations and not ctx.drift:
        raise vf.Infra("vacuity guard: never exercised: %s" % missing)


def replay(ctx, exe):
    lines = [ln.rstrip("\n") for ln in open(ctx.replay) if ln[:1] in "ISCMPDEV"]
    outs = run_chunks(ctx, exe, lines, 1, "r", ["exact"])
    judge(ctx, exe, outs, "replay", ["exact"])
    ctx.nontrivial_count = 0 if ctx.nontrivial else 1
    ctx.states = max(ctx.states, 1); ctx.transitions = max(ctx.transitions, 1)


META = dict(
    engine="Resampler",
    technique=("TLA+ integer index/state machine of the SILK resampler (init tables, invRatio_Q16 with its round-up loop, 1 ms delayBuf "
               "splice, batch loops of down_FIR / IIR_FIR, trip counts, tap and phase of every output, buffer extents, callers' length "
               "contracts incl. silk_setup_resamplers); TLC exhaustive over all accepted rate pairs x call lengths x call sequences + "
               "refuted witnesses; TLC-generated schedules replayed on the real functions under ASan with exact-size buffers; in-situ "
               "decoders / encoders; TLC trace validation of every recorded case"),
    level_text=("TLC proves on the Resampler model, for all 30 accepted (Fs_in, Fs_out, forEnc) and foreign rates: init accepts exactly "
                "the documented pairs and sets function / delay / batch / FIR tables as the matrices say; every call of k ms (k in 1..60) "
                "writes exactly k*Fs_out_kHz samples with the first millisecond exactly Fs_out_kHz, drops nothing, keeps every read of "
                "buf / delayBuf / sFIR / in and every write inside the arrays and inside the filled part, no 32-bit index overflow; each "
                "output's tap and interpolation phase are the exact rational ones (so chunkings of a stream consume the same input "
                "indices per output); the round-up loop is needed exactly for the pairs reported; decoder frames, 10 ms encoder blocks "
                "and the rate-switch re-buffering fit their buffers exactly. Bound to libopus: state fields, output high-water marks "
                "for arbitrary lengths and impulse first-dependence are SPEC-DRIFT; decoder counts, memory safety, chunking / "
                "memory-content / clone invariance of the output are C01 / C02 / C05 / C12 violations."),
    level_note=("Trusted: TLC, Json module, the library's struct definitions. Sample values, filter responses and the group delays "
                "behind the delay matrices are not modelled; the implementation is exercised on sampled signals."),
)
