"""G15 - growth module SilkDecCore: the SILK decoder's synthesis buffers as an exact index machine - which array cells every
frame reads and writes (silk/decode_core.c, decode_frame.c, decoder_set_fs.c, PLC.c silk_PLC_conceal, CNG.c, dec_API.c carving;
modules SilkDecCore, SilkDecCore_mc, SilkDecCoreTrace; harness/silkdeccore.c).  SilkPlc (G13) is instanced for the concealment's
lag evolution, SilkParams (C18) for the lag vectors a bitstream can code.

Model <-> code disagreement is SPEC-DRIFT (exit 0) except for the clauses a listed property states:
  C01  memory safety of the speech layer as arithmetic: every access interval of a call (computed by the model from the RECORDED
       geometry / lags / state) and every recorded silk_LPC_analysis_filter span lies inside its array, start_idx > 0 and idx > 0,
       decode_frame's frame-shape checks; and the one thing the runner reports directly: a sanitizer / assertion abort
  C12  no scratch cell is read before it was written in the same call (output depending on stack contents): the model's
       read-before-write fold on the recorded values, and the twin execution of every function-level call over a differently
       filled stack (outputs and state must be equal)
(A second twin whose exc_Q14 / outBuf cells outside the model's read set are flipped must also agree: a difference means the code
reads state cells the model does not - SPEC-DRIFT, because reading another cell of the same array breaks no listed property.)
Those are printed as VIOLATION with the property's name in the detail line."""
import json, os, random, re, time
import vf

LEVEL = "model_checking"
PROVISIONAL = []          # no deviation of the code from a listed property was found on the unchanged tree

WRAP = ["-Wl,--wrap=silk_decode_core,--wrap=silk_LPC_analysis_filter,--wrap=silk_PLC,--wrap=silk_CNG,"
        "--wrap=silk_decode_frame,--wrap=silk_decoder_set_fs,--wrap=silk_sum_sqr_shift"]

INV = ["AllInside", "StartIdxPositive", "PlcIdxPositive", "StartIdxMargin", "PlcIdxMargin", "NoReadBeforeWrite", "LoopCarriedOK",
       "PlcLagRange", "CngMaskOK", "FrameShapeOK", "CarveOK", "OutBufExact", "ForcedLagIsLag"]
# (cfg, invariant that TLC must refute, meaning)
WITNESS = [("SilkDecCore_mc_w_slack4.cfg", "StartIdxPositive", "lag clamp raised by 4 samples: start_idx reaches 0 at 8 kHz"),
           ("SilkDecCore_mc_w_plcslack4.cfg", "PlcIdxPositive", "concealment lag clamp raised by 4 samples: idx reaches 0 at 8 kHz"),
           ("SilkDecCore_mc_w_margin.cfg", "MarginNotAttained", "the margin start_idx = 4 is attained (8 kHz, lag 144)"),
           ("SilkDecCore_mc_w_plcmargin.cfg", "PlcMarginNotAttained", "the margin idx = 4 is attained (8 kHz, lag 144)"),
           ("SilkDecCore_mc_w_box.cfg", "NoReadBeforeWrite", "lag vectors no contour can code (16 then 144 samples): sLTP_Q15 is read below its back-filled part"),
           ("SilkDecCore_mc_w_exc.cfg", "ExcFreshWitness", "a concealment can read exc_Q14 cells the last decoded frame did not write")]
TIERS = dict(
    quick=dict(mc="SilkDecCore_mc_quick.cfg", witness=WITNESS, full_li=False, plc_run=14, streams=36, nproc=6, chunks=10),
    thorough=dict(mc="SilkDecCore_mc_full.cfg", witness=WITNESS, slack3=True, full_li=True, plc_run=70, streams=300, nproc=8, chunks=32),
)
NEED = {"fn", "situ", "bits", "twin.core", "twin.plc", "core.forced", "core.k2", "core.rescale", "plc.reset", "plc.clamp", "plc.drift", "plc.shortexc", "cng.lost", "cng.update",
        '<<"df", 0>>', '<<"df", 1>>', '<<"df", 2>>', "df.stereo", "df.10ms", "df.20ms", "setfs.change", "setfs.framelen", "setfs.first",
        '<<"core.margin", 8>>', '<<"core.margin", 12>>', '<<"core.margin", 16>>'} | \
       {'<<"core", %d, %d, 2>>' % (fs, nb) for fs in (8, 12, 16) for nb in (2, 4)} | {'<<"plc", %d, %d>>' % (fs, nb) for fs in (8, 12, 16) for nb in (2, 4)}


def ncontours(fs, nb):
    return (11 if nb == 4 else 3) if fs == 8 else (34 if nb == 4 else 12)


def fn_plan(ctx, T):
    """Plan lines for hx_silkdeccore fn: the model's closed domain (SilkDecCore_mc) at its extremes (quick) or completely (thorough)."""
    rnd = random.Random(ctx.seed * 31 + 15)
    L = []
    for fs in (8, 12, 16):
        for nb in (2, 4):
            mx = 32 * (fs // 2) - 1
            lis = range(-16, mx + 23) if T["full_li"] else sorted({-16, -1, 0, 1, 2, 5, mx // 3, mx // 2, mx - 9, mx - 1, mx, mx + 1, mx + 22})
            n = 0
            for li in lis:
                for ci in range(ncontours(fs, nb)):
                    for ip in (0, 1):
                        n += 1
                        L.append("C %d %d %d %d %d %d 2 %d %d 100" % (fs, nb, li, ci, ip, n % 5, rnd.choice((0, 0, 1)), rnd.choice((0, 1, 2))))
            for lp in (2 * fs, 2 * fs + 1, 100, 18 * fs - 1, 18 * fs):
                for sig in (0, 1):
                    for ip in (0, 1):
                        for gm in (0, 1, 3):
                            L.append("C %d %d 0 0 %d %d %d %d 2 %d" % (fs, nb, ip, gm, sig, 1 + rnd.randrange(3), lp))
            for sig in (0, 1):
                L.append("C %d %d 0 0 %d %d %d 0 %d 0" % (fs, nb, sig, sig, sig, sig))
            lags = sorted({2 * fs, 2 * fs + 1, 100, 9 * fs, 18 * fs - 3, 18 * fs - 1, 18 * fs} | ({rnd.randrange(2 * fs, 18 * fs + 1) for _ in range(12)} if T["full_li"] else set()))
            for lag in lags:
                L.append("P %d %d %d 3 1" % (fs, nb, lag * 256 + rnd.choice((0, 0, 1, 77, 128, 255)) * (lag < 18 * fs)))
            L.append("P %d %d %d %d 1" % (fs, nb, (2 * fs if T["full_li"] else 15 * fs) * 256, T["plc_run"] * (2 if nb == 2 else 1)))
            L.append("P %d %d 0 3 0" % (fs, nb))
            for fs2 in (8, 12, 16):
                for nb2 in (2, 4):
                    L.append("F %d %d %d %d" % (fs, nb, fs2, nb2))
            # crafted bit-streams (real range encoder -> real silk_decode_frame): extreme lagIndex x contour x delta coding past the absolute range
            nc = ncontours(fs, nb)
            for li in (0, 1, mx // 2, mx - 11, mx):
                for ci in (range(nc) if T["full_li"] else sorted({0, 1, nc // 2, nc - 1})):
                    for dl in (-8, 0, 11):
                        L.append("B %d %d %d %d %d %d 3" % (fs, nb, li, ci, (li + ci) % 2, dl))
    return L


WORDS = ["GLGGLLGG", "LGFGGLFG", "GGGLLLGG", "FGLGFGLG", "LLGGGLGF", "GFGFLGLL", "LGLGLGLG", "GGLFLGGL"]


def stream_plan(ctx, T):
    rnd = random.Random(ctx.seed * 7919 + 15)
    cfgs = [(bw, ch, ms) for bw in range(5) for ch in (1, 2) for ms in (10, 20, 40, 60) if not (bw >= 3 and ms > 20)]
    rnd.shuffle(cfgs)
    # the first configurations are fixed so that every tier sees 8/12/16 kHz, 10 ms and 60 ms, stereo, hybrid
    cfgs = [(0, 1, 10), (1, 2, 20), (2, 1, 60), (0, 2, 40), (2, 2, 10), (3, 1, 20), (1, 1, 10), (4, 2, 10)] + cfgs
    lines = []
    for i in range(T["streams"]):
        bw, ch, ms = cfgs[i % len(cfgs)]
        kind = (0, 5, 6, 4, 3, 1, 2)[i % 7]
        fec = 1 if i % 4 != 3 else 0
        sw = (i // 3) % 3 if ms <= 20 else (i // 3) % 2
        words = [WORDS[(i + j) % len(WORDS)] for j in range(3)]
        if i % 3 == 0:
            words.insert(1, "X")
        if i % 4 == 1:
            words.insert(1, "RGLG")
        lines.append("S %d %d %d %d %d %d %d %d %d %d | %s" % (i + 1, bw, ch, ms, kind, fec, sw, ctx.seed * 1000 + i + 1, 4 + i % 5, 2 + i % 3, " ".join(words)))
    return lines


def split_trace(path, nchunks, prefix):
    """Split at "new" events into at most nchunks files; returns [(file, [(first_line, new_id, what)], nlines)]."""
    segs, cur = [], None
    with open(path) as f:
        for ln in f:
            if ln.startswith('{"k":"new"'):
                e = json.loads(ln)
                cur = [e["id"], e["w"], []]
                segs.append(cur)
            if cur is None:
                raise vf.Infra("trace does not start with a new event: " + path)
            cur[2].append(ln)
    total = sum(len(s[2]) for s in segs)
    per = max(1, (total + nchunks - 1) // nchunks)
    out, buf, idx, n = [], [], [], 0
    for sid, w, lns in segs:
        idx.append((n + 1, sid, w))
        buf.extend(lns)
        n += len(lns)
        if n >= per:
            out.append((buf, idx)); buf, idx, n = [], [], 0
    if buf:
        out.append((buf, idx))
    res = []
    for i, (b, ix) in enumerate(out):
        p = "%s_%02d.ndjson" % (prefix, i)
        with open(p, "w") as f:
            f.writelines(b)
        res.append((p, ix, len(b)))
    return res


RE_REJ = re.compile(r'REJ <<(\d+), \\?"(\w+)\\?", (.*)>>')


def judge_chunks(ctx, chunks, what, nproc):
    def one(ch):
        p, ix, n = ch
        ok, rej, r = vf.validate_seq(ctx, "SilkDecCoreTrace", "SilkDecCoreTrace.cfg", p, what)
        return ch, r
    rejs, seen, events = [], set(), 0
    for (p, ix, n), r in vf.parallel(one, chunks, nproc):
        if r.violation:
            raise vf.Infra("%s: trace spec stopped (%s) on %s" % (what, r.violation, p))
        done = False
        for pr in r.prints:
            s = pr.replace('\\"', '"')
            if "SEEN {" in s:
                done = True
                s2 = s[s.index("SEEN {"):].replace("\\", "")
                seen |= set(re.findall(r'<<"[\w.]+"[^<>]*>>', s2)) | set(re.findall(r'"([a-zA-Z][a-zA-Z0-9.]*)"', s2))
            m = RE_REJ.search(pr)
            if m:
                ln = int(m.group(1))
                seg = [x for x in ix if x[0] <= ln][-1]
                rejs.append((m.group(2), m.group(3).replace('\\"', '"'), p, ln, (seg[1], seg[2])))
        if not done:
            raise vf.Infra("%s: the replay did not reach the end of %s" % (what, p))
        events += n
    return rejs, seen, events


def count_events(path, ctx, counts):
    with open(path) as f:
        for ln in f:
            k = ln[6:ln.find('"', 6)]
            counts[k] = counts.get(k, 0) + 1
            if k == "core":
                e = json.loads(ln)
                ctx.nontrivial.add(hash(("core", tuple(e["g"]), e["sig"], e["ip"], tuple(e["pl"]), tuple(e["gch"]), tuple(e["ga"]), e["d"][1] > 0, e["d"][2])))
                if counts[k] in (7, 700, 7000):
                    ctx.sample(dict(event="silk_decode_core", geometry=e["g"], signalType=e["sig"], pitchL=e["pl"], interp=e["ip"],
                                    analysis_filter_spans=[e["af"][3 * i:3 * i + 3] for i in range(min(e["naf"], 4))]))
            elif k == "plc":
                e = json.loads(ln)
                ctx.nontrivial.add(hash(("plc", tuple(e["g"]), e["pre"][0], e["pre"][1], e["pre"][2], e["pre"][3])))
                if counts[k] in (5, 500):
                    ctx.sample(dict(event="silk_PLC(lost)", geometry=e["g"], pitchL_Q8=[e["pre"][0], e["post"]], span=e["af"][:3]))
            elif k in ("df", "setfs"):
                ctx.nontrivial.add(hash(ln[:120]))


def report(ctx, rejs, replay_of):
    nd = nv = 0
    seen_v = set()
    for cls, detail, p, ln, seg in rejs:
        if cls == "drift":
            nd += 1
            if nd <= 6:
                ctx.spec_drift("SilkDecCore", "%s segment %s line %d of %s: %s" % (seg[1], seg[0], ln, os.path.basename(p), detail[:500]))
        else:
            key = (cls, detail.split(",")[0])
            if key in seen_v:
                continue
            seen_v.add(key)
            nv += 1
            ctx.violation("%s clause %s rejected by SilkDecCoreTrace at event %d of %s segment %s: %s" % (
                cls, detail.split(",")[0].strip('<"'), ln, seg[1], seg[0], detail[:600]), replay_text=replay_of(seg))
    if nd > 6:
        vf.log("  (%d SPEC-DRIFT rejections in total)" % nd)
    return nd, nv


def run_harness(ctx, exe, mode, lines, out):
    """Runs the harness; returns None when it ended normally, else (detail, replay text) - reported by the caller in the main
    thread: a crash of the decoder under the sanitizer / assertions is the one thing the runner reports directly."""
    inp = out + ".in"
    with open(inp, "w") as f:
        f.write("\n".join(lines) + "\n")
    rc, err = vf.run_hx(exe, [mode, str(ctx.seed)], out, timeout=1500, stdin_path=inp)
    if rc == 0:
        return None
    last = ""
    try:
        last = [l for l in open(out).read().splitlines() if l.startswith('{"k":"new"')][-1]
    except Exception:                                       # noqa
        pass
    return ("C01: hx_silkdeccore %s ended with rc=%d (sanitizer / assertion / watchdog) after %s: %s" % (mode, rc, last, err[-1200:]),
            json.dumps(dict(mode=mode, lines=lines, seed=ctx.seed)))


def report_crashes(ctx, fails):
    seen = set()
    for f in fails:
        if f is None:
            continue
        m = re.search(r"(assertion failed: [^\n]*|ERROR: AddressSanitizer: [^\n]*|runtime error: [^\n]*)", f[0])
        key = m.group(1) if m else f[0][-200:]
        if key in seen:
            continue
        seen.add(key)
        ctx.violation(f[0], replay_text=f[1])
    return len(seen)


def replay(ctx, exe):
    d = json.loads(open(ctx.replay).read().strip().splitlines()[0])
    out = ctx.path("replay.ndjson")
    if report_crashes(ctx, [run_harness(ctx, exe, d["mode"], d["lines"], out)]):
        return
    chunks = split_trace(out, 1, ctx.path("replay_chunk"))
    rejs, seen, events = judge_chunks(ctx, chunks, "replay", 1)
    ctx.evaluations += events
    nd, nv = report(ctx, rejs, lambda seg: json.dumps(d))
    if not rejs:
        ctx.traces += 1
    ctx.notes["replay"] = dict(source=ctx.replay, events=events, drift=nd, violations=nv)


def run(ctx):
    T = TIERS[ctx.tier]
    ctx.rule = ("SilkDecCore_mc: TLC closes the index machine over 8/12/16 kHz x 10/20 ms x every lag vector SilkParams!PitchLags can produce "
                "(lagIndex -16..MaxAbs+22 x every contour; the quick tier thins lagIndex by 8 and keeps the extremes) x NLSF interpolation x gain-change "
                "patterns x the forced voiced->unvoiced transition for every lagPrev x every concealment start pitch run to the lag clamp, and checks the "
                "theorems in notes.theorems; witness configurations (lag clamp raised by 4, margins attained, uncodable lag vectors, stale exc_Q14) must be REFUTED. "
                "hx_silkdeccore interposes the real silk_decode_core / silk_LPC_analysis_filter / silk_PLC / silk_CNG / silk_decode_frame / "
                "silk_decoder_set_fs (link-time --wrap, ASan/UBSan + assertions) (a) at function level on plan points of the model's domain (lags "
                "through the real silk_decode_pitch; twin executions over a differently filled stack and with every state cell outside the model's read "
                "set flipped), (a') crafted bit-streams written with the real range encoder (silk_encode_indices / silk_encode_pulses: extreme lagIndex x "
                "contour, delta coding past the absolute range, then losses and the forced transition) through the real silk_decode_frame, and (b) inside opus_decode of real speech-only / hybrid streams with losses, FEC, resets, rate "
                "and frame-length switches; SilkDecCoreTrace recomputes every call's access list from the recorded fields and compares the recorded "
                "spans. Non-trivial = distinct (geometry, signal type, lags, interpolation, gain pattern, loss state) core calls, distinct "
                "(geometry, pitch, sPLC shape) concealment calls, distinct frame / set_fs events.")
    ctx.assumptions = [
        "Model constants: MAX_LPC_ORDER 16, LTP_ORDER 5, MAX_FRAME_LENGTH 320, outBuf 480, RAND_BUF_SIZE 128, CNG_BUF_MASK_MAX 255, ltp_mem_length 20 ms, "
        "sub-frame 5 ms, LPC order 10 (8/12 kHz) / 16 (16 kHz), lags 2..18 ms, pitch drift 655/65536 per sub-frame (SilkPlc).",
        "Arrays are abstracted to lengths and accesses to intervals; a loop whose iterations read cells written by earlier iterations is split into the "
        "cells that must pre-exist and a loop-carried distance condition (lag >= 3).",
        "The contour code-book words are exported from the built library (hx_silkdeccore tables: the same JSON line as C18's hx_silk tables) and read by SilkParams.",
        "Observed through interposition: the silk_LPC_analysis_filter spans (they carry start_idx / idx), pitchL_Q8 before/after, psDecCtrl->pitchL, outBuf "
        "against the previous tail + the frame after the shift, the two channels' output pointers. Accesses inside the loops are not observed cell by cell: "
        "they are covered by the model's arithmetic on the recorded values and by ASan on the stack arrays.",
        "Not covered (time): the LBRR frame loop bounds of dec_API.c beyond nFramesPerPacket <= 3; delay_stack_alloc.",
    ]
    var = vf.build_variant("hk")
    exe = vf.build_hx(var, "silkdeccore.c", extra=WRAP)
    if ctx.replay:
        return replay(ctx, exe)
    tab = ctx.path("silk_tables.json")
    rc, err = vf.run_hx(exe, ["tables"], tab, timeout=120)
    if rc != 0:
        raise vf.Infra("hx_silkdeccore tables failed rc=%d %s" % (rc, err[-800:]))
    env = {"SILKTAB": tab}

    # 1. the model
    r = ctx.mc("SilkDecCore_mc", T["mc"], workers=4, env=env, deadlock=True, heap="6g", timeout=1500)
    if not r.ok:
        raise vf.Infra("SilkDecCore_mc/%s: a theorem of the model is violated: %s\n%s" % (T["mc"], r.violation, (r.state_dump or "")[:1500]))
    if r.distinct < 20000:
        raise vf.Infra("SilkDecCore_mc/%s: only %d states (vacuous run)" % (T["mc"], r.distinct))
    if T.get("slack3"):
        r3 = ctx.mc("SilkDecCore_mc", "SilkDecCore_mc_slack3.cfg", workers=4, env=env, deadlock=True, heap="6g", timeout=900)
        if not r3.ok:
            raise vf.Infra("SilkDecCore_mc/slack3: %s" % r3.violation)
    wit = {}
    wres = vf.parallel(lambda w: vf.tlc("SilkDecCore_mc", w[0], workers=2, env=env, deadlock=True, heap="3g", timeout=600), T["witness"], 3)
    for (cfg, inv, meaning), w in zip(T["witness"], wres):
        if w.error or w.violation != inv:
            raise vf.Infra("SilkDecCore_mc witness %s: expected %s to be refuted, got %s %s" % (cfg, inv, w.violation, w.error))
        ctx.add_tlc(w, "mc SilkDecCore_mc/%s (expected refutation of %s)" % (cfg, inv))
        wit[inv] = meaning
    ctx.notes["theorems"] = INV
    ctx.notes["witnesses_refuted"] = wit
    ctx.notes["margin"] = ("start_idx and idx are at least 2*fs_kHz - LPC_order - 2 = 4 (8 kHz, lag 144) / 12 (12 kHz, lag 216) / 14 (16 kHz, lag 288); "
                           "raising the lag clamp by 4 samples makes celt_assert( start_idx > 0 ) fail at 8 kHz (witness), by 3 it still holds" +
                           (" (checked: SilkDecCore_mc_slack3.cfg)" if T.get("slack3") else ""))
    ctx.notes["observation_stale_excitation"] = (
        "silk_decoder_set_fs clears outBuf and sLPC_Q14_buf on a rate change but not exc_Q14 (nor sCNG.CNG_exc_buf_Q14 / CNG_synth_state, which "
        "silk_CNG_Reset leaves); silk_PLC_conceal's rand_ptr window is 128 cells from max(0, nb*subfr - 128): at 8 kHz / 10 ms (80 cells per frame) it reads "
        "cells 80..127 that the last decoded frame did not write - excitation of an older frame or configuration, zeros after init/reset. Deterministic in "
        "the call history and cleared by silk_init_decoder / silk_reset_decoder, so neither C01 nor C12 is affected (witness ExcFreshWitness refuted as expected).")
    ctx.exhaustive = bool(T["full_li"])
    ctx.notes["exhaustive_scope"] = "the index machine over the domain of %s; function-level plan: %s" % (
        T["mc"], "every (lagIndex, contour)" if T["full_li"] else "extreme lagIndex values x every contour")

    # 2. executions
    t0 = time.time()
    plan = fn_plan(ctx, T)
    nproc = T["nproc"]
    fparts = [plan[i::nproc] for i in range(nproc)]
    fouts = [ctx.path("fn_%02d.ndjson" % i) for i in range(nproc)]
    lines = stream_plan(ctx, T)
    sparts = [lines[i::nproc] for i in range(nproc)]
    souts = [ctx.path("situ_%02d.ndjson" % i) for i in range(nproc)]
    jobs = [("fn", fparts[i], fouts[i]) for i in range(nproc) if fparts[i]] + [("situ", sparts[i], souts[i]) for i in range(nproc) if sparts[i]]
    fails = vf.parallel(lambda j: run_harness(ctx, exe, j[0], j[1], j[2]), jobs, nproc)
    ctx.notes["harness_wall_s"] = round(time.time() - t0, 1)
    ctx.notes["plan"] = dict(fn_points=len(plan), streams=len(lines))
    if report_crashes(ctx, fails):
        ctx.notes["crashes"] = sum(1 for f in fails if f)
        return

    # 3. judgement by TLC
    chunks, counts, by = [], {}, {}
    per = max(1, T["chunks"] // (2 * nproc))
    for j, (mode, part, out) in enumerate(jobs):
        cs = split_trace(out, per, ctx.path("c%02d" % j))
        for c in cs:
            by[c[0]] = (mode, part)
        chunks += cs
        count_events(out, ctx, counts)
    t0 = time.time()
    rejs, seen, events = judge_chunks(ctx, chunks, "SilkDecCoreTrace", nproc)
    ctx.notes["judge_wall_s"] = round(time.time() - t0, 1)

    def replay_of_chunk(p, seg):
        mode, part = by[p]
        if mode == "situ":
            part = [l for l in part if int(l.split()[1]) == seg[0]]
        return json.dumps(dict(mode=mode, lines=part, seed=ctx.seed))
    # R4: a property-level rejection is re-executed once before it is reported
    prop = [x for x in rejs if x[0] != "drift"]
    if prop:
        d = json.loads(replay_of_chunk(prop[0][2], prop[0][4]))
        out2 = ctx.path("again.ndjson")
        if run_harness(ctx, exe, d["mode"], d["lines"], out2) is None:
            r2, _, _ = judge_chunks(ctx, split_trace(out2, 1, ctx.path("againc")), "re-run", 1)
            if not [x for x in r2 if x[0] != "drift"]:
                raise vf.Infra("a rejection (%s) did not repeat on re-execution" % (prop[0][:2],))
    nv = 0
    seen_v, ndrift = set(), 0
    for cls, detail, p, ln, seg in rejs:
        if cls == "drift":
            ndrift += 1
            if ndrift <= 6:
                ctx.spec_drift("SilkDecCore", "%s segment %s line %d of %s: %s" % (seg[1], seg[0], ln, os.path.basename(p), detail[:500]))
        else:
            key = (cls, detail.split(",")[0])
            if key in seen_v:
                continue
            seen_v.add(key)
            nv += 1
            ctx.violation("%s clause %s rejected by SilkDecCoreTrace at event %d of %s segment %s: %s" % (
                cls, detail.split(",")[0].strip('<"'), ln, seg[1], seg[0], detail[:600]), replay_text=replay_of_chunk(p, seg))
    nd = ndrift
    if nd > 6:
        vf.log("  (%d SPEC-DRIFT rejections in total)" % nd)
    bad_segs = set((x[2], x[4]) for x in rejs)
    nseg = sum(len(ix) for _, ix, _ in chunks)
    ctx.traces += nseg - len(bad_segs)
    ctx.evaluations += sum(v for k, v in counts.items() if k != "new")
    ctx.notes["events"] = counts
    ctx.notes["coverage_tags"] = sorted(seen)
    ctx.notes["rejections"] = dict(drift=nd, property=nv)
    missing = NEED - seen
    if missing and not rejs:
        raise vf.Infra("vacuous replay: never exercised %s" % sorted(missing))
    if events != sum(n for _, _, n in chunks):
        raise vf.Infra("event count mismatch")


META = dict(
    engine="SilkDecCore+SilkPlc+SilkParams",
    technique="TLA+ index machine of the speech decoder's synthesis buffers (arrays as lengths, accesses as tagged intervals in program order); TLC "
              "theorems closed over every codable lag vector, witness configurations that must be refuted; link-time interposition of the real "
              "functions, function-level and in-situ traces whose access lists TLC recomputes and compares",
    level_text="model checking of the index machine over its closed domain + conformance of every recorded call of the real functions",
    level_note="growth module: SPEC-DRIFT by default; VIOLATION only for the C01 / C12 clauses named in the module's docstring",
)
