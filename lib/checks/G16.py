"""G16 - growth module EncDelay: the Opus encoder's input path as an exact sample-index machine - delay buffer,
look-ahead, SILK / CELT prefill, redundancy windows, multi-frame slicing (modules EncDelay, EncDelay_mc, EncDelay_gen,
EncDelayTrace; harness/encdelay.c with silk_Encode / celt_encode_with_ec interposed by -Wl,--wrap)."""
import json, os, random, re
import vf

LEVEL = "model_checking"

FS = [8000, 12000, 16000, 24000, 48000]
APPS = [2048, 2049, 2051]
QS = [1, 2, 4, 8, 16, 24, 32, 40, 48]
SILK, HYB, CELT = 1000, 1001, 1002
WRAP = ["-Wl,--wrap=silk_Encode", "-Wl,--wrap=celt_encode_with_ec"]

# machine transitions the executions must really have taken (vacuity guard)
REQUIRED_TAGS = {"normal", "multi", "moveBranch", "copyBranch", "filling", "silkPrefill", "celtPrefill", "s2cRed", "c2sRed",
                 "celtWindowExact", "celtWindowScaled", "delayBufferCompared", "silk", "hybrid", "celt", "reset", "low"}

# (cfg, the wrong line, a theorem that TLC's counterexample must name in the ghost variable `bad`)
WITNESSES = [("EncDelay_mc_w1.cfg", "prefill_offset without the Fs/400 term", ("SilkPrefillShape", "CeltPrefillAbuts")),
             ("EncDelay_mc_w2.cfg", "whole-buffer copy source without total_buffer", ("DbAfter",)),
             ("EncDelay_mc_w3.cfg", "slice stride without channels", ("SlicesTile",)),
             ("EncDelay_mc_w4.cfg", "CELT handed &pcm_buf[total_buffer*channels]", ("CeltDelayed",))]

PROP_OF = {"C02": "C02", "C05": "C05", "C11": "C11", "C12": "C12"}


def head(fs, ch, app, seed, api=0):
    return "X %d %d %d %d %d |" % (fs, ch, app, seed, api)


# ---------------------------------------------------------------------------------------------------------------
# behaviours

def from_tlc(ctx, cfg, rng, limit):
    r = vf.tlc("EncDelay_gen", cfg, workers=2, timeout=600)
    if r.error:
        raise vf.Infra("EncDelay gen: " + r.error)
    ctx.add_tlc(r, "gen EncDelay_gen/" + cfg)
    scheds = []
    for m in re.finditer(r'"SCHED <<<<(\d+), (\d+), (\d+)>>, <<(.*?)>>>>"\s*$', r.out, re.M):
        ops = [(int(a), int(b)) for a, b in re.findall(r'<<(\d+), (\d+)>>', m.group(4))]
        scheds.append(((int(m.group(1)), int(m.group(2)), int(m.group(3))), ops))
    if not scheds:
        raise vf.Infra("EncDelay gen emitted no schedule")
    scheds.sort()                     # TLC's print order depends on the worker interleaving (R4)
    n = len(scheds)
    if n > limit:
        scheds = rng.sample(scheds, limit)
    lines = []
    for (fs, ch, app), ops in scheds:
        toks = ["br=%d" % rng.choice([24000, 32000, 64000, 96000])]
        for q, m in ops:
            # two calls per step: a switch to CELT is delayed by one call (to_celt), so both sides of it are seen
            toks.append("fm=%d q=%d e%s2" % (m, q, rng.choice("vm")))
        lines.append("%s %s" % (head(fs, ch, app, rng.randrange(1, 1 << 30), rng.randrange(2)), " ".join(toks)))
    return lines, n


def directed(tier, rng):
    L = []
    sd = lambda: rng.randrange(1, 1 << 30)
    thorough = tier == "thorough"
    fss = FS if thorough else [48000, 16000, 8000]
    # A. layer walks at every duration (mode switches both ways -> redundancy, SILK and CELT prefill), generous and tight budgets
    for fs in fss:
        for ch in (1, 2):
            for q in QS:
                for bud in ("mx=1500", "mx=60", "vb=0 mx=1500"):
                    if not thorough and ((fs // 1000 + 7 * ch + 3 * q + len(bud)) % 3) and q not in (1, 8, 48):
                        continue
                    br = rng.choice([16000, 24000, 40000, 64000, 128000])
                    L.append("%s br=%d q=%d %s fm=1000 ev3 fm=1002 ev3 fm=1001 ev3 fm=1002 ev2 fm=-1000 ev2 fm=1000 ev2 em2" % (
                        head(fs, ch, rng.choice([2048, 2049]), sd(), rng.randrange(2)), br, q, bud))
    # B. frame-size changes between calls: 2.5 ms after 120 ms and back, filling the delay buffer 2.5 ms at a time after a reset
    for fs in fss:
        for ch in (1, 2):
            for app in APPS:
                L.append("%s br=64000 q=1 ev5 q=48 ev1 q=1 ev2 q=2 ev3 q=48 em1 q=2 ev1 rs q=1 ev3 q=2 ev1 q=1 ev2 rs q=2 ev2 q=40 ev1 q=1 ev1 q=32 ev1 q=24 ev1 q=1 ev2" % (
                    head(fs, ch, app, sd(), rng.randrange(2))))
                if app != 2051:
                    L.append("%s br=32000 fm=1000 q=48 ev1 q=1 ev2 q=40 ev1 fm=1002 q=24 ev2 q=1 ev1 fm=1001 q=32 ev2 q=2 ev1 q=4 ev2 rs q=4 ev1 fm=1000 q=1 ev1 q=4 ev2" % (
                        head(fs, ch, app, sd(), rng.randrange(2))))
    # C. SILK internal bandwidth switch (prefill = 2 with a CELT->SILK redundancy frame on a SILK->SILK boundary)
    for fs in ([48000, 16000] if not thorough else [48000, 24000, 16000, 12000]):
        for ch in (1, 2):
            for q in ([8] if not thorough else [4, 8, 16]):
                n = max(40, 1400 // q)
                L.append("%s q=%d fm=1000 br=24000 bw=1103 ev12 bw=1101 ev%d bw=1103 ev%d fm=1002 ev2" % (head(fs, ch, 2048, sd(), 0), q, n, n // 3))
    # D. the TOC-only path leaves the input path alone
    for fs in ([48000, 8000] if not thorough else FS):
        for q in ([8, 48, 2] if not thorough else QS):
            L.append("%s q=%d fm=%d br=32000 ev2 mx=2 ev2 mx=1500 ev2 br=500 ev2 br=32000 ev2" % (
                head(fs, rng.choice([1, 2]), rng.choice(APPS), sd(), rng.randrange(2)), q, rng.choice([SILK, HYB, CELT])))
    return L


def random_plans(n, rng):
    L = []
    for _ in range(n):
        fs, ch, app = rng.choice(FS), rng.choice([1, 2]), rng.choice([2048, 2048, 2049, 2049, 2051])
        toks = []
        for _ in range(rng.randrange(6, 18)):
            u = rng.random()
            if u < 0.22:
                toks.append("fm=%d" % rng.choice([-1000, SILK, HYB, CELT, CELT]))
            elif u < 0.30:
                toks.append("br=%d" % rng.choice([8000, 12000, 16000, 24000, 32000, 48000, 64000, 128000, 256000]))
            elif u < 0.50:
                toks.append("q=%d" % rng.choice(QS))
            elif u < 0.56:
                toks.append("mx=%d" % rng.choice([1500, 1500, 400, 120, 60, 40]))
            elif u < 0.60:
                toks.append("bw=%d" % rng.choice([-1000, 1101, 1102, 1103, 1104, 1105]))
            elif u < 0.63:
                toks.append("vb=%d" % rng.randrange(2))
            elif u < 0.66:
                toks.append("cx=%d" % rng.choice([0, 5, 9, 10]))
            elif u < 0.69:
                toks.append("fc=%d" % rng.choice([-1000, 1, 2][:2 + (ch == 2)]))
            elif u < 0.73:
                toks.append("rs")
            else:
                toks.append("e%s%d" % (rng.choice("vvm"), rng.choice([1, 1, 2, 3, 5])))
        toks.append("e%s2" % rng.choice("vm"))
        L.append("%s %s" % (head(fs, ch, app, rng.randrange(1, 1 << 30), rng.randrange(2)), " ".join(toks)))
    return L


# ---------------------------------------------------------------------------------------------------------------
# running and judging

def run_chunks(ctx, exe, lines, nchunks, tag):
    per = (len(lines) + nchunks - 1) // nchunks
    jobs = []
    for k in range(nchunks):
        part = lines[k * per:(k + 1) * per]
        if not part:
            continue
        ip = ctx.path("%s_plan_%02d.txt" % (tag, k))
        with open(ip, "w") as f:
            f.write("\n".join(part) + "\n")
        jobs.append((k, ip))

    def one(job):
        k, ip = job
        out = ctx.path("%s_trace_%02d.ndjson" % (tag, k))
        rc, err = vf.run_hx(exe, [], out, stdin_path=ip, timeout=1500)
        return k, ip, out, rc, err
    return vf.parallel(one, jobs, nproc=8)


def validate(ctx, out, what):
    r = vf.tlc("EncDelayTrace", "EncDelayTrace.cfg", workers=1, env={"TRACE": out}, timeout=1700, heap="3g",
               tag=what.replace(" ", "_") + os.path.basename(out))
    if r.error:
        raise vf.Infra("%s: %s" % (what, r.error))
    ctx.add_tlc(r, "trace %s %s" % (what, os.path.basename(out)))
    rej, seen = [], set()
    for m in re.finditer(r'"REJ <<(\d+), \\"(\w+)\\", \{(.*?)\}>>"', r.out):
        rej.append((int(m.group(1)), m.group(2), sorted(re.findall(r'\\"([\w.]+)\\"', m.group(3)))))
    m = re.search(r'"SEEN \{(.*?)\}"', r.out, re.S)
    if m:
        seen = set(re.findall(r'\\"(\w+)\\"', m.group(1)))
    complete = r.violation is None and m is not None
    return rej, seen, complete


def exec_of(out, ip, lineno):
    x = 0
    with open(out) as f:
        for i, ln in enumerate(f, 1):
            if ln.startswith('{"k":"new"'):
                x = json.loads(ln)["x"]
            if i == lineno:
                break
    return vf.file_line(ip, x) if x else ""


ST = dict(encode_calls=0, layer_calls=0, silk_prefills=0, celt_windows_located=0, celt_windows_unlocated=0, low_packets=0)
NPROP = [0]


def stats(ctx, out):
    n = 0
    sw = False
    cur = ""
    with open(out) as f:
        for ln in f:
            n += 1
            if ln.startswith('{"k":"enc"'):
                e = json.loads(ln)
                ST["encode_calls"] += 1
                cs = e["calls"]
                ST["layer_calls"] += len(cs)
                if not cs:
                    ST["low_packets"] += 1
                for c in cs:
                    if c[0] == 0 and c[1] == 1:
                        ST["silk_prefills"] += 1
                    if c[0] == 1:
                        ST["celt_windows_located" if c[6] > 0 else "celt_windows_unlocated"] += 1
                if any(c[1] != 0 for c in cs):
                    sw = True
                    if len(ctx.samples) < 4:
                        ctx.sample(dict(fs=e["fs"], pre=e["pre"], post=e["post"], la=e["la"], dbm=e["dbm"], calls=cs[:8]))
            elif ln.startswith('{"k":"new"'):
                cur = ln; sw = False
            elif ln.startswith('{"k":"end"'):
                ctx.traces += 1
                if sw:
                    ctx.nontrivial.add(os.path.basename(out) + cur)
    ctx.evaluations += n


def judge(ctx, exe, outs, tag):
    seen_all = set()
    drifts = {}
    good = []
    for k, ip, out, rc, err in outs:
        if rc in (-6, -11, -8, -7, -4, 98, 99, 97):
            # sanitizer / assertion abort, crash or hang inside the library while encoding from exactly-sized buffers: C05
            ctx.violation("property C05 (C02): hx_encdelay aborted rc=%d on %s: %s" % (rc, ip, err[-1500:]), replay_src=ip)
        elif rc != 0:
            raise vf.Infra("hx_encdelay rc=%d on %s (3 = the mirror of struct OpusEncoder no longer matches): %s" % (rc, ip, err[-800:]))
        else:
            good.append((k, ip, out))

    def val(job):
        k, ip, out = job
        return job, validate(ctx, out, "G16 %s %02d" % (tag, k))
    for (k, ip, out), (rej, seen, complete) in vf.parallel(val, good, nproc=8):
        stats(ctx, out)
        seen_all |= seen
        if not complete:
            raise vf.Infra("EncDelayTrace did not consume %s" % out)
        for (ln, cls, names) in rej:
            line = exec_of(out, ip, ln)
            ev = vf.file_line(out, ln)[:900]
            if cls == "prop":
                NPROP[0] += 1
                if len(ctx.violations) >= 5:
                    continue
                # R4: re-run the execution alone and judge it again before reporting
                rp = ctx.path("rej_%s_%d.txt" % (os.path.basename(ip), ln))
                with open(rp, "w") as f:
                    f.write(line + "\n")
                out2 = rp + ".ndjson"
                rc2, err2 = vf.run_hx(exe, [], out2, stdin_path=rp, timeout=900)
                rej2, _, _ = validate(ctx, out2, "G16 recheck")
                if rc2 == 0 and not [x for x in rej2 if x[1] == "prop"]:
                    raise vf.Infra("rejection not repeatable: %s line %d %s" % (out, ln, names))
                prop = sorted({n.split(".")[0] for n in names})
                ctx.violation("property %s clause(s) %s rejected by EncDelayTrace at %s line %d: execution [%s] event %s" % (
                    "/".join(prop), names, os.path.basename(out), ln, line, ev), replay_src=rp)
            else:
                drifts.setdefault(tuple(names), []).append((out, ln, line, ev))
    for key, lst in sorted(drifts.items()):
        out, ln, line, ev = lst[0]
        ctx.spec_drift("EncDelay", "%s: %d event(s), first at %s line %d: execution [%s] event %s" % (
            list(key), len(lst), os.path.basename(out), ln, line, ev[:500]))
    return seen_all


def model_checking(ctx):
    cfg = "EncDelay_mc_%s.cfg" % ctx.tier
    r = ctx.mc("EncDelay_mc", cfg, what="closed machine, slice theorems: " + cfg, workers=4, timeout=1500)
    if r.violation:
        raise vf.Infra("EncDelay theorem violated (%s):\n%s" % (cfg, r.state_dump[:3000]))

    def wit(w):
        return w, vf.tlc("EncDelay_mc", w[0], workers=1, timeout=600, heap="3g")
    for (cfg, what, thms), r in vf.parallel(wit, WITNESSES, nproc=4):
        if r.error:
            raise vf.Infra("witness %s: %s" % (cfg, r.error))
        ctx.add_tlc(r, "witness " + cfg)
        if r.violation != "Theorems":
            raise vf.Infra("witness %s (%s): expected Theorems to be violated, got %s (vacuous model)" % (cfg, what, r.violation))
        last = r.out[r.out.rfind("bad = "):][:200]
        if not any('"%s"' % t in last for t in thms):
            raise vf.Infra("witness %s (%s): refuted, but not through %s: %s" % (cfg, what, thms, last[:120]))
    ctx.notes["witnesses_refuted"] = ["%s -> %s" % (w[1], "/".join(w[2])) for w in WITNESSES]


def run(ctx):
    tier = ctx.tier
    ctx.rule = ("TLC explores the EncDelay machine exhaustively (closed graph: every Fs x channels x application, every legal frame size "
                "per call, every layer and decision record per slice, reset at any boundary) and proves the bounds / window / delay-buffer "
                "theorems; four wrong variants of single lines must be refuted. TLC-generated frame-size/layer schedules plus directed and "
                "seeded random ones are replayed on real encoders with silk_Encode / celt_encode_with_ec interposed; every encode call "
                "(pointers, lengths, roles, located stream windows, delay buffer vs stream tail, look-ahead getter) is judged by "
                "EncDelayTrace. non-trivial = distinct executions with at least one prefill or redundancy layer call")
    ctx.assumptions = ["TLC and the CommunityModules Json reader are trusted",
                       "float build, DRED compiled out; struct OpusEncoder is read through a mirror checked against the peek hooks at "
                       "creation, after every ctl and after every call (incl. two fields behind delay_buffer)",
                       "machine conformance is SPEC-DRIFT; VIOLATION only for: look-ahead getter value (C11), encode failure (C02), "
                       "sanitizer abort / canary (C05), delay buffer / prev_mode / first not cleared by reset (C12)",
                       "the HP / DC-reject filter is index-preserving (sample i in -> sample i out); gain_fade / stereo_fade change gains only"]
    var = vf.build_variant("hko")
    exe = vf.build_hx(var, "encdelay.c", extra=WRAP)
    if ctx.replay:
        return replay(ctx, exe)
    model_checking(ctx)
    ctx.exhaustive = True
    ctx.notes["exhaustive_scope"] = ("model side: closed state graph over all configurations, frame sizes, layers, per-slice decisions and resets; "
                                     "implementation side sampled")
    rng = random.Random(ctx.seed)
    lines, ntlc = from_tlc(ctx, "EncDelay_gen_%s.cfg" % tier, rng, 400 if tier == "quick" else 20000)
    nrep = len(lines)
    dl = directed(tier, rng)
    rl = random_plans(120 if tier == "quick" else 5000, rng)
    ctx.notes["executions"] = dict(tlc_generated=ntlc, tlc_replayed=nrep, directed=len(dl), random=len(rl))
    allp = lines + dl + rl
    rng.shuffle(allp)
    import time as _t
    t0 = _t.time()
    outs = run_chunks(ctx, exe, allp, 8 if tier == "quick" else 16, "o")
    vf.log("[run] %d executions on hko in %.1fs" % (len(allp), _t.time() - t0)); t0 = _t.time()
    seen = judge(ctx, exe, outs, "hko")
    vf.log("[trace] hko traces judged in %.1fs" % (_t.time() - t0)); t0 = _t.time()
    # a slice under ASan/UBSan + assertions: exactly-sized pcm and packet buffers have red zones there
    var2 = vf.build_variant("hk")
    exe2 = vf.build_hx(var2, "encdelay.c", extra=WRAP)
    sl = rng.sample(dl, min(len(dl), 50 if tier == "quick" else 400)) + rng.sample(lines, min(len(lines), 80 if tier == "quick" else 1500)) \
        + rng.sample(rl, min(len(rl), 30 if tier == "quick" else 400))
    t0 = _t.time()
    outs2 = run_chunks(ctx, exe2, sl, 8, "s")
    vf.log("[run] %d executions on hk (ASan) in %.1fs" % (len(sl), _t.time() - t0)); t0 = _t.time()
    seen |= judge(ctx, exe2, outs2, "hk")
    vf.log("[trace] hk traces judged in %.1fs" % (_t.time() - t0))
    ctx.notes["executions"]["asan_slice"] = len(sl)
    ctx.notes["tags_seen"] = sorted(seen)
    ctx.notes["observed"] = ST
    ctx.notes["property_clause_rejections"] = NPROP[0]
    missing = REQUIRED_TAGS - seen
    if missing:
        ctx.notes["tags_missing"] = sorted(missing)
        if not ctx.violations and not ctx.drift:
            raise vf.Infra("vacuity guard: machine transitions never exercised by the executions: %s" % sorted(missing))


def replay(ctx, exe):
    outs = run_chunks(ctx, exe, [ln.rstrip("\n") for ln in open(ctx.replay) if ln.startswith("X")], 1, "r")
    judge(ctx, exe, outs, "replay")
    ctx.nontrivial_count = 0 if ctx.nontrivial else 1


META = dict(
    engine="EncDelay",
    technique=("TLA+ sample-index machine of the encoder's input path (delay buffer, pcm_buf, tmp_prefill, SILK/CELT prefill, redundancy "
               "windows, multi-frame slicing) with run-length coded contents; TLC exhaustive on the closed graph + refuted witnesses; "
               "TLC-generated, directed and random schedules replayed on real encoders with the two layer entry points interposed; "
               "TLC trace validation of every call (stateful cursor)"),
    level_text=("TLC proves on the EncDelay model, for every sampling rate, channel count, application, frame-size sequence (incl. 2.5 ms "
                "after 120 ms and back), layer and per-slice decision record: every access to pcm_buf, delay_buffer, tmp_prefill and the "
                "caller's buffer lies inside its array; the CELT layer receives the stream delayed by exactly total_buffer and the SILK "
                "layer by 0, contiguously across calls; the delay buffer after every slice holds the last encoder_buffer input samples "
                "(both update branches) and the prefill ramp never survives in it; prefill and redundancy windows hold exactly the "
                "stated stream indices or reset zeros (the SILK->CELT redundant frame ends where the next CELT frame starts, the "
                "CELT->SILK one continues the CELT stream); slices tile the caller's buffer; OPUS_GET_LOOKAHEAD = total_buffer + Fs/400; "
                "reset == fresh. Bound to libopus by replaying schedules on real encoders: pointers, lengths and located stream windows "
                "of every layer call and the delay buffer contents are SPEC-DRIFT clauses; the look-ahead getter (C11), encode failure "
                "(C02), sanitizer/canary (C05) and reset state (C12) are violations."),
    level_note=("Trusted: TLC, Json module, the read-only peek hooks, the start-up-checked struct mirror, GNU ld --wrap. The decisions "
                "(mode, redundancy, prefill, to_celt) are G01's and enter as unconstrained inputs; stream windows of CELT buffers are "
                "located bit-exactly (or up to one constant gain, mono) and are unlocatable after stereo_fade; the analysis ring is G11's."),
)
