"""Shared driver of the C12 and C13 checks (modules Objects, Objects_mc, Objects_gen, ObjectsTrace; harness objects.c).

TLC enumerates abstract histories (Objects_gen: breadth first up to a depth, -simulate for long random ones); this file
turns the abstract tokens into concrete operations (kind of object, configuration, ctl requests, signal, run lengths,
formats / loss patterns) with a seeded generator, has hx_objects replay them on real objects - twice, in two processes with
different heap poison, block offsets, slot numbers and allocator fill - and lets TLC (ObjectsTrace) judge the concatenated
trace.  Nothing is judged here."""
import json, os, random, re
import vf

ENC_APPS = [2048, 2049, 2051]
FS = [8000, 12000, 16000, 24000, 48000]
NPS = 64          # packet streams in the table


# ------------------------------------------------------------------------------------------------ abstract histories
def parse_hist(p):
    """'<<"HIST", "<<<<\\"C\\", 1>>, ...>>">>' -> [("C",1), ("U",1,0,1,0), ...]"""
    ops = []
    for m in re.finditer(r'<<\\"(\w)\\"((?:, \d+)*)>>', p):
        ops.append((m.group(1),) + tuple(int(x) for x in re.findall(r"\d+", m.group(2))))
    return ops


def tlc_histories(ctx, cfg, simulate=None, depth=None, what=None, timeout=900):
    kw = dict(workers=4, timeout=timeout)
    if simulate:
        kw = dict(workers=1, timeout=timeout, simulate=simulate, depth=depth, extra=["-seed", str(ctx.seed % 100000 + 1)])
    r = vf.tlc("Objects_gen", cfg, **kw)
    if r.error:
        raise vf.Infra("Objects_gen/%s: %s" % (cfg, r.error))
    ctx.add_tlc(r, what or ("gen Objects_gen/" + cfg))
    seen, out = set(), []
    for p in r.prints:
        if p.startswith('<<"HIST"') and p not in seen:
            seen.add(p)
            out.append(parse_hist(p))
    if not out:
        raise vf.Infra("Objects_gen/%s emitted no history" % cfg)
    out.sort(key=repr)        # TLC's workers print in no particular order; the seeded choices below must not depend on it
    return out


def directed_histories():
    """shapes that the random instantiation would reach only by luck; each is (abstract ops, pinned choices)"""
    D = []
    # finding F3 and its neighbourhood: FEC + loss, several frames, reset, bitrate change, against a fresh twin
    for (fs, ch, app, br1, br2, fec, n) in [(16000, 1, 2048, 40000, 20000, 1, 15), (16000, 1, 2048, 40000, 16000, 1, 15),
                                            (16000, 1, 2048, 40000, 23000, 1, 15), (16000, 1, 2048, 40000, 20000, 0, 15),
                                            (48000, 2, 2048, 64000, 24000, 1, 12), (8000, 1, 2048, 24000, 12000, 1, 10),
                                            (24000, 1, 2049, 48000, 18000, 1, 12), (16000, 1, 2048, 20000, 40000, 1, 15)]:
        pre = [(4012, fec), (4014, 10), (4002, br1)]
        D.append(dict(kind="e", fs=fs, ch=ch, app=app, pre=pre, sig=1, fd=8, lsb16=True,
                      ops=[("C", 1), ("U", 1, 0, n, 0), ("R", 1), ("T", 1, 1), ("U", 1, 0, 2, 0), ("L", 1, 2), ("U", 2, 0, 2, 0),
                           ("Y", 1, 3), ("U", 1, 2, 2, 1), ("U", 3, 2, 2, 1), ("U", 2, 2, 2, 2)],
                      tokens={1: [(4002, br2)]}, lens=None))
    # speech, reset, then digital silence (state kept "from the last non-silent frame") against a fresh twin
    for (fs, ch, app, cx, sig) in [(16000, 1, 2048, 9, 1), (48000, 2, 2049, 10, 2), (48000, 1, 2048, 7, 6), (24000, 2, 2051, 10, 1)]:
        D.append(dict(kind="e", fs=fs, ch=ch, app=app, pre=[(4010, cx)], sig=sig, fd=8, lsb16=True,
                      ops=[("C", 1), ("U", 1, 0, 20, 0), ("R", 1), ("S", 0), ("U", 1, 0, 3, 0), ("L", 1, 2), ("U", 2, 0, 3, 0),
                           ("S", sig), ("U", 1, 3, 3, 1), ("U", 2, 3, 3, 1)], tokens={}, lens=None))
    # speech layer, reset, transform layer, back to the speech layer (bandwidth-switch permissions kept by the speech layer)
    for (fs, ch) in [(48000, 1), (48000, 2), (16000, 1)]:
        D.append(dict(kind="e", fs=fs, ch=ch, app=2048, pre=[(4002, 14000)], sig=6, fd=8, lsb16=True,
                      ops=[("C", 1), ("U", 1, 0, 40, 0), ("R", 1), ("T", 1, 1), ("U", 1, 0, 2, 0), ("T", 1, 2), ("U", 1, 2, 6, 0),
                           ("L", 1, 2), ("T", 2, 1), ("U", 2, 0, 2, 0), ("T", 2, 2), ("U", 2, 2, 6, 0)],
                      tokens={1: [(11002, 1002), (4002, 96000)], 2: [(11002, -1000), (4002, 12000)]}, lens=None))
    # decoders: concealment, FEC, reset and copy in the middle of a loss burst
    for (kind, fs, ch) in [("d", 16000, 1), ("d", 48000, 2), ("d", 8000, 2), ("D", 48000, 1), ("D", 48000, 2), ("P", 48000, 4), ("P", 48000, 5)]:
        D.append(dict(kind=kind, fs=fs, ch=ch, app=0, pre=[], sig=4, fd=8, lsb16=False,
                      ops=[("C", 1), ("U", 1, 0, 4, 0), ("U", 1, 4, 2, 1), ("Y", 1, 2), ("U", 1, 6, 2, 2), ("U", 2, 6, 2, 2), ("R", 1),
                           ("C", 3), ("U", 1, 0, 3, 0), ("U", 3, 0, 3, 0), ("U", 2, 8, 3, 0)], tokens={}, lens=None, modes=[0, 1, 2]))
    # 16-bit / 24-bit / float decoders on the multi-frame over-range streams (soft clip beyond the first frame of a packet, clipper
    # memory carried from packet to packet, a loss and a copy in between)
    for k in range(10):
        for ch in (1, 2):
            D.append(dict(kind="d", fs=[48000, 48000, 24000, 16000][(k + ch) % 4], ch=ch, app=0, pre=[], sig=4, fd=8, lsb16=False,
                          fmts=[0, 2, 1], stream=("mf", k),
                          ops=[("C", 1), ("C", 2), ("C", 3), ("U", 1, 0, 5, 0), ("U", 2, 0, 5, 0), ("U", 3, 0, 5, 0), ("U", 1, 5, 1, 1),
                               ("Y", 1, 2), ("U", 1, 6, 4, 0), ("U", 2, 6, 4, 0)], tokens={}, lens=None, modes=[0, 1, 2], tiers=("quick", "thorough") if (k + ch) % 2 else ("thorough",)))
    # very quiet 16-bit material through the three entry points with the analysis running (complexity 10 also runs it in the
    # fixed-point build), LSB depth 8..16, 24 frames: band energies between a 16-bit and a 24-bit noise floor
    q = 0
    for sig in (12, 13, 14, 15, 16, 17):
        for (fs, ch) in ((48000, 2), (48000, 1), (16000, 2), (24000, 1)):
            for lsb in (16, 14, 12, 8):
                q += 1
                D.append(dict(kind="e", fs=fs, ch=ch, app=[2049, 2048, 2051][q % 3], pre=[(4036, lsb), (4010, 10), (4002, 64000 * ch)], sig=sig, fd=8,
                              lsb16=False, ops=[("C", 1), ("C", 2), ("C", 3), ("U", 1, 0, 24, 0), ("U", 2, 0, 24, 1), ("U", 3, 0, 24, 2)],
                              tokens={}, lens=None, once=True,
                              tiers=("quick", "thorough") if (fs == 48000 and ch == 2 and lsb in (16, 12)) or q % 8 == 0 else ("thorough",)))
    # the soft clipper's memory across a reset: a loud low-frequency packet, reset, the next packet (which goes on in the same half
    # wave), against a fresh decoder given that packet; again and again along the stream.  The harness's reference clipper starts
    # from zero after a reset, as a new decoder's does.
    for k in range(6):
        for (fmts, gain) in (([0, 0], 0), ([0, 0], 768), ([2, 1], 0)):
            ops = [("C", 1)]
            for p in range(0, 14):
                ops += [("V", 1, p, 1, 0), ("R", 1), ("V", 1, p + 1, 1, 0), ("C", 2), ("V", 2, p + 1, 1, 0), ("X", 2), ("R", 1)]
            D.append(dict(kind="d", fs=[48000, 48000, 16000, 48000, 48000, 24000][k], ch=[1, 2, 1, 1, 2, 1][k], app=0,
                          pre=[(4034, gain)] if gain else [], sig=19, fd=8, lsb16=False, fmts=fmts * 20, stream=("lf", k), ops=ops, tokens={},
                          lens=None, modes=[0, 1, 2], once=True,
                          tiers=("quick", "thorough") if (fmts[0] == 0 and (k + (gain > 0)) % 2 == 0) else ("thorough",)))
    for (kind, lay, tag) in (("D", 0, "lfE0"), ("D", 3, "lfE3"), ("P", 5, "lfE3")):
        ops = [("C", 1)]
        for p in range(0, 10):
            ops += [("V", 1, p, 1, 0), ("R", 1), ("V", 1, p + 1, 1, 0), ("C", 2), ("V", 2, p + 1, 1, 0), ("X", 2), ("R", 1)]
        D.append(dict(kind=kind, fs=48000, ch=lay, app=0, pre=[], sig=19, fd=8, lsb16=False, fmts=[0] * 24, stream=(tag, 0), ops=ops,
                      tokens={}, lens=None, modes=[0, 1, 2], once=True, tiers=("quick", "thorough") if kind == "D" and lay == 0 else ("thorough",)))
    # a fixed expert frame duration with more samples supplied per call than that duration (the look-ahead usage), through the three
    # entry points, analysis running: every duration x {2x, 4x, the next legal size}
    durs = [1, 2, 4, 8, 16, 24, 32, 40, 48]
    q = 0
    for di, dur in enumerate(durs):
        for sup in (2 * dur, 4 * dur, durs[di + 1] if di + 1 < len(durs) else 60):
            q += 1
            fs, ch = [(48000, 1), (16000, 2), (48000, 2), (24000, 1)][q % 4]
            ops = [("C", 1), ("C", 2), ("C", 3)]
            for v in range(3):
                ops.append(("V", v + 1, 0, 10 if dur <= 16 else 5, v, min(sup, 96)))
            D.append(dict(kind="e", fs=fs, ch=ch, app=[2049, 2048, 2051][q % 3], pre=[(4036, 16), (4010, 10), (4040, 5001 + di), (4002, 32000 * ch)],
                          sig=[1, 2, 3, 6, 10][q % 5], fd=8, lsb16=False, ops=ops, tokens={}, lens=None, once=True,
                          tiers=("quick", "thorough") if (dur in (2, 4, 8) and sup == 2 * dur) or q % 9 == 0 else ("thorough",)))
    # finding F14 on every run: projection decoders with 16-bit output, demixed sum beyond the 16-bit range while every stream stays
    # within +-1 (caller matrix of 0.75s on the half-scale music stream); the float and 24-bit twins of the same history are not affected
    D.append(dict(kind="P", fs=48000, ch=5, app=0, pre=[], sig=2, fd=8, lsb16=False, fmts=[0, 2, 1], stream=("E3", 1),
                  ops=[("C", 1), ("C", 2), ("C", 3), ("U", 1, 0, 6, 0), ("U", 2, 0, 6, 0), ("U", 3, 0, 6, 0), ("Y", 1, 2), ("U", 2, 6, 3, 0),
                       ("U", 1, 6, 3, 0)], tokens={}, lens=None, modes=[0, 1, 2]))
    # multistream / surround encoders through the three entry points with the analysis running, LSB depth <= 16, channels that differ
    # within the coupled streams: the stream-by-stream packet identity
    q = 0
    for lay in (1, 3, 2, 0):
        for (fs, sig, lsb) in ((48000, 10, 16), (16000, 2, 12), (48000, 1, 16)):
            q += 1
            nch = [2, 3, 6, 4][lay]
            D.append(dict(kind="E", fs=fs, ch=lay, app=[2049, 2048, 2051][q % 3], pre=[(4036, lsb), (4010, 10), (4002, 32000 * nch)], sig=sig, fd=8,
                          lsb16=False, ops=[("C", 1), ("C", 2), ("C", 3), ("U", 1, 0, 8, 0), ("U", 2, 0, 8, 1), ("U", 3, 0, 8, 2)],
                          tokens={}, lens=None, once=True, tiers=("quick", "thorough") if q % 3 != 2 else ("thorough",)))
    # the same on very quiet 16-bit material (band energies between a 16-bit and a 24-bit noise floor) on EVERY stream: an LSB depth
    # that the multistream ctl did not hand to all streams makes the 16-bit entry point code other packets than float / 24-bit (C13-9)
    for lay in (1, 3, 2):
        for (sig, lsb) in ((12, 16), (15, 16), (17, 14)):
            q += 1
            nch = [2, 3, 6, 4][lay]
            D.append(dict(kind="E", fs=48000, ch=lay, app=[2049, 2051, 2049][q % 3], pre=[(4036, lsb), (4010, 10), (4002, 64000 * nch)], sig=sig, fd=8,
                          lsb16=False, ops=[("C", 1), ("C", 2), ("C", 3), ("U", 1, 0, 24, 0), ("U", 2, 0, 24, 1), ("U", 3, 0, 24, 2)],
                          tokens={}, lens=None, once=True, tiers=("quick", "thorough") if lay != 2 or sig == 15 else ("thorough",)))
    plines, psidx = packet_streams(None)
    fdmap = stream_fd(plines)
    # decoders carrying settings (phase inversion other than the default of their channel count, gain, complexity) on anti-phase
    # stereo at low rates and on streams whose layer changes: decode, reset, against a fresh twin given the same settings by ctl
    # calls; the setting toggled in mid-stream, a copy, another reset and another fresh twin.  Multistream / projection likewise.
    q = 0
    for (kind, fs, ch, pi, tag, k) in [("d", 48000, 2, 1, "ap", 0), ("d", 48000, 1, 0, "ap", 1), ("d", 48000, 2, 1, "ap", 2), ("d", 24000, 2, 1, "ap", 3),
                                       ("d", 16000, 1, 0, "ap", 4), ("d", 48000, 2, 1, "ap", 5), ("d", 48000, 1, 0, "ap", 6), ("d", 16000, 2, 1, "ap", 7),
                                       ("d", 48000, 2, 0, "ap", 0), ("d", 12000, 1, 1, "ap", 5),
                                       ("D", 48000, 1, 1, "apE1", 0), ("D", 48000, 3, 1, "apE3", 0), ("D", 48000, 3, 0, "apE3", 0), ("P", 48000, 5, 1, "apE3", 0)]:
        q += 1
        pre = [(4046, pi)] + ([(4034, [256, -512, 1024][q % 3])] if q % 2 else []) + ([(4010, [0, 5, 10][q % 3])] if q % 3 == 0 else [])
        D.append(dict(kind=kind, fs=fs, ch=ch, app=0, pre=pre, sig=4, fd=8, lsb16=False, stream=(tag, k),
                      ops=[("C", 1), ("U", 1, 0, 6, 0), ("R", 1), ("L", 1, 2), ("U", 1, 6, 4, 0), ("U", 2, 6, 4, 0), ("Y", 1, 3), ("U", 1, 10, 2, 1),
                           ("U", 3, 10, 2, 1), ("T", 1, 1), ("U", 1, 12, 3, 0), ("R", 1), ("L", 1, 2), ("V", 1, 4, 5, 0), ("V", 2, 4, 5, 0),
                           ("R", 3), ("V", 3, 4, 5, 0)],
                      tokens={1: [(4046, 1 - pi)]}, lens=None, modes=[0, 1, 2], once=True,
                      tiers=("quick", "thorough") if q % 2 or kind != "d" else ("thorough",)))
    # the three-format decoder twins through loss recovery with a frame_size other than the packet's duration: FEC asked for twice
    # and three times the packet's duration (concealment for the difference, then the redundant frame - with and without usable
    # redundancy in the packet), for less than it (too small a buffer, on all three alike), concealment of longer and shorter
    # spans, decoding with a larger / smaller frame_size; single stream, multistream and projection
    q = 0
    for (kind, fs, ch, tag, k) in [("d", 16000, 1, "e", 0), ("d", 48000, 1, "e", 1), ("d", 48000, 2, "e", 5), ("d", 16000, 2, "e", 8),
                                   ("d", 48000, 2, "e", 3), ("d", 48000, 2, "e", 11), ("d", 8000, 1, "e", 6), ("d", 24000, 1, "e", 10),
                                   ("d", 48000, 2, "ap", 2), ("d", 48000, 1, "ap", 6), ("d", 48000, 2, "mf", 4),
                                   ("D", 16000, 0, "E0", 2), ("D", 48000, 1, "E1", 2), ("D", 48000, 3, "E3", 2), ("D", 48000, 2, "E2", 0),
                                   ("P", 48000, 4, "J", 0), ("P", 48000, 5, "E3", 2)]:
        q += 1
        fd = fdmap[psidx[tag][k]]
        half = max(1, fd // 2)
        ops = [("C", 1), ("C", 2), ("C", 3)]
        for o in (1, 2, 3):
            ops += [("W", o, 0, 3, 0, 0), ("W", o, 4, 1, 2, 2 * fd), ("W", o, 6, 2, 0, 0), ("W", o, 8, 1, 2, half), ("W", o, 8, 1, 2, min(48, 3 * fd)),
                    ("W", o, 10, 2, 1, min(48, 2 * fd)), ("W", o, 12, 1, 1, 1), ("W", o, 12, 2, 0, min(96, 4 * fd)), ("W", o, 14, 1, 0, half),
                    ("W", o, 14, 1, 1, half), ("W", o, 15, 2, 2, fd + 1 if fd < 8 else fd + 4), ("W", o, 17, 2, 0, 0)]
        D.append(dict(kind=kind, fs=fs, ch=ch, app=0, pre=[], sig=4, fd=8, lsb16=False, fmts=[0, 2, 1], stream=(tag, k), ops=ops,
                      tokens={}, lens=None, modes=[0, 1, 2], once=True,
                      tiers=("quick", "thorough") if q % 2 or kind != "d" else ("thorough",)))
    return D


# ------------------------------------------------------------------------------------------------ packet streams
def packet_streams(rng):
    """the table of reference packet streams (P lines); returns (lines, index by kind/layout)"""
    lines, idx = [], {}
    sid = 0

    def add(kind, fs, chlay, app, br, fd, fec, sig, count, tag):
        nonlocal sid
        lines.append("P %d %s %d %d %d %d %d %d %d %d" % (sid, kind, fs, chlay, app, br, fd, fec, sig, count))
        idx.setdefault(tag, []).append(sid)
        sid += 1
    # single stream: speech layer with FEC, hybrid, transform layer, stereo, short and long frames, loud ones (clipping)
    add("e", 16000, 1, 2048, 20000, 8, 1, 1, 60, "e")
    add("e", 48000, 1, 2048, 32000, 8, 1, 1, 60, "e")
    add("e", 48000, 2, 2049, 96000, 8, 0, 2, 60, "e")
    add("e", 48000, 2, 2049, 64000, 4, 0, 4, 60, "e")
    add("e", 48000, 1, 2051, 64000, 2, 0, 4, 60, "e")
    add("e", 24000, 2, 2048, 28000, 16, 1, 6, 40, "e")
    add("e", 8000, 1, 2048, 12000, 24, 1, 1, 30, "e")
    add("e", 48000, 2, 2049, 128000, 8, 0, 4, 60, "e")
    add("e", 16000, 2, 2048, 36000, 8, 1, 4, 60, "e")
    add("e", 48000, 1, 2049, 48000, 1, 0, 3, 60, "e")
    add("e", 12000, 1, 2048, 16000, 8, 1, 6, 60, "e")
    add("e", 48000, 2, 2048, 40000, 8, 1, 4, 60, "e")
    # multi-frame packets (codes 1/2/3: 40/60/80/120 ms, made by the encoder and by the repacketizer) of over-range material at low
    # rates, so that the decoded float signal leaves +-1 in frames after the first: the soft-clip relation beyond the first frame
    add("e", 48000, 1, 2051, 24000, 16, 0, 4, 30, "mf")
    add("e", 48000, 2, 2051, 48000, 24, 0, 4, 24, "mf")
    add("e", 48000, 2, 2049, 40000, 32, 0, 4, 16, "mf")
    add("e", 48000, 1, 2049, 20000, 48, 0, 4, 12, "mf")
    add("e", 16000, 1, 2048, 16000, 24, 1, 4, 24, "mf")
    add("e", 24000, 2, 2051, 40000, 16, 0, 3, 30, "mf")
    add("R", 48000, 2, 2051, 48000, 8, 3, 4, 24, "mf")        # three 20 ms frames per packet, repacketised
    add("R", 48000, 1, 2051, 24000, 4, 4, 4, 24, "mf")        # four 10 ms frames
    add("R", 48000, 2, 2049, 32000, 8, 2, 4, 30, "mf")        # two 20 ms frames
    add("R", 16000, 1, 2048, 14000, 8, 2, 4, 30, "mf")        # two 20 ms speech-layer frames
    idx["e"] += idx["mf"]
    # loud low-frequency material: frames end inside half waves the soft clipper is working on (its memory is then non-zero)
    add("e", 48000, 1, 2049, 64000, 8, 0, 19, 40, "lf")
    add("e", 48000, 2, 2049, 96000, 8, 0, 18, 40, "lf")
    add("e", 16000, 1, 2048, 40000, 8, 0, 19, 40, "lf")
    add("e", 48000, 1, 2051, 64000, 4, 0, 19, 40, "lf")
    add("e", 48000, 2, 2051, 128000, 16, 0, 19, 24, "lf")
    add("e", 24000, 1, 2049, 64000, 8, 0, 18, 40, "lf")
    idx["e"] += idx["lf"]
    for lay in (0, 1, 2, 3):
        add("E", 48000, lay, 2049, 64000 * [2, 3, 6, 4][lay], 8, 0, 4, 40, "E%d" % lay)
        add("E", 48000, lay, 2049, 24000 * [2, 3, 6, 4][lay], 8, 0, 2, 40, "E%d" % lay)
        add("E", 16000, lay, 2048, 16000 * [2, 3, 6, 4][lay], 8, 1, 1, 40, "E%d" % lay)
    add("E", 48000, 0, 2049, 128000, 8, 0, 19, 40, "lfE0")
    add("E", 48000, 3, 2049, 256000, 8, 0, 19, 40, "lfE3")
    idx["E0"] += idx["lfE0"]; idx["E3"] += idx["lfE3"]
    add("J", 48000, 4, 2049, 256000, 8, 0, 4, 40, "J")
    add("J", 48000, 4, 2049, 128000, 8, 0, 2, 40, "J")
    add("J", 48000, 4, 2049, 96000, 4, 0, 1, 40, "J")
    # stereo in anti-phase at low transform-layer / hybrid rates (the inversion flag of the intensity-stereo bands is coded: what a
    # decoder's phase-inversion setting acts on), and streams whose layer changes every four packets (speech -> transform -> hybrid
    # -> transform: the decoder re-initialises its transform layer inside a stream)
    add("e", 48000, 2, 2051, 24000, 8, 0, 20, 40, "ap")
    add("e", 48000, 2, 2049, 32000, 8, 0, 20, 40, "ap")
    add("e", 48000, 2, 2048, 28000, 8, 1, 21, 40, "ap")
    add("e", 48000, 2, 2051, 16000, 4, 0, 20, 40, "ap")
    add("e", 24000, 2, 2051, 20000, 8, 0, 20, 40, "ap")
    add("S", 48000, 2, 2049, 36000, 8, 0, 21, 48, "ap")
    add("S", 48000, 2, 2048, 24000, 8, 1, 20, 48, "ap")
    add("S", 16000, 1, 2048, 20000, 8, 1, 1, 48, "ap")
    idx["e"] += idx["ap"]
    add("E", 48000, 1, 2049, 40000, 8, 0, 20, 40, "apE1")
    add("E", 48000, 3, 2049, 48000, 8, 0, 20, 40, "apE3")
    idx["E1"] += idx["apE1"]; idx["E3"] += idx["apE3"]
    assert sid <= NPS
    return lines, idx


def stream_fd(plines):
    """sid -> packet duration in 2.5 ms units"""
    out = {}
    for ln in plines:
        f = ln.split()
        out[int(f[1])] = int(f[7]) * (max(1, int(f[8])) if f[2] == "R" else 1)
    return out


# ------------------------------------------------------------------------------------------------ instantiation
def enc_setting(rng, ch):
    """one setting token of an encoder: a list of (request, value)"""
    u = rng.random()
    if u < 0.30:
        return [(4002, rng.choice([6000, 9000, 12000, 16000, 20000, 24000, 32000, 40000, 48000, 64000, 96000, 128000, 256000, -1000, -1]))]
    if u < 0.40:
        return [(4012, rng.choice([0, 1, 1])), (4014, rng.choice([0, 5, 10, 20, 35]))]
    if u < 0.47:
        return [(4010, rng.randrange(0, 11))]
    if u < 0.53:
        return [(4016, rng.choice([0, 1]))]
    if u < 0.60:
        return [(4006, rng.choice([0, 1])), (4020, rng.choice([0, 1]))]
    if u < 0.66:
        return [(4022, rng.choice([-1000, 1, 2] if ch == 2 else [-1000, 1]))]
    if u < 0.72:
        return [(4024, rng.choice([-1000, 3001, 3002]))]
    if u < 0.78:
        return [(4008, rng.choice([-1000, 1101, 1102, 1103, 1104, 1105]))]
    if u < 0.83:
        return [(4004, rng.choice([1101, 1102, 1103, 1104, 1105]))]
    if u < 0.88:
        return [(11002, rng.choice([-1000, 1000, 1001, 1002]))]
    if u < 0.92:
        return [(4042, rng.choice([0, 1]))]
    if u < 0.96:
        return [(4046, rng.choice([0, 1]))]
    return [(4036, rng.choice([8, 12, 14, 16]))]


def dec_setting(rng):
    u = rng.random()
    if u < 0.35:
        return [(4034, rng.choice([-1536, -768, -256, 0, 256, 512, 1024]))]
    if u < 0.75:
        return [(4046, rng.choice([0, 1]))]
    if u < 0.85:
        return [(4046, rng.choice([0, 1])), (4034, rng.choice([-768, 256, 1024])), (4010, rng.choice([0, 5, 10]))]
    return [(4010, rng.choice([0, 5, 10]))]


FQ_UNITS = [1, 2, 3, 4, 6, 8, 12, 16, 24, 32, 48, 50]


def dec_frame_sizes(rng, fs):
    """the frame_size a decoder run passes, per call variant (0 normal: first call; 1 lost: every call; 2 first by FEC: that call):
    0 = the packet's duration, else a number of samples - multiples of 2.5 ms larger and smaller than the packet, now and then one
    sample off a multiple"""
    out = {}
    for mode, p in ((0, 0.2), (1, 0.5), (2, 0.5)):
        fq = 0
        if rng.random() < p:
            fq = fs // 400 * rng.choice(FQ_UNITS)
            if rng.random() < 0.08:
                fq += rng.choice([-1, 1])
        out[mode] = fq
    return out


def pick_kind(rng, pid):
    u = rng.random()
    if pid == "C13":
        return "e" if u < 0.34 else "d" if u < 0.60 else "E" if u < 0.72 else "D" if u < 0.86 else "P"
    return "e" if u < 0.42 else "d" if u < 0.68 else "E" if u < 0.80 else "D" if u < 0.92 else "P"


def instantiate(ops, rng, hid, pid, psidx, pinned=None):
    """abstract history -> (lines for pass A, lines for pass B)"""
    pinned = pinned or {}
    kind = pinned.get("kind") or pick_kind(rng, pid)
    enc = kind in ("e", "E")
    if kind in ("e", "d"):
        fs = pinned.get("fs") or rng.choice(FS)
        chlay = pinned.get("ch") or rng.choice([1, 2])
        nch = chlay
    elif kind in ("E", "D"):
        fs = pinned.get("fs") or rng.choice([16000, 48000, 48000])
        chlay = pinned["ch"] if "ch" in pinned else rng.choice([0, 1, 2, 3])
        nch = [2, 3, 6, 4][chlay]
    else:
        fs = pinned.get("fs") or 48000
        chlay = pinned["ch"] if "ch" in pinned else rng.choice([4, 5])
        nch = 4
    app = pinned.get("app") or (rng.choice(ENC_APPS) if enc else 0)
    sig = pinned["sig"] if "sig" in pinned else rng.choice([1, 1, 2, 2, 3, 4, 4, 5, 6, 6, 0, 8, 9, 10, 10, 11, 12, 14, 15, 16, 17] if enc else [1, 1, 2, 2, 3, 4, 4, 5, 6, 6, 0])
    fd = pinned.get("fd") or (rng.choice([1, 2, 4, 8, 8, 8, 8, 16, 24]) if kind == "e" else 8 if rng.random() < 0.7 else rng.choice([2, 4, 16]))
    maxb = 4000 if kind == "E" else 1500
    # settings every created object gets right after creation
    pre = list(pinned.get("pre") or [])
    if "pre" not in pinned:
        if enc:
            if rng.random() < (0.85 if pid == "C13" else 0.5):
                pre.append((4036, rng.choice([16, 16, 16, 12, 8])))
            if rng.random() < 0.35:
                pre += [(4012, 1), (4014, rng.choice([5, 10, 20]))]
            if rng.random() < 0.6:
                pre += [(4002, rng.choice([8000, 12000, 16000, 24000, 32000, 40000, 64000, 96000, 160000]) * (nch if kind == "E" else 1))]
            if rng.random() < 0.3:
                pre += [(4010, rng.randrange(0, 11))]
            if rng.random() < 0.12 and kind == "e":
                pre += [(4006, 0)]
                maxb = rng.choice([40, 80, 160, 1500])
        else:
            if rng.random() < 0.5:
                pre += dec_setting(rng)
    elif pinned.get("lsb16"):
        pre = [(4036, 16)] + pre
    tokens = dict(pinned.get("tokens") or {})
    perm = [0, 1, 2]
    rng.shuffle(perm)
    if not enc:
        perm = pinned.get("modes") or (perm if rng.random() < 0.5 else [0, rng.choice([1, 2]), rng.choice([0, 1, 2])])
    lenmap = {1: 1, 2: rng.randrange(2, 5), 3: rng.randrange(5, 16)}
    if kind in ("e", "d"):
        sids = psidx["e"]
    elif kind == "P":
        sids = psidx["J"] + psidx["E3"]
    else:
        sids = psidx["E%d" % chlay]
    sid = rng.choice(sids)
    if pinned.get("stream"):
        sid = psidx[pinned["stream"][0]][pinned["stream"][1]]
    fmts = list(pinned.get("fmts") or [])
    fqs = {0: 0, 1: 0, 2: 0}
    if not enc and not pinned:
        fqs = dec_frame_sizes(rng, fs)
    seedA, seedB = rng.randrange(1, 1 << 30), rng.randrange(1, 1 << 30)
    rot = rng.randrange(1, 5)
    settings, pos = {}, {}
    A = ["H %d %d" % (hid, seedA)]

    def create(o):
        A.append("C %d %s %d %d %d %d" % (o, kind, fmts.pop(0) if fmts else rng.randrange(0, 3), fs, chlay, app))
        settings[o] = {}
        pos[o] = 0
        for (r, v) in pre:
            A.append("T %d %d %d" % (o, r, v))
            settings[o][r] = v
    for op in ops:
        t = op[0]
        if t == "C":
            create(op[1] - 1)
        elif t == "L":
            s, d = op[1] - 1, op[2] - 1
            A.append("C %d %s %d %d %d %d" % (d, kind, rng.randrange(0, 3), fs, chlay, app))
            settings[d] = dict(settings[s])
            pos[d] = 0
            for r, v in settings[s].items():
                A.append("T %d %d %d" % (d, r, v))
        elif t == "T":
            o, tok = op[1] - 1, op[2]
            if tok not in tokens:
                tokens[tok] = enc_setting(rng, nch) if enc else dec_setting(rng)
            for (r, v) in tokens[tok]:
                A.append("T %d %d %d" % (o, r, v))
                settings[o].pop(r, None)
                settings[o][r] = v
        elif t == "S":          # (directed histories only) change the signal family from here on
            sig = op[1]
        elif t == "U":
            o, n, v = op[1] - 1, op[3], op[4]
            n = n if pinned.get("lens", 0) is None else lenmap.get(n, n)
            if enc:
                A.append("E %d %d %d %d %d %d %d" % (o, perm[v % 3], sig, pos[o], n, fd, maxb))
            else:
                A.append("D %d %d %d %d %d %d" % (o, sid, pos[o], n, perm[v % 3], fqs[perm[v % 3]]))
            pos[o] += n
        elif t == "V":          # (directed histories only) a run at an explicit position, optionally with its own buffer duration
            o, k0, n, v = op[1] - 1, op[2], op[3], op[4]
            if enc:
                A.append("E %d %d %d %d %d %d %d" % (o, perm[v % 3], sig, k0, n, op[5] if len(op) > 5 else fd, maxb))
            else:
                A.append("D %d %d %d %d %d" % (o, sid, k0, n, perm[v % 3]))
        elif t == "W":          # (directed histories only) a decoder run at an explicit position: mode and frame_size (2.5 ms units) given
            o, k0, n, mode, units = op[1] - 1, op[2], op[3], op[4], op[5]
            fq = 0 if units == 0 else max(1, int(fs // 400 * units))
            A.append("D %d %d %d %d %d %d" % (o, sid, k0, n, mode, fq))
        elif t == "Y":
            s, d = op[1] - 1, op[2] - 1
            A.append("Y %d %d" % (s, d))
            settings[d] = dict(settings[s])
            pos[d] = pos[s]
        elif t == "R":
            A.append("R %d" % (op[1] - 1))
            pos[op[1] - 1] = 0
        elif t == "X":
            A.append("X %d" % (op[1] - 1))
        if rng.random() < 0.06:
            A.append("B %d" % rng.randrange(1, 3))
    # pass B: the same operations under another poison seed, with the slots renumbered and without the bystanders' timing
    B = []
    for ln in A:
        f = ln.split()
        if f[0] == "H":
            B.append("H %d %d" % (hid, seedB))
        elif f[0] == "B":
            continue
        elif f[0] == "Y":
            B.append("Y %d %d" % ((int(f[1]) + rot) % 8, (int(f[2]) + rot) % 8))
        else:
            B.append(" ".join([f[0], str((int(f[1]) + rot) % 8)] + f[2:]))
        if rng.random() < 0.05:
            B.append("B 1")
    return A, B


# ------------------------------------------------------------------------------------------------ running and judging
ASAN_A = "detect_leaks=1:abort_on_error=0:exitcode=99:allocator_may_return_null=1"
ASAN_B = ASAN_A + ":malloc_fill_byte=90:max_malloc_fill_size=4000000"


def run_chunk(exe, ctx, name, plines, A, B, env_extra=None):
    """two harness processes (pass A, pass B); returns (trace path, rc, stderr tail, input paths)"""
    ipa, ipb = ctx.path(name + "_A.txt"), ctx.path(name + "_B.txt")
    # only the packet streams this chunk decodes are built
    used = set(ln.split()[2] for ln in A + B if ln.startswith("D "))
    plines = [ln for ln in plines if ln.split()[1] in used]
    with open(ipa, "w") as f:
        f.write("\n".join(plines + A) + "\n")
    with open(ipb, "w") as f:
        f.write("\n".join(plines + B) + "\n")
    oa, ob, out = ctx.path(name + "_A.ndjson"), ctx.path(name + "_B.ndjson"), ctx.path(name + ".ndjson")
    ea = dict(env_extra or {}); ea["ASAN_OPTIONS"] = ASAN_A
    eb = dict(env_extra or {}); eb["ASAN_OPTIONS"] = ASAN_B; eb["MALLOC_PERTURB_"] = "165"
    rc1, err1 = vf.run_hx(exe, [], oa, stdin_path=ipa, timeout=2400, env=ea)
    rc2, err2 = vf.run_hx(exe, [], ob, stdin_path=ipb, timeout=2400, env=eb)
    with open(out, "w") as fo:
        for p in (oa, ob):
            with open(p) as fi:
                data = fi.read()
            if data and not data.endswith("\n"):
                data = data[:data.rfind("\n") + 1]        # a line cut short by an abort
            fo.write(data)
    os.remove(oa); os.remove(ob)
    return out, (rc1 or rc2), (err1 if rc1 else err2), (ipa, ipb)


def replay_text(ipa, ipb):
    return open(ipa).read() + "#PASS B\n" + open(ipb).read()


def parse_stats(r):
    for p in r.prints:
        m = re.match(r'<<"STATS", (.*)>>', p)
        if m:
            return [int(x) for x in m.group(1).split(",")]
    return [0] * len(STAT_NAMES)


STAT_NAMES = ["full_key_comparisons", "erased_key_comparisons", "comparisons_on_copies", "comparisons_after_reset",
              "comparisons_across_formats", "clipping_decodes_16bit_relation", "projection_relation_evaluated",
              "tolerated_projection_16bit_wraps", "getter_snapshots_compared", "getter_snapshots_compared_reset_vs_fresh",
              "getter_outcome_compared_across_formats", "tolerated_reset_getter_snapshots"]

# Provisional findings of the getter clause (C12), to be moved into known_findings.json by the coordinator.  While this list is
# non-empty (and VERIF_NO_KNOWN is not 1) the trace spec runs with TolerateResetGetters = TRUE: snapshots of exactly these shapes
# (object reset and not yet called; the pitch of a decoder / the snapshot of a multistream encoder) are not compared, the
# differing ones are counted, and the check prints KNOWN-FINDING.
PROVISIONAL = [
    dict(id="F-C12-pitch", property="C12", key=dict(kind="decoder (d, D, P)", state="has been reset", getter=4033),
         what="after OPUS_RESET_STATE a decoder's OPUS_GET_PITCH still reports the pitch lag of the stream decoded before the reset "
              "(DecControl.prevPitchLag lies before OPUS_DECODER_RESET_START and silk_ResetDecoder does not touch it); a newly created "
              "decoder reports 0; concealment calls made after the reset keep the stale value.  Decoding is not affected."),
    dict(id="F-C12-msenc", property="C12", key=dict(kind="multistream encoder (E)", state="reset, no call since", getter="4003/4009/4023 and the streams' getters"),
         what="after OPUS_RESET_STATE a multistream encoder's streams still carry the bitrate, forced channel count and bandwidth that the "
              "last opus_multistream_encode call gave them (the per-call rate allocation writes them with ctl calls), so OPUS_GET_BITRATE / "
              "OPUS_GET_FORCE_CHANNELS and the streams' getters differ from those of a newly created multistream encoder with the same "
              "settings until the next encode call rewrites them.  The packets are not affected."),
]


def provisional():
    return [] if os.environ.get("VERIF_NO_KNOWN") == "1" else PROVISIONAL


def history_of_line(trace, lineno):
    """(hid, event) of the rejected line"""
    hid, ev = None, None
    with open(trace) as f:
        for i, ln in enumerate(f, 1):
            if ln.startswith('{"k":"H"'):
                hid = json.loads(ln)["h"]
            if i == lineno:
                ev = ln.strip()
                break
    return hid, ev


def extract_history(ipath, hid):
    """P lines + the block of history hid from an input file"""
    pl, out, keep = [], [], False
    for ln in open(ipath):
        if ln.startswith("P "):
            pl.append(ln)
        elif ln.startswith("H "):
            keep = int(ln.split()[1]) == hid
            if keep:
                out.append(ln)
        elif keep:
            out.append(ln)
    used = set(ln.split()[2] for ln in out if ln.startswith("D "))
    return "".join([ln for ln in pl if ln.split()[1] in used] + out)


def finding_f14():
    """finding F14 (the projection decoder's 16-bit output wraps): the entry of known_findings.json while it is listed as known.
    Its key - projection decoder, 16-bit format, float twin within 32 units of the 16-bit limits or beyond - is the shape the trace
    spec lets through under TolerateProj16; without the entry nothing is let through."""
    if os.environ.get("VERIF_NO_KNOWN") == "1":      # used to verify a proposed repair: nothing is tolerated
        return None
    for k in vf.known_findings("C13"):
        if k.get("id") == "F14":
            key = k.get("key", {})
            if key.get("kind") == "projection decoder" and key.get("fmt") == "i16":
                return k
    return None


def trace_cfg(pid, pj):
    if pid == "C12":
        return "ObjectsTrace_C12.cfg" if provisional() else "ObjectsTrace_C12strict.cfg"
    return "ObjectsTrace_C13tolP.cfg" if pj else "ObjectsTrace_C13.cfg"


def model_runs(ctx, tier):
    """the design on the small memory model: intended design holds, every single departure is refuted (vacuity guards)"""
    r = ctx.mc("Objects_mc", "Objects_mc_quick.cfg" if tier == "quick" else "Objects_mc_thorough.cfg",
               what="object design (memory model): intended", workers=8, timeout=1500, heap="6g")
    if r.violation:
        raise vf.Infra("Objects_mc: invariant %s violated on the intended design:\n%s" % (r.violation, r.state_dump[:1500]))
    wit = ["Objects_mc_w_stale.cfg", "Objects_mc_w_copy.cfg"] if tier == "quick" else \
          ["Objects_mc_w_stale.cfg", "Objects_mc_w_init.cfg", "Objects_mc_w_copy.cfg", "Objects_mc_w_ptr.cfg"]

    def one(cfg):
        return cfg, vf.tlc("Objects_mc", cfg, workers=2, timeout=600, heap="2g")
    for cfg, w in vf.parallel(one, wit, nproc=4):
        if w.error:
            raise vf.Infra("Objects_mc/%s: %s" % (cfg, w.error))
        ctx.add_tlc(w, "object design witness " + cfg)
        if w.violation != "EquivOutputsEqual":
            raise vf.Infra("Objects_mc/%s: the departure from the design was not refuted (vacuous invariant)" % cfg)
    ctx.notes["model_witnesses_refuted"] = wit
    ctx.notes["model_F3"] = ("Objects_mc_w_stale.cfg (ResetClearsStale = FALSE) is the reset as it was before fix 4d916837: TLC's counterexample "
                             "is the shape of finding F3 (create, FEC on, encode, reset versus a fresh object with FEC on)")


def build_histories(ctx, tier, pid):
    rng = random.Random(ctx.seed * 7 + (12 if pid == "C12" else 13))
    plines, psidx = packet_streams(rng)
    H = []        # (A lines, B lines)
    hid = 0
    if tier == "quick":
        # all abstract histories of depth 5 are enumerated; a seeded quarter of them is replayed in the quick tier
        bfs = tlc_histories(ctx, "Objects_gen_quick.cfg", what="gen: all histories to depth 5")
        ctx.notes["bfs_histories_enumerated"] = len(bfs)
        rng.shuffle(bfs)
        bfs = bfs[:260]
        sim = tlc_histories(ctx, "Objects_gen_sim.cfg", simulate=120, depth=24, what="gen: long random histories")
        rng.shuffle(sim)
        sim = sim[:40]
    else:
        bfs5 = tlc_histories(ctx, "Objects_gen_quick.cfg", what="gen: all histories to depth 5")
        bfs6 = tlc_histories(ctx, "Objects_gen_thorough.cfg", what="gen: all histories to depth 6")
        ctx.notes["bfs_histories_enumerated"] = len(bfs5) + len(bfs6)
        rng.shuffle(bfs6)
        bfs = bfs5 + bfs6[:2000]
        sim = tlc_histories(ctx, "Objects_gen_sim.cfg", simulate=1200, depth=24, what="gen: long random histories", timeout=1500)
        rng.shuffle(sim)
        sim = sim[:450]
    ctx.notes["bfs_histories_replayed"] = len(bfs)
    ctx.notes["long_random_histories"] = len(sim)
    for ops in bfs + sim:
        hid += 1
        H.append(instantiate(ops, rng, hid, pid, psidx))
    nd = 0
    for d in directed_histories():
        if tier not in d.get("tiers", ("quick", "thorough")):
            continue
        for rep in range(1 if tier == "quick" or d.get("once") else 3):
            hid += 1
            nd += 1
            H.append(instantiate(d["ops"], rng, hid, pid, psidx, pinned=d))
    ctx.notes["directed_histories"] = nd
    return plines, H


def for_variant(lines, vname):
    """hkfix: encoder objects are not driven by the full-scale family (4) but by the same waveform at -18 dB (7): at complexity 10 the
    fixed-point signal analysis overflows a 64-bit accumulator on full-scale wide-band input (src/analysis.c:152, reported
    separately) and the sanitizer build would abort there"""
    if not vname.startswith("hkfix"):
        return lines
    out = []
    for ln in lines:
        f = ln.split()
        if f[0] == "E" and f[3] == "4":
            f[3] = "7"
            ln = " ".join(f)
        out.append(ln)
    return out


def run_check(ctx, pid):
    tier = ctx.tier
    pj = finding_f14() if pid == "C13" else None
    # with the known-finding entry the events of exactly that shape are let through by TLC, counted and printed
    usecfg = trace_cfg(pid, pj)
    if ctx.replay:
        return replay(ctx, pid, usecfg, pj)
    import time
    t0 = time.time()
    model_runs(ctx, tier)
    t1 = time.time()
    plines, H = build_histories(ctx, tier, pid)
    vf.log("[%s] model %.0fs, histories %.0fs (%d)" % (pid, t1 - t0, time.time() - t1, len(H)))
    ctx.notes["histories"] = len(H)
    variants = [("hk", None)]
    variants.append(("hkfix", None))
    if tier == "thorough":
        variants += [("hk", 0), ("hk", 2), ("hkfix", 1), ("hkfix", 3)]
    nchunks = 8 if tier == "quick" else 24
    order = list(range(len(H)))
    random.Random(ctx.seed).shuffle(order)
    jobs = []
    exes = {}
    for vname, cap in variants:
        if vname not in exes:
            var = vf.build_variant(vname)
            exes[vname] = vf.build_hx(var, "objects.c")
        # arch-capped repeats replay a sixth of the histories
        sel = order if cap is None else order[cap % 6::6]
        nc = nchunks if cap is None else max(2, nchunks // 6)
        per = (len(sel) + nc - 1) // nc
        for k in range(nc):
            part = sel[k * per:(k + 1) * per]
            if part:
                jobs.append((vname, cap, k, part))
    totals = [0] * len(STAT_NAMES)
    reported = set()
    events = 0
    npj = 0

    def one(job):
        vname, cap, k, part = job
        A, B = [], []
        for i in part:
            A += H[i][0]; B += H[i][1]
        A, B = for_variant(A, vname), for_variant(B, vname)
        name = "%s_%s_%02d" % (vname, "cap%d" % cap if cap is not None else "auto", k)
        env = {"OPUS_VERIF_ARCH_CAP": str(cap)} if cap is not None else None
        out, rc, err, ips = run_chunk(exes[vname], ctx, name, plines, A, B, env)
        res = None
        if rc == 0:
            res = vf.validate_seq(ctx, "ObjectsTrace", usecfg, out, "%s %s" % (pid, name), heap="3g", timeout=2400)
        return job, name, out, rc, err, ips, res
    t2 = time.time()
    results = vf.parallel(one, jobs, nproc=8)
    vf.log("[%s] replay + judge %.0fs (%d jobs)" % (pid, time.time() - t2, len(jobs)))
    for job, name, out, rc, err, ips, res in results:
        vname, cap, k, part = job
        if rc != 0 and len(ctx.violations) >= 3:
            ctx.notes["further_aborted_chunks"] = ctx.notes.get("further_aborted_chunks", 0) + 1
            continue
        if rc != 0:
            # R4: run it once more before reporting
            A = [l for l in open(ips[0]).read().split("\n") if l and not l.startswith("P ")]
            B = [l for l in open(ips[1]).read().split("\n") if l and not l.startswith("P ")]
            out2, rc2, err2, ips2 = run_chunk(exes[vname], ctx, name + "_again", plines, A, B,
                                              {"OPUS_VERIF_ARCH_CAP": str(cap)} if cap is not None else None)
            if rc2 == 0:
                raise vf.Infra("%s: hx_objects (%s) aborted rc=%d once and not when repeated: %s" % (pid, name, rc, err[-800:]))
            ctx.violation("hx_objects (%s) aborted rc=%d (sanitizer / assertion / canary / watchdog): %s" % (name, rc, err[-1500:]),
                          replay_text=replay_text(*ips))
            continue
        acc, rej, tr = res
        events += vf.count_lines(out)
        if not acc and len(ctx.violations) >= 3:
            # three rejections have been repeated and reported in full; further rejected chunks are only counted
            ctx.notes["further_rejected_chunks"] = ctx.notes.get("further_rejected_chunks", 0) + 1
            continue
        if not acc:
            reject(ctx, pid, usecfg, exes[vname], name, out, ips, rej, plines,
                   {"OPUS_VERIF_ARCH_CAP": str(cap)} if cap is not None else None)
            continue
        st = parse_stats(tr)
        totals = [a + b for a, b in zip(totals, st)]
        ctx.traces += len(part)
        for i in part:
            ctx.nontrivial.add(hash("\n".join(H[i][0][1:])))
        if st[7] > 0:
            first = None
            for pr in tr.prints:
                m = re.match(r'<<"TOLERATED_PROJ", (\d+)>>', pr)
                if m:
                    first = int(m.group(1))
                    break
            hid, ev = history_of_line(out, first or 0)
            if not any("projection" in k for k in ctx.known):
                ctx.known_finding("%s [%d such events in %s, first: %s]" % (pj["what"], st[7], name, (ev or "")[:420]))
                if vf.REPO == "/repo" and hid is not None:
                    with open(os.path.join(vf.REPLAY, "%s_known_F14.txt" % pid), "w") as f:
                        f.write(minimal_replay(ips, hid))
            npj += st[7]
        if st[11] > 0:
            # which of the two provisional shapes occurred is read off the tolerated events (an encoder's snapshot starts with 4001)
            for pr in tr.prints:
                m = re.match(r'<<"TOLERATED_GET", (\d+)>>', pr)
                if not m:
                    continue
                ev = vf.file_line(out, int(m.group(1)))
                fid = "F-C12-msenc" if '"g":"4001=' in ev else "F-C12-pitch"
                if fid not in reported:
                    reported.add(fid)
                    e = [x for x in provisional() if x["id"] == fid][0]
                    ctx.known_finding("%s [provisional %s; e.g. %s line %s: %s]" % (e["what"], fid, name, m.group(1), ev[:300]))
        if len(ctx.samples) < 4:
            with open(out) as f:
                for ln in f:
                    if ln.startswith('{"k":"E"') or ln.startswith('{"k":"D"'):
                        ctx.sample(dict(variant=name, event=ln.strip()[:700]))
                        break
    ctx.evaluations = events
    if npj:
        ctx.notes["known_F14_projection_16bit_events_let_through"] = npj
    ctx.notes["comparisons"] = dict(zip(STAT_NAMES, totals))
    ctx.notes["variants"] = ["%s%s" % (v, "" if c is None else " arch cap %d" % c) for v, c in variants]
    if not ctx.violations:
        need = [0, 2, 3, 8, 9] if pid == "C12" else [1, 4, 5, 6, 10]
        for i in need:
            if totals[i] == 0:
                raise vf.Infra("%s: vacuous run - no %s" % (pid, STAT_NAMES[i]))
    return totals


def reject(ctx, pid, usecfg, exe, name, out, ips, rej, plines, env):
    """a rejection: repeat it once (R4), then report it"""
    hid, ev = history_of_line(out, rej or 0)
    A = [l for l in open(ips[0]).read().split("\n") if l and not l.startswith("P ")]
    B = [l for l in open(ips[1]).read().split("\n") if l and not l.startswith("P ")]
    out2, rc2, err2, ips2 = run_chunk(exe, ctx, name + "_again", plines, A, B, env)
    acc2, rej2, tr2 = vf.validate_seq(ctx, "ObjectsTrace", usecfg, out2, "%s %s again" % (pid, name), heap="3g", timeout=2400)
    if acc2 or rej2 != rej:
        raise vf.Infra("%s: rejection at %s line %s did not repeat (second run: %s)" % (pid, name, rej, "accepted" if acc2 else "line %s" % rej2))
    what = ("EquivOutputsEqual" if pid == "C12" else "format relations") + \
           " rejected by ObjectsTrace at %s line %s (history %s): %s" % (name, rej, hid, (ev or "")[:900])
    # the rejected history alone (both passes) is the replay file when it reproduces the rejection, else the whole chunk
    txt = minimal_replay(ips, hid)
    if hid is not None:
        a, _, b = txt.partition("#PASS B\n")
        pl = [l for l in a.split("\n") if l.startswith("P ")]
        out3, rc3, err3, ips3 = run_chunk(exe, ctx, name + "_min", pl, [l for l in a.split("\n") if l and not l.startswith("P ")],
                                          [l for l in b.split("\n") if l and not l.startswith("P ")], env)
        acc3 = rc3 == 0 and vf.validate_seq(ctx, "ObjectsTrace", usecfg, out3, "%s %s minimal" % (pid, name), heap="3g", timeout=2400)[0]
        if acc3:
            txt = replay_text(*ips)
    ctx.violation(what, replay_text=txt)


def minimal_replay(ips, hid):
    """the rejected history alone (both passes) when that already reproduces the collision, which it does for twins inside one
    history and for the two passes; the whole chunk is kept in the text after a marker so that nothing is lost"""
    if hid is None:
        return replay_text(*ips)
    return extract_history(ips[0], hid) + "#PASS B\n" + extract_history(ips[1], hid)


def replay(ctx, pid, usecfg, pj):
    txt = open(ctx.replay).read()
    a, _, b = txt.partition("#PASS B\n")
    plines = [l for l in a.split("\n") if l.startswith("P ")]
    A = [l for l in a.split("\n") if l and not l.startswith("P ")]
    B = [l for l in b.split("\n") if l and not l.startswith("P ") and not l.startswith("#")]
    for vname in ("hk", "hkfix"):
        var = vf.build_variant(vname)
        exe = vf.build_hx(var, "objects.c")
        out, rc, err, ips = run_chunk(exe, ctx, "replay_" + vname, plines, for_variant(A, vname), for_variant(B, vname))
        if rc != 0:
            ctx.violation("replay (%s) aborted rc=%d: %s" % (vname, rc, err[-1200:]), replay_text=txt)
            continue
        acc, rej, tr = vf.validate_seq(ctx, "ObjectsTrace", usecfg, out, "%s replay %s" % (pid, vname))
        ctx.evaluations += vf.count_lines(out)
        if not acc:
            ctx.violation("replayed history rejected (%s) at line %s: %s" % (vname, rej, vf.file_line(out, rej or 1)[:700]), replay_text=txt)
            continue
        st = parse_stats(tr)
        if st[7] > 0 and pj:
            ctx.known_finding(pj["what"] + " [%s]" % vname)
        ctx.traces += 1
    ctx.nontrivial_count = max(2, ctx.traces)
    ctx.sample(dict(replayed=os.path.basename(ctx.replay)))
