"""Shared-state inventory of a libopus build (property C14).

Lists, for every object of libopus.a,
  * every symbol that lies in a WRITABLE section (.data*, .bss*, .tdata*, .tbss*, COMMON; classified by the section's
    name - .data.rel.ro* and .rodata* are read-only after relocation and excluded - not by nm's letter, which shows
    'D' for .data.rel.ro), and every non-empty writable section that carries no symbol at all;
  * every undefined reference to a libc function that keeps hidden process-wide state (not re-entrant).
The result is the constant SharedCells of module ObjectsPar: the only memory two threads that drive separate codec
objects could both touch.  Nothing is judged here.
"""
import os
import re
import subprocess

# libc entry points with hidden static state (POSIX "need not be thread-safe" list, the ones a codec could plausibly pull in)
NON_REENTRANT = {
    "rand", "srand", "random", "srandom", "initstate", "setstate", "drand48", "erand48", "lrand48", "nrand48", "mrand48", "jrand48",
    "srand48", "seed48", "lcong48", "strtok", "setlocale", "localtime", "gmtime", "ctime", "asctime", "strerror", "tmpnam", "tempnam",
    "getpwnam", "getpwuid", "getgrnam", "getgrgid", "gethostbyname", "gethostbyaddr", "getservbyname", "readdir", "ttyname", "ecvt",
    "fcvt", "gcvt", "l64a", "lgamma", "lgammaf", "lgammal", "gamma", "gammaf", "setenv", "putenv", "unsetenv", "clearenv", "getopt",
    "getopt_long", "nl_langinfo", "localeconv", "wcstombs", "mbstowcs", "mblen", "mbtowc", "wctomb", "signal", "basename", "dirname",
    "crypt", "encrypt", "setkey", "hcreate", "hsearch", "hdestroy", "getlogin", "catgets", "inet_ntoa", "ptsname", "strsignal",
    "getdate", "getutxent", "dlerror", "system",
}
# (getenv is deliberately absent: reading the environment is fine; malloc/free/abort/fprintf are thread-safe)


def _is_writable_section(name):
    if name.startswith(".data.rel.ro") or name.startswith(".rodata"):
        return False
    return (name == "*COM*" or name == ".data" or name.startswith(".data.") or name == ".bss" or name.startswith(".bss.")
            or name == ".tdata" or name.startswith(".tdata.") or name == ".tbss" or name.startswith(".tbss.")
            or name.startswith(".ldata") or name.startswith(".lbss"))


def _run(cmd):
    p = subprocess.run(cmd, stdout=subprocess.PIPE, stderr=subprocess.STDOUT, text=True, timeout=300, errors="replace")
    if p.returncode != 0:
        raise RuntimeError("command failed: %s\n%s" % (" ".join(cmd), p.stdout[-2000:]))
    return p.stdout


_re_member = re.compile(r"^(\S+):\s+file format ")
# objdump -t line:  value  flags(7 chars)  section  size  name        (COMMON: section *COM*, value = alignment)
_re_sym = re.compile(r"^([0-9a-fA-F]+)\s(.{7})\s(\S+)\s+([0-9a-fA-F]+)\s+(.*)$")
# objdump -h line:  idx name size vma lma off algn
_re_sec = re.compile(r"^\s*\d+\s+(\S+)\s+([0-9a-fA-F]+)\s+[0-9a-fA-F]+\s+[0-9a-fA-F]+\s+[0-9a-fA-F]+\s+2\*\*\d+")


def inventory(lib):
    """returns dict(cells=[dict(sym, section, obj, size)], libc=[dict(sym, obj)], objects=<n>, sections=<n non-empty writable>)"""
    if not os.path.exists(lib):
        raise RuntimeError("no such archive: " + lib)
    cells, libc = [], []
    # --- symbols in writable sections
    member, nobj = None, 0
    symsec = {}
    for ln in _run(["objdump", "-t", lib]).splitlines():
        m = _re_member.match(ln)
        if m:
            member = m.group(1)
            nobj += 1
            continue
        m = _re_sym.match(ln)
        if not m or member is None:
            continue
        value, flags, sec, size, name = m.groups()
        name = name.strip()
        if name.startswith(".hidden "):
            name = name[len(".hidden "):]
        if "d" in flags[5:7] and name == sec:
            continue                      # the section symbol itself
        if "f" in flags[5:7] and "d" in flags[5:7]:
            continue                      # file name
        if _is_writable_section(sec):
            cells.append(dict(sym=name, section=sec, obj=member, size=int(size, 16)))
            symsec.setdefault((member, sec), 0)
            symsec[(member, sec)] += 1
    # --- non-empty writable sections (also those without any symbol)
    member, nsec = None, 0
    for ln in _run(["objdump", "-h", lib]).splitlines():
        m = _re_member.match(ln)
        if m:
            member = m.group(1)
            continue
        m = _re_sec.match(ln)
        if not m or member is None:
            continue
        sec, size = m.group(1), int(m.group(2), 16)
        if size > 0 and _is_writable_section(sec):
            nsec += 1
            if (member, sec) not in symsec:
                cells.append(dict(sym="<anonymous %d bytes>" % size, section=sec, obj=member, size=size))
    # --- undefined references to non-reentrant libc functions
    member = None
    for ln in _run(["nm", "-u", lib]).splitlines():
        ln = ln.strip()
        if ln.endswith(":") and " " not in ln:
            member = ln[:-1]
            continue
        f = ln.split()
        if len(f) == 2 and f[0] in ("U", "w", "v"):
            n = f[1].split("@")[0]
            if n in NON_REENTRANT:
                libc.append(dict(sym=n, obj=member))
    return dict(cells=cells, libc=libc, objects=nobj, sections=nsec)


def cell_names(inv):
    """the names used as SharedCells in the model: '<object>:<symbol>' and 'libc:<function>'"""
    out = []
    for c in inv["cells"]:
        out.append("%s:%s" % (c["obj"].replace(".c.o", ".c").replace(".o", ""), c["sym"]))
    for c in inv["libc"]:
        n = "libc:%s" % c["sym"]
        if n not in out:
            out.append(n)
    seen, res = set(), []
    for n in out:
        n = re.sub(r'[^A-Za-z0-9_.:<> -]', "_", n)
        if n not in seen:
            seen.add(n)
            res.append(n)
    return res


if __name__ == "__main__":
    import json
    import sys
    inv = inventory(sys.argv[1])
    print(json.dumps(inv, indent=1))
    print(cell_names(inv))
