#!/usr/bin/env python3
"""Generate MANIFEST.json from the META records of lib/checks/*.py (one source of truth)."""
import importlib, json, os, sys
HERE = os.path.dirname(os.path.abspath(__file__))
sys.path.insert(0, HERE)
ROOT = os.path.dirname(HERE)

NOT_APPLICABLE = {
    "C03": "needs the frozen RFC 6716 reference decoder/test vectors (none offline) and PCM tolerance of floating-point DSP; no transition structure for a TLA+ model (DESIGN 6.1); the normative state-machine layers are covered under C06/C08/C17/C18/C01",
    "C04": "purely numerical fidelity (SNR, band energy, delay by correlation); nothing for a TLA+ specification to decide; the lookahead getter is covered under C11 (DESIGN 6.1)",
}
# checks the coordinator has reviewed and released (a check file that exists but is not listed is work in progress)
RELEASED = ["C01", "C02", "C05", "C06", "C07", "C08", "C09", "C10", "C11", "C12", "C13", "C14", "C15", "C16", "C17", "C18", "C19", "C20"]
# growth modules (spec coverage beyond the listed properties): run as ./bin/check G0x, listed as engines only
GROWTH = {"G01": ("EncMode", ["C02", "C11"]), "G02": ("FrameHdr", ["C01", "C06"]), "G03": ("Surround", ["C05", "C10"]), "G04": ("Alloc", ["C02", "C17"]), "G05": ("DecOp", ["C01", "C19"]), "G06": ("SilkIdx", ["C02", "C18"]), "G07": ("BandBits", ["C02"]),
          "G08": ("SilkSide2", ["C18"]), "G09": ("Energy", ["C02", "C01", "C17"]),
          "G10": ("SilkEncCtl", ["C02", "C05", "C11", "C20"]),
          "G11": ("AnalysisRing", ["C02", "C12"]), "G12": ("CeltDecState", ["C02", "C09", "C12"]),
          "G13": ("SilkPlc", ["C01", "C09", "C12"]),
          "G14": ("Resampler", ["C01", "C02", "C12"]), "G15": ("SilkDecCore", ["C01", "C12"]),
          "G16": ("EncDelay", ["C02", "C05", "C11", "C12"])}
PENDING = "check not built yet in this round (see DESIGN section 10 for the build order)"


def main():
    props = [json.loads(l) for l in open(os.path.join(ROOT, "properties.jsonl"))]
    checks, na, engines = [], [], {}
    growth_note = []
    for p in props:
        pid = p["id"]
        try:
            if pid not in RELEASED:
                raise ModuleNotFoundError(pid)
            mod = importlib.import_module("checks." + pid)
            meta = mod.META
        except (ModuleNotFoundError, AttributeError):
            na.append(dict(property_id=pid, reason=NOT_APPLICABLE.get(pid, PENDING)))
            continue
        c = dict(property_id=pid,
                 quick_cmd="./bin/check %s --tier quick" % pid,
                 thorough_cmd="./bin/check %s --tier thorough" % pid + (" --growth quick" if any(pid in sv for _, sv in GROWTH.values()) else ""),
                 evidence_file="evidence/%s.json" % pid,
                 replay_cmd_template="./bin/check %s --replay {path}" % pid,
                 engine=meta["engine"],
                 level_claimed=dict(category=getattr(mod, "LEVEL", "model_checking"), text=meta["level_text"],
                                    design_ref=meta.get("design_ref", "DESIGN.md section 5 " + pid)),
                 level_note=meta["level_note"], technique=meta["technique"])
        checks.append(c)
        for e in meta["engine"].split("+"):
            engines.setdefault(e.strip(), []).append(pid)
    for gid, (eng, serves) in sorted(GROWTH.items()):
        if os.path.exists(os.path.join(HERE, "checks", gid + ".py")) and os.path.exists(os.path.join(ROOT, "spec", eng + ".tla")):
            engines.setdefault(eng, [])
            for pid in serves:
                if pid not in engines[eng]:
                    engines[eng].append(pid)
            growth_note.append("%s (./bin/check %s)" % (eng, gid))
    hooks_commits = []
    hp = os.path.join(ROOT, "hooks_commits.txt")
    if os.path.exists(hp):
        hooks_commits = [l.split()[0] for l in open(hp) if l.strip() and not l.startswith("#")]
    man = dict(version=1, setup_cmd="./bin/setup",
               hooks=dict(guard="OPUS_VERIF",
                          enable="checks configure /repo out-of-tree with -DCMAKE_C_FLAGS='... -DOPUS_VERIF' (lib/vf.py VARIANTS) into /verif/.build/lib_<variant>",
                          baseline_off_cmd="./bin/baseline_off", source_commits=hooks_commits, add_only=True),
               engines=[dict(name=k, path="spec/%s.tla" % k, serves_properties=v,
                             kind_free_text="TLA+ module checked with TLC; bound to libopus by harness traces validated by TLC")
                        for k, v in sorted(engines.items())],
               checks=checks, not_applicable=na,
               notes="All property clauses are judged by TLC on the TLA+ modules under spec/; harness/ only executes and records. See DESIGN.md. Growth modules beyond the listed properties: " + ", ".join(growth_note) + ".")
    with open(os.path.join(ROOT, "MANIFEST.json"), "w") as f:
        json.dump(man, f, indent=1)
        f.write("\n")
    print("MANIFEST.json: %d checks, %d not_applicable" % (len(checks), len(na)))


if __name__ == "__main__":
    main()
