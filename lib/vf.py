"""Common services for the opus verification checks (python stdlib only).

Everything here is mechanism: building libopus variants from the working tree,
compiling the C harness, running TLC (model checking, behaviour generation and
trace validation), collecting what the runs actually covered, and writing the
evidence file / VIOLATION lines.  All judgement of property clauses is done by
TLC on the TLA+ modules under spec/.
"""
import fcntl
import hashlib
import json
import os
import re
import shutil
import subprocess
import sys
import time

ROOT = os.path.dirname(os.path.dirname(os.path.abspath(__file__)))
REPO = os.environ.get("OPUS_SRC", "/repo")
BUILD = os.path.join(ROOT, ".build")
SPEC = os.path.join(ROOT, "spec")
HARNESS = os.path.join(ROOT, "harness")
EVID = os.path.join(ROOT, "evidence")
REPLAY = os.path.join(ROOT, "replay")
NCPU = os.cpu_count() or 4
TLA_CP = "/opt/veriftools/tla/tla2tools.jar:/opt/veriftools/tla/CommunityModules-deps.jar"


class Infra(Exception):
    """Infrastructure failure: exit 2, never a verdict."""


def log(*a):
    print(*a, flush=True)


def seed():
    try:
        return int(os.environ.get("VERIF_SEED", "20260929"))
    except ValueError:
        return 20260929


def sh(cmd, timeout=None, env=None, cwd=None, check=True, stdout=None, stdin=None):
    """Run a command (list), return CompletedProcess with text output."""
    e = dict(os.environ)
    if env:
        e.update(env)
    try:
        p = subprocess.run(cmd, cwd=cwd, env=e, timeout=timeout, text=True,
                           stdout=stdout if stdout is not None else subprocess.PIPE,
                           stderr=subprocess.STDOUT if stdout is None else subprocess.PIPE,
                           stdin=stdin)
    except subprocess.TimeoutExpired:
        raise Infra("timeout after %ss: %s" % (timeout, " ".join(cmd[:6])))
    if check and p.returncode != 0:
        out = (p.stdout or "") if stdout is None else (p.stderr or "")
        raise Infra("command failed (%d): %s\n%s" % (p.returncode, " ".join(cmd[:8]), out[-4000:]))
    return p


# ---------------------------------------------------------------------------
# libopus build variants (always from REPO's current working tree)

SAN = "-fsanitize=address,undefined -fno-sanitize-recover=all -fno-omit-frame-pointer"
VARIANTS = {
    # hooks + assertions + ASan/UBSan, float build
    "hk": dict(cc="gcc", cflags="-O1 -g -DOPUS_VERIF " + SAN, ld=SAN,
               opts=["-DOPUS_ASSERTIONS=ON", "-DOPUS_HARDENING=ON"]),
    # hooks, optimised, no sanitizer (bulk encode/decode work where ASan is too slow)
    "hko": dict(cc="gcc", cflags="-O2 -g -DOPUS_VERIF", ld="",
                opts=["-DOPUS_ASSERTIONS=ON", "-DOPUS_HARDENING=ON"]),
    "hkfix": dict(cc="gcc", cflags="-O1 -g -DOPUS_VERIF " + SAN, ld=SAN,
                  opts=["-DOPUS_ASSERTIONS=ON", "-DOPUS_FIXED_POINT=ON"]),
    "hkfixo": dict(cc="gcc", cflags="-O2 -g -DOPUS_VERIF", ld="",
                   opts=["-DOPUS_ASSERTIONS=ON", "-DOPUS_FIXED_POINT=ON"]),
    # exactly the baseline flags, guard off
    "prod": dict(cc="gcc", cflags="-Wno-error", ld="", opts=[], buildtype="RelWithDebInfo",
                 testing=True),
    "tsan": dict(cc="clang", cflags="-O1 -g -DOPUS_VERIF -fsanitize=thread", ld="-fsanitize=thread",
                 opts=["-DOPUS_ASSERTIONS=ON"]),
    "fuzzing": dict(cc="gcc", cflags="-O1 -g -DOPUS_VERIF " + SAN, ld=SAN,
                    opts=["-DOPUS_ASSERTIONS=ON", "-DOPUS_FUZZING=ON"]),
}


def _srctag():
    if REPO == "/repo":
        return ""
    return "_" + hashlib.sha1(REPO.encode()).hexdigest()[:8]


def build_variant(name):
    """Configure+build libopus variant from REPO; returns dict(dir, lib, cc, cflags, ld)."""
    v = VARIANTS[name]
    d = os.path.join(BUILD, "lib_" + name + _srctag())
    os.makedirs(BUILD, exist_ok=True)
    lock = open(os.path.join(BUILD, ".lock_" + name + _srctag()), "w")
    fcntl.flock(lock, fcntl.LOCK_EX)
    try:
        t0 = time.time()
        if not os.path.exists(os.path.join(d, "build.ninja")):
            cmd = ["cmake", "-G", "Ninja", "-S", REPO, "-B", d,
                   "-DCMAKE_BUILD_TYPE=" + v.get("buildtype", "None"),
                   "-DCMAKE_C_COMPILER=" + v["cc"],
                   "-DCMAKE_C_FLAGS=" + v["cflags"],
                   "-DCMAKE_EXE_LINKER_FLAGS=" + v["ld"],
                   "-DOPUS_BUILD_TESTING=" + ("ON" if v.get("testing") else "OFF"),
                   "-DOPUS_BUILD_PROGRAMS=OFF"] + v["opts"]
            sh(cmd, timeout=300)
        sh(["cmake", "--build", d, "-j", str(NCPU)], timeout=900)
        lib = os.path.join(d, "libopus.a")
        if not os.path.exists(lib):
            raise Infra("libopus.a missing in " + d)
    finally:
        fcntl.flock(lock, fcntl.LOCK_UN)
        lock.close()
    return dict(name=name, dir=d, lib=lib, cc=v["cc"], cflags=v["cflags"], ld=v["ld"],
                build_s=round(time.time() - t0, 1))


def build_hx(var, sources, out=None, extra=None):
    """Compile harness C sources against a libopus variant. Internal headers are visible."""
    if isinstance(sources, str):
        sources = [sources]
    name = out or os.path.splitext(os.path.basename(sources[0]))[0]
    exe = os.path.join(var["dir"], "hx_" + name)
    srcs = [s if os.path.isabs(s) else os.path.join(HARNESS, s) for s in sources]
    incs = ["-I" + os.path.join(REPO, p) for p in ("include", "src", "celt", "silk", "silk/float", "silk/fixed", "")]
    incs += ["-I" + var["dir"], "-I" + HARNESS, "-DHAVE_CONFIG_H"]
    cmd = [var["cc"]] + var["cflags"].split() + ["-std=gnu99", "-Wall", "-Wno-unused-function"] + incs + \
          (extra or []) + srcs + [var["lib"], "-lm", "-lpthread", "-o", exe] + var["ld"].split()
    sh(cmd, timeout=600)
    return exe


def run_hx(exe, args, out_path, timeout=900, env=None, stdin_path=None):
    """Run a harness binary writing its trace to out_path. Returns (rc, stderr_tail)."""
    e = dict(os.environ)
    e.setdefault("ASAN_OPTIONS", "detect_leaks=1:abort_on_error=0:exitcode=99:allocator_may_return_null=1")
    e.setdefault("UBSAN_OPTIONS", "print_stacktrace=1:halt_on_error=1:exitcode=98")
    if env:
        e.update(env)
    with open(out_path, "w") as fo:
        fi = open(stdin_path) if stdin_path else None
        try:
            p = subprocess.run([exe] + [str(a) for a in args], stdout=fo, stderr=subprocess.PIPE,
                               stdin=fi, env=e, timeout=timeout, text=True, errors="replace")
        except subprocess.TimeoutExpired:
            raise Infra("harness timeout: %s %s" % (exe, args))
        finally:
            if fi:
                fi.close()
    return p.returncode, (p.stderr or "")[-6000:]


# ---------------------------------------------------------------------------
# TLC

class TlcResult:
    def __init__(self):
        self.rc = None
        self.out = ""
        self.generated = 0
        self.distinct = 0
        self.diameter = 0
        self.init_states = 0
        self.ok = False            # finished, no violation, no error
        self.violation = None      # name of violated invariant/property (or 'postcondition', 'deadlock')
        self.error = None          # parse / eval error (infrastructure)
        self.prints = []           # PrintT outputs (one string per print)
        self.coverage = {}         # action -> (taken, generated) when -coverage used
        self.state_dump = ""       # text of the error trace, if any
        self.wall = 0.0


_re_stats = re.compile(r"(\d+) states generated, (\d+) distinct states found")
_re_init = re.compile(r"Finished computing initial states: (\d+) distinct state")
_re_depth = re.compile(r"The depth of the complete state graph search is (\d+)")
_re_inv = re.compile(r"Invariant (\S+) is violated")
_re_cov = re.compile(r"^<(\w+) line (\d+), col \d+ to line \d+, col \d+ of module (\w+)>: (\d+):(\d+)", re.M)


def tlc(module, cfg, workers=None, env=None, timeout=1700, simulate=None, depth=None,
        deadlock=False, coverage=False, heap="8g", tag=None, extra=None, dfs=False):
    """Run TLC on spec/<module>.tla with spec/cfg/<cfg>. Returns TlcResult."""
    r = TlcResult()
    tag = tag or (module + "_" + os.path.splitext(os.path.basename(cfg))[0])
    meta = os.path.join(BUILD, "tlc", "%s_%d_%d" % (tag, os.getpid(), int(time.time() * 1000) % 1000000))
    os.makedirs(meta, exist_ok=True)
    cfgp = cfg if os.path.isabs(cfg) else os.path.join(SPEC, "cfg", cfg)
    jopts = ["-XX:+UseParallelGC", "-Xmx" + heap, "-Xss64m"]
    if dfs:
        jopts.append("-Dtlc2.tool.queue.IStateQueue=StateDeque")
    cmd = ["java"] + jopts + ["-cp", TLA_CP, "tlc2.TLC", "-metadir", meta, "-config", cfgp,
                              "-workers", str(workers or NCPU), "-noGenerateSpecTE"]
    if deadlock:
        cmd.append("-deadlock")
    if coverage:
        cmd += ["-coverage", "1"]
    if simulate:
        cmd += ["-simulate", "num=%d" % simulate]
    if depth:
        cmd += ["-depth", str(depth)]
    if extra:
        cmd += extra
    cmd.append(module + ".tla")
    e = dict(os.environ)
    if env:
        e.update({k: str(v) for k, v in env.items()})
    t0 = time.time()
    try:
        p = subprocess.run(cmd, cwd=SPEC, env=e, timeout=timeout, text=True, errors="replace",
                           stdout=subprocess.PIPE, stderr=subprocess.STDOUT)
    except subprocess.TimeoutExpired:
        shutil.rmtree(meta, ignore_errors=True)
        raise Infra("TLC timeout (%ss) on %s/%s" % (timeout, module, cfg))
    r.wall = time.time() - t0
    shutil.rmtree(meta, ignore_errors=True)
    r.rc = p.returncode
    r.out = p.stdout
    for m in _re_stats.finditer(r.out):
        r.generated, r.distinct = int(m.group(1)), int(m.group(2))
    m = _re_init.search(r.out)
    if m:
        r.init_states = int(m.group(1))
    m = _re_depth.search(r.out)
    if m:
        r.diameter = int(m.group(1))
    for m in _re_cov.finditer(r.out):
        a = m.group(1)
        t, g = int(m.group(4)), int(m.group(5))
        if a in r.coverage:
            t, g = t + r.coverage[a][0], g + r.coverage[a][1]
        r.coverage[a] = (t, g)
    r.prints = _collect_prints(r.out)
    m = _re_inv.search(r.out)
    if m:
        r.violation = m.group(1)
    elif "Deadlock reached" in r.out:
        r.violation = "deadlock"
    elif re.search(r"is violated|Temporal properties were violated|Action property .* is violated", r.out):
        mm = re.search(r"(Action property|Temporal property|property) (\S+)", r.out)
        r.violation = mm.group(2) if mm else "property"
    if re.search(r"The postcondition .* (?:was|is) violated|Postcondition \S+ at line[^\n]* is false|Checking postcondition.*\n.*false|POSTCONDITION.*violated", r.out, re.I):
        r.violation = r.violation or "postcondition"
    if r.violation:
        i = r.out.find("The behavior up to this point is")
        if i >= 0:
            r.state_dump = r.out[i:i + 6000]
    finished = "Model checking completed" in r.out or "Finished in" in r.out
    if r.violation is None and (p.returncode != 0 or not finished):
        # anything else that is not a clean finish is an infrastructure error
        if simulate and p.returncode == 0:
            pass
        else:
            r.error = _first_error(r.out) or ("TLC exit %d" % p.returncode)
    r.ok = r.violation is None and r.error is None
    return r


def _first_error(out):
    for pat in (r"Parsing or semantic analysis failed.*", r"Error: .*", r"\*\*\* Errors:.*",
                r"TLC threw an unexpected exception.*", r"Overflow when computing.*",
                r"java\.lang\.\w+(Error|Exception).*"):
        m = re.search(pat, out)
        if m:
            i = m.start()
            return out[i:i + 1500]
    return None


def _collect_prints(out):
    """PrintT output: lines that are not TLC chatter. Values we print start with '<<"' or '"'.
    TLC wraps long values over several lines: continuation lines are joined until the << >> nest closes."""
    res = []
    cur = None
    for ln in out.splitlines():
        s = ln.strip()
        if cur is not None:
            cur += " " + s
            if cur.count("<<") <= cur.count(">>"):
                res.append(cur); cur = None
            continue
        if s.startswith('<<"'):
            if s.count("<<") <= s.count(">>"):
                res.append(s)
            else:
                cur = s
        elif s.startswith('"') and s.endswith('"'):
            res.append(s)
    if cur is not None:
        res.append(cur)
    return res


def tla_str_list(seq):
    return "<<" + ",".join(str(x) for x in seq) + ">>"


# ---------------------------------------------------------------------------
# known findings

def known_findings(pid):
    p = os.path.join(ROOT, "known_findings.json")
    if not os.path.exists(p):
        return []
    with open(p) as f:
        data = json.load(f)
    return [k for k in data.get("findings", []) if k.get("property") == pid and k.get("status") == "known"]


# ---------------------------------------------------------------------------
# per-check context: counts what was covered, writes evidence, prints verdict lines

class Ctx:
    def __init__(self, pid, tier, level="model_checking"):
        self.pid = pid
        self.tier = tier
        self.level = level
        self.seed = seed()
        self.t0 = time.time()
        self.states = 0
        self.transitions = 0
        self.traces = 0
        self.evaluations = 0
        self.nontrivial = set()
        self.nontrivial_count = 0
        self.samples = []
        self.violations = []       # (what, replay_path)
        self.known = []
        self.drift = []
        self.notes = {}
        self.assumptions = []
        self.rule = ""
        self.exhaustive = None
        self.runs = []
        # one work dir per process: concurrent runs of the same check (seed tests, replays, builders) must not
        # delete each other's files; leftovers of runs that died are swept when they are older than six hours
        rundir = os.path.join(BUILD, "run")
        os.makedirs(rundir, exist_ok=True)
        try:
            for d in os.listdir(rundir):
                dp = os.path.join(rundir, d)
                if time.time() - os.path.getmtime(dp) > 6 * 3600:
                    shutil.rmtree(dp, ignore_errors=True)
        except OSError:
            pass
        self.work = os.path.join(rundir, "%s_%s_%d" % (pid, tier, os.getpid()))
        shutil.rmtree(self.work, ignore_errors=True)
        os.makedirs(self.work, exist_ok=True)
        os.makedirs(EVID, exist_ok=True)
        os.makedirs(REPLAY, exist_ok=True)

    def path(self, name):
        return os.path.join(self.work, name)

    # -- TLC runs ----------------------------------------------------------
    def add_tlc(self, r, what):
        self.states += r.distinct
        self.transitions += r.generated
        self.runs.append(dict(what=what, generated=r.generated, distinct=r.distinct,
                              diameter=r.diameter, wall_s=round(r.wall, 1)))

    def mc(self, module, cfg, what=None, require_actions=None, **kw):
        """Exhaustive model-checking run of the design; a violated invariant of the *model*
        is reported as an infrastructure/model error unless the caller handles it."""
        what = what or ("mc %s/%s" % (module, cfg))
        r = tlc(module, cfg, coverage=bool(require_actions), **kw)
        if r.error:
            raise Infra("%s: %s" % (what, r.error))
        self.add_tlc(r, what)
        if require_actions:
            for a in require_actions:
                if r.coverage.get(a, (0, 0))[0] == 0:
                    raise Infra("%s: action %s never taken (vacuous model run)" % (what, a))
        log("[mc] %-40s distinct=%d generated=%d depth=%d %s (%.1fs)" % (
            what, r.distinct, r.generated, r.diameter,
            "OK" if r.ok else "VIOLATED " + str(r.violation), r.wall))
        return r

    # -- verdicts ------------------------------------------------------------
    def violation(self, what, replay_src=None, replay_text=None):
        n = len(self.violations) + 1
        if n > 5:          # keep the report readable; the count is still recorded
            self.violations.append((what, self.violations[-1][1]))
            return
        rp = os.path.join(REPLAY, "%s_%s_%d.txt" % (self.pid, self.tier, n))
        if replay_src and os.path.exists(replay_src):
            if os.path.abspath(replay_src) != os.path.abspath(rp):
                shutil.copyfile(replay_src, rp)
        else:
            with open(rp, "w") as f:
                f.write((replay_text or what) + "\n")
        self.violations.append((what, rp))
        log("VIOLATION property=%s replay=%s" % (self.pid, rp))
        log("  detail: " + what[:1500])

    def known_finding(self, what):
        self.known.append(what)
        log("KNOWN-FINDING: property=%s %s" % (self.pid, what))

    def spec_drift(self, module, what):
        self.drift.append(module + ": " + what)
        log("SPEC-DRIFT module=%s %s" % (module, what))

    def sample(self, s, limit=8):
        if len(self.samples) < limit:
            self.samples.append(s)

    def finish(self):
        wall = round(time.time() - self.t0, 1)
        nt = self.nontrivial_count + len(self.nontrivial)
        cov = dict(states=self.states, transitions=self.transitions,
                   traces_validated_against_impl=self.traces,
                   evaluations=self.evaluations, distinct_nontrivial=nt,
                   rule=self.rule, samples=self.samples or ["(none)"],
                   tlc_runs=self.runs, known_findings=self.known, spec_drift=self.drift,
                   model_conformance=(len(self.drift) == 0))
        if self.exhaustive is not None:
            cov["exhaustive"] = self.exhaustive
        cov.update(self.notes)
        ev = dict(property_id=self.pid, tier=self.tier, seed=self.seed, level=self.level,
                  coverage=cov, assumptions=self.assumptions, wall_s=wall,
                  violations=len(self.violations))
        # evidence/<id>.json is only ever written by a run against /repo itself (not by --replay, not by OPUS_SRC=<scratch> runs)
        evp = os.path.join(EVID, self.pid + ".json") if (not getattr(self, "replay", None) and REPO == "/repo") \
            else os.path.join(BUILD, "scratch_evidence_%s_%d.json" % (self.pid, os.getpid()))
        with open(evp, "w") as f:
            json.dump(ev, f, indent=1, default=str)
            f.write("\n")
        log("[%s %s] states=%d transitions=%d traces=%d evaluations=%d nontrivial=%d wall=%.1fs violations=%d" % (
            self.pid, self.tier, self.states, self.transitions, self.traces, self.evaluations, nt, wall,
            len(self.violations)))
        if os.environ.get("VERIF_KEEP") != "1":
            shutil.rmtree(self.work, ignore_errors=True)
        return 1 if self.violations else 0


# ---------------------------------------------------------------------------
# trace validation helpers

def split_file_lines(path, nparts, outprefix, header_lines=0):
    """Split an NDJSON file into nparts files of whole lines. Returns list of (path, nlines)."""
    with open(path) as f:
        lines = f.readlines()
    if not lines:
        return []
    nparts = max(1, min(nparts, len(lines)))
    per = (len(lines) + nparts - 1) // nparts
    res = []
    for i in range(nparts):
        chunk = lines[i * per:(i + 1) * per]
        if not chunk:
            break
        p = "%s_%02d.ndjson" % (outprefix, i)
        with open(p, "w") as f:
            f.writelines(chunk)
        res.append((p, len(chunk)))
    return res


def parallel(fn, items, nproc=None):
    """Run fn(item) for items in a thread pool (work is in subprocesses). Returns results in order."""
    from concurrent.futures import ThreadPoolExecutor
    with ThreadPoolExecutor(max_workers=nproc or NCPU) as ex:
        return list(ex.map(fn, items))


def validate_cases(ctx, module, cfg, trace_path, what, nparts=None, workers_each=1, timeout=1700,
                   heap="3g", extra_env=None):
    """Stateless trace validation: the trace spec has one initial state per recorded case
    (Init == l \\in 1..Len(Tr)) and INVARIANT CaseOK judges it.  Returns list of
    (chunk_path, line_no_in_chunk, tlc_result) for every rejected chunk (first rejection each)."""
    nparts = nparts or NCPU
    chunks = split_file_lines(trace_path, nparts, trace_path + ".part")
    rejected = []

    def one(ch):
        p, n = ch
        env = {"TRACE": p}
        if extra_env:
            env.update(extra_env)
        return ch, tlc(module, cfg, workers=workers_each, env=env, timeout=timeout, heap=heap,
                       tag=what.replace(" ", "_") + os.path.basename(p))
    total = 0
    for (p, n), r in parallel(one, chunks):
        if r.error:
            raise Infra("%s: %s" % (what, r.error))
        ctx.add_tlc(r, "trace %s %s" % (what, os.path.basename(p)))
        total += n
        if r.violation:
            m = re.search(r"\bl = (\d+)", r.state_dump or r.out)
            ln = int(m.group(1)) if m else 0
            rejected.append((p, ln, r))
    log("[trace] %-36s lines=%d chunks=%d rejected_chunks=%d" % (what, total, len(chunks), len(rejected)))
    return rejected, total


def validate_seq(ctx, module, cfg, trace_path, what, timeout=1700, heap="4g", extra_env=None, dfs=False):
    """Sequential (stateful) trace validation with cursor variable l; the trace spec prints
    <<"REJECTED_AT", l, event>> from its postcondition when it cannot consume the whole trace.
    Returns (accepted: bool, rejected_line, tlc_result)."""
    env = {"TRACE": trace_path}
    if extra_env:
        env.update(extra_env)
    r = tlc(module, cfg, workers=1, env=env, timeout=timeout, heap=heap, dfs=dfs,
            tag=what.replace(" ", "_") + os.path.basename(trace_path))
    if r.error:
        raise Infra("%s: %s" % (what, r.error))
    ctx.add_tlc(r, "trace %s %s" % (what, os.path.basename(trace_path)))
    rej = None
    for pr in r.prints:
        m = re.match(r'<<"REJECTED_AT", (\d+)', pr)
        if m:
            rej = int(m.group(1))
    if r.violation and rej is None:
        m = re.search(r"\bl = (\d+)", r.state_dump or "")
        rej = int(m.group(1)) if m else -1
    return (r.violation is None and rej is None), rej, r


def file_line(path, n):
    with open(path) as f:
        for i, ln in enumerate(f, 1):
            if i == n:
                return ln.rstrip("\n")
    return ""


def count_lines(path):
    n = 0
    with open(path) as f:
        for _ in f:
            n += 1
    return n


def main_wrap(fn):
    """Entry wrapper: maps Infra to exit 2."""
    try:
        rc = fn()
    except Infra as e:
        log("INFRA-ERROR: " + str(e)[:6000])
        sys.exit(2)
    sys.exit(rc)
