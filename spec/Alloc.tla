------------------------------- MODULE Alloc -------------------------------
(***************************************************************************)
(* Growth module G04: the CELT bit allocation (RFC 6716 section 4.3.3).    *)
(*                                                                         *)
(* An exact transcription of the integer algorithm of celt/rate.c          *)
(* (clt_compute_allocation + interp_bits2pulses), of init_caps (celt.c),   *)
(* of bits2pulses / pulses2bits / get_pulses (rate.h) and of the integer   *)
(* budget arithmetic of the band splitter (bands.c: compute_qn,            *)
(* bitexact_cos, bitexact_log2tan, the mid/side split of b).               *)
(*                                                                         *)
(* Encoder and decoder run the same function; the only difference is where *)
(* the three kinds of symbol come from (skip decisions, intensity, dual    *)
(* stereo).  Here the symbols are an explicit argument:                    *)
(*   Run(q, ROLE_DEC, sy, 0, 0)      the decoder reading the symbols sy    *)
(*   Run(q, ROLE_ENC, sy, ii, di)    the encoder taking the skip decisions *)
(*                                   sy.sk, with *intensity = ii and       *)
(*                                   *dual_stereo = di on entry            *)
(* Both return the outputs and the symbols coded, so that "decoding what   *)
(* the encoder wrote gives the encoder's allocation" is a statement TLC    *)
(* can check (Alloc_mc!Mirror).                                            *)
(*                                                                         *)
(* The static tables (eBands, logN, band_allocation, the pulse cache and   *)
(* its caps, LOG2_FRAC_TABLE) are exported from the library under test at  *)
(* check time (hx_alloctu tables -> IOEnv.ALLOCTAB); the normative values  *)
(* of RFC 6716 are kept below (RfcEBands ...) and TablesAreRfc compares.   *)
(*                                                                         *)
(* C semantics: every quantity is an int / opus_int32 and stays far below  *)
(* 2^31 (largest: mid*bits2 <= 64*28072).  x>>n on a negative x is an      *)
(* arithmetic shift (gcc) = floor division, which is what \div does.       *)
(* celt_udiv is an unsigned division: the model records "left<0" in `bad`  *)
(* should a negative dividend ever reach it (Alloc_mc proves it cannot).   *)
(* Bands are numbered from 0 as in the C code; sequences are 1-based, so   *)
(* band jb lives at index jb+1.                                            *)
(***************************************************************************)
EXTENDS Integers, Sequences, FiniteSets, TLC, Json, IOUtils

Tab == ndJsonDeserialize(IOEnv.ALLOCTAB)[1]

NB  == Tab.nb          \* 21 bands
NAV == Tab.nav         \* 11 allocation vectors
BITRES == 3
ALLOC_STEPS == 6
MAX_FINE_BITS == 8
FINE_OFFSET == 21
LOG_MAX_PSEUDO == 6
QTHETA_OFFSET == 4
QTHETA_OFFSET_TWOPHASE == 16
SENT == 0 - 777        \* what the harness writes into the output arrays before the call
ROLE_DEC == 0
ROLE_ENC == 1

Min(a, b) == IF a < b THEN a ELSE b
Max(a, b) == IF a > b THEN a ELSE b
P2 == <<1, 2, 4, 8, 16, 32, 64, 128, 256, 512, 1024, 2048, 4096, 8192, 16384, 32768, 65536>>
Pow2(n) == P2[n + 1]
Shr(x, n) == x \div Pow2(n)
Force(s) == SubSeq(s, 1, Len(s))     \* makes TLC evaluate a lazily defined sequence once

EB(jb) == Tab.eb[jb + 1]
Width(jb) == Tab.eb[jb + 2] - Tab.eb[jb + 1]
LogN(jb) == Tab.logn[jb + 1]
AV(vec, jb) == Tab.av[vec * NB + jb + 1]
L2F(i) == Tab.l2f[i + 1]

(***************************************************************************)
(* RFC 6716: Table 55 (band edges in units of 2.5 ms bins), Table 57       *)
(* (static allocation, 1/32 bit per MDCT bin), log2 of the band width in   *)
(* 1/8 bit, ceil(8*log2(i+1)).                                             *)
(***************************************************************************)
RfcEBands == <<0, 1, 2, 3, 4, 5, 6, 7, 8, 10, 12, 14, 16, 20, 24, 28, 34, 40, 48, 60, 78, 100>>
RfcLogN == <<0, 0, 0, 0, 0, 0, 0, 0, 8, 8, 8, 8, 16, 16, 16, 21, 21, 24, 29, 34, 36>>
RfcAlloc == <<
    0,   0,   0,   0,   0,   0,   0,   0,   0,   0,   0,   0,   0,   0,   0,   0,   0,   0,   0,   0,   0,
   90,  80,  75,  69,  63,  56,  49,  40,  34,  29,  20,  18,  10,   0,   0,   0,   0,   0,   0,   0,   0,
  110, 100,  90,  84,  78,  71,  65,  58,  51,  45,  39,  32,  26,  20,  12,   0,   0,   0,   0,   0,   0,
  118, 110, 103,  93,  86,  80,  75,  70,  65,  59,  53,  47,  40,  31,  23,  15,   4,   0,   0,   0,   0,
  126, 119, 112, 104,  95,  89,  83,  78,  72,  66,  60,  54,  47,  39,  32,  25,  17,  12,   1,   0,   0,
  134, 127, 120, 114, 103,  97,  91,  85,  78,  72,  66,  60,  54,  47,  41,  35,  29,  23,  16,  10,   1,
  144, 137, 130, 124, 113, 107, 101,  95,  88,  82,  76,  70,  64,  57,  51,  45,  39,  33,  26,  15,   1,
  152, 145, 138, 132, 123, 117, 111, 105,  98,  92,  86,  80,  74,  67,  61,  55,  49,  43,  36,  20,   1,
  162, 155, 148, 142, 133, 127, 121, 115, 108, 102,  96,  90,  84,  77,  71,  65,  59,  53,  46,  30,   1,
  172, 165, 158, 152, 143, 137, 131, 125, 118, 112, 106, 100,  94,  87,  81,  75,  69,  63,  56,  45,  20,
  200, 200, 200, 200, 200, 200, 200, 200, 198, 193, 188, 183, 178, 173, 168, 163, 158, 153, 148, 129, 104 >>
RfcLog2Frac == <<0, 8, 13, 16, 19, 21, 23, 24, 26, 27, 28, 29, 30, 31, 32, 32, 33, 34, 34, 35, 36, 36, 37, 37>>

TablesAreRfc(t) ==
  /\ t.nb = 21 /\ t.nav = 11 /\ t.maxlm = 3
  /\ t.eb = RfcEBands /\ t.logn = RfcLogN /\ t.av = RfcAlloc /\ t.l2f = RfcLog2Frac
  /\ t.bitres = BITRES /\ t.steps = ALLOC_STEPS /\ t.maxfine = MAX_FINE_BITS /\ t.fineoff = FINE_OFFSET
  /\ t.logmaxpseudo = LOG_MAX_PSEUDO /\ t.qoff = QTHETA_OFFSET /\ t.qoff2 = QTHETA_OFFSET_TWOPHASE

\* what the transcription itself relies on (shape only)
TablesShapeOK(t) ==
  /\ t.nb \in 1..32 /\ t.nav \in 2..32 /\ t.maxlm \in 0..3
  /\ Len(t.eb) = t.nb + 1 /\ Len(t.logn) = t.nb /\ Len(t.av) = t.nb * t.nav
  /\ Len(t.caps) = t.nb * 2 * (t.maxlm + 1) /\ Len(t.cidx) = t.nb * (t.maxlm + 2) /\ Len(t.cbits) = t.csize
  /\ Len(t.l2f) >= t.nb + 1
  /\ \A i \in 1..t.nb : t.eb[i] < t.eb[i + 1]
  /\ \A i \in 1..Len(t.av) : t.av[i] \in 0..255
  /\ \A i \in 1..t.nb : t.av[i] = 0

(***************************************************************************)
(* init_caps (celt.c)                                                      *)
(***************************************************************************)
InitCap(LM, C, jb) == Shr((Tab.caps[NB * (2 * LM + C - 1) + jb + 1] + 64) * C * (Width(jb) * Pow2(LM)), 2)
InitCaps(LM, C) == [i \in 1..NB |-> InitCap(LM, C, i - 1)]

(***************************************************************************)
(* clt_compute_allocation, first part: reservations, thresholds, trim,     *)
(* search over the allocation vectors.                                     *)
(* q = [C, LM, st, en, trim, tot, off, cap]                                *)
(***************************************************************************)
ThreshOf(q, jb) == Max(q.C * 8, Shr(3 * (Width(jb) * Pow2(q.LM)) * 8, 4))
TrimOf(q, jb) ==
  Shr(q.C * Width(jb) * (q.trim - 5 - q.LM) * (q.en - jb - 1) * Pow2(q.LM + BITRES), 6)
  - (IF Width(jb) * Pow2(q.LM) = 1 THEN q.C * 8 ELSE 0)

\* C*N*allocVectors[v*len+j]<<LM>>2, then trim (only when positive)
VecRaw(q, vec, jb) == Shr(q.C * Width(jb) * AV(vec, jb) * Pow2(q.LM), 2)
Trimmed(raw, tr) == IF raw > 0 THEN Max(0, raw + tr) ELSE raw

RECURSIVE PsumVec(_, _, _, _, _, _, _)
PsumVec(q, th, tr, vec, jb, done, acc) ==
  IF jb < q.st THEN acc
  ELSE LET bj == Trimmed(VecRaw(q, vec, jb), tr[jb + 1]) + q.off[jb + 1] IN
       IF bj >= th[jb + 1] \/ done
       THEN PsumVec(q, th, tr, vec, jb - 1, TRUE, acc + Min(bj, q.cap[jb + 1]))
       ELSE PsumVec(q, th, tr, vec, jb - 1, FALSE, acc + (IF bj >= q.C * 8 THEN q.C * 8 ELSE 0))

RECURSIVE VecSearch(_, _, _, _, _, _)
VecSearch(q, th, tr, total, lo, hi) ==
  IF lo > hi THEN lo
  ELSE LET mid == (lo + hi) \div 2 IN
       IF PsumVec(q, th, tr, mid, q.en - 1, FALSE, 0) > total
       THEN VecSearch(q, th, tr, total, lo, mid - 1)
       ELSE VecSearch(q, th, tr, total, mid + 1, hi)

InRange(q, jb) == jb >= q.st /\ jb < q.en

Pre(q) ==
  LET C == q.C
      t0 == Max(q.tot, 0)
      skipRsv == IF t0 >= 8 THEN 8 ELSE 0
      t1 == t0 - skipRsv
      i0 == IF C = 2 THEN L2F(q.en - q.st) ELSE 0
      iDrop == C = 2 /\ i0 > t1
      iRsv == IF C = 2 /\ ~iDrop THEN i0 ELSE 0
      t2 == t1 - iRsv
      dRsv == IF C = 2 /\ ~iDrop /\ t2 >= 8 THEN 8 ELSE 0
      total == t2 - dRsv
      th == Force([i \in 1..NB |-> IF InRange(q, i - 1) THEN ThreshOf(q, i - 1) ELSE 0])
      tr == Force([i \in 1..NB |-> IF InRange(q, i - 1) THEN TrimOf(q, i - 1) ELSE 0])
      hi == VecSearch(q, th, tr, total, 1, NAV - 1)
      lo == hi - 1
      b1 == Force([i \in 1..NB |->
               IF ~InRange(q, i - 1) THEN 0
               ELSE Trimmed(VecRaw(q, lo, i - 1), tr[i]) + (IF lo > 0 THEN q.off[i] ELSE 0)])
      b2 == Force([i \in 1..NB |->
               IF ~InRange(q, i - 1) THEN 0
               ELSE LET raw == IF hi >= NAV THEN q.cap[i] ELSE VecRaw(q, hi, i - 1) IN
                    Max(0, Trimmed(raw, tr[i]) + q.off[i] - b1[i])])
      boosted == {jb \in q.st..(q.en - 1) : q.off[jb + 1] > 0}
      skipStart == IF boosted = {} THEN q.st ELSE CHOOSE jb \in boosted : \A k \in boosted : k <= jb
  IN [total |-> total, t0 |-> t0, skipRsv |-> skipRsv, iRsv |-> iRsv, dRsv |-> dRsv, iDrop |-> iDrop,
      th |-> th, b1 |-> b1, b2 |-> b2, skipStart |-> skipStart, lo |-> lo, hi |-> hi]

(***************************************************************************)
(* interp_bits2pulses: interpolation between the two vectors               *)
(***************************************************************************)
RECURSIVE PsumMix(_, _, _, _, _, _)
PsumMix(q, p, mid, jb, done, acc) ==
  IF jb < q.st THEN acc
  ELSE LET tmp == p.b1[jb + 1] + Shr(mid * p.b2[jb + 1], ALLOC_STEPS) IN
       IF tmp >= p.th[jb + 1] \/ done
       THEN PsumMix(q, p, mid, jb - 1, TRUE, acc + Min(tmp, q.cap[jb + 1]))
       ELSE PsumMix(q, p, mid, jb - 1, FALSE, acc + (IF tmp >= q.C * 8 THEN q.C * 8 ELSE 0))

RECURSIVE MixSearch(_, _, _, _, _)
MixSearch(q, p, lo, hi, i) ==
  IF i = ALLOC_STEPS THEN lo
  ELSE LET mid == (lo + hi) \div 2 IN
       IF PsumMix(q, p, mid, q.en - 1, FALSE, 0) > p.total
       THEN MixSearch(q, p, lo, mid, i + 1)
       ELSE MixSearch(q, p, mid, hi, i + 1)

\* the allocation at the interpolation point: [bits, psum]
RECURSIVE MixBits(_, _, _, _, _, _, _)
MixBits(q, p, lo, jb, done, bits, psum) ==
  IF jb < q.st THEN [bits |-> bits, psum |-> psum]
  ELSE LET t0 == p.b1[jb + 1] + Shr(lo * p.b2[jb + 1], ALLOC_STEPS)
           below == t0 < p.th[jb + 1] /\ ~done
           t1 == IF below THEN (IF t0 >= q.C * 8 THEN q.C * 8 ELSE 0) ELSE t0
           t2 == Min(t1, q.cap[jb + 1])
       IN MixBits(q, p, lo, jb - 1, done \/ ~below, [bits EXCEPT ![jb + 1] = t2], psum + t2)

(***************************************************************************)
(* the skip loop.  sy.sk is the sequence of skip symbols (0 = skip this    *)
(* band and go on, 1 = stop here); k counts how many were used.  A symbol  *)
(* is only coded where the band is above its threshold ("offer").          *)
(* stop: "forced" (reached skip_start), "coded" (a 1 was coded), "short"   *)
(* (an offer was made but sy.sk is exhausted).                             *)
(***************************************************************************)
RECURSIVE SkipLoop(_, _, _, _, _, _, _, _, _, _, _)
SkipLoop(q, p, sy, cb, psum, total, irsv, bits, k, ofs, bad) ==
  LET jb == cb - 1 IN
  IF jb <= p.skipStart
  THEN [cb |-> cb, psum |-> psum, total |-> total + p.skipRsv, irsv |-> irsv, bits |-> bits, nsk |-> k,
        ofs |-> ofs, stop |-> "forced", bad |-> bad]
  ELSE
    LET af == q.C * 8
        left0 == total - psum
        wd == EB(cb) - EB(q.st)
        pc == left0 \div wd
        left1 == left0 - wd * pc
        rem == Max(left1 - (EB(jb) - EB(q.st)), 0)
        bw == EB(cb) - EB(jb)
        bb == bits[jb + 1] + pc * bw + rem
        bad1 == IF left0 < 0 THEN bad \cup {"left<0"} ELSE bad
        offered == bb >= Max(p.th[jb + 1], af + 8)
        ofs1 == IF offered THEN Append(ofs, [cb |-> cb, bb |-> bb, bw |-> bw]) ELSE ofs
        \* skip band jb: reclaim its bits, leave one fine bit per channel if affordable
        Cont(psumA, bbA, kA) ==
          LET irsv1 == IF irsv > 0 THEN L2F(jb - q.st) ELSE irsv
              keep == IF bbA >= af THEN af ELSE 0
          IN SkipLoop(q, p, sy, cb - 1, psumA - (bits[jb + 1] + irsv) + irsv1 + keep, total, irsv1,
                      [bits EXCEPT ![jb + 1] = keep], kA, ofs1, bad1)
    IN IF offered
       THEN IF k >= Len(sy.sk)
            THEN [cb |-> cb, psum |-> psum, total |-> total, irsv |-> irsv, bits |-> bits, nsk |-> k,
                  ofs |-> ofs1, stop |-> "short", bad |-> bad1]
            ELSE IF sy.sk[k + 1] = 1
            THEN [cb |-> cb, psum |-> psum, total |-> total, irsv |-> irsv, bits |-> bits, nsk |-> k + 1,
                  ofs |-> ofs1, stop |-> "coded", bad |-> bad1]
            ELSE Cont(psum + 8, bb - 8, k + 1)
       ELSE Cont(psum, bb, k)

(***************************************************************************)
(* per band: spread the left-over, split PVQ / fine energy, carry balance  *)
(***************************************************************************)
\* one coded band; a = [left, bal, p, e, f, bad, clamp]  (clamp: the first IMIN(ebits, MAX_FINE_BITS) changed a value)
BandStep(q, pc, inten, dual, jb, a) ==
  LET C == q.C
      stereo == IF C > 1 THEN 1 ELSE 0
      N0 == Width(jb)
      N == N0 * Pow2(q.LM)
      tmp == Min(a.left, N0)
      b0 == a.p[jb + 1] + pc * N0 + tmp          \* after both "remaining bits" loops
      bit == b0 + a.bal
      bad0 == IF b0 < 0 THEN a.bad \cup {"assert bits>=0 (in)"} ELSE a.bad
  IN
  IF N > 1 THEN
    LET excess0 == Max(bit - q.cap[jb + 1], 0)
        bj == bit - excess0
        den == C * N + (IF C = 2 /\ N > 2 /\ dual = 0 /\ jb < inten THEN 1 ELSE 0)
        NClogN == den * (LogN(jb) + q.LM * 8)
        of0 == Shr(NClogN, 1) - den * FINE_OFFSET
        of1 == IF N = 2 THEN of0 + Shr(den * 8, 2) ELSE of0
        of2 == IF bj + of1 < den * 2 * 8 THEN of1 + Shr(NClogN, 2)
               ELSE IF bj + of1 < den * 3 * 8 THEN of1 + Shr(NClogN, 3) ELSE of1
        e0 == Shr(Max(0, bj + of2 + den * 4) \div den, BITRES)
        e1 == IF C * e0 > Shr(bj, BITRES) THEN Shr(Shr(bj, stereo), BITRES) ELSE e0
        e2 == Min(e1, MAX_FINE_BITS)
        f0 == IF e2 * (den * 8) >= bj + of2 THEN 1 ELSE 0
        bj1 == bj - C * e2 * 8
        xf == IF excess0 > 0 THEN Min(Shr(excess0, stereo + BITRES), MAX_FINE_BITS - e2) ELSE 0
        xb == xf * C * 8
        f1 == IF excess0 > 0 THEN (IF xb >= excess0 - a.bal THEN 1 ELSE 0) ELSE f0
        bad1 == IF bj1 < 0 THEN bad0 \cup {"assert bits>=0"} ELSE bad0
        bad2 == IF e2 + xf < 0 THEN bad1 \cup {"assert ebits>=0"} ELSE bad1
    IN [left |-> a.left - tmp, bal |-> excess0 - xb,
        p |-> [a.p EXCEPT ![jb + 1] = bj1], e |-> [a.e EXCEPT ![jb + 1] = e2 + xf], f |-> [a.f EXCEPT ![jb + 1] = f1],
        bad |-> bad2, clamp |-> a.clamp \/ e1 > MAX_FINE_BITS]
  ELSE
    LET excess0 == Max(0, bit - C * 8)
        bj == bit - excess0
        xf == IF excess0 > 0 THEN Min(Shr(excess0, stereo + BITRES), MAX_FINE_BITS) ELSE 0
        xb == xf * C * 8
        f1 == IF excess0 > 0 THEN (IF xb >= excess0 - a.bal THEN 1 ELSE 0) ELSE 1
        bad1 == IF bj < 0 THEN bad0 \cup {"assert bits>=0"} ELSE bad0
    IN [left |-> a.left - tmp, bal |-> excess0 - xb,
        p |-> [a.p EXCEPT ![jb + 1] = bj], e |-> [a.e EXCEPT ![jb + 1] = xf], f |-> [a.f EXCEPT ![jb + 1] = f1],
        bad |-> bad1, clamp |-> a.clamp]

RECURSIVE Bands(_, _, _, _, _, _, _)
Bands(q, pc, inten, dual, jb, cb, a) ==
  IF jb >= cb THEN a ELSE Bands(q, pc, inten, dual, jb + 1, cb, BandStep(q, pc, inten, dual, jb, a))

\* the skipped bands cb..en-1 use all their bits for fine energy
RECURSIVE Skipped(_, _, _)
Skipped(q, jb, a) ==
  IF jb >= q.en THEN a
  ELSE LET stereo == IF q.C > 1 THEN 1 ELSE 0
           eb == Shr(Shr(a.p[jb + 1], stereo), BITRES)
           bad1 == IF q.C * eb * 8 # a.p[jb + 1] THEN a.bad \cup {"assert C*ebits<<BITRES == bits"} ELSE a.bad
       IN Skipped(q, jb + 1, [a EXCEPT !.p[jb + 1] = 0, !.e[jb + 1] = eb, !.f[jb + 1] = IF eb < 1 THEN 1 ELSE 0,
                                       !.bad = bad1])

(***************************************************************************)
(* the whole function.  sy = [sk, isym, dsym]; ii, di: *intensity and      *)
(* *dual_stereo on entry (encoder only).                                   *)
(***************************************************************************)
SentSeq == [i \in 1..NB |-> SENT]

\* everything before the skip loop (does not depend on any symbol)
PreAll(q) ==
  LET p == Pre(q)
      lo == MixSearch(q, p, 0, Pow2(ALLOC_STEPS), 0)
  IN [p |-> p, mixlo |-> lo, mb |-> MixBits(q, p, lo, q.en - 1, FALSE, SentSeq, 0)]

\* the skip loop on the skip symbols sk
SkipFrom(q, pa, sk) ==
  SkipLoop(q, pa.p, [sk |-> sk], q.en, pa.mb.psum, pa.p.total, pa.p.iRsv, pa.mb.bits, 0, <<>>, {})

\* everything after the skip loop; isymIn / dsymIn are what a decoder reads, ii / di the encoder's *intensity / *dual_stereo
Finish(q, pa, s, role, isymIn, dsymIn, ii, di) ==
  LET p == pa.p
      cb == s.cb
      iuse == s.irsv > 0
      ift == IF iuse THEN cb + 1 - q.st ELSE 0
      \* encoder: *intensity = IMIN(*intensity, codedBands), symbol *intensity-start
      inten == IF ~iuse THEN 0
               ELSE IF role = ROLE_ENC THEN Min(ii, cb) ELSE q.st + isymIn
      isym == IF iuse THEN inten - q.st ELSE 0 - 1
      badI == IF iuse /\ (isym < 0 \/ isym >= ift) THEN {"intensity symbol out of range"} ELSE {}
      total1 == IF inten <= q.st THEN s.total + p.dRsv ELSE s.total
      dRsv1 == IF inten <= q.st THEN 0 ELSE p.dRsv
      duse == dRsv1 > 0
      dual == IF ~duse THEN 0 ELSE IF role = ROLE_ENC THEN di ELSE dsymIn
      dsym == IF duse THEN dual ELSE 0 - 1
      left0 == total1 - s.psum
      wd == EB(cb) - EB(q.st)
      pc == IF wd > 0 THEN left0 \div wd ELSE 0
      left1 == left0 - wd * pc
      badL == (IF left0 < 0 THEN {"left<0"} ELSE {}) \cup (IF cb <= q.st THEN {"assert codedBands>start"} ELSE {})
      a0 == [left |-> left1, bal |-> 0, p |-> s.bits, e |-> SentSeq, f |-> SentSeq, bad |-> s.bad \cup badI \cup badL,
             clamp |-> FALSE]
      a1 == Bands(q, pc, inten, dual, q.st, cb, a0)
      a2 == Skipped(q, cb, a1)
  IN [cb |-> cb, inten |-> inten, dual |-> dual, bal |-> a1.bal, p |-> a2.p, e |-> a2.e, f |-> a2.f,
      nsk |-> s.nsk, stop |-> s.stop, ofs |-> s.ofs,
      iuse |-> iuse, ift |-> ift, isym |-> isym, duse |-> duse, dsym |-> dsym,
      bad |-> a2.bad, t0 |-> p.t0, skipRsv |-> p.skipRsv, irsvEnd |-> s.irsv, iDrop |-> p.iDrop, dRsv |-> p.dRsv,
      hi |-> p.hi, mixlo |-> pa.mixlo, skipStart |-> p.skipStart, leftEnd |-> a1.left, clamp |-> a2.clamp]

Run(q, role, sy, ii, di) ==
  LET pa == PreAll(q) IN Finish(q, pa, SkipFrom(q, pa, sy.sk), role, sy.isym, sy.dsym, ii, di)

\* the outputs proper (what the caller gets back)
OutOf(r) == [cb |-> r.cb, inten |-> r.inten, dual |-> r.dual, bal |-> r.bal, p |-> r.p, e |-> r.e, f |-> r.f]

(***************************************************************************)
(* the encoder's own skip rule (a free choice as far as the bitstream is   *)
(* concerned): o is an offer [cb, bb, bw]                                  *)
(***************************************************************************)
HeurStop(q, o, prev, sbw) ==
  LET jb == o.cb - 1
      depth == IF o.cb > 17 THEN (IF jb < prev THEN 7 ELSE 9) ELSE 0
  IN \/ o.cb <= q.st + 2
     \/ (o.bb > Shr(depth * o.bw * Pow2(q.LM) * 8, 4) /\ jb <= sbw)

(***************************************************************************)
(* accounting.  Everything in 1/8 bit.                                     *)
(***************************************************************************)
RECURSIVE SumSeq(_, _, _)
SumSeq(s, a, b) == IF a > b THEN 0 ELSE s[a] + SumSeq(s, a + 1, b)

\* what the coded symbols are charged: one bit per skip symbol, log2(ft) for the intensity, one bit for dual stereo
SymbolCharge(nsk, iuse, ift, duse) ==
  8 * nsk + (IF iuse THEN L2F(ift - 1) ELSE 0) + (IF duse THEN 8 ELSE 0)

\* bits handed out to the bands (PVQ + fine energy) + what is carried over + the symbols
Spent(q, p, e, bal, nsk, iuse, ift, duse) ==
  SumSeq(p, q.st + 1, q.en) + q.C * 8 * SumSeq(e, q.st + 1, q.en) + bal + SymbolCharge(nsk, iuse, ift, duse)

(***************************************************************************)
(* rate.h: pseudo-pulse counts and the bits <-> pulses cache look-ups.     *)
(* lm is the LM argument of the C functions (-1..3; they index with LM+1). *)
(***************************************************************************)
GetPulses(i) == IF i < 8 THEN i ELSE (8 + (i % 8)) * Pow2(i \div 8 - 1)
CacheBase(lm, band) == Tab.cidx[(lm + 1) * NB + band + 1]
CacheAt(base, k) == Tab.cbits[base + k + 1]

RECURSIVE B2PSearch(_, _, _, _, _)
B2PSearch(base, bm1, lo, hi, i) ==
  IF i = LOG_MAX_PSEUDO THEN <<lo, hi>>
  ELSE LET mid == (lo + hi + 1) \div 2 IN
       IF CacheAt(base, mid) >= bm1 THEN B2PSearch(base, bm1, lo, mid, i + 1)
       ELSE B2PSearch(base, bm1, mid, hi, i + 1)

Bits2Pulses(band, lm, bits) ==
  LET base == CacheBase(lm, band)
      bm1 == bits - 1
      lh == B2PSearch(base, bm1, 0, CacheAt(base, 0), 0)
      lo == lh[1]
      hi == lh[2]
  IN IF bm1 - (IF lo = 0 THEN 0 - 1 ELSE CacheAt(base, lo)) <= CacheAt(base, hi) - bm1 THEN lo ELSE hi

Pulses2Bits(band, lm, pulses) == IF pulses = 0 THEN 0 ELSE CacheAt(CacheBase(lm, band), pulses) + 1

(***************************************************************************)
(* bands.c: the integer budget arithmetic of a band split.                 *)
(***************************************************************************)
TruncDiv(a, b) == IF a >= 0 THEN a \div b ELSE 0 - ((0 - a) \div b)      \* C's signed division (b > 0)
Exp2Table8 == <<16384, 17866, 19483, 21247, 23170, 25267, 27554, 30048>>

ComputeQn(N, b, offset, pulseCap, stereo) ==
  LET N2 == 2 * N - 1 - (IF stereo = 1 /\ N = 2 THEN 1 ELSE 0)
      qb0 == TruncDiv(b + N2 * offset, N2)
      qb1 == Min(b - pulseCap - 32, qb0)
      qb == Min(64, qb1)
  IN IF qb < 4 THEN 1
     ELSE LET qn0 == Shr(Exp2Table8[(qb % 8) + 1], 14 - Shr(qb, BITRES)) IN Shr(qn0 + 1, 1) * 2

\* compute_theta's arguments to compute_qn for band i at block-size shift lm (after any time split)
PulseCapOf(band, lm) == LogN(band) + lm * 8
QnOffsetOf(band, lm, N, stereo) ==
  Shr(PulseCapOf(band, lm), 1) - (IF stereo = 1 /\ N = 2 THEN QTHETA_OFFSET_TWOPHASE ELSE QTHETA_OFFSET)

FracMul16(a, b) == Shr(16384 + a * b, 15)
BitexactCos(x) ==
  LET x2 == Shr(4096 + x * x, 13)
  IN 1 + (32767 - x2) + FracMul16(x2, (0 - 7651) + FracMul16(x2, 8277 + FracMul16(0 - 626, x2)))

RECURSIVE ILog(_)
ILog(v) == IF v <= 0 THEN 0 ELSE 1 + ILog(v \div 2)
BitexactLog2Tan(isin, icos) ==
  LET lc == ILog(icos)
      ls == ILog(isin)
      c1 == icos * Pow2(15 - lc)
      s1 == isin * Pow2(15 - ls)
  IN (ls - lc) * 2048 + FracMul16(s1, FracMul16(s1, 0 - 2597) + 7932) - FracMul16(c1, FracMul16(c1, 0 - 2597) + 7932)

ThetaOf(k, qn) == (k * 16384) \div qn
SplitDelta(N, itheta) == FracMul16((N - 1) * 128, BitexactLog2Tan(BitexactCos(16384 - itheta), BitexactCos(itheta)))
\* the mid / side shares of b (quant_partition, quant_band_stereo)
SplitMid(b, delta) == Max(0, Min(b, TruncDiv(b - delta, 2)))
SplitSide(b, delta) == b - SplitMid(b, delta)

=============================================================================
