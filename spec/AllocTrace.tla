----------------------------- MODULE AllocTrace -----------------------------
(***************************************************************************)
(* Judges what hx_alloc / hx_alloctu recorded from the library under test  *)
(* (IOEnv.TRACE, NDJSON; IOEnv.ALLOCTAB = the table export of the same     *)
(* build).  Stateless: one initial state per recorded line.                *)
(*                                                                         *)
(* Two levels:                                                             *)
(*   PropOK   clauses a listed property states (C02: encoder and decoder   *)
(*            run in lock-step - here: both roles arrive at the identical  *)
(*            allocation from the same symbols, and the allocation never   *)
(*            hands out more than the frame has, nor a negative amount)    *)
(*            -> VIOLATION                                                 *)
(*   ModelOK  the recorded call equals Alloc!Run exactly (every output,    *)
(*            every symbol, the encoder's own skip rule), tables equal the *)
(*            RFC's, look-ups equal the transcriptions   -> SPEC-DRIFT     *)
(* A "pkt" line holds the allocation calls made while one packet was       *)
(* encoded (enc) and decoded (dec):                                        *)
(*   m = "pair"   one encoder-role call, one decoder-role call on its bytes*)
(*   m = "craft"  one decoder-role call on symbols written by the harness  *)
(*   m = "situ"   the codec's own calls while opus_encode / opus_decode    *)
(*                processed one packet (the encoder may make calls the     *)
(*                decoder never sees: prefill, a dropped redundant frame;  *)
(*                the decoder decodes a built-in two-byte silence frame at *)
(*                some mode transitions: inpkt = 0, no encoder counterpart)*)
(***************************************************************************)
EXTENDS Alloc
VARIABLE l

Tr == ndJsonDeserialize(IOEnv.TRACE)

QOf(c) == [C |-> c.C, LM |-> c.LM, st |-> c.st, en |-> c.en, trim |-> c.trim, tot |-> c.tot, off |-> c.off, cap |-> c.cap]
SyOf(c) == [sk |-> c.sk, isym |-> IF c.isym < 0 THEN 0 ELSE c.isym, dsym |-> IF c.dsym < 0 THEN 0 ELSE c.dsym]

InDomain(c) ==
  /\ c.C \in 1..2 /\ c.LM \in 0..Tab.maxlm /\ c.st >= 0 /\ c.st < c.en /\ c.en <= NB
  /\ Len(c.off) = NB /\ Len(c.cap) = NB /\ Len(c.p) = NB /\ Len(c.e) = NB /\ Len(c.f) = NB
  /\ c.trim \in 0..10 /\ c.tot < 1000000 /\ c.tot > 0 - 1000000
  /\ \A i \in 1..NB : c.off[i] \in 0..100000 /\ c.cap[i] \in 0..100000
  /\ c.nsk = Len(c.sk) /\ \A i \in 1..Len(c.sk) : c.sk[i] \in 0..1

(* ------------------------------------------------------------------------ *)
(* property level                                                           *)
(* ------------------------------------------------------------------------ *)
CovBands(c) == (c.st + 1)..c.en       \* indices of the bands the call covers

\* the allocation is well formed and stays inside the budget it was given (logged values only)
BudgetNames(c) ==
  (IF c.cb > c.st /\ c.cb <= c.en THEN {} ELSE {"C02:codedBands outside (start,end]"})
  \cup (IF \A i \in CovBands(c) : c.p[i] >= 0 /\ c.e[i] >= 0 THEN {} ELSE {"C02:negative band allocation"})
  \cup (IF c.bal >= 0 THEN {} ELSE {"C02:negative balance"})
  \cup (IF c.nu <= 1 /\ c.nd <= 1 /\ (c.nu = 1 => c.ift \in 1..(NB + 1))
        THEN (IF Spent(QOf(c), c.p, c.e, c.bal, c.nsk, c.nu = 1, c.ift, c.nd = 1) <= Max(c.tot, 0) THEN {}
              ELSE {"C02:allocation exceeds the frame's budget"})
        ELSE {"C02:more symbols than the format has"})

SameSymbols(a, b) ==
  /\ a.sk = b.sk /\ a.nu = b.nu /\ a.nd = b.nd
  /\ (a.nu >= 1 => a.isym = b.isym /\ a.ift = b.ift)
  /\ (a.nd >= 1 => a.dsym = b.dsym)
SameInputs(a, b) ==
  /\ a.C = b.C /\ a.LM = b.LM /\ a.st = b.st /\ a.en = b.en /\ a.trim = b.trim /\ a.tot = b.tot
  /\ a.off = b.off /\ a.cap = b.cap
SameOutputs(a, b) ==
  /\ a.cb = b.cb /\ a.io = b.io /\ a.do = b.do /\ a.bal = b.bal /\ a.p = b.p /\ a.e = b.e /\ a.f = b.f

MirrorNames(e) ==
  IF e.m = "pair"
  THEN IF Len(e.enc) = 1 /\ Len(e.dec) = 1
       THEN (IF SameSymbols(e.enc[1], e.dec[1]) THEN {} ELSE {"C02:decoder read other symbols than the encoder wrote"})
            \cup (IF SameOutputs(e.enc[1], e.dec[1]) THEN {} ELSE {"C02:decoder allocation differs from encoder allocation"})
       ELSE {"C02:pair record without both calls"}
  ELSE IF e.m = "situ"
  THEN IF \A i \in 1..Len(e.dec) : e.dec[i].inpkt = 1 => \E k \in 1..Len(e.enc) :
             SameInputs(e.dec[i], e.enc[k]) /\ SameSymbols(e.dec[i], e.enc[k]) /\ SameOutputs(e.dec[i], e.enc[k])
       THEN {} ELSE {"C02:decoder made an allocation the encoder did not make for this packet"}
  ELSE {}

Calls(e) == [i \in 1..(Len(e.enc) + Len(e.dec)) |-> IF i <= Len(e.enc) THEN e.enc[i] ELSE e.dec[i - Len(e.enc)]]

PktPropNames(e) ==
  IF \A i \in 1..Len(Calls(e)) : InDomain(Calls(e)[i])
  THEN MirrorNames(e) \cup UNION {BudgetNames(Calls(e)[i]) : i \in 1..Len(Calls(e))}
  ELSE {}

(* ------------------------------------------------------------------------ *)
(* model level                                                              *)
(* ------------------------------------------------------------------------ *)
CallModelNames(c) ==
  IF ~InDomain(c) THEN {"call outside the model's domain"}
  ELSE
  LET q == QOf(c)
      r == Run(q, c.r, SyOf(c), c.ii, c.di)
  IN (IF r.bad = {} THEN {} ELSE {"model assertion"})
     \cup (IF r.stop # "short" /\ r.nsk = c.nsk THEN {} ELSE {"skip symbols"})
     \cup (IF c.nu = (IF r.iuse THEN 1 ELSE 0) /\ (r.iuse => c.ift = r.ift /\ c.isym = r.isym) THEN {} ELSE {"intensity symbol"})
     \cup (IF c.nd = (IF r.duse THEN 1 ELSE 0) /\ (r.duse => c.dsym = r.dsym) THEN {} ELSE {"dual stereo symbol"})
     \cup (IF c.lpbad = 0 /\ c.err = 0 THEN {} ELSE {"coder usage"})
     \* what the range coder really spent on the symbols (ec_tell_frac before / after, an estimate good to 1/8 bit) is covered
     \* by what the allocation charged for them
     \cup (IF c.nu <= 1 /\ c.nd <= 1 /\ (c.nu = 1 => c.ift \in 1..(NB + 1))
              /\ c.tf > SymbolCharge(c.nsk, c.nu = 1, c.ift, c.nd = 1) + 1
           THEN {"symbols cost more than charged"} ELSE {})
     \cup (IF c.cb = r.cb THEN {} ELSE {"codedBands"})
     \cup (IF c.io = r.inten THEN {} ELSE {"intensity"})
     \cup (IF c.do = r.dual THEN {} ELSE {"dual_stereo"})
     \cup (IF c.bal = r.bal THEN {} ELSE {"balance"})
     \cup (IF c.p = r.p THEN {} ELSE {"pulses"})
     \cup (IF c.e = r.e THEN {} ELSE {"ebits"})
     \cup (IF c.f = r.f THEN {} ELSE {"fine_priority"})
     \cup (IF c.cap = InitCaps(c.LM, c.C) THEN {} ELSE {"caps"})
     \cup (IF c.r = ROLE_ENC /\ r.stop # "short" /\ r.nsk = c.nsk
              /\ ~(\A i \in 1..Len(r.ofs) : i <= c.nsk => c.sk[i] = (IF HeurStop(q, r.ofs[i], c.prev, c.sbw) THEN 1 ELSE 0))
           THEN {"encoder skip rule"} ELSE {})

PktModelNames(e) == UNION {CallModelNames(Calls(e)[i]) : i \in 1..Len(Calls(e))}

TabModelNames(e) ==
  (IF TablesShapeOK(e) THEN {} ELSE {"table shape"})
  \cup (IF TablesAreRfc(e) THEN {} ELSE {"tables differ from RFC 6716"})
  \cup (IF e = Tab THEN {} ELSE {"table line differs from ALLOCTAB"})

B2pModelNames(e) ==
  (IF CacheBase(e.lm, e.band) >= 0 /\ e.np = CacheAt(CacheBase(e.lm, e.band), 0) THEN {} ELSE {"cache slot"})
  \cup (IF \A b \in 0..(Len(e.q) - 1) : e.q[b + 1] = Bits2Pulses(e.band, e.lm, b) THEN {} ELSE {"bits2pulses"})
  \cup (IF \A k \in 0..e.np : e.pb[k + 1] = Pulses2Bits(e.band, e.lm, k) THEN {} ELSE {"pulses2bits"})
GpModelNames(e) == IF \A i \in 0..(Len(e.g) - 1) : e.g[i + 1] = GetPulses(i) THEN {} ELSE {"get_pulses"}

QnModelNames(e) ==
  (IF e.pc = PulseCapOf(e.band, e.lm) /\ e.of = QnOffsetOf(e.band, e.lm, e.N, e.st) THEN {} ELSE {"compute_theta offset"})
  \cup (IF \A i \in 1..Len(e.b) : e.q[i] = ComputeQn(e.N, e.b[i], e.of, e.pc, e.st) THEN {} ELSE {"compute_qn"})
TrigModelNames(e) ==
  (IF \A i \in 1..Len(e.th) : e.th[i] = ThetaOf(i, e.qn) THEN {} ELSE {"itheta"})
  \cup (IF \A i \in 1..Len(e.th) : e.c[i] = BitexactCos(e.th[i]) /\ e.s[i] = BitexactCos(16384 - e.th[i]) THEN {} ELSE {"bitexact_cos"})
  \cup (IF \A i \in 1..Len(e.th) : e.lt[i] = BitexactLog2Tan(e.s[i], e.c[i]) THEN {} ELSE {"bitexact_log2tan"})

Kinds == {"pkt", "tab", "b2p", "gp", "qn", "trig"}
PropNames(e) == IF e.k = "pkt" THEN PktPropNames(e) ELSE {}
ModelNames(e) ==
  CASE e.k = "pkt" -> PktModelNames(e)
    [] e.k = "tab" -> TabModelNames(e)
    [] e.k = "b2p" -> B2pModelNames(e)
    [] e.k = "gp" -> GpModelNames(e)
    [] e.k = "qn" -> QnModelNames(e)
    [] e.k = "trig" -> TrigModelNames(e)
    [] OTHER -> {"unknown record kind"}

PropOK == PropNames(Tr[l]) = {}
CaseOK == PropNames(Tr[l]) = {} /\ ModelNames(Tr[l]) = {}

\* explain run: never fails, prints the names of the failed obligations of every rejected line
Explain ==
  LET e == Tr[l]
      pn == PropNames(e)
      mn == ModelNames(e)
  IN IF pn = {} /\ mn = {} THEN TRUE
     ELSE PrintT("WHY " \o ToString(l) \o " prop " \o ToString(pn) \o " model " \o ToString(mn))

Init == l \in 1..Len(Tr)
Next == UNCHANGED l
Spec == Init /\ [][Next]_l
=============================================================================
