------------------------------ MODULE Alloc_mc ------------------------------
(***************************************************************************)
(* Design theorems of the CELT bit allocation (module Alloc), checked by   *)
(* TLC at every point of an input grid.  Every evaluation is a state:      *)
(*   root -> cell -> pre   one state per input q (LM x C x band range x total x    *)
(*                 trim x dynalloc pattern): reservations, vector search,  *)
(*                 interpolation - everything that does not depend on a    *)
(*                 coded symbol - is computed once                         *)
(*   pre  -> skip  one state per sequence of skip decisions the algorithm  *)
(*                 offers for that input (n zeros then a one, for every n  *)
(*                 up to the number of offers; and all zeros)              *)
(*   skip -> out   one state per (intensity, dual stereo) the encoder may  *)
(*                 hold on entry; the encoder-role result is computed, the *)
(*                 symbols it codes are fed to the decoder role            *)
(* The tables are those of the library under test (IOEnv.ALLOCTAB).        *)
(***************************************************************************)
EXTENDS Alloc

CONSTANTS LMs, Cs, Ranges, Totals, NegTotal, Trims, Pats, PlanMod, MonoSteps

VARIABLE node

(* ------------------------------------------------------------------------ *)
(* inputs                                                                   *)
(* ------------------------------------------------------------------------ *)
\* the step of a dynalloc boost in band jb (celt_decoder.c: quanta)
Quanta(LM, jb) == LET w == Width(jb) * Pow2(LM) IN Min(w * 8, Max(48, w))

\* dynalloc offset patterns (offsets are multiples of quanta, as the bitstream can carry them)
OffPat(pat, LM, lo, hi) ==
  [i \in 1..NB |->
     LET jb == i - 1 IN
     IF jb < lo \/ jb >= hi THEN 0
     ELSE CASE pat = 0 -> 0
            [] pat = 1 -> IF jb = lo + 2 THEN 2 * Quanta(LM, jb) ELSE 0                      \* one low band
            [] pat = 2 -> IF (jb - lo) % 4 = 1 THEN Quanta(LM, jb) ELSE 0                    \* spread
            [] pat = 3 -> IF jb = hi - 1 THEN 3 * Quanta(LM, jb) ELSE 0                      \* top band: nothing may be skipped
            [] pat = 4 -> IF jb = (lo + hi) \div 2 THEN 8 * Quanta(LM, jb) ELSE 0            \* a big boost mid-range
            [] OTHER -> 0]

\* a band range is written start*100+end in the configuration files
MkQ(LM, C, rg, tot, trim, pat) ==
  [C |-> C, LM |-> LM, st |-> rg \div 100, en |-> rg % 100, trim |-> trim, tot |-> tot,
   off |-> Force(OffPat(pat, LM, rg \div 100, rg % 100)), cap |-> Force(InitCaps(LM, C))]

RECURSIVE Zeros(_)
Zeros(n) == IF n = 0 THEN <<>> ELSE <<0>> \o Zeros(n - 1)

\* the *intensity values an encoder may hold on entry, as far as they make a difference
IISel(q, cb) == {x \in {q.st, q.st + 1, (q.st + cb) \div 2, cb - 1, cb, cb + 1, q.en} : x >= q.st /\ x <= q.en}

TotalsAll == Totals \cup (IF NegTotal THEN {0 - 5} ELSE {})

(* ------------------------------------------------------------------------ *)
(* state graph                                                              *)
(* ------------------------------------------------------------------------ *)
Init == node = [ph |-> "root"]

\* root -> cell -> pre: the fan-out is split in two so that TLC's workers share it
ToCell ==
  /\ node.ph = "root"
  /\ \E LM \in LMs, C \in Cs, rg \in Ranges, trim \in Trims :
       node' = [ph |-> "cell", LM |-> LM, C |-> C, rg |-> rg, trim |-> trim]

ToPre ==
  /\ node.ph = "cell"
  /\ \E tot \in TotalsAll, pat \in Pats :
       LET q == MkQ(node.LM, node.C, node.rg, tot, node.trim, pat)
           pa == PreAll(q)
       IN node' = [ph |-> "pre", q |-> q, pat |-> pat, pa |-> pa,
                   n |-> SkipFrom(q, pa, Zeros(NB + 1)).nsk]      \* offers made when every answer is "skip"

ToSkip ==
  /\ node.ph = "pre"
  /\ \E k \in 0..node.n :
       LET sk == IF k = node.n THEN Zeros(k) ELSE Zeros(k) \o <<1>> IN
       node' = [ph |-> "skip", q |-> node.q, pat |-> node.pat, pa |-> node.pa, sk |-> sk,
                s |-> SkipFrom(node.q, node.pa, sk)]

ToOut ==
  /\ node.ph = "skip"
  /\ \E ii \in (IF node.q.C = 1 THEN {node.q.st} ELSE IISel(node.q, node.s.cb)), di \in (IF node.q.C = 1 THEN {0} ELSE 0..1) :
       LET re == Finish(node.q, node.pa, node.s, ROLE_ENC, 0, 0, ii, di)
           rd == Finish(node.q, node.pa, node.s, ROLE_DEC, re.isym, re.dsym, 0, 0)
       IN node' = [ph |-> "out", q |-> node.q, pat |-> node.pat, sk |-> node.sk, ii |-> ii, di |-> di,
                   re |-> re, rd |-> rd]

Next == ToCell \/ ToPre \/ ToSkip \/ ToOut
Spec == Init /\ [][Next]_node

(* ------------------------------------------------------------------------ *)
(* theorems                                                                 *)
(* ------------------------------------------------------------------------ *)
IsOut == node.ph = "out"
InBands(q) == (q.st + 1)..q.en

\* the vector search and the interpolation never overshoot: what they hand out fits the budget left after reservations
PreFits ==
  node.ph = "pre" =>
    /\ node.pa.mb.psum <= node.pa.p.total
    /\ node.pa.p.total >= 0
    /\ node.pa.p.lo \in 0..(NAV - 1) /\ node.pa.p.hi = node.pa.p.lo + 1
    /\ node.pa.mixlo \in 0..(Pow2(ALLOC_STEPS) - 1)
    /\ \A i \in InBands(node.q) : node.pa.mb.bits[i] >= 0 /\ node.pa.mb.bits[i] <= node.q.cap[i]

\* the skip loop consumes exactly the decisions it was given and ends above start
SkipSound ==
  node.ph = "skip" =>
    /\ node.s.stop # "short" /\ node.s.nsk = Len(node.sk)
    /\ node.s.cb > node.q.st /\ node.s.cb <= node.q.en
    /\ node.s.psum <= node.s.total                      \* never more reclaimed-and-recharged than there is
    /\ (node.s.stop = "coded" => node.pa.p.skipRsv = 8)  \* the final "1" is paid from the reserved bit
    /\ node.s.cb > node.pa.p.skipStart                  \* a band boosted by dynalloc is never skipped

\* none of the C code's own assertions can fail, no negative value reaches the unsigned division
NoBad == IsOut => node.re.bad = {} /\ node.rd.bad = {}

\* decoding the symbols the encoder coded reproduces the encoder's allocation exactly
Mirror ==
  IsOut => /\ OutOf(node.rd) = OutOf(node.re)
           /\ node.rd.isym = node.re.isym /\ node.rd.dsym = node.re.dsym /\ node.rd.ift = node.re.ift
           /\ node.rd.iuse = node.re.iuse /\ node.rd.duse = node.re.duse

\* budget conservation: PVQ bits + fine bits + carried balance + the symbols coded = the frame's budget, to the 1/8 bit
SpentOf(q, r) == Spent(q, r.p, r.e, r.bal, r.nsk, r.iuse, r.ift, r.duse)
Conservation == IsOut => SpentOf(node.q, node.re) = node.re.t0
WithinBudget == IsOut => SpentOf(node.q, node.re) <= node.re.t0

RangesOK ==
  IsOut =>
    LET q == node.q  r == node.re IN
    /\ r.cb > q.st /\ r.cb <= q.en
    /\ r.bal >= 0
    /\ \A i \in 1..NB :
         IF i \in InBands(q)
         THEN /\ r.p[i] >= 0 /\ r.p[i] <= q.cap[i]
              /\ r.e[i] \in 0..MAX_FINE_BITS /\ r.f[i] \in 0..1
         ELSE r.p[i] = SENT /\ r.e[i] = SENT /\ r.f[i] = SENT       \* nothing outside [start,end) is written
    \* the skipped bands carry at most one fine bit per channel and no PVQ bits
    /\ \A i \in (r.cb + 1)..q.en : r.p[i] = 0 /\ r.e[i] \in 0..1 /\ r.f[i] = 1 - r.e[i]
    \* a band of one coefficient gets a sign bit per channel at most, the rest goes to fine energy
    /\ \A i \in InBands(q) : Width(i - 1) * Pow2(q.LM) = 1 /\ i <= r.cb => r.p[i] <= q.C * 8

StereoRule ==
  IsOut =>
    LET q == node.q  r == node.re IN
    /\ r.inten <= r.cb
    /\ (r.iuse => r.inten >= q.st /\ q.C = 2)
    /\ (~r.iuse => r.inten = 0 /\ ~r.duse)
    /\ (r.duse => r.iuse /\ r.inten > q.st)       \* dual stereo is only coded when some band is not intensity coded
    /\ (~r.duse => r.dual = 0)
    /\ (q.C = 1 => ~r.iuse /\ ~r.duse)
    /\ (r.iuse => r.ift = r.cb + 1 - q.st /\ r.isym \in 0..(r.ift - 1))

\* with the caps of init_caps the first clamp of the fine bits to MAX_FINE_BITS never changes a value
\* (found when a mutation that deletes it turned out to be unobservable); only the excess path reaches 8
FirstClampIdle == IsOut => ~node.re.clamp

\* the reserve made for the intensity symbol is what the symbol is charged at the end
ReserveExact == IsOut => (node.re.iuse => node.re.irsvEnd = L2F(node.re.cb - node.q.st))

(* ------------------------------------------------------------------------ *)
(* monotonicity in the budget (separate configurations: may be false)       *)
(* for a fixed policy - stop at the first offer / never stop voluntarily -  *)
(* more total never lowers codedBands                                       *)
(* ------------------------------------------------------------------------ *)
CbFirst(q) == LET pa == PreAll(q) IN SkipFrom(q, pa, <<1>>).cb
CbLast(q) == LET pa == PreAll(q) IN SkipFrom(q, pa, Zeros(NB + 1)).cb
MonoFirst ==
  node.ph = "pre" => \A d \in MonoSteps : CbFirst([node.q EXCEPT !.tot = @ + d]) >= SkipFrom(node.q, node.pa, <<1>>).cb
\* state constraint of the monotonicity runs: only the pre states are needed
NoDeeper == node.ph \in {"root", "cell"}
MonoLast ==
  node.ph = "pre" => \A d \in MonoSteps : CbLast([node.q EXCEPT !.tot = @ + d]) >= SkipFrom(node.q, node.pa, Zeros(NB + 1)).cb

(* ------------------------------------------------------------------------ *)
(* look-up theorems (no inputs: evaluated once, in the root state)          *)
(* ------------------------------------------------------------------------ *)
Slots == {sl \in (0 - 1..Tab.maxlm) \X (0..NB - 1) : CacheBase(sl[1], sl[2]) >= 0}
NPof(sl) == CacheAt(CacheBase(sl[1], sl[2]), 0)
Dist(a, b) == IF a >= b THEN a - b ELSE b - a
\* bits2pulses returns a count the cache holds, is monotone in the bits offered, and no other count costs closer to them
B2PTheorems ==
  node.ph = "root" =>
    \A sl \in Slots :
      LET np == NPof(sl)
          top == Pulses2Bits(sl[2], sl[1], np) + 24
          res == [b \in 0..top |-> Bits2Pulses(sl[2], sl[1], b)]
      IN /\ \A b \in 0..top : res[b] \in 0..np
         /\ \A b \in 1..top : res[b - 1] <= res[b]
         /\ \A b \in 0..top : \A k \in 0..np :
               Dist(Pulses2Bits(sl[2], sl[1], res[b]), b) <= Dist(Pulses2Bits(sl[2], sl[1], k), b)
         /\ res[top] = np /\ res[0] = 0

\* the shapes compute_theta can present to compute_qn: band, LM after h time splits (mono) / none (stereo)
QnShapes ==
  {sh \in (0..NB - 1) \X (0..Tab.maxlm) \X (0..1) \X (0..Tab.maxlm + 1) :
     LET N0 == Width(sh[1]) * Pow2(sh[2]) IN
     /\ (sh[3] = 1 => sh[4] = 0) /\ sh[4] <= sh[2] + 1
     /\ N0 % Pow2(sh[4]) = 0 /\ N0 \div Pow2(sh[4]) >= 2}
QnB == {b \in 0..12000 : b < 600 \/ b % 37 = 0}
\* the angle resolution is 1 or an even number up to 256 and never shrinks when more bits are offered
QnTheorems ==
  node.ph = "root" =>
    \A sh \in QnShapes :
      LET N == (Width(sh[1]) * Pow2(sh[2])) \div Pow2(sh[4])
          lm == sh[2] - sh[4]
          pc == PulseCapOf(sh[1], lm)
          of == QnOffsetOf(sh[1], lm, N, sh[3])
      IN \A b \in QnB :
           LET qn == ComputeQn(N, b, of, pc, sh[3]) IN
           /\ qn = 1 \/ (qn % 2 = 0 /\ qn >= 2 /\ qn <= 256)
           /\ qn <= ComputeQn(N, b + 1, of, pc, sh[3])
\* the split of b between mid and side is a partition for every angle and width the splitter can present
SplitTheorems ==
  node.ph = "root" =>
    \A qn \in {2, 4, 6, 16, 64, 254, 256} : \A k \in 1..(qn - 1) : \A N \in {2, 3, 4, 8, 22, 44, 88, 176} :
      LET th == ThetaOf(k, qn)
          imid == BitexactCos(th)
          iside == BitexactCos(16384 - th)
          dl == SplitDelta(N, th)
      IN /\ imid \in 1..32767 /\ iside \in 1..32767
         /\ dl > 0 - 32768 /\ dl < 32768
         /\ \A b \in {0, 1, 8, 57, 400, 3000} :
              SplitMid(b, dl) >= 0 /\ SplitSide(b, dl) >= 0 /\ SplitMid(b, dl) + SplitSide(b, dl) = b
         \* symmetric angles give mirrored shares (the approximation of log2 tan is odd around 45 degrees up to rounding)
         /\ Dist(dl, 0 - SplitDelta(N, 16384 - th)) <= 1

(* ------------------------------------------------------------------------ *)
(* plan lines for the harness + regime tags (vacuity guard)                 *)
(* ------------------------------------------------------------------------ *)
TagsOf(q, r) ==
  {"stop-" \o r.stop}
  \cup (IF r.nsk >= 3 THEN {"skips>=3"} ELSE {})
  \cup (IF r.iDrop THEN {"intensity-reserve-dropped"} ELSE {})
  \cup (IF r.iuse THEN {"intensity-coded"} ELSE {})
  \cup (IF r.duse THEN {"dual-coded"} ELSE {})
  \cup (IF r.iuse /\ r.dRsv > 0 /\ ~r.duse THEN {"dual-reserve-returned"} ELSE {})
  \cup (IF r.iuse /\ r.dRsv = 0 THEN {"no-dual-reserve"} ELSE {})
  \cup (IF r.hi >= NAV THEN {"above-top-vector"} ELSE {})
  \cup (IF r.hi = 1 THEN {"below-first-vector"} ELSE {})
  \cup (IF r.bal > 0 THEN {"balance-left"} ELSE {})
  \cup (IF q.LM = 0 THEN {"one-coefficient-bands"} ELSE {})
  \cup (IF q.tot < 8 THEN {"no-skip-reserve"} ELSE {})
  \cup (IF q.tot < 0 THEN {"negative-total"} ELSE {})
  \cup (IF r.skipStart > q.st THEN {"dynalloc-floor"} ELSE {})
  \cup (IF \E i \in InBands(q) : r.e[i] = MAX_FINE_BITS THEN {"max-fine-bits"} ELSE {})
  \cup (IF r.cb = q.st + 1 THEN {"one-band-coded"} ELSE {})
  \cup (IF r.cb = q.en THEN {"all-bands-coded"} ELSE {})
  \cup (IF q.st > 0 THEN {"hybrid-start"} ELSE {})

SeqStr(s) == ToString(s)
PlanHash(q, r) == (q.tot + 7 * q.trim + 13 * q.LM + 31 * q.C + 3 * q.en + 5 * r.nsk + 11 * node.ii + node.di + 17 * node.pat) % PlanMod

Plan ==
  IsOut /\ PlanHash(node.q, node.re) = 0 =>
    LET q == node.q  r == node.re IN
    PrintT("PLAN " \o ToString(q.C) \o " " \o ToString(q.LM) \o " " \o ToString(q.st) \o " " \o ToString(q.en) \o " "
           \o ToString(q.trim) \o " " \o ToString(q.tot) \o " " \o ToString(node.ii) \o " " \o ToString(node.di) \o " "
           \o ToString(r.ift) \o " " \o ToString(r.isym) \o " " \o ToString(r.dsym) \o " | " \o SeqStr(node.sk) \o " | "
           \o SeqStr(q.off) \o " | " \o ToString(TagsOf(q, r)))
=============================================================================
