--------------------------- MODULE AnalysisRing ---------------------------
(* G11 - the tonality-analysis ring buffer and its index machine (src/analysis.c, analysis.h).   *)
(* Exact: every index, counter and validity flag of TonalityAnalysisState that run_analysis(),     *)
(* tonality_analysis(), tonality_get_info() and tonality_analysis_reset() touch.  Oracle: whatever *)
(* depends on the signal - which of the three ways a completed 30 ms window is processed            *)
(*   "S"  is_silence: the slot is a copy of the previous slot          (analysis.c:546-555)          *)
(*   "X"  NaN / band energy >= 1e9: info->valid = 0, counters untouched (analysis.c:559, 659)        *)
(*   "N"  the full path: valid = 1, E_count and count advance           (analysis.c:889-890, 947)    *)
(* and all float contents of the slots.                                                            *)
(* Every C statement that computes an index is transcribed literally (no "mod" where the code has   *)
(* an if), so that the range theorems are theorems about the code's arithmetic.                     *)
EXTENDS Integers, Sequences, FiniteSets, SequencesExt, TLC
CONSTANTS CountMax,               \* ANALYSIS_COUNT_MAX (10000); any value >= 17 is index-equivalent
          DS                      \* DETECT_SIZE (100); a parameter so that the path mix can also be closed on a short ring

DETECT_SIZE == DS                 \* analysis.h:42 (100)
BUF         == 720                \* ANALYSIS_BUF_SIZE, 30 ms at 24 kHz
HIST        == 240                \* history kept between windows (analysis.c:491, 540, 545)
NB_FRAMES   == 8
MAXLOOK     == DETECT_SIZE - 5    \* run_analysis clamps analysis_frame_size to 95 chunks (analysis.c:962)
WIN         == BUF - HIST         \* 480 new samples (20 ms at 24 kHz) complete a window

FsSet == {16000, 24000, 48000}
Chunk(Fs)  == Fs \div 50          \* run_analysis feeds pieces of at most 20 ms
SubLen(Fs) == Fs \div 400         \* the reader counts in 2.5 ms sub-frames
\* tonality_analysis: "len and offset are now at 24 kHz" (analysis.c:500-508)
To24(Fs, n) == IF Fs = 48000 THEN n \div 2 ELSE IF Fs = 16000 THEN (3 * n) \div 2 ELSE n
FrameSizes(Fs) == {Fs \div 400, Fs \div 200, Fs \div 100, Fs \div 50, Fs \div 25,
                   (3 * Fs) \div 50, (4 * Fs) \div 50, (5 * Fs) \div 50, (6 * Fs) \div 50}
Min2(a, b) == IF a < b THEN a ELSE b
Max2(a, b) == IF a > b THEN a ELSE b

\* the encoder's gate (opus_encoder.c:1183, float build)
AnalysisRuns(cx, Fs) == cx >= 7 /\ Fs >= 16000

ZeroValid == [i \in 0..(DETECT_SIZE - 1) |-> 0]
\* tonality_analysis_init / tonality_analysis_reset: everything from `angle` on is cleared
InitState == [wp |-> 0, rp |-> 0, rsub |-> 0, cnt |-> 0, mf |-> 0, aoff |-> 0, init |-> 0, ecnt |-> 0,
              valid |-> ZeroValid]
Reset(s) == InitState

InRing(i) == i >= 0 /\ i < DETECT_SIZE

-----------------------------------------------------------------------------
(* tonality_analysis(tonal, ..., len, offset, ...) - ONE piece, transcribed statement by statement.    *)
(* p is the oracle for the window this piece completes (if it completes one).                          *)
Piece(s, Fs, inlen, p) ==
  LET len   == To24(Fs, inlen)
      mf0   == IF s.init = 0 THEN HIST ELSE s.mf              \* analysis.c:489-493
      first == Min2(len, BUF - mf0)                            \* analysis.c:513
      okA   == mf0 >= 0 /\ first >= 0 /\ mf0 + first <= BUF   \* the first downmix writes inmem[mf0 .. mf0+first)
  IN IF mf0 + len < BUF
       THEN [s |-> [s EXCEPT !.mf = mf0 + len, !.init = 1], win |-> FALSE, ok |-> okA, slot |-> 0, prev |-> 0, need |-> 0]
       ELSE
         LET slot == s.wp                                     \* info = &tonal->info[tonal->write_pos++]
             wp0  == slot + 1
             wp1  == IF wp0 >= DETECT_SIZE THEN wp0 - DETECT_SIZE ELSE wp0
             need == BUF - mf0
             rem  == len - need                               \* analysis.c:541
             pp0  == wp1 - 2                                  \* analysis.c:549
             pp   == IF pp0 < 0 THEN pp0 + DETECT_SIZE ELSE pp0
         IN [s |-> [s EXCEPT !.wp = wp1, !.mf = HIST + rem, !.init = 1,
                             !.valid[slot] = IF p = "S" THEN s.valid[pp] ELSE IF p = "N" THEN 1 ELSE 0,
                             !.ecnt = IF p = "N" THEN (@ + 1) % NB_FRAMES ELSE @,
                             !.cnt  = IF p = "N" THEN Min2(@ + 1, CountMax) ELSE @],
             win |-> TRUE, slot |-> slot, prev |-> pp, need |-> need,
             \* the second downmix writes inmem[240 .. 240+rem); the slot and the silence source are inside info[]
             ok |-> okA /\ InRing(slot) /\ InRing(pp) /\ rem >= 0 /\ HIST + rem <= BUF]

(* run_analysis' while loop: pieces of Fs/50 and a shorter last one.  Summarised (TLC evaluates deep   *)
(* recursion very slowly) with the help of the lemma FullPieceLemma below - a full 20 ms piece always   *)
(* completes exactly one window and leaves mem_fill where it was - which AnalysisRing_mc checks against *)
(* Piece at every reachable state, as it checks FeedIsPieces (Feed = Piece iterated) for short calls.   *)
Mod(a) == a % DETECT_SIZE
Feed(s, Fs, plen, offset, afs, paths) ==
  IF plen <= 0 THEN [s |-> s, wins |-> <<>>, pushed |-> 0, ok |-> TRUE]
  ELSE
    LET C      == Chunk(Fs)
        nfull  == plen \div C
        lastIn == plen % C
        last24 == To24(Fs, lastIn)
        mf0    == IF s.init = 0 THEN HIST ELSE s.mf
        lastW  == lastIn > 0 /\ mf0 + last24 >= BUF
        n      == nfull + (IF lastW THEN 1 ELSE 0)
        mf1    == IF lastIn = 0 THEN mf0 ELSE IF lastW THEN HIST + (last24 - (BUF - mf0)) ELSE mf0 + last24
        v0     == s.valid[Mod(s.wp + DETECT_SIZE - 1)]
        nN     == Cardinality({j \in 1..n : paths[j] = "N"})
        wins   == [i \in 1..n |-> [slot |-> Mod(s.wp + i - 1), prev |-> Mod(s.wp + i - 2 + DETECT_SIZE),
                                   at |-> (i - 1) * WIN + (BUF - mf0), p |-> paths[i]]]
        \* validity written by window i: a silence window copies the slot before it (analysis.c:549-552).
        \* (TLC re-evaluates a LET definition at every use: the fold is bound once through a singleton set)
        newv   == CHOOSE f \in { [q \in 0..(DETECT_SIZE - 1) |->
                                     LET i == Mod(q - s.wp + DETECT_SIZE) + 1 IN IF i <= n THEN vs[i] ELSE s.valid[q]] :
                                 vs \in { FoldLeft(LAMBDA acc, q : Append(acc, IF q = "N" THEN 1 ELSE IF q = "X" THEN 0
                                                                               ELSE IF acc = <<>> THEN v0 ELSE acc[Len(acc)]),
                                                   <<>>, [i \in 1..n |-> paths[i]]) } } : TRUE
        nch    == nfull + (IF lastIn > 0 THEN 1 ELSE 0)
        ok     == /\ offset >= 0 /\ offset + plen <= afs                    \* pcm read range of all pieces
                  /\ mf0 >= HIST /\ mf0 < BUF /\ mf1 >= HIST /\ mf1 < BUF
                  /\ InRing(s.wp) /\ n < DETECT_SIZE
    IN [s |-> [s EXCEPT !.wp = Mod(s.wp + n), !.mf = mf1, !.init = 1, !.valid = newv,
                        !.ecnt = (@ + nN) % NB_FRAMES, !.cnt = Min2(@ + nN, CountMax)],
        wins |-> wins, pushed |-> nfull * WIN + last24, ok |-> ok]

-----------------------------------------------------------------------------
(* tonality_get_info(tonal, info_out, len): the reader.  The position update and the choice of the      *)
(* slot are transcribed literally; the four scans are given by their index sets (the C loops step with  *)
(* "pos++; if (pos==DETECT_SIZE) pos=0" / "pos--; if (pos<0) pos=DETECT_SIZE-1" = Inc/Dec, which equal   *)
(* +-1 modulo the ring for positions inside it, and stop at write_pos).  `reads` collects every slot     *)
(* index the function dereferences.  The while(1) loop ends because mpos steps through the whole ring    *)
(* and write_pos is a ring position (theorem Ranges): its trip count is given explicitly.                *)
Inc(p) == IF p + 1 = DETECT_SIZE THEN 0 ELSE p + 1
Dec(p) == IF p - 1 < 0 THEN DETECT_SIZE - 1 ELSE p - 1
Dist(a, b) == LET d == Mod(b - a + DETECT_SIZE) IN IF d = 0 THEN DETECT_SIZE ELSE d    \* steps of Inc from a to reach b (1..DS)

GetPos(s, len, Fs) ==
  LET rs1 == s.rsub + len \div SubLen(Fs)
      rp1 == s.rp + rs1 \div 8
  IN [rp |-> IF rp1 >= DETECT_SIZE THEN rp1 - DETECT_SIZE ELSE rp1, rsub |-> rs1 % 8]

Get(s, len, Fs) ==
  LET la0   == s.wp - s.rp
      la    == IF la0 < 0 THEN la0 + DETECT_SIZE ELSE la0           \* curr_lookahead
      rs1   == s.rsub + len \div SubLen(Fs)
      rp1   == s.rp + rs1 \div 8                                    \* the while (read_subframe>=8) loop
      rs2   == rs1 % 8
      rp2   == IF rp1 >= DETECT_SIZE THEN rp1 - DETECT_SIZE ELSE rp1
      p1    == IF len > Chunk(Fs) /\ s.rp # s.wp
                 THEN (IF s.rp + 1 = DETECT_SIZE THEN 0 ELSE s.rp + 1) ELSE s.rp
      p2    == IF p1 = s.wp THEN p1 - 1 ELSE p1
      pos0  == IF p2 < 0 THEN DETECT_SIZE - 1 ELSE p2
      s2    == [s EXCEPT !.rp = rp2, !.rsub = rs2]
      v     == IF InRing(pos0) THEN s.valid[pos0] ELSE 0
  IN IF v = 0
       THEN [s |-> s2, valid |-> 0, pos0 |-> pos0, la |-> la, fwd |-> <<>>, back |-> <<>>, scan |-> <<>>, past |-> <<>>,
             mpos |-> pos0, vpos |-> pos0, trips |-> 0, reads |-> {pos0}]
       ELSE
         LET d    == Dist(pos0, s.wp)                               \* 1..DS-1 here: pos0 # write_pos
             nf   == Min2(3, d - 1)                                  \* forward: for (i<3) { pos++; if (pos==write_pos) break; }
             fwd  == [i \in 1..nf |-> Mod(pos0 + i)]
             nb   == Min2(6 - nf, Dist(s.wp, pos0) - 1)              \* backward: for (i<bandwidth_span) { pos--; if (==write_pos) break; }
             back == [i \in 1..nb |-> Mod(pos0 - i + DETECT_SIZE)]
             mp0  == IF la > 15 THEN (IF pos0 + 5 >= DETECT_SIZE THEN pos0 + 5 - DETECT_SIZE ELSE pos0 + 5) ELSE pos0
             vp0  == IF la > 15 THEN (IF pos0 + 1 >= DETECT_SIZE THEN pos0 + 1 - DETECT_SIZE ELSE pos0 + 1) ELSE pos0
             nit  == Min2(Dist(mp0, s.wp), Dist(vp0, s.wp)) - 1      \* full iterations of the while (1) loop
             scan == [i \in 1..(2 * nit) |-> IF i % 2 = 1 THEN Mod(vp0 + (i + 1) \div 2) ELSE Mod(mp0 + i \div 2)]
             np   == IF la < 10 THEN Max2(0, Min2(s.cnt - 1, 15)) ELSE 0
             past == [i \in 1..np |-> Mod(pos0 - i + DETECT_SIZE)]
             Rng(q) == {q[i] : i \in 1..Len(q)}
         IN [s |-> s2, valid |-> 1, pos0 |-> pos0, la |-> la, fwd |-> fwd, back |-> back, scan |-> scan, past |-> past,
             mpos |-> mp0, vpos |-> vp0, trips |-> nit + 1,
             reads |-> {pos0, mp0, vp0} \cup Rng(fwd) \cup Rng(back) \cup Rng(scan) \cup Rng(past)]

\* the slots whose `bandwidth` the returned bandwidth is the maximum of (analysis.c:289, 301)
BwSlots(g) == {g.pos0} \cup {g.fwd[i] : i \in 1..Len(g.fwd)} \cup {g.back[i] : i \in 1..Len(g.back)}

-----------------------------------------------------------------------------
(* run_analysis(analysis, ..., analysis_pcm != NULL, analysis_frame_size, frame_size, ..., Fs, ...)   *)
Run(s, afsIn, fs, Fs, paths) ==
  LET afs0 == afsIn - (afsIn % 2)                                   \* analysis_frame_size -= analysis_frame_size&1
      afs  == Min2(MAXLOOK * Chunk(Fs), afs0)
  IN CHOOSE r \in UNION { { [s |-> g.s, get |-> g, wins |-> f.wins, pushed |-> f.pushed, ok |-> f.ok, afs |-> afs] :
                             g \in {Get([f.s EXCEPT !.aoff = afs - fs], fs, Fs)} } :
                          f \in {Feed(s, Fs, afs - s.aoff, s.aoff, afs, paths)} } : TRUE

\* Ranges every reachable state must satisfy (the C types are plain int: nothing else keeps them there)
StateOK(s) == /\ InRing(s.wp) /\ InRing(s.rp) /\ s.rsub \in 0..7
              /\ s.cnt \in 0..CountMax /\ s.ecnt \in 0..(NB_FRAMES - 1)
              /\ (s.init = 0 => s.mf = 0) /\ (s.init = 1 => (s.mf >= HIST /\ s.mf < BUF))
              /\ s.init \in {0, 1} /\ s.aoff >= 0

\* position of writer and reader on the common time axis, in 24 kHz samples modulo the ring
RingSpan == DETECT_SIZE * WIN
WriterPos(s) == s.wp * WIN + (IF s.init = 1 THEN s.mf - HIST ELSE 0)
ReaderPos(s) == s.rp * WIN + s.rsub * (WIN \div 8)

\* the encoder's multi-frame loop (opus_encoder.c:1630-1706): how a packet of frame_size is cut
EncFrame(fs, Fs, silkOnly) ==
  IF fs <= Chunk(Fs) THEN fs
  ELSE IF silkOnly THEN (IF fs = 4 * Chunk(Fs) THEN 2 * Chunk(Fs) ELSE IF fs = 6 * Chunk(Fs) THEN 3 * Chunk(Fs)
                         ELSE IF fs \in {2 * Chunk(Fs), 3 * Chunk(Fs)} THEN fs ELSE Chunk(Fs))
  ELSE Chunk(Fs)
\* n reads of len each (n <= 6)
RECURSIVE GetN(_, _, _, _)
GetN(s, len, Fs, n) == IF n = 0 THEN s ELSE GetN(GetPos(s, len, Fs), len, Fs, n - 1)
\* up to two pieces, literally (for the lemma FeedIsPieces)
Feed2(s, Fs, plen, paths) ==
  LET C == Chunk(Fs) a == Piece(s, Fs, Min2(C, plen), paths[1]) IN
  IF plen <= C THEN a.s ELSE Piece(a.s, Fs, Min2(C, plen - C), paths[IF a.win THEN 2 ELSE 1]).s
=============================================================================
