--------------------------- MODULE AnalysisRing ---------------------------
(* G11 - the tonality-analysis ring buffer and its index machine (src/analysis.c, analysis.h).   *)
(* Exact: every index, counter and validity flag of TonalityAnalysisState that run_analysis(),     *)
(* tonality_analysis(), tonality_get_info() and tonality_analysis_reset() touch.  Oracle: whatever *)
(* depends on the signal - which of the three ways a completed 30 ms window is processed            *)
(*   "S"  is_silence: the slot is a copy of the previous slot          (analysis.c:546-555)          *)
(*   "X"  NaN / band energy >= 1e9: info->valid = 0, counters untouched (analysis.c:559, 659)        *)
(*   "N"  the full path: valid = 1, E_count and count advance           (analysis.c:889-890, 947)    *)
(* and all float contents of the slots.                                                            *)
(* Every C statement that computes an index is transcribed literally (no "mod" where the code has   *)
(* an if), so that the range theorems are theorems about the code's arithmetic.                     *)
EXTENDS Integers, Sequences, FiniteSets, TLC
CONSTANT CountMax                 \* ANALYSIS_COUNT_MAX (10000); any value >= 17 is index-equivalent

DETECT_SIZE == 100                \* analysis.h:42
BUF         == 720                \* ANALYSIS_BUF_SIZE, 30 ms at 24 kHz
HIST        == 240                \* history kept between windows (analysis.c:491, 540, 545)
NB_FRAMES   == 8
MAXLOOK     == DETECT_SIZE - 5    \* run_analysis clamps analysis_frame_size to 95 chunks (analysis.c:962)
WIN         == BUF - HIST         \* 480 new samples (20 ms at 24 kHz) complete a window

FsSet == {16000, 24000, 48000}
Chunk(Fs)  == Fs \div 50          \* run_analysis feeds pieces of at most 20 ms
SubLen(Fs) == Fs \div 400         \* the reader counts in 2.5 ms sub-frames
\* tonality_analysis: "len and offset are now at 24 kHz" (analysis.c:500-508)
To24(Fs, n) == IF Fs = 48000 THEN n \div 2 ELSE IF Fs = 16000 THEN (3 * n) \div 2 ELSE n
FrameSizes(Fs) == {Fs \div 400, Fs \div 200, Fs \div 100, Fs \div 50, Fs \div 25,
                   (3 * Fs) \div 50, (4 * Fs) \div 50, (5 * Fs) \div 50, (6 * Fs) \div 50}
Min(a, b) == IF a < b THEN a ELSE b
Max(a, b) == IF a > b THEN a ELSE b

\* the encoder's gate (opus_encoder.c:1183, float build)
AnalysisRuns(cx, Fs) == cx >= 7 /\ Fs >= 16000

ZeroValid == [i \in 0..(DETECT_SIZE - 1) |-> 0]
\* tonality_analysis_init / tonality_analysis_reset: everything from `angle` on is cleared
InitState == [wp |-> 0, rp |-> 0, rsub |-> 0, cnt |-> 0, mf |-> 0, aoff |-> 0, init |-> 0, ecnt |-> 0,
              valid |-> ZeroValid]
Reset(s) == InitState

InRing(i) == i >= 0 /\ i < DETECT_SIZE

-----------------------------------------------------------------------------
(* tonality_analysis(), called once per piece by run_analysis' while loop.                          *)
(* paths[k] is the oracle for the k-th window completed in this call.  The result lists the windows  *)
(* (slot written, samples of this call consumed when it completed) and a conjunction `ok` of the     *)
(* memory conditions: both downmix_and_resample() calls write inside inmem[0..BUF), the pcm range    *)
(* read lies inside the caller's buffer, the slot index is inside info[].                            *)
RECURSIVE Feed(_, _, _, _, _, _, _, _, _)
Feed(s, Fs, plen, offset, afs, paths, wins, pushed, ok) ==
  IF plen <= 0 THEN [s |-> s, wins |-> wins, pushed |-> pushed, ok |-> ok]
  ELSE
    LET inlen == Min(Chunk(Fs), plen)
        len   == To24(Fs, inlen)
        s0    == IF s.init = 0 THEN [s EXCEPT !.mf = HIST, !.init = 1] ELSE s
        first == Min(len, BUF - s0.mf)                       \* analysis.c:513
        ok0   == /\ ok /\ offset >= 0 /\ offset + inlen <= afs
                 /\ s0.mf >= 0 /\ first >= 0 /\ s0.mf + first <= BUF
    IN IF s0.mf + len < BUF
         THEN Feed([s0 EXCEPT !.mf = @ + len], Fs, plen - Chunk(Fs), offset + Chunk(Fs), afs, paths, wins, pushed + len, ok0)
         ELSE
           LET slot == s0.wp                                  \* info = &tonal->info[tonal->write_pos++]
               wp0  == slot + 1
               wp1  == IF wp0 >= DETECT_SIZE THEN wp0 - DETECT_SIZE ELSE wp0
               need == BUF - s0.mf
               rem  == len - need                             \* analysis.c:541
               pp0  == wp1 - 2                                \* analysis.c:549
               pp   == IF pp0 < 0 THEN pp0 + DETECT_SIZE ELSE pp0
               p    == paths[Len(wins) + 1]
               ok1  == ok0 /\ InRing(slot) /\ InRing(pp) /\ rem >= 0 /\ HIST + rem <= BUF
               s1   == [s0 EXCEPT !.wp = wp1, !.mf = HIST + rem,
                                  !.valid[slot] = IF p = "S" THEN s0.valid[pp] ELSE IF p = "N" THEN 1 ELSE 0,
                                  !.ecnt = IF p = "N" THEN (@ + 1) % NB_FRAMES ELSE @,
                                  !.cnt  = IF p = "N" THEN Min(@ + 1, CountMax) ELSE @]
           IN Feed(s1, Fs, plen - Chunk(Fs), offset + Chunk(Fs), afs, paths,
                   Append(wins, [slot |-> slot, prev |-> pp, at |-> pushed + need, p |-> p]), pushed + len, ok1)

-----------------------------------------------------------------------------
(* tonality_get_info(tonal, info_out, len): the reader.  Literal transcription of the index           *)
(* computations; `reads` collects every slot index the function dereferences, `term` says that the    *)
(* while(1) loop ended within DETECT_SIZE iterations.                                                 *)
Inc(p) == IF p + 1 = DETECT_SIZE THEN 0 ELSE p + 1            \* pos++; if (pos==DETECT_SIZE) pos = 0;
Dec(p) == IF p - 1 < 0 THEN DETECT_SIZE - 1 ELSE p - 1        \* pos--; if (pos<0) pos = DETECT_SIZE-1;

RECURSIVE FwdScan(_, _, _, _)       \* for (i=0;i<3;i++) { pos++; wrap; if (pos==write_pos) break; ... }
FwdScan(pos, wp, i, acc) ==
  IF i >= 3 THEN acc
  ELSE LET q == Inc(pos) IN IF q = wp THEN acc ELSE FwdScan(q, wp, i + 1, Append(acc, q))

RECURSIVE BackScan(_, _, _, _, _)   \* for (i=0;i<bandwidth_span;i++) { pos--; wrap; if (pos==write_pos) break; ... }
BackScan(pos, wp, i, span, acc) ==
  IF i >= span THEN acc
  ELSE LET q == Dec(pos) IN IF q = wp THEN acc ELSE BackScan(q, wp, i + 1, span, Append(acc, q))

RECURSIVE ProbScan(_, _, _, _, _)   \* the while (1) loop over mpos / vpos (analysis.c:354-372)
ProbScan(mpos, vpos, wp, fuel, acc) ==
  IF fuel = 0 THEN [term |-> FALSE, reads |-> acc]
  ELSE LET m == Inc(mpos) IN
       IF m = wp THEN [term |-> TRUE, reads |-> acc]
       ELSE LET v == Inc(vpos) IN
            IF v = wp THEN [term |-> TRUE, reads |-> acc]
            ELSE ProbScan(m, v, wp, fuel - 1, acc \o <<v, m>>)

RECURSIVE PastScan(_, _, _, _)      \* for (i=0;i<IMIN(count-1,15);i++) { pos--; wrap; read }
PastScan(pos, i, n, acc) ==
  IF i >= n THEN acc ELSE LET q == Dec(pos) IN PastScan(q, i + 1, n, Append(acc, q))

Get(s, len, Fs) ==
  LET la0   == s.wp - s.rp
      la    == IF la0 < 0 THEN la0 + DETECT_SIZE ELSE la0           \* curr_lookahead
      rs1   == s.rsub + len \div SubLen(Fs)
      rp1   == s.rp + rs1 \div 8                                    \* the while (read_subframe>=8) loop
      rs2   == rs1 % 8
      rp2   == IF rp1 >= DETECT_SIZE THEN rp1 - DETECT_SIZE ELSE rp1
      p1    == IF len > Chunk(Fs) /\ s.rp # s.wp
                 THEN (IF s.rp + 1 = DETECT_SIZE THEN 0 ELSE s.rp + 1) ELSE s.rp
      p2    == IF p1 = s.wp THEN p1 - 1 ELSE p1
      pos0  == IF p2 < 0 THEN DETECT_SIZE - 1 ELSE p2
      s2    == [s EXCEPT !.rp = rp2, !.rsub = rs2]
      v     == IF InRing(pos0) THEN s.valid[pos0] ELSE 0
  IN IF v = 0
       THEN [s |-> s2, valid |-> 0, pos0 |-> pos0, la |-> la, fwd |-> <<>>, back |-> <<>>, scan |-> <<>>, past |-> <<>>,
             mpos |-> pos0, vpos |-> pos0, term |-> TRUE, reads |-> {pos0}]
       ELSE
         LET fwd  == FwdScan(pos0, s.wp, 0, <<>>)
             back == BackScan(pos0, s.wp, 0, 6 - Len(fwd), <<>>)
             mp0  == IF la > 15 THEN (IF pos0 + 5 >= DETECT_SIZE THEN pos0 + 5 - DETECT_SIZE ELSE pos0 + 5) ELSE pos0
             vp0  == IF la > 15 THEN (IF pos0 + 1 >= DETECT_SIZE THEN pos0 + 1 - DETECT_SIZE ELSE pos0 + 1) ELSE pos0
             ps   == ProbScan(mp0, vp0, s.wp, DETECT_SIZE + 1, <<>>)
             past == IF la < 10 THEN PastScan(pos0, 0, Min(s.cnt - 1, 15), <<>>) ELSE <<>>
             Rng(q) == {q[i] : i \in 1..Len(q)}
         IN [s |-> s2, valid |-> 1, pos0 |-> pos0, la |-> la, fwd |-> fwd, back |-> back, scan |-> ps.reads, past |-> past,
             mpos |-> mp0, vpos |-> vp0, term |-> ps.term,
             reads |-> {pos0, mp0, vp0} \cup Rng(fwd) \cup Rng(back) \cup Rng(ps.reads) \cup Rng(past)]

\* the slots whose `bandwidth` the returned bandwidth is the maximum of (analysis.c:289, 301)
BwSlots(g) == {g.pos0} \cup {g.fwd[i] : i \in 1..Len(g.fwd)} \cup {g.back[i] : i \in 1..Len(g.back)}

-----------------------------------------------------------------------------
(* run_analysis(analysis, ..., analysis_pcm != NULL, analysis_frame_size, frame_size, ..., Fs, ...)   *)
Run(s, afsIn, fs, Fs, paths) ==
  LET afs0 == afsIn - (afsIn % 2)                                   \* analysis_frame_size -= analysis_frame_size&1
      afs  == Min(MAXLOOK * Chunk(Fs), afs0)
      f    == Feed(s, Fs, afs - s.aoff, s.aoff, afs, paths, <<>>, 0, TRUE)
      s2   == [f.s EXCEPT !.aoff = afs - fs]
      g    == Get(s2, fs, Fs)
  IN [s |-> g.s, get |-> g, wins |-> f.wins, pushed |-> f.pushed, ok |-> f.ok, afs |-> afs]

\* Ranges every reachable state must satisfy (the C types are plain int: nothing else keeps them there)
StateOK(s) == /\ InRing(s.wp) /\ InRing(s.rp) /\ s.rsub \in 0..7
              /\ s.cnt \in 0..CountMax /\ s.ecnt \in 0..(NB_FRAMES - 1)
              /\ (s.init = 0 => s.mf = 0) /\ (s.init = 1 => (s.mf >= HIST /\ s.mf < BUF))
              /\ s.init \in {0, 1} /\ s.aoff >= 0

\* position of writer and reader on the common time axis, in 24 kHz samples modulo the ring
RingSpan == DETECT_SIZE * WIN
WriterPos(s) == s.wp * WIN + (IF s.init = 1 THEN s.mf - HIST ELSE 0)
ReaderPos(s) == s.rp * WIN + s.rsub * (WIN \div 8)

\* the encoder's multi-frame loop (opus_encoder.c:1630-1706): how a packet of frame_size is cut
EncFrame(fs, Fs, silkOnly) ==
  IF fs <= Chunk(Fs) THEN fs
  ELSE IF silkOnly THEN (IF fs = 4 * Chunk(Fs) THEN 2 * Chunk(Fs) ELSE IF fs = 6 * Chunk(Fs) THEN 3 * Chunk(Fs)
                         ELSE IF fs \in {2 * Chunk(Fs), 3 * Chunk(Fs)} THEN fs ELSE Chunk(Fs))
  ELSE Chunk(Fs)
RECURSIVE GetN(_, _, _, _)
GetN(s, len, Fs, n) == IF n = 0 THEN s ELSE GetN(Get(s, len, Fs).s, len, Fs, n - 1)
=============================================================================
