------------------------- MODULE AnalysisRingTrace -------------------------
(* Validation of recorded executions of harness/analysisring.c against module AnalysisRing (G11).   *)
(* Every recorded call must be a step of the model: "new" starts an execution (tonality_analysis_init *)
(* or opus_encoder_create), "run" = run_analysis on a stand-alone state, "get" = a bare                *)
(* tonality_get_info, "enc" = one opus_encode_float on a real encoder (state read through the mirror), *)
(* "rst" = tonality_analysis_reset / _init / OPUS_RESET_STATE.                                          *)
(* Strict = FALSE: only what a listed property states - an encode call succeeds and announces the       *)
(*   submitted duration (C02); after a reset the analysis state is byte-for-byte that of a new object   *)
(*   (C12).  Strict = TRUE: additionally every index field, the 100 validity flags, the returned valid  *)
(*   flag and the returned bandwidth (= maximum over exactly the slots the model says are scanned) must *)
(*   equal the model's (SPEC-DRIFT level).                                                              *)
(* Which way each completed window went (full / silence copy / invalid) is read off the recorded slot   *)
(* digests; where the input makes the way certain (a window and the 10 ms before it entirely digital     *)
(* silence, entirely noise, or entirely out-of-range noise) the model demands that way.                  *)
EXTENDS AnalysisRing, Json, IOUtils
CONSTANTS Strict
VARIABLES l, st, Fs, mode, tailKind, tailRun
vars == <<l, st, Fs, mode, tailKind, tailRun>>

Tr == ndJsonDeserialize(IOEnv.TRACE)
TAILCAP == 4000
PURE == BUF + HIST        \* a window is "pure" when its 720 samples and the 240 before them came from one kind of input
Cap(x) == IF x > TAILCAP THEN TAILCAP ELSE x

Init == l = 1 /\ st = InitState /\ Fs = 48000 /\ mode = 0 /\ tailKind = 0 /\ tailRun = TAILCAP

StVec(s) == <<s.wp, s.rp, s.rsub, s.cnt, s.mf, s.aoff, s.init, s.ecnt>>
Bit(vb, q) == (vb[q \div 25 + 1] \div (2 ^ (q % 25))) % 2
SameState(s, e) == /\ StVec(s) = e.st
                   /\ \A q \in 0..(DETECT_SIZE - 1) : s.valid[q] = Bit(e.vb, q)
\* the ranges a memory-safe execution needs (reported together with the other conformance clauses)
ObservedInRange(e) == /\ e.st[1] \in 0..(DETECT_SIZE - 1) /\ e.st[2] \in 0..(DETECT_SIZE - 1) /\ e.st[3] \in 0..7
                      /\ e.st[5] >= 0 /\ e.st[5] < BUF + 1 /\ e.st[8] \in 0..(NB_FRAMES - 1) /\ e.st[6] >= 0

PathOf(w, i) == IF w[i + 1] = w[i] THEN "S" ELSE IF w[i + 1][1] = 1 THEN "N" ELSE "X"

TNew == /\ l <= Len(Tr) /\ Tr[l].k = "new"
        /\ LET e == Tr[l] IN
           /\ e.nzb = 0                                                   \* a new object: the reset region is all zero
           /\ Strict => (e.fs \in FsSet /\ SameState(InitState, e))
           /\ Fs' = e.fs /\ mode' = e.mode
        /\ st' = InitState /\ tailKind' = 0 /\ tailRun' = TAILCAP /\ l' = l + 1

TSkip == /\ l <= Len(Tr) /\ Tr[l].k = "end" /\ l' = l + 1 /\ UNCHANGED <<st, Fs, mode, tailKind, tailRun>>

TRst == /\ l <= Len(Tr) /\ Tr[l].k = "rst"
        /\ LET e == Tr[l] IN
           /\ e.nzb = 0                                                   \* C12: reset state = new state, byte for byte
           /\ e.fsf = Fs                                                  \* and the reusable field survives
           /\ Strict => SameState(Reset(st), e)
        /\ st' = Reset(st) /\ tailKind' = 0 /\ tailRun' = TAILCAP /\ l' = l + 1 /\ UNCHANGED <<Fs, mode>>

\* one run_analysis as recorded; ret = the valid flag the caller saw; bwCheck only where the ring's bandwidths were logged
RunStep(e, ret, bwCheck) ==
  LET n     == Len(e.w) - 1
      paths == [i \in 1..(MAXLOOK + 1) |-> IF i <= n THEN PathOf(e.w, i) ELSE "N"]
  IN \E r \in {Run(st, e.afs, e.fs, Fs, paths)} :
     /\ Strict =>
          /\ ObservedInRange(e)
          /\ r.ok
          /\ Len(r.wins) = n
          /\ SameState(r.s, e)
          /\ r.get.valid = ret
          /\ \A i \in 1..Len(r.wins) :
                LET runAt == r.wins[i].at + (IF e.kind = tailKind THEN tailRun ELSE 0) IN
                runAt >= PURE => CASE e.kind = 0 -> r.wins[i].p = "S"
                                   [] e.kind = 1 -> r.wins[i].p = "N"
                                   [] OTHER      -> (r.wins[i].p # "N" /\ e.w[i + 1][1] = 0)
          /\ (bwCheck /\ ret = 1) =>
                LET S == BwSlots(r.get) IN
                /\ \E q \in S : e.bw[q + 1] = e.rbw
                /\ \A q \in S : e.bw[q + 1] <= e.rbw
     /\ st' = IF Strict THEN r.s ELSE st
     /\ IF r.pushed > 0 /\ Strict
          THEN tailKind' = e.kind /\ tailRun' = Cap(r.pushed + (IF e.kind = tailKind THEN tailRun ELSE 0))
          ELSE UNCHANGED <<tailKind, tailRun>>

TRun == /\ l <= Len(Tr) /\ Tr[l].k = "run"
        /\ RunStep(Tr[l], Tr[l].ret, TRUE)
        /\ l' = l + 1 /\ UNCHANGED <<Fs, mode>>

TGet == /\ l <= Len(Tr) /\ Tr[l].k = "get"
        /\ LET e == Tr[l] IN
           \E g \in {Get(st, e.len, Fs)} :
             /\ Strict => /\ ObservedInRange(e) /\ SameState(g.s, e) /\ g.valid = e.ret
                          /\ e.ret = 1 => LET S == BwSlots(g) IN (\E q \in S : e.bw[q + 1] = e.rbw) /\ (\A q \in S : e.bw[q + 1] <= e.rbw)
             /\ st' = IF Strict THEN g.s ELSE st
        /\ l' = l + 1 /\ UNCHANGED <<Fs, mode, tailKind, tailRun>>

TEnc == /\ l <= Len(Tr) /\ Tr[l].k = "enc"
        /\ LET e == Tr[l] IN
           /\ e.r > 0 /\ e.dur = e.fs                                     \* C02: the call succeeds, the packet announces the frame size
           /\ IF AnalysisRuns(e.cx, Fs)
                THEN RunStep(e, IF e.dbw # 0 THEN 1 ELSE 0, FALSE)
                ELSE \* analysis disabled: the state is reset if it had been used (opus_encoder.c:1195)
                     /\ Strict => (SameState(IF st.init = 1 THEN Reset(st) ELSE st, e) /\ e.dbw = 0)
                     /\ st' = IF st.init = 1 THEN Reset(st) ELSE st
                     /\ tailKind' = 0 /\ tailRun' = TAILCAP
        /\ l' = l + 1 /\ UNCHANGED <<Fs, mode>>

Next == TNew \/ TSkip \/ TRst \/ TRun \/ TGet \/ TEnc
Spec == Init /\ [][Next]_vars

Accepted ==
  LET n == TLCGet("stats").diameter IN
  IF n - 1 = Len(Tr) THEN TRUE
  ELSE PrintT(<<"REJECTED_AT", n, ToString(Tr[n].k)>>) /\ FALSE
=============================================================================
