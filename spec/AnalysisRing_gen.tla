------------------------- MODULE AnalysisRing_gen -------------------------
(* Behaviour generation for G11: random walks of the AnalysisRing_mc machine (run with -simulate) with a   *)
(* history variable; each walk of GenDepth calls is printed once and replayed through libopus.            *)
EXTENDS AnalysisRing_mc
CONSTANT GenDepth
VARIABLE h
GInit == Init /\ h = <<>>
\* (the simulator picks among disjuncts uniformly: the kind of call follows a fixed rhythm, its parameters are free)
GNext == IF Len(h) % 13 = 12 THEN DoReset /\ h' = Append(h, <<"R", 0, 0, "N">>)
         ELSE IF Len(h) % 5 = 4 /\ \E len \in FS : ENABLED DoGet(len)
           THEN \E len \in FS : DoGet(len) /\ h' = Append(h, <<"g", len, 0, "N">>)
           ELSE \E fs \in FS, k \in LookAheads, p \in Paths :
                  DoRun(fs, k, p) /\ h' = Append(h, <<"r", fs + k * SubLen(Fs), fs, p>>)
GSpec == GInit /\ [][GNext]_<<vars, h>>
Emit == Len(h) < GenDepth \/ PrintT(<<"SEQ", Fs, ToString(h)>>)
=============================================================================
