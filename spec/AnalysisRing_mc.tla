------------------------- MODULE AnalysisRing_mc -------------------------
(* Exhaustive exploration of the index machine: every sampling rate in FsC, every legal frame size,  *)
(* analysis buffers of frame size + a look-ahead from LookAheads (in 2.5 ms units; a value beyond     *)
(* 95 chunks exercises the clamp), every window oracle in Paths, resets and bare tonality_get_info    *)
(* calls at any point, to the fixpoint (all indices wrap, so the graph closes).                       *)
(* Consistent = TRUE : the caller keeps its promise - a call never supplies less audio than the        *)
(*                     look-ahead it has already handed over (analysis_frame_size >= analysis_offset). *)
(* Consistent = FALSE: any mix (e.g. 120 ms of look-ahead followed by a bare 20 ms frame); the ghost   *)
(*                     `ahead` is capped by AheadCap through a state constraint.                       *)
EXTENDS AnalysisRing
CONSTANTS FsC, LookAheads, Paths, Consistent, AheadCap, WithBareGet, FrameSel   \* FrameSel: frame sizes in 2.5 ms units
VARIABLES st, Fs, ahead, drift, wr, last
vars == <<st, Fs, ahead, drift, wr, last>>
(* ghosts: ahead = true (unwrapped) distance writer - reader in 24 kHz samples, from independent       *)
(* accounting of what was pushed and what was consumed; drift = ahead - To24(analysis_offset);         *)
(* wr = slots written since the last reset; last = what the last step did.                            *)

\* `last` holds only verdicts about the step just taken (all TRUE when the theorems hold, so that it does not multiply
\* the state space) and two witness flags
NoLast == [ok |-> TRUE, gt |-> TRUE, vw |-> TRUE, dd |-> TRUE, rs |-> TRUE, inval |-> FALSE, many |-> FALSE, stale |-> FALSE]

Init == /\ Fs \in FsC /\ st = InitState /\ ahead = 0 /\ drift = 0 /\ wr = {} /\ last = NoLast

DoRun(fs, k, p) ==
  LET afsIn == fs + k * SubLen(Fs)
      paths == [i \in 1..(MAXLOOK + 1) |-> p]
  IN \E r \in {Run(st, afsIn, fs, Fs, paths)} : \E a2 \in {ahead + r.pushed - To24(Fs, fs)} :
     /\ (Consistent => Min2(MAXLOOK * Chunk(Fs), afsIn) >= st.aoff)
     /\ st' = r.s
     /\ ahead' = a2
     /\ drift' = a2 - To24(Fs, r.s.aoff)
     /\ wr' = wr \cup {r.wins[i].slot : i \in 1..Len(r.wins)}
     /\ last' = [NoLast EXCEPT !.ok = r.ok,
                                !.gt = (r.get.trips <= DETECT_SIZE /\ \A i \in r.get.reads : InRing(i)),
                                !.vw = (r.get.valid = 1 => r.get.pos0 \in wr'),
                                !.dd = ((a2 - To24(Fs, r.s.aoff)) - drift >= 0),
                                !.inval = (r.get.valid = 0),
                                !.many = (Len(r.wins) >= MAXLOOK),
                                !.stale = (r.get.valid = 1 /\ ~(r.get.reads \subseteq wr'))]
     /\ UNCHANGED Fs

\* a bare tonality_get_info (the encoder's per-coded-frame reads advance the reader only after having
\* restored it, so in situ the net effect is that of run_analysis' own read; the bare call is modelled to
\* cover the function for every len at every state).  It consumes audio: ahead shrinks.
DoGet(len) ==
  \E g \in {Get(st, len, Fs)} :
  /\ WithBareGet /\ ahead - To24(Fs, len) >= To24(Fs, st.aoff)      \* the reader is never asked to pass the writer
  /\ st' = g.s /\ ahead' = ahead - To24(Fs, len) /\ drift' = ahead' - To24(Fs, st.aoff)
  /\ wr' = wr
  /\ last' = [NoLast EXCEPT !.gt = (g.trips <= DETECT_SIZE /\ \A i \in g.reads : InRing(i)),
                             !.vw = (g.valid = 1 => g.pos0 \in wr)]
  /\ UNCHANGED Fs

DoReset == /\ st' = Reset(st) /\ ahead' = 0 /\ drift' = 0 /\ wr' = {} /\ last' = [NoLast EXCEPT !.rs = (Reset(st) = InitState)] /\ UNCHANGED Fs

FS == {fs \in FrameSizes(Fs) : fs \div SubLen(Fs) \in FrameSel}
Next == \/ \E fs \in FS, k \in LookAheads, p \in Paths : DoRun(fs, k, p)
        \/ \E len \in FS : DoGet(len)
        \/ DoReset
Spec == Init /\ [][Next]_vars
Bound == ahead <= AheadCap

-----------------------------------------------------------------------------
(* Theorems *)
\* T1 all indices stay in range; mem_fill in [240, 720) once initialised
Ranges == StateOK(st)
\* T2 no write beyond inmem, no pcm read outside the caller's buffer, slot indices inside info[]
MemSafe == last.ok
\* T3 every loop of tonality_get_info terminates and dereferences only info[0..99]
GetTotal == last.gt
\* T4 a slot reported valid was written since the last reset (by the full path, or a silence copy of such a slot)
ValidIsWritten == /\ \A i \in 0..(DETECT_SIZE - 1) : st.valid[i] = 1 => i \in wr
                  /\ last.vw
\* T5 analysis_offset returns to its range after every run_analysis: 0 <= offset <= 95 chunks - 2.5 ms
OffsetRange == st.aoff >= 0 /\ st.aoff <= MAXLOOK * Chunk(Fs) - SubLen(Fs)
\* T6 the index machine keeps time: writer position - reader position (mod ring) = audio pushed - audio consumed,
\*    and what has been analysed differs from what has been pushed by less than one 20 ms window
KeepsTime == (WriterPos(st) - ReaderPos(st) - ahead) % RingSpan = 0
\* T7 the reader never overtakes the writer: the true distance is the look-ahead the code believes in plus a drift
\*    that is never negative and only grows - and it grows exactly in calls that supply less than was promised
NeverOvertakes == ahead >= 0 /\ drift >= 0 /\ ahead = To24(Fs, st.aoff) + drift /\ last.dd
\* T8 (Consistent) no drift at all and the writer never laps the reader: distance < ring
NoDrift == Consistent => (drift = 0 /\ ahead <= To24(Fs, MAXLOOK * Chunk(Fs) - SubLen(Fs)) /\ ahead < RingSpan - WIN)
\* T10 reset state = init state
ResetIsInit == last.rs
\* T11 the encoder's per-coded-frame reads end where the single read ended: restoring (read_pos, read_subframe) and
\*     reading nb_frames times enc_frame_size leaves the reader exactly where tonality_get_info(frame_size) left it
MultiFrameSame ==
  \A fs \in FrameSizes(Fs), silk \in BOOLEAN :
     LET e == EncFrame(fs, Fs, silk) a == GetPos(st, fs, Fs) b == GetN(st, e, Fs, fs \div e) IN a.rp = b.rp /\ a.rsub = b.rsub

\* Lemmas that justify the summarised loop of Feed: at every reachable state a full 20 ms piece completes exactly one
\* window and leaves mem_fill unchanged, and Feed equals Piece iterated for calls of up to two pieces (every length)
FullPieceLemma == \A p \in Paths : LET r == Piece(st, Fs, Chunk(Fs), p) IN
                     r.win /\ r.ok /\ r.s.mf = (IF st.init = 0 THEN HIST ELSE st.mf)
FeedIsPieces == \A n \in {1, 2, 3, 5, 8, 9, 11, 13, 16} : \A p1 \in Paths, p2 \in Paths :
                   LET pl == n * SubLen(Fs) pp == [i \in 1..3 |-> IF i = 1 THEN p1 ELSE p2] IN
                   Feed(st, Fs, pl, 0, pl, pp).s = Feed2(st, Fs, pl, pp)

\* Witnesses (must be REFUTED): under inconsistent callers the writer laps the reader; invalid returns happen;
\* a silence copy makes a slot valid; all three paths and the clamp are reached
NoLap        == ahead < RingSpan
NeverInvalid == ~last.inval
NeverDrift   == drift = 0
NeverFull    == Cardinality(wr) < DETECT_SIZE
NeverManyWin == ~last.many
\* tonality_get_info on a valid slot dereferences only slots written since the reset (REFUTED: in the first two seconds the
\* backward bandwidth scan and the prob_min/prob_max look-back read slots that are still zero from the reset)
ReadsOnlyWritten == ~last.stale
=============================================================================
