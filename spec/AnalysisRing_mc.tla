------------------------- MODULE AnalysisRing_mc -------------------------
(* Exhaustive exploration of the index machine: every sampling rate in FsC, every legal frame size,  *)
(* analysis buffers of frame size + a look-ahead from LookAheads (in 2.5 ms units; a value beyond     *)
(* 95 chunks exercises the clamp), every window oracle in Paths, resets and bare tonality_get_info    *)
(* calls at any point, to the fixpoint (all indices wrap, so the graph closes).                       *)
(* Consistent = TRUE : the caller keeps its promise - a call never supplies less audio than the        *)
(*                     look-ahead it has already handed over (analysis_frame_size >= analysis_offset). *)
(* Consistent = FALSE: any mix (e.g. 120 ms of look-ahead followed by a bare 20 ms frame); the ghost   *)
(*                     `ahead` is capped by AheadCap through a state constraint.                       *)
EXTENDS AnalysisRing
CONSTANTS FsC, LookAheads, Paths, Consistent, AheadCap, WithBareGet
VARIABLES st, Fs, ahead, drift, wr, last
vars == <<st, Fs, ahead, drift, wr, last>>
(* ghosts: ahead = true (unwrapped) distance writer - reader in 24 kHz samples, from independent       *)
(* accounting of what was pushed and what was consumed; drift = ahead - To24(analysis_offset);         *)
(* wr = slots written since the last reset; last = what the last step did.                            *)

NoLast == [k |-> "none", ok |-> TRUE, term |-> TRUE, reads |-> {}, valid |-> 0, pos0 |-> 0, nwin |-> 0, dd |-> 0, la |-> 0]

Init == /\ Fs \in FsC /\ st = InitState /\ ahead = 0 /\ drift = 0 /\ wr = {} /\ last = NoLast

DoRun(fs, k, p) ==
  LET afsIn == fs + k * SubLen(Fs)
      paths == [i \in 1..(MAXLOOK + 1) |-> p]
      r     == Run(st, afsIn, fs, Fs, paths)
      a2    == ahead + r.pushed - To24(Fs, fs)
  IN /\ (Consistent => Min(MAXLOOK * Chunk(Fs), afsIn) >= st.aoff)
     /\ st' = r.s
     /\ ahead' = a2
     /\ drift' = a2 - To24(Fs, r.s.aoff)
     /\ wr' = wr \cup {r.wins[i].slot : i \in 1..Len(r.wins)}
     /\ last' = [k |-> "run", ok |-> r.ok, term |-> r.get.term, reads |-> r.get.reads, valid |-> r.get.valid, pos0 |-> r.get.pos0,
                 nwin |-> Len(r.wins), dd |-> (a2 - To24(Fs, r.s.aoff)) - drift, la |-> r.get.la]
     /\ UNCHANGED Fs

\* a bare tonality_get_info (the encoder's per-coded-frame reads advance the reader only after having
\* restored it, so in situ the net effect is that of run_analysis' own read; the bare call is modelled to
\* cover the function for every len at every state).  It consumes audio: ahead shrinks.
DoGet(len) ==
  LET g == Get(st, len, Fs) IN
  /\ WithBareGet /\ ahead - To24(Fs, len) >= To24(Fs, st.aoff)      \* the reader is never asked to pass the writer
  /\ st' = g.s /\ ahead' = ahead - To24(Fs, len) /\ drift' = ahead' - To24(Fs, st.aoff)
  /\ wr' = wr
  /\ last' = [k |-> "get", ok |-> TRUE, term |-> g.term, reads |-> g.reads, valid |-> g.valid, pos0 |-> g.pos0, nwin |-> 0,
              dd |-> 0, la |-> g.la]
  /\ UNCHANGED Fs

DoReset == /\ st' = Reset(st) /\ ahead' = 0 /\ drift' = 0 /\ wr' = {} /\ last' = [NoLast EXCEPT !.k = "reset"] /\ UNCHANGED Fs

Next == \/ \E fs \in FrameSizes(Fs), k \in LookAheads, p \in Paths : DoRun(fs, k, p)
        \/ \E len \in FrameSizes(Fs) : DoGet(len)
        \/ DoReset
Spec == Init /\ [][Next]_vars
Bound == ahead <= AheadCap

-----------------------------------------------------------------------------
(* Theorems *)
\* T1 all indices stay in range; mem_fill in [240, 720) once initialised
Ranges == StateOK(st)
\* T2 no write beyond inmem, no pcm read outside the caller's buffer, slot indices inside info[]
MemSafe == last.ok
\* T3 every loop of tonality_get_info terminates and dereferences only info[0..99]
GetTotal == last.term /\ \A i \in last.reads : InRing(i)
\* T4 a slot reported valid was written since the last reset (by the full path, or a silence copy of such a slot)
ValidIsWritten == /\ \A i \in 0..(DETECT_SIZE - 1) : st.valid[i] = 1 => i \in wr
                  /\ (last.k \in {"run", "get"} /\ last.valid = 1) => last.pos0 \in wr
\* T5 analysis_offset returns to its range after every run_analysis: 0 <= offset <= 95 chunks - 2.5 ms
OffsetRange == st.aoff >= 0 /\ st.aoff <= MAXLOOK * Chunk(Fs) - SubLen(Fs)
\* T6 the index machine keeps time: writer position - reader position (mod ring) = audio pushed - audio consumed,
\*    and what has been analysed differs from what has been pushed by less than one 20 ms window
KeepsTime == (WriterPos(st) - ReaderPos(st) - ahead) % RingSpan = 0
\* T7 the reader never overtakes the writer: the true distance is the look-ahead the code believes in plus a drift
\*    that is never negative and only grows - and it grows exactly in calls that supply less than was promised
NeverOvertakes == ahead >= 0 /\ drift >= 0 /\ ahead = To24(Fs, st.aoff) + drift /\ last.dd >= 0
\* T8 (Consistent) no drift at all and the writer never laps the reader: distance < ring
NoDrift == Consistent => (drift = 0 /\ ahead <= To24(Fs, MAXLOOK * Chunk(Fs) - SubLen(Fs)) /\ ahead < RingSpan - WIN)
\* T10 reset state = init state
ResetIsInit == last.k = "reset" => st = InitState
\* T11 the encoder's per-coded-frame reads end where the single read ended: restoring (read_pos, read_subframe) and
\*     reading nb_frames times enc_frame_size leaves the reader exactly where tonality_get_info(frame_size) left it
MultiFrameSame ==
  \A fs \in FrameSizes(Fs), silk \in BOOLEAN :
     LET e == EncFrame(fs, Fs, silk) a == Get(st, fs, Fs).s b == GetN(st, e, Fs, fs \div e) IN a.rp = b.rp /\ a.rsub = b.rsub

\* Witnesses (must be REFUTED): under inconsistent callers the writer laps the reader; invalid returns happen;
\* a silence copy makes a slot valid; all three paths and the clamp are reached
NoLap        == ahead < RingSpan
NeverInvalid == ~(last.k = "run" /\ last.valid = 0 /\ wr # {})
NeverDrift   == drift = 0
NeverFull    == Cardinality(wr) < DETECT_SIZE
NeverManyWin == last.nwin < MAXLOOK
=============================================================================
