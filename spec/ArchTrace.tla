----------------------------- MODULE ArchTrace -----------------------------
(* Validation of what hx_arch recorded from the real library against module ArchTwins (property C15). *)
(* Events (NDJSON, IOEnv.TRACE):                                                                       *)
(*   tab    one row of a dispatch table of the library under test (level |-> implementation)          *)
(*   new    a history starts: the settings, fx (1 = fixed-point build), top (highest level of the CPU) *)
(*   enc    one run of frames encoded by the twin at level lv: digest of all packet bytes, lengths and  *)
(*          final ranges; arch = the level the object really carries (hook H2, -1 if not available)    *)
(*   dec    one run decoded by the twin at level lv from the packets of encoder `src`: digest of       *)
(*          (return values, final ranges), digest of the PCM, max |PCM - PCM of the level-0 twin|     *)
(*   end    history complete                                                                           *)
(*   kc     one kernel call: the SIMD implementation and the portable C kernel on the same arguments   *)
(*          (mode "syn": synthetic shapes, "situ": the arguments the codec passed)                     *)
(*   is     in-situ summary of an implementation: comparisons made, differing results, worst float case*)
(*   reach  calls of an implementation per arch level during the whole-codec run                       *)
(*   cov    end of a whole-codec run: every implementation the tables select at a level the CPU has    *)
(*          must have been reached at that level (vacuity guard, judged here, reported as vacuous run) *)
(* The events of one (history, run) group arrive with lv ascending.                                    *)
EXTENDS ArchTwins, Json, IOUtils
VARIABLES l, tabs, cfg, grp, reached
vars == <<l, tabs, cfg, grp, reached>>

Tr == ndJsonDeserialize(IOEnv.TRACE)

Init == l = 1 /\ tabs = << >> /\ cfg = [fx |-> 0, top |-> 4] /\ grp = << >> /\ reached = << >>

Fx == cfg.fx

\* ---- kernel cases -----------------------------------------------------------------------------------
KcOK(e) ==
  /\ e.kern \in KnownKernels
  /\ LET c == Class(e.kern, e.fx) IN
     CASE c = "int" -> e.cls = "int" /\ e.ref = e.got                            \* bit-identical
       [] e.kern = "op_pvq_search" ->
            /\ e.cls = "pvq"
            /\ e.sums = e.K /\ e.sumc = e.K                                      \* K pulses, whatever the data (NaN, Inf, ...)
            /\ (e.deg = 0 => /\ e.sss = e.yys /\ e.ssc = e.yyc                    \* returned energy = sum of squares
                             /\ e.qs + PvqTol >= e.qc)                           \* match with the input
            \* degenerate input (a NaN / Inf element, |X| far outside the kernels' window) and K > N/2: both kernels replace
            \* the vector by one pulse at position 0 before they project it - exactly the portable codeword
            /\ ((e.deg = 1 /\ e.proj = 1) => e.same = 1)
       \* float kernels on data that are not finite (nf = 1): reassociation error is not defined, nothing is demanded
       [] OTHER -> e.cls = "flt" /\ (e.nf = 1 \/ e.r <= FltBound(e.n))

IsOK(e) ==
  /\ e.kern \in KnownKernels
  /\ LET c == Class(e.kern, e.fx) IN
     CASE c = "int" -> e.neq = 0
       [] e.kern = "op_pvq_search" -> TRUE
       [] OTHER -> e.r <= FltBound(e.n)

\* ---- whole-codec twins -----------------------------------------------------------------------------
SameGroup(g, e) == g.k = e.k /\ g.t = e.t /\ (e.k = "dec" => g.src = e.src)
ArchOK(e) == e.arch = -1 \/ e.arch = (IF e.lv <= cfg.top THEN e.lv ELSE cfg.top)

EncPairOK(g, e) == MustBeIdentical(tabs, Fx, g.lv, e.lv) => (e.pd = g.pd /\ e.bytes = g.bytes /\ e.bad = g.bad)
DecPairOK(g, e) ==
  /\ e.rd = g.rd                                                   \* same packets: same final ranges and sample counts
  /\ MustBeIdentical(tabs, Fx, g.lv, e.lv) => e.pd = g.pd          \* ... and the same PCM
  \* (between levels that differ in float kernels the PCM may differ: e.mx, the measured max |difference| against the
  \*  level-0 twin, is recorded in the evidence only.  A first version demanded e.mx <= 4 on loss-free streams; the
  \*  pinned tree refuted the premise that no float kernel is on that path - a mode transition conceals one frame and the
  \*  concealment's pitch search runs celt_pitch_xcorr - and the property states no PCM tolerance, so none is asserted.)

TTab == /\ Tr[l].k = "tab"
        /\ tabs' = Append(tabs, Tr[l]) /\ UNCHANGED <<cfg, grp, reached>>
TNew == /\ Tr[l].k = "new"
        /\ cfg' = Tr[l] /\ grp' = << >> /\ UNCHANGED <<tabs, reached>>
TRun == /\ Tr[l].k \in {"enc", "dec"}
        /\ LET e == Tr[l]
               g0 == IF grp # << >> /\ SameGroup(grp[1], e) THEN grp ELSE << >>
           IN /\ ArchOK(e)
              /\ (g0 # << >> => e.lv > g0[Len(g0)].lv)
              /\ \A i \in 1..Len(g0) : IF e.k = "enc" THEN EncPairOK(g0[i], e) ELSE DecPairOK(g0[i], e)
              /\ grp' = Append(g0, e)
        /\ UNCHANGED <<tabs, cfg, reached>>
TEnd == /\ Tr[l].k = "end" /\ grp' = << >> /\ UNCHANGED <<tabs, cfg, reached>>
TKc  == /\ Tr[l].k = "kc" /\ KcOK(Tr[l]) /\ UNCHANGED <<tabs, cfg, grp, reached>>
TIs  == /\ Tr[l].k = "is" /\ IsOK(Tr[l]) /\ UNCHANGED <<tabs, cfg, grp, reached>>
TReach == /\ Tr[l].k = "reach"
          /\ reached' = Append(reached, Tr[l]) /\ UNCHANGED <<tabs, cfg, grp>>

\* every SIMD implementation a table selects at a level the CPU has was called at that level (and is one the harness
\* wraps: an implementation without a "reach" record is not bound at all)
IsPortable(row, im) == im = row.kern \o "_c"
CovOK(top) ==
  \A i \in 1..Len(tabs) : \A lv \in 0..top :
     LET im == tabs[i].impl[lv + 1] IN
     IsPortable(tabs[i], im) \/ \E j \in 1..Len(reached) : reached[j].impl = im /\ reached[j].calls[lv + 1] > 0
TCov == /\ Tr[l].k = "cov" /\ CovOK(Tr[l].top) /\ UNCHANGED <<tabs, cfg, grp, reached>>

Next == /\ l <= Len(Tr) /\ l' = l + 1
        /\ (TTab \/ TNew \/ TRun \/ TEnd \/ TKc \/ TIs \/ TReach \/ TCov)
Spec == Init /\ [][Next]_vars

Accepted ==
  LET n == TLCGet("stats").diameter IN
  IF n - 1 = Len(Tr) THEN TRUE
  ELSE PrintT(<<"REJECTED_AT", n, ToString(Tr[n])>>)
=============================================================================
