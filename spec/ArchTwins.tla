----------------------------- MODULE ArchTwins -----------------------------
(* Property C15: optimised (SIMD, run-time dispatched) kernels match the portable C code.            *)
(*                                                                                                    *)
(* Objects are those of DESIGN 4.12 - [kind, cfg, hist] is what an object's outputs may depend on -   *)
(* plus the component  arch \in 0..4  (C, SSE, SSE2, SSE4.1, AVX2) chosen when the object is created.  *)
(* `arch` is declared UNOBSERVABLE: twins, i.e. objects created under different arch levels that      *)
(* perform the same history, must produce the same observable outputs - exactly as far as the         *)
(* property says:                                                                                      *)
(*   - a kernel is one row of a dispatch table: level |-> implementation (a symbol of the library);    *)
(*     entry 0 is the portable C kernel or, when the build presumes a feature level, the kernel it     *)
(*     calls directly at every level;                                                                  *)
(*   - an INTEGER kernel must be bit-identical with its portable C counterpart; a FLOAT kernel may     *)
(*     differ from it within floating-point reassociation error;                                       *)
(*   - consequently two levels whose table rows differ only in integer kernels are indistinguishable  *)
(*     (packets, final ranges, PCM); in a fixed-point build that is every pair of levels; in a float   *)
(*     build the decoder's final range (and sample count) is the same at every level for the same      *)
(*     packets, whatever the kernels.                                                                  *)
(* The tables are not written down here: they are read from the library under test (harness `tables`,  *)
(* events "tab") - the theorems below are checked by TLC for the tables the build really has.          *)
EXTENDS Integers, Sequences, FiniteSets, TLC

Levels == 0..4

\* ---- kernel classes (the property's own enumeration) --------------------------------------------
\* float kernels of a float build: correlations, inner products, comb filter, PVQ search
FltWhenFloat == {"celt_pitch_xcorr", "xcorr_kernel", "celt_inner_prod", "dual_inner_prod", "comb_filter_const",
                 "comb_filter_const_inplace", "op_pvq_search", "silk_inner_product_FLP"}
\* integer kernels in every build: noise-shaping quantisers, LTP codebook search, VAD; in a fixed-point build also the
\* correlations and filters
IntAlways    == {"silk_NSQ", "silk_NSQ_del_dec", "silk_VQ_WMat_EC", "silk_VAD_GetSA_Q8"}
IntWhenFixed == {"celt_fir", "xcorr_kernel", "celt_inner_prod", "silk_inner_prod16", "silk_burg_modified"}
KnownKernels == FltWhenFloat \cup IntAlways \cup IntWhenFixed
Class(kern, fx) == IF fx = 0 /\ kern \in FltWhenFloat THEN "flt" ELSE "int"

\* ---- tolerances of the float clause --------------------------------------------------------------
\* A kernel that adds n terms in another order (or fuses multiply-add) differs from the portable one by at most
\* 2 * gamma_n * sum|term|, gamma_n ~ n * 2^-24: with r = |difference| in units of 2^-24 * sum|term| (measured by the
\* harness), reassociation alone gives r <= 2n (+ rounding of r itself).
FltBound(n) == 2 * n + 4
\* the comb filter run in place is recursive (period T >= 15, the tap gains sum to less than one): an error made in one
\* period is carried, not amplified, into the later ones.  There the harness measures the difference against the largest
\* term magnitude of the call and reports n = 8 operations x (N/T + 1) periods; the same bound applies.
\* (A first version used a per-sample measure with a calibrated factor 8; hard-clipped input refuted it: r = 534.)
\* the SSE2 vector search ranks candidates with reciprocal-square-root ESTIMATES: its pulse vector may differ from the
\* portable one (this is wider than reassociation error and is how the kernel is written; on the pinned tree the vectors
\* differ in about 5 % of the calls the codec makes).  What is demanded exactly: K pulses, returned energy = sum of
\* squares.  The match with the input (cosine between input and pulse vector, in millionths) may be lower than the portable
\* vector's by at most PvqTol: both searches are greedy, a different near-tie choice leads to a different local optimum.
\* Calibrated (R3): worst loss observed 31 988 millionths over the thorough tier (2.2e7 codec-passed and 4.8e4 synthetic
\* calls; every new worst case is logged, so the maximum is the true one; 21 591 and 13 541 in two other runs); tolerance
\* 100 000 (margin > 3x).  A search that places pulses wrongly loses far more.
PvqTol == 100000

\* ---- dispatch tables (rows: [tab, kern, fx, impl = <<i0, .., i4>>]) ----------------------------
RowDiffers(row, a, b) == row.impl[a + 1] # row.impl[b + 1]
\* levels a and b run the same code except in integer kernels
IntOnlyBetween(rows, a, b) == \A i \in 1..Len(rows) : RowDiffers(rows[i], a, b) => Class(rows[i].kern, rows[i].fx) = "int"
MustBeIdentical(rows, fx, a, b) == fx = 1 \/ IntOnlyBetween(rows, a, b)

\* ---- the abstract codec ---------------------------------------------------------------------------
\* What a kernel returns: an integer kernel implementation that is faithful returns the portable result; a float kernel
\* implementation returns some value of its own (within tolerance of the portable one - a different value as far as
\* equality of outputs is concerned).  dv = implementations of integer kernels that are NOT faithful (the defect the
\* property excludes; empty in the intended design).
\* The results of all kernels of a call at level lv are therefore determined by the call and by the SIGNATURE of the
\* level: which kernels do not return the portable result there, and whose value they return instead.
\* (Every call may run every kernel: which kernels a call really reaches depends on encoder decisions the property
\* leaves free - the model over-approximates, R1.)
\* A table entry is WELL TYPED when the symbol it selects is an implementation of the row's own kernel (the portable
\* `<kern>_c` or one of its SIMD versions); "?" is a function the harness cannot name.  An entry that selects an
\* implementation of a DIFFERENT kernel (a copy/paste slip in a dispatch table) does not return this kernel's portable
\* result: as far as twins are concerned it behaves like a deviant implementation.
ImplSuffixes == {"_c", "_sse", "_sse2", "_sse4_1", "_avx2"}
ImplsOf(kern) == {kern \o sfx : sfx \in ImplSuffixes}
WellTypedEntry(row, lv) == row.impl[lv + 1] \in ImplsOf(row.kern) \cup {"?"}
WellTyped(rows) == \A i \in 1..Len(rows) : \A lv \in 0..(Len(rows[i].impl) - 1) : WellTypedEntry(rows[i], lv)

NonExact(rows, lv, dv) ==
  {<<rows[i].kern, rows[i].impl[lv + 1]>> :
      i \in {j \in 1..Len(rows) : \/ Class(rows[j].kern, rows[j].fx) = "flt"
                                    \/ rows[j].impl[lv + 1] \in dv
                                    \/ ~WellTypedEntry(rows[j], lv)}}

\* an encoder/decoder state is the sequence of (call, signature under which its kernels ran) so far; outputs:
\*   data  - packet bytes / PCM: a function of the state (calls and kernel results)
\*   ctl   - what entropy DEcoding alone determines (final range, sample count): a function of the calls only
Step(sig, st, call) == Append(st, <<call, sig>>)
DataOut(st) == st
CtlOut(st) == [i \in 1..Len(st) |-> st[i][1]]
=============================================================================
