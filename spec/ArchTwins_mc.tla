--------------------------- MODULE ArchTwins_mc ---------------------------
(* Exhaustive run of the arch-twin design (C15) and generation of the histories that are replayed     *)
(* through the real library.                                                                          *)
(*                                                                                                    *)
(* One system = one encoder per arch level 0..4 and, per level, one decoder for the packets of the     *)
(* level-0 encoder and one for those of the level-4 encoder, all created with the same settings and   *)
(* driven through the same history.  A history is: settings from the grid                              *)
(*   application x Fs x channels x complexity (0, 2: plain quantiser / switch to the delayed-decision  *)
(*   one; 5, 8, 10) x bitrate x in-band FEC x frame duration,                                          *)
(* then Depth runs of frames, each run either decoded normally ("o"), lost and concealed ("l"), lost   *)
(* and recovered from the next packet's FEC data ("f"), or preceded by a bitrate switch ("s").  The    *)
(* first run is always "o".  The dispatch tables are those of the library under test (IOEnv.TABLES,    *)
(* NDJSON "tab" events written by `hx_arch tables`).                                                   *)
(*                                                                                                    *)
(* Track = TRUE : the abstract codec of module ArchTwins runs at all five levels and TLC checks        *)
(*                TwinEquiv, FixedAllEqual, RangeEquiv on every reachable state, i.e. for every        *)
(*                history and every pair of levels.  With Deviant = {} they must hold; with an         *)
(*                implementation of an integer kernel in Deviant TwinEquiv must fail (witness cfg).    *)
(* Track = FALSE: only the histories are enumerated and printed (behaviour generation).                *)
EXTENDS ArchTwins, Json, IOUtils
CONSTANTS Apps, Rates, Chans, Cxs, Bitrates, Fecs, Durs, Depth, Toks, Track, Deviant
VARIABLES set, toks, enc, dec
vars == <<set, toks, enc, dec>>

Rows == ndJsonDeserialize(IOEnv.TABLES)
Fx == Rows[1].fx
Srcs == {0, 4}
\* signature of each level (a 5-tuple, evaluated once)
Sig == <<NonExact(Rows, 0, Deviant), NonExact(Rows, 1, Deviant), NonExact(Rows, 2, Deviant), NonExact(Rows, 3, Deviant),
         NonExact(Rows, 4, Deviant)>>

Init == /\ set = << >> /\ toks = << >>
        /\ enc = [lv \in Levels |-> << >>]
        /\ dec = [lv \in Levels |-> [s \in Srcs |-> << >>]]

\* one fan-out step (initial-state enumeration is single-threaded in TLC)
Pick == /\ set = << >>
        /\ \E a \in Apps, r \in Rates, c \in Chans, x \in Cxs, b \in Bitrates, f \in Fecs, d \in Durs :
              set' = <<a, r, c, x, b, f, d>>
        /\ UNCHANGED <<toks, enc, dec>>

Run(tk) ==
  /\ set # << >> /\ Len(toks) < Depth
  /\ (toks = << >> => tk = "o")
  /\ toks' = Append(toks, tk)
  /\ IF Track
       THEN LET call == <<"enc", Len(toks) + 1, IF tk = "s" THEN "switch" ELSE "same">>
                e2 == [lv \in Levels |-> Step(Sig[lv + 1], enc[lv], call)]
            IN /\ enc' = e2
               /\ dec' = [lv \in Levels |-> [s \in Srcs |->
                             \* the decoder is given the packet of encoder s (or nothing / the next packet's FEC data)
                             Step(Sig[lv + 1], dec[lv][s], <<"dec", tk, e2[s][Len(e2[s])]>>)]]
       ELSE UNCHANGED <<enc, dec>>
  /\ UNCHANGED set

Next == Pick \/ \E tk \in Toks : Run(tk)
Spec == Init /\ [][Next]_vars

\* ---- the design theorems ---------------------------------------------------------------------------
\* twins at levels that differ only in integer kernels are indistinguishable (packets, PCM, final ranges)
TwinEquiv ==
  \A a, b \in Levels : MustBeIdentical(Rows, Fx, a, b) =>
     /\ DataOut(enc[a]) = DataOut(enc[b])
     /\ \A s \in Srcs : DataOut(dec[a][s]) = DataOut(dec[b][s])
\* fixed-point build: every pair of levels
FixedAllEqual == Fx = 1 => \A a, b \in Levels : enc[a] = enc[b] /\ dec[a] = dec[b]
\* any build: the decoder's control outcome (final range, sample count) for the same packets is the same at every level
RangeEquiv == \A a, b \in Levels, s \in Srcs : CtlOut(dec[a][s]) = CtlOut(dec[b][s])
\* every kernel of the tables is one the property classifies
TablesKnown == \A i \in 1..Len(Rows) : Rows[i].kern \in KnownKernels /\ Len(Rows[i].impl) = 5

\* every entry selects an implementation of its own row's kernel
TablesWellTyped == WellTyped(Rows)

\* ---- behaviour generation --------------------------------------------------------------------------
Emit == (Len(toks) = Depth) => PrintT(<<"HIST", ToString(set), ToString(toks)>>)
=============================================================================
