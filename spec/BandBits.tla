------------------------------ MODULE BandBits ------------------------------
(***************************************************************************)
(* Growth module G07: the bit ledger of CELT band quantisation             *)
(* (celt/bands.c: quant_all_bands, quant_band, quant_band_stereo,          *)
(* quant_partition, compute_theta, quant_band_n1).                         *)
(*                                                                         *)
(* An exact integer model of how many bits every band / partition may use  *)
(* and of what the ledger (ctx.remaining_bits, balance, the per-band b)    *)
(* looks like afterwards.  Everything that depends on the signal is an     *)
(* ORACLE: the sequence of coded symbols with their real cost in 1/8 bit   *)
(*   <<1, t0, t1, kind, a, b, c, st, n>>   one per compute_theta call: the *)
(*        theta symbol (kind 3: ec_encode(a, b, c); 4: ec_enc_uint(a, b);  *)
(*        5: ec_enc_bit_logp(a, b) = the inversion flag; 0: none), coded   *)
(*        between ec_tell_frac = t0 and t1 (qalloc = t1 - t0)              *)
(*   <<7, LM, b, q0, band, N, K, B, cm, cost>>  one per leaf that codes    *)
(*        pulses: the collapse mask alg_quant returned and the real cost   *)
(* Given the oracle the model is a function: it predicts every b, qn,      *)
(* coding mode and ft, itheta, delta, mbits / sbits, rebalance, q, K, the  *)
(* ledger and the collapse masks, and returns the event list the code must *)
(* have produced (`out`, in the format hx_bandbits records).  BandBits_mc  *)
(* lets TLC choose the oracle within the true bounds of every cost;        *)
(* BandBitsTrace takes it from the recorded execution.                     *)
(*                                                                         *)
(* Encoder and decoder run the same code; the model's role flag f.enc only *)
(* decides whether the folding state is kept (resynth) - which never feeds *)
(* back into the bits - and whether stereo_itheta's arguments are logged.  *)
(*                                                                         *)
(* G04 `Alloc` supplies the look-ups (bits2pulses, pulses2bits, get_pulses,*)
(* compute_qn, bitexact_cos / log2tan, the band tables of the library      *)
(* under test through IOEnv.ALLOCTAB).  All quantities are far below 2^31. *)
(* x >> n on a negative x is an arithmetic shift (floor), x / 2 on a       *)
(* negative x truncates (TruncDiv).                                        *)
(***************************************************************************)
EXTENDS Alloc, Bitwise

SPREAD_AGGRESSIVE == 3
MAXB == 16383                     \* IMIN(16383, ...) in quant_all_bands
NOISE_MASK == 238                 \* what hx_bandbits writes into collapse_masks before the call

(***************************************************************************)
(* cost of a symbol in 1/8 bit as ec_tell_frac sees it.                    *)
(* FloorLog8(x) = floor(8*log2(x)) exactly for 1 <= x < 2^16 (the          *)
(* thresholds are those of ec_tell_frac's correction table).               *)
(***************************************************************************)
Corr8 == <<35733, 38967, 42495, 46340, 50535, 55109, 60097>>
FloorLog8(x) ==
  LET il == ILog(x)
      r == x * Pow2(16 - il)
  IN 8 * (il - 1) + Cardinality({j \in 1..7 : r > Corr8[j]})
CeilLog8(x) == IF x = Pow2(ILog(x) - 1) THEN 8 * (ILog(x) - 1) ELSE FloorLog8(x) + 1

CostSlack == 2                    \* ec_tell_frac is an estimate: +-1 on each of two readings
\* bounds of the observed tell_frac difference across one symbol sym = <<kind, a, b, c>>, with slack sl
CostBoundsJ(sym, sl) ==
  CASE sym[1] = 3 ->
         LET fs == sym[3] - sym[2]  ft == sym[4] IN
         IF fs < 1 \/ ft < fs \/ ft >= 65536 THEN <<0, 0 - 1>>
         \* the symbol with fl = 0 also gets the part of the range the division left over: it may be much cheaper
         ELSE <<IF sym[2] = 0 THEN 0 ELSE Max(0, FloorLog8(ft) - CeilLog8(fs) - sl), CeilLog8(ft) - FloorLog8(fs) + sl>>
    [] sym[1] = 4 -> IF sym[3] < 2 \/ sym[3] >= 65536 THEN <<0, 0 - 1>>
                     ELSE <<Max(0, FloorLog8(sym[3]) - sl), CeilLog8(sym[3]) + sl>>
    [] sym[1] = 5 -> IF sym[2] = 1 THEN <<8 * sym[3] - sl, 8 * sym[3] + sl>>
                     ELSE <<Max(0, 3 - sl), 4 + sl>>                 \* logp = 2: 8*log2(4/3) = 3.3
    [] OTHER -> <<0, 0>>
CostBounds(sym) == CostBoundsJ(sym, CostSlack)
\* a PVQ codeword costs pulses2bits(q) = log2_frac(V(N,K), 3), an upper bound of 8*log2(V), up to the estimate's error.
\* Measured over the thorough corpus: cost - pulses2bits(q) in -1..+1; theta symbols: 0..2 above floor(ft)-ceil(fs) and
\* 0..2 below ceil(ft)-floor(fs) (fl > 0).  The bounds below leave 2 units beyond the measured extremes on either side.
PvqCostLo(nom) == nom - 4
PvqCostHi(nom) == nom + 3

(***************************************************************************)
(* the three codes of theta (compute_theta)                                *)
(***************************************************************************)
ThetaMode(stereo, N, B0) == IF stereo = 1 /\ N > 2 THEN "step" ELSE IF B0 > 1 \/ stereo = 1 THEN "uni" ELSE "tri"

StepFl(x, x0) == IF x <= x0 THEN 3 * x ELSE (x - 1 - x0) + (x0 + 1) * 3
StepFh(x, x0) == IF x <= x0 THEN 3 * (x + 1) ELSE (x - x0) + (x0 + 1) * 3
StepFt(x0) == 3 * (x0 + 1) + x0
TriFt(qn) == (qn \div 2 + 1) * (qn \div 2 + 1)
TriFs(x, qn) == IF x <= qn \div 2 THEN x + 1 ELSE qn + 1 - x
TriFl(x, qn) == IF x <= qn \div 2 THEN (x * (x + 1)) \div 2 ELSE TriFt(qn) - ((qn + 1 - x) * (qn + 2 - x)) \div 2

\* the symbol coded for the value x in 0..qn: <<kind, a, b, c>>
SymOf(mode, qn, x) ==
  CASE mode = "step" -> <<3, StepFl(x, qn \div 2), StepFh(x, qn \div 2), StepFt(qn \div 2)>>
    [] mode = "uni" -> <<4, x, qn + 1, 0>>
    [] OTHER -> <<3, TriFl(x, qn), TriFl(x, qn) + TriFs(x, qn), TriFt(qn)>>

\* the value a recorded symbol stands for (what the decoder computes), -1 when it is not a symbol of this code
XOf(mode, qn, e) ==
  LET cand ==
        CASE mode = "uni" -> e[5]
          [] mode = "step" -> LET x0 == qn \div 2 IN IF e[5] < 3 * (x0 + 1) THEN e[5] \div 3 ELSE x0 + 1 + (e[5] - 3 * (x0 + 1))
          [] OTHER -> LET h == qn \div 2  fs == e[6] - e[5] IN IF e[5] < (h * (h + 1)) \div 2 THEN fs - 1 ELSE qn + 1 - fs
  IN IF cand >= 0 /\ cand <= qn /\ SymOf(mode, qn, cand) = <<e[4], e[5], e[6], e[7]>> THEN cand ELSE 0 - 1

(***************************************************************************)
(* oracles TLC may choose (BandBits_mc).  f.pol >= 0 switches the model to *)
(* "free running": the first f.depth entries of a band come from the       *)
(* oracle argument (and are asked for through `need` when it is too        *)
(* short), the later ones from a fixed policy; costs are taken inside      *)
(* their bounds with slack f.jit.  f.pol = -1: everything comes from the   *)
(* oracle argument (BandBitsTrace).                                        *)
(***************************************************************************)
SymFor(mode, qn, x) ==
  IF mode \in {"step", "uni", "tri"} THEN SymOf(mode, qn, x) ELSE IF mode = "inv" THEN <<5, x, 2, 0>> ELSE <<0, 0, 0, 0>>
SplitEntry(mode, qn, x, cost) ==
  LET sym == SymFor(mode, qn, x) IN <<1, 0, cost, sym[1], sym[2], sym[3], sym[4], 0, 0>>
LeafEntry(cm, cost) == <<7, 0, 0, 0, 0, 0, 1, 0, cm, cost>>
XSel(mode, qn, xpts) ==
  IF mode = "none" THEN {0} ELSE IF mode = "inv" THEN {0, 1}
  ELSE IF xpts <= 3 THEN {0, qn \div 2, qn} ELSE {0, 1, qn \div 2, qn \div 2 + 1, qn - 1, qn}
CostSel(lo, hi, pts) == IF pts = 1 \/ lo >= hi THEN {hi} ELSE IF pts = 2 THEN {lo, hi} ELSE {lo, (lo + hi) \div 2, hi}
CmSel(B, cmpts) == IF B <= 1 THEN {1} ELSE IF cmpts <= 1 THEN {Pow2(B) - 1} ELSE {1, Pow2(B - 1), Pow2(B) - 1}
PvqLoJ(nom, jit) == Max(0, nom - 1 - jit)
MenuOf(f, need) ==
  IF need.k = "split"
  THEN UNION {{SplitEntry(need.mode, need.qn, x, c) :
                 c \in LET bd == CostBoundsJ(SymFor(need.mode, need.qn, x), f.jit) IN CostSel(bd[1], bd[2], f.pts)} :
              x \in XSel(need.mode, need.qn, f.xpts)}
  ELSE {LeafEntry(cm, c) : cm \in CmSel(need.B, f.cmpts), c \in CostSel(PvqLoJ(need.nom, f.jit), need.nom + f.jit, f.pts)}
PolCost(pol, lo, hi, k) ==
  IF lo >= hi THEN hi ELSE IF pol \in {0, 1} THEN hi ELSE IF pol = 2 THEN lo ELSE lo + ((5 * k) % (hi - lo + 1))
PolicySplit(f, mode, qn, k) ==
  LET x == CASE mode = "none" -> 0
             [] mode = "inv" -> (f.pol + k) % 2
             [] f.pol = 0 -> 0
             [] f.pol = 1 -> qn
             [] f.pol = 2 -> qn \div 2 + (k % 2)
             [] OTHER -> (7 * k + 3) % (qn + 1)
      bd == CostBoundsJ(SymFor(mode, qn, x), f.jit)
  IN SplitEntry(mode, qn, x, PolCost(f.pol, bd[1], bd[2], k))
PolicyLeaf(f, nom, B, k) ==
  LET cm == IF B <= 1 THEN 1 ELSE IF f.pol = 0 THEN Pow2(B) - 1 ELSE IF f.pol = 1 THEN 1 ELSE 1 + ((3 * k) % (Pow2(B) - 1))
  IN LeafEntry(cm, PolCost(f.pol, PvqLoJ(nom, f.jit), nom + f.jit, k))
Avail(f, s, orc) == s.pos < Len(orc) \/ (f.pol >= 0 /\ s.pos >= f.depth)

(***************************************************************************)
(* threaded state of one band:                                             *)
(*   rem   ctx.remaining_bits         tell  ec_tell_frac (ghost)           *)
(*   pos   oracle entries consumed    out   events predicted so far        *)
(*   cm    value returned by the last quant_* call                         *)
(*   short the oracle ran out (need = what the next entry must describe)   *)
(*   bad   names of model assertions that failed                           *)
(*   lo    lowest ctx.remaining_bits seen   bmax / bmin  extreme b at a leaf   dep  deepest split level   lmmin lowest LM *)
(***************************************************************************)
Flag(s, names) == IF names = {} THEN s ELSE [s EXCEPT !.bad = @ \cup names]
NeedMore(s, need) == [s EXCEPT !.short = TRUE, !.need = need]
SubRem(s, n) == [s EXCEPT !.rem = @ - n, !.lo = Min(@, s.rem - n)]
Resynth(f) == f.enc = 0 \/ f.rdo = 1

(* ------------------------------------------------------------------------ *)
(* compute_theta                                                            *)
(* ------------------------------------------------------------------------ *)
Theta(f, i, s, orc, N, b, B, B0, LM, stereo, fill) ==
  LET pc == PulseCapOf(i, LM)
      of == QnOffsetOf(i, LM, N, stereo)
      qn == IF stereo = 1 /\ i >= f.inten THEN 1 ELSE ComputeQn(N, b, of, pc, stereo)
      mode == ThetaMode(stereo, N, B0)
      invCoded == qn = 1 /\ stereo = 1 /\ b > 16 /\ s.rem > 16
      what == IF qn # 1 THEN mode ELSE IF invCoded THEN "inv" ELSE "none"
  IN IF ~Avail(f, s, orc)
     THEN [s |-> NeedMore(s, [k |-> "split", mode |-> what, qn |-> qn, N |-> N, b |-> b, stereo |-> stereo]),
           b |-> b, itheta |-> 0, delta |-> 0, fill |-> fill, qalloc |-> 0]
     ELSE
     LET e == IF s.pos < Len(orc) THEN orc[s.pos + 1] ELSE PolicySplit(f, what, qn, s.pos + i)
         isSplit == Len(e) = 9 /\ e[1] = 1
         x == IF ~isSplit THEN 0 - 1
              ELSE IF qn # 1 THEN XOf(mode, qn, e)
              ELSE IF invCoded THEN (IF e[4] = 5 /\ e[6] = 2 /\ e[7] = 0 /\ e[5] \in 0..1 THEN e[5] ELSE 0 - 1)
              ELSE (IF e[4] = 0 /\ e[5] = 0 /\ e[6] = 0 /\ e[7] = 0 THEN 0 ELSE 0 - 1)
         x1 == Max(x, 0)
         qalloc == IF isSplit THEN e[3] - e[2] ELSE 0
         sym == IF qn # 1 THEN SymOf(mode, qn, x1) ELSE IF invCoded THEN <<5, x1, 2, 0>> ELSE <<0, 0, 0, 0>>
         itheta == IF qn # 1 THEN (x1 * 16384) \div qn ELSE 0
         bnd == CostBounds(sym)
         ev == <<1, s.tell, s.tell + qalloc, sym[1], sym[2], sym[3], sym[4],
                 IF f.enc = 1 THEN stereo ELSE 0 - 1, IF f.enc = 1 THEN N ELSE 0 - 1>>
         s1 == [s EXCEPT !.pos = @ + 1, !.tell = @ + qalloc, !.out = Append(@, ev), !.nsym = @ + (IF sym[1] # 0 THEN 1 ELSE 0),
                         !.bad = @ \cup (IF x < 0 THEN {"theta symbol"} ELSE {})
                                   \cup (IF qalloc < bnd[1] \/ qalloc > bnd[2] THEN {"theta cost outside its bounds"} ELSE {})
                                   \cup (IF qn > 256 \/ (qn # 1 /\ qn % 2 = 1) THEN {"assert qn<=256"} ELSE {})]
         msk == Pow2(B) - 1
     IN [s |-> s1, b |-> b - qalloc, itheta |-> itheta, qalloc |-> qalloc,
         delta |-> IF itheta = 0 THEN 0 - 16384 ELSE IF itheta = 16384 THEN 16384 ELSE SplitDelta(N, itheta),
         fill |-> IF itheta = 0 THEN fill & msk ELSE IF itheta = 16384 THEN fill & (msk * Pow2(B)) ELSE fill]

(* ------------------------------------------------------------------------ *)
(* quant_partition                                                          *)
(* ------------------------------------------------------------------------ *)
RECURSIVE FitQ(_, _, _, _)
FitQ(i, LM, q, rem) == IF q = 0 \/ rem - Pulses2Bits(i, LM, q) >= 0 THEN q ELSE FitQ(i, LM, q - 1, rem)

RECURSIVE Part(_, _, _, _, _, _, _, _, _, _, _)
Part(f, i, s, orc, N, b, B, LM, fill, low, dep) ==
  IF s.short THEN s ELSE
  LET base == CacheBase(LM, i)
      top == IF base >= 0 THEN CacheAt(base, CacheAt(base, 0)) ELSE 0
      s0 == [Flag(s, IF base >= 0 THEN {} ELSE {"no pulse cache for this (LM, band)"}) EXCEPT !.lmmin = Min(@, LM), !.dep = Max(@, dep)]
  IN
  IF LM # 0 - 1 /\ b > top + 12 /\ N > 2
  THEN
    LET N2 == N \div 2
        LM2 == LM - 1
        fill1 == IF B = 1 THEN (fill & 1) | (fill * 2) ELSE fill
        B2 == (B + 1) \div 2
        th == Theta(f, i, Flag(s0, IF N % 2 = 0 THEN {} ELSE {"odd N split"}), orc, N2, b, B2, B, LM2, 0, fill1)
    IN IF th.s.short THEN th.s ELSE
       LET it == th.itheta
           d0 == th.delta
           d1 == IF B > 1 /\ (it % 16384) # 0
                 THEN IF it > 8192 THEN d0 - Shr(d0, 4 - LM2) ELSE Min(0, d0 + Shr(N2 * 8, 5 - LM2))
                 ELSE d0
           bb == th.b
           mbits == Max(0, Min(bb, TruncDiv(bb - d1, 2)))
           sbits == bb - mbits
           s1 == SubRem(th.s, th.qalloc)
           fl2 == th.fill
           up == Pow2(B \div 2)
       IN IF mbits >= sbits
          THEN LET sa == Part(f, i, s1, orc, N2, mbits, B2, LM2, fl2, low, dep + 1)
                   rb == mbits - (s1.rem - sa.rem)
                   sb2 == IF rb > 24 /\ it # 0 THEN sbits + rb - 24 ELSE sbits
                   sb == Part(f, i, sa, orc, N2, sb2, B2, LM2, shiftR(fl2, B2), low, dep + 1)
               IN [sb EXCEPT !.cm = sa.cm | (sb.cm * up), !.nreb = @ + (IF sb2 # sbits THEN 1 ELSE 0)]
          ELSE LET sa == Part(f, i, s1, orc, N2, sbits, B2, LM2, shiftR(fl2, B2), low, dep + 1)
                   rb == sbits - (s1.rem - sa.rem)
                   mb2 == IF rb > 24 /\ it # 16384 THEN mbits + rb - 24 ELSE mbits
                   sb == Part(f, i, sa, orc, N2, mb2, B2, LM2, fl2, low, dep + 1)
               IN [sb EXCEPT !.cm = (sa.cm * up) | sb.cm, !.nreb = @ + (IF mb2 # mbits THEN 1 ELSE 0)]
  ELSE
    LET q0 == IF base >= 0 THEN Bits2Pulses(i, LM, b) ELSE 0
        q == FitQ(i, LM, q0, s0.rem)
        K == GetPulses(q)
        cur == Pulses2Bits(i, LM, q)
        msk == Pow2(B) - 1
        s1 == [s0 EXCEPT !.bmax = Max(@, b), !.bmin = Min(@, b), !.nleaf = @ + 1, !.ncut = @ + (IF q < q0 THEN 1 ELSE 0)]
    IN IF q > 0
       THEN IF ~Avail(f, s1, orc) THEN NeedMore(s1, [k |-> "leaf", nom |-> cur, B |-> B, N |-> N, K |-> K])
            ELSE
            LET e == IF s1.pos < Len(orc) THEN orc[s1.pos + 1] ELSE PolicyLeaf(f, cur, B, s1.pos + i)
                isLeaf == Len(e) = 10 /\ e[1] = 7
                cm == IF isLeaf THEN e[9] ELSE 0
                cost == IF isLeaf THEN e[10] ELSE 0
            IN [SubRem(s1, cur) EXCEPT !.pos = @ + 1, !.tell = @ + cost, !.cm = cm,
                   !.out = Append(@, <<7, LM, b, q0, i, N, K, B, cm, cost>>),
                   !.bad = @ \cup (IF isLeaf THEN {} ELSE {"leaf record expected"})
                             \cup (IF cost < PvqCostLo(cur) \/ cost > PvqCostHi(cur) THEN {"PVQ cost outside its bounds"} ELSE {})
                             \cup (IF cm >= 1 /\ cm <= msk /\ (B > 1 \/ cm = 1) THEN {} ELSE {"collapse mask of alg_quant outside B bits"})]
       ELSE [s1 EXCEPT !.out = Append(@, <<7, LM, b, q0, i, 0, 0, 0, 0, 0>>),
                       !.cm = IF Resynth(f)
                              THEN LET fm == fill & msk IN IF fm = 0 THEN 0 ELSE IF low THEN fm ELSE msk
                              ELSE 0]

(* ------------------------------------------------------------------------ *)
(* quant_band_n1, quant_band, quant_band_stereo                             *)
(* ------------------------------------------------------------------------ *)
Sign1(s, where) ==
  IF s.rem >= 8 THEN [SubRem(s, 8) EXCEPT !.tell = @ + 8, !.out = Append(@, <<6, 0, 1, where>>)] ELSE s
BandN1(s, nch) ==
  LET a == Sign1(s, 1) IN [(IF nch = 2 THEN Sign1(a, 1) ELSE a) EXCEPT !.cm = 1]

InterleaveTab == <<0, 1, 1, 1, 2, 3, 3, 3, 2, 3, 3, 3, 2, 3, 3, 3>>
DeinterleaveTab == <<0, 3, 12, 15, 48, 51, 60, 63, 192, 195, 204, 207, 240, 243, 252, 255>>
RECURSIVE Recomb(_, _)
Recomb(fill, k) ==
  IF k = 0 THEN fill ELSE Recomb(InterleaveTab[(fill & 15) + 1] | (InterleaveTab[(shiftR(fill, 4) % 16) + 1] * 4), k - 1)
RECURSIVE TimeDiv(_, _, _, _, _)
TimeDiv(B, nblk, fill, tfc, td) ==
  IF nblk % 2 = 0 /\ tfc < 0 THEN TimeDiv(B * 2, nblk \div 2, fill | (fill * Pow2(B)), tfc + 1, td + 1)
  ELSE [B |-> B, nblk |-> nblk, fill |-> fill, td |-> td]
RECURSIVE UndoTD(_, _, _)
UndoTD(B, cm, k) == IF k = 0 THEN [B |-> B, cm |-> cm] ELSE UndoTD(B \div 2, cm | shiftR(cm, B \div 2), k - 1)
RECURSIVE UndoRec(_, _, _)
UndoRec(cm, k, ok) == IF k = 0 THEN [cm |-> cm, ok |-> ok] ELSE UndoRec(DeinterleaveTab[(cm % 16) + 1], k - 1, ok /\ cm < 16)

QBand(f, i, s, orc, N, b, B, LM, fill, low) ==
  IF s.short THEN s
  ELSE IF N = 1 THEN BandN1(s, 1)
  ELSE
  LET tfc == f.tf[i + 1]
      rec == Max(tfc, 0)
      okB == B >= Pow2(rec) /\ N % B = 0
      fillR == Recomb(fill, rec)
      td == TimeDiv(IF okB THEN B \div Pow2(rec) ELSE 1, IF okB THEN (N \div B) * Pow2(rec) ELSE N, fillR, tfc, 0)
      s0 == Flag(s, (IF okB THEN {} ELSE {"recombine beyond the block count"})
                    \cup (IF fill < Pow2(B) THEN {} ELSE {"fill wider than B bits"})
                    \cup (IF rec = 0 \/ fill < 256 THEN {} ELSE {"fill wider than 8 bits at recombine"})
                    \cup (IF td.B <= 16 THEN {} ELSE {"B beyond 16"}))
      s1 == Part(f, i, s0, orc, N, b, IF td.B <= 16 THEN td.B ELSE 16, LM, td.fill, low, 0)
  IN IF ~Resynth(f) \/ s1.short THEN s1
     ELSE LET u == UndoTD(td.B, s1.cm, td.td)
              c2 == UndoRec(u.cm, rec, TRUE)
              Bf == u.B * Pow2(rec)
          IN [Flag(s1, (IF c2.ok THEN {} ELSE {"collapse mask beyond 4 bits at deinterleave"})
                       \cup (IF s1.cm < Pow2(IF td.B <= 16 THEN td.B ELSE 16) THEN {} ELSE {"collapse mask wider than B bits"})
                       \cup (IF Bf = B THEN {} ELSE {"B not restored"}))
              EXCEPT !.cm = c2.cm & (Pow2(Bf) - 1)]

QStereo(f, i, s, orc, N, b, B, LM, fill, low) ==
  IF s.short THEN s
  ELSE IF N = 1 THEN BandN1(s, 2)
  ELSE
  LET th == Theta(f, i, s, orc, N, b, B, B, LM, 1, fill) IN
  IF th.s.short THEN th.s ELSE
  LET it == th.itheta
      bb == th.b
  IN IF N = 2
     THEN LET sbits == IF it # 0 /\ it # 16384 THEN 8 ELSE 0
              s1 == SubRem(th.s, th.qalloc + sbits)
              s2 == IF sbits > 0 THEN [s1 EXCEPT !.tell = @ + 8, !.out = Append(@, <<6, 0, 1, 2>>)] ELSE s1
          IN QBand(f, i, s2, orc, N, bb - sbits, B, LM, fill, low)
     ELSE LET mbits == Max(0, Min(bb, TruncDiv(bb - th.delta, 2)))
              sbits == bb - mbits
              s1 == SubRem(th.s, th.qalloc)
              fl2 == th.fill
          IN IF mbits >= sbits
             THEN LET sa == QBand(f, i, s1, orc, N, mbits, B, LM, fl2, low)
                      rb == mbits - (s1.rem - sa.rem)
                      sb2 == IF rb > 24 /\ it # 0 THEN sbits + rb - 24 ELSE sbits
                      sb == QBand(f, i, sa, orc, N, sb2, B, LM, shiftR(fl2, B), FALSE)
                  IN [sb EXCEPT !.cm = sa.cm | sb.cm, !.nreb = @ + (IF sb2 # sbits THEN 1 ELSE 0)]
             ELSE LET sa == QBand(f, i, s1, orc, N, sbits, B, LM, shiftR(fl2, B), FALSE)
                      rb == sbits - (s1.rem - sa.rem)
                      mb2 == IF rb > 24 /\ it # 16384 THEN mbits + rb - 24 ELSE mbits
                      sb == QBand(f, i, sa, orc, N, mb2, B, LM, fl2, low)
                  IN [sb EXCEPT !.cm = sa.cm | sb.cm, !.nreb = @ + (IF mb2 # mbits THEN 1 ELSE 0)]

(* ------------------------------------------------------------------------ *)
(* one iteration of quant_all_bands' loop.                                   *)
(* g = [bal, lbo (lowband_offset), upd (update_lowband), dual, xm, ym]       *)
(*     xm / ym: collapse_masks[i*C+0] / [i*C+C-1], bands numbered from 0     *)
(* ------------------------------------------------------------------------ *)
RECURSIVE FoldStart(_, _, _)
FoldStart(k, M, lim) == IF k < 0 THEN k ELSE IF M * EB(k) > lim THEN FoldStart(k - 1, M, lim) ELSE k
RECURSIVE FoldEnd(_, _, _, _)
FoldEnd(k, i, M, lim) == IF k < i /\ M * EB(k) < lim THEN FoldEnd(k + 1, i, M, lim) ELSE k
RECURSIVE OrRange(_, _, _)
OrRange(m, a, b) == IF a > b THEN 0 ELSE m[a + 1] | OrRange(m, a + 1, b)

InitFold(f) == [bal |-> f.bal, lbo |-> 0, upd |-> TRUE, dual |-> f.dual,
                xm |-> [k \in 1..NB |-> NOISE_MASK], ym |-> [k \in 1..NB |-> NOISE_MASK]]

\* the b of band i given the tell at its top
BandB(f, i, tell, bal1) ==
  IF i <= f.cb - 1
  THEN Max(0, Min(MAXB, Min(f.total - tell - 1 + 1, f.p[i + 1] + TruncDiv(bal1, Min(3, f.cb - i)))))
  ELSE 0

EmptyS(rem, tell) ==
  [rem |-> rem, tell |-> tell, pos |-> 0, out |-> <<>>, bad |-> {}, short |-> FALSE, need |-> <<>>, cm |-> 0,
   lo |-> rem, bmax |-> 0, bmin |-> 0, dep |-> 0, lmmin |-> 3, nsym |-> 0, nleaf |-> 0, ncut |-> 0, nreb |-> 0]

BandRun(f, i, tell, g, orc) ==
  LET M == Pow2(f.LM)
      N == M * Width(i)
      B == IF f.short # 0 THEN M ELSE 1
      bal1 == IF i # f.st THEN g.bal - tell ELSE g.bal
      rem == f.total - tell - 1
      b == BandB(f, i, tell, bal1)
      normOff == M * EB(f.st)
      normSize == M * EB(NB - 1) - normOff
      lbo == IF Resynth(f) /\ (M * EB(i) - N >= normOff \/ i = f.st + 1) /\ (g.upd \/ g.lbo = 0) THEN i ELSE g.lbo
      tfc == f.tf[i + 1]
      dual == IF g.dual = 1 /\ i = f.inten THEN 0 ELSE g.dual
      useFold == lbo # 0 /\ (f.spread # SPREAD_AGGRESSIVE \/ B > 1 \/ tfc < 0)
      effLow == Max(0, M * EB(lbo) - normOff - N)
      fs == FoldStart(lbo - 1, M, effLow + normOff)
      fe == FoldEnd(lbo, i, M, effLow + normOff + N)
      last == Max(fs, fe - 1)
      \* what has been written into norm when band i starts: the bands before it, and the copy special_hybrid_folding makes
      written == Max(M * EB(i) - normOff, IF i >= f.st + 1 /\ f.st + 2 <= NB THEN M * Width(f.st + 1) ELSE 0)
      foldBad == IF ~useFold THEN {}
                 ELSE (IF fs >= f.st /\ last < i THEN {} ELSE {"fold range reads a collapse mask not written yet"})
                      \cup (IF effLow + N <= written /\ effLow + N <= normSize THEN {} ELSE {"lowband outside the written part of norm"})
      xcm0 == IF useFold /\ fs >= 0 THEN OrRange(g.xm, fs, last) ELSE Pow2(B) - 1
      ycm0 == IF useFold /\ fs >= 0 THEN OrRange(g.ym, fs, last) ELSE Pow2(B) - 1
      outBad == IF i = f.en - 1 \/ M * EB(i + 1) - normOff <= normSize THEN {} ELSE {"lowband_out beyond norm"}
      hybBad == IF i = f.st + 1 /\ Width(f.st + 1) > 2 * Width(f.st) THEN {"special_hybrid_folding source before norm"} ELSE {}
      s0 == Flag(EmptyS(rem, tell), foldBad \cup outBad \cup hybBad)
      res == IF dual = 1
             THEN LET sx == QBand(f, i, s0, orc, N, b \div 2, B, f.LM, xcm0, useFold)
                      sy == QBand(f, i, sx, orc, N, b \div 2, B, f.LM, ycm0, useFold)
                  IN [s |-> sy, x |-> sx.cm, y |-> sy.cm]
             ELSE IF f.C = 2
             THEN LET sx == QStereo(f, i, s0, orc, N, b, B, f.LM, xcm0 | ycm0, useFold) IN [s |-> sx, x |-> sx.cm, y |-> sx.cm]
             ELSE LET sx == QBand(f, i, s0, orc, N, b, B, f.LM, xcm0 | ycm0, useFold) IN [s |-> sx, x |-> sx.cm, y |-> sx.cm]
  IN [s |-> res.s, b |-> b, rem0 |-> rem, N |-> N, B |-> B, fill |-> <<xcm0, ycm0>>, useFold |-> useFold,
      g |-> [bal |-> bal1 + f.p[i + 1] + tell, lbo |-> lbo, upd |-> b > N * 8, dual |-> dual,
             xm |-> [g.xm EXCEPT ![i + 1] = res.x % 256],
             ym |-> [g.ym EXCEPT ![i + 1] = res.y % 256]]]

\* the (shortBlocks, tf_change) pairs the bitstream can carry (tf_select_table) and what the recursion needs
TfOK(f) ==
  \A i \in (f.st + 1)..f.en :
    LET t == f.tf[i] IN
    IF f.short # 0 THEN f.LM > 0 /\ f.short = Pow2(f.LM) /\ t >= 0 - 1 /\ t <= f.LM
    ELSE t <= 0 /\ t >= 0 - 3
=============================================================================
