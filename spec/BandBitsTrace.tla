--------------------------- MODULE BandBitsTrace ---------------------------
(***************************************************************************)
(* Judges what hx_bandbits recorded (IOEnv.TRACE, NDJSON; IOEnv.ALLOCTAB = *)
(* the table export of the same build).  Stateless: one initial state per  *)
(* recorded packet.  A "pkt" line holds every quant_all_bands call made    *)
(* while one packet was encoded (enc) and decoded (dec); a call holds its  *)
(* inputs, per band the ec_tell_frac at the band's top, a signature of the *)
(* coder state there, and the ledger events of the band - twice when the   *)
(* encoder tried both roundings of theta (theta RDO), with the signature   *)
(* of the coder after each trial so that the kept one can be recognised.   *)
(*                                                                         *)
(* Two levels:                                                             *)
(*   PropNames   clauses of C02 ("decodes in lock-step with the encoder    *)
(*               ... no call ever fails with an internal error"):          *)
(*               lock-step - every in-packet decoder call went through     *)
(*               exactly the band ledger (tells, b, symbols, q, K, costs)  *)
(*               of an encoder call of the same packet;                    *)
(*               budget - band quantisation never ends beyond the packet   *)
(*               and never sets the coder's error flag.       -> VIOLATION *)
(*   ModelNames  the recorded ledger equals BandBits!BandRun given the     *)
(*               observed symbols and costs (every b, qn / ft / code,      *)
(*               mbits / sbits / rebalance as seen in the b of the leaves, *)
(*               q, K, sign bits, collapse masks, tell accounting), the    *)
(*               costs are inside their bounds, no band ends above         *)
(*               total_bits.                                -> SPEC-DRIFT  *)
(***************************************************************************)
EXTENDS BandBits
VARIABLE l

Tr == ndJsonDeserialize(IOEnv.TRACE)

FOf(c) == [enc |-> c.r, C |-> c.C, LM |-> c.LM, st |-> c.st, en |-> c.en, cb |-> c.cb, inten |-> c.inten, dual |-> c.dual,
           short |-> c.short, spread |-> c.spread, tf |-> c.tf, p |-> c.p, bal |-> c.bal, total |-> c.total,
           rdo |-> IF c.r = 1 /\ c.C = 2 /\ c.dual = 0 /\ c.cx >= 8 THEN 1 ELSE 0,
           pol |-> 0 - 1, depth |-> 0, jit |-> 0, pts |-> 1, xpts |-> 3, cmpts |-> 1]

EvShapeOK(e) ==
  /\ Len(e) >= 1
  /\ \/ e[1] = 1 /\ Len(e) = 9
     \/ e[1] = 6 /\ Len(e) = 4 /\ e[2] \in 0..1
     \/ e[1] = 7 /\ Len(e) = 10

InDomain(c) ==
  /\ c.broken = 0 /\ c.err0 \in 0..1
  /\ c.r \in 0..1 /\ c.C \in 1..2 /\ c.LM \in 0..Tab.maxlm /\ c.st >= 0 /\ c.st < c.en /\ c.en <= NB
  /\ c.cb >= c.st /\ c.cb <= c.en /\ c.dual \in 0..1 /\ c.inten >= 0 /\ c.inten <= NB /\ c.spread \in 0..3
  /\ Len(c.tf) = NB /\ Len(c.p) = NB /\ Len(c.masks) = 2 * NB
  /\ c.total > 0 - 100 /\ c.total <= 1275 * 64 /\ c.bal > 0 - 100000 /\ c.bal < 100000
  /\ \A i \in 1..NB : c.p[i] >= 0 /\ c.p[i] < 100000
  /\ TfOK(FOf(c))
  /\ Len(c.bands) = c.en - c.st
  /\ \A k \in 1..Len(c.bands) :
       /\ Len(c.bands[k].tr) \in 1..2 /\ Len(c.bands[k].sg) = (IF Len(c.bands[k].tr) = 2 THEN 2 ELSE 0)
       /\ c.bands[k].tell >= 0 /\ c.bands[k].tell < 200000
       /\ \A t \in 1..Len(c.bands[k].tr) : \A j \in 1..Len(c.bands[k].tr[t]) : EvShapeOK(c.bands[k].tr[t][j])

(* ------------------------------------------------------------------------ *)
(* property level (logged values only)                                      *)
(* ------------------------------------------------------------------------ *)
NextSig(c, k) == IF k < Len(c.bands) THEN c.bands[k + 1].sig ELSE c.sigEnd
NextTell(c, k) == IF k < Len(c.bands) THEN c.bands[k + 1].tell ELSE c.tellEnd
\* the trials of band k after which the coder was in the state the next band started from
KeptSet(c, k) ==
  IF Len(c.bands[k].tr) = 1 THEN {1} ELSE {t \in 1..2 : c.bands[k].sg[t] = NextSig(c, k)}

\* an event as both roles see it (stereo_itheta's arguments exist on the encoder side only, sign values are free)
\* (the collapse mask alg_quant returns is unused by an encoder that does not resynthesise: not part of the lock-step clause)
MirrorEv(e) == IF e[1] = 1 THEN <<1, e[2], e[3], e[4], e[5], e[6], e[7]>>
               ELSE IF e[1] = 7 THEN <<7, e[2], e[3], e[4], e[5], e[6], e[7], e[8], e[10]>> ELSE e
MirrorSeq(t) == [j \in 1..Len(t) |-> MirrorEv(t[j])]

SameInputs(a, b) ==
  /\ a.C = b.C /\ a.LM = b.LM /\ a.st = b.st /\ a.en = b.en /\ a.cb = b.cb /\ a.inten = b.inten /\ a.dual = b.dual
  /\ a.short = b.short /\ a.spread = b.spread /\ a.tf = b.tf /\ a.p = b.p /\ a.bal = b.bal /\ a.total = b.total
SameLedger(d, e) ==
  /\ Len(d.bands) = Len(e.bands) /\ d.tellEnd = e.tellEnd
  /\ \A k \in 1..Len(d.bands) :
       /\ d.bands[k].tell = e.bands[k].tell
       /\ \E t \in KeptSet(e, k) : MirrorSeq(e.bands[k].tr[t]) = MirrorSeq(d.bands[k].tr[1])

Calls(e) == [i \in 1..(Len(e.enc) + Len(e.dec)) |-> IF i <= Len(e.enc) THEN e.enc[i] ELSE e.dec[i - Len(e.enc)]]

MirrorNames(e) ==
  IF e.m = "pair" /\ (Len(e.enc) # 1 \/ Len(e.dec) # 1) THEN {"C02:pair record without both calls"}
  ELSE IF \A i \in 1..Len(e.dec) : e.dec[i].inpkt = 1 =>
            \E k \in 1..Len(e.enc) : SameInputs(e.dec[i], e.enc[k]) /\ SameLedger(e.dec[i], e.enc[k])
       THEN {} ELSE {"C02:lock-step: a decoder call went through a band ledger no encoder call of the packet produced"}

\* (R2: asserted only for calls that start inside the packet with a clean coder - a crafted frame may start beyond it)
BudgetNames(c) ==
  IF c.err0 # 0 \/ c.bands[1].tell > c.stor * 64 THEN {}
  ELSE (IF c.tellEnd <= c.stor * 64 THEN {} ELSE {"C02:budget: band quantisation ends beyond the packet"})
       \cup (IF c.err = 0 THEN {} ELSE {"C02:the range coder's error flag is set after band quantisation"})

PktPropNames(e) ==
  IF \A i \in 1..Len(Calls(e)) : InDomain(Calls(e)[i])
  THEN MirrorNames(e) \cup UNION {BudgetNames(Calls(e)[i]) : i \in 1..Len(Calls(e))}
  ELSE {}

(* ------------------------------------------------------------------------ *)
(* model level                                                              *)
(* ------------------------------------------------------------------------ *)
IsOrc(e) == e[1] = 1 \/ (e[1] = 7 /\ e[7] > 0)
NormEv(e) == IF e[1] = 6 THEN <<6, 0, e[3], e[4]>> ELSE e
NormSeq(t) == [j \in 1..Len(t) |-> NormEv(t[j])]
At(i) == " @band " \o ToString(i)

RECURSIVE Walk(_, _, _, _, _)
Walk(c, f, k, g, names) ==
  IF k > Len(c.bands) THEN [g |-> g, names |-> names]
  ELSE
  LET bd == c.bands[k]
      i == c.st + k - 1
      nt == Len(bd.tr)
      \* a tuple, so that TLC evaluates each run once
      runs == IF nt = 1 THEN <<BandRun(f, i, bd.tell, g, SelectSeq(bd.tr[1], IsOrc))>>
              ELSE <<BandRun(f, i, bd.tell, g, SelectSeq(bd.tr[1], IsOrc)), BandRun(f, i, bd.tell, g, SelectSeq(bd.tr[2], IsOrc))>>
      ks == KeptSet(c, k)
      \* the trial the encoder kept: its coder state is the next band's, and so is its tell
      keptIx == IF nt = 2 /\ 2 \in ks /\ (1 \notin ks \/ runs[2].s.tell = NextTell(c, k)) THEN 2 ELSE IF nt = 2 /\ 1 \in ks THEN 1 ELSE nt
      kept == runs[keptIx]
      wantTrials == IF f.rdo = 1 /\ i < f.inten /\ f.C = 2 THEN 2 ELSE 1
      trialNames(t) ==
        LET r == runs[t] IN
        (IF r.s.short THEN {"ledger needs more events than were recorded" \o At(i)} ELSE {})
        \cup (IF ~r.s.short /\ r.s.out = NormSeq(bd.tr[t]) THEN {} ELSE {"ledger events differ from the model's" \o At(i)})
        \cup {nm \o At(i) : nm \in r.s.bad}
        \* BandBits_mc!BudgetSafe with the estimate's jitter of 1 per coded item
        \cup (IF r.s.tell <= Max(f.total, bd.tell) + r.s.nsym + r.s.nleaf THEN {} ELSE {"band ends above total_bits" \o At(i)})
      here == UNION {trialNames(t) : t \in 1..nt}
              \cup (IF nt = wantTrials THEN {} ELSE {"theta RDO trial structure" \o At(i)})
              \cup (IF ks # {} THEN {} ELSE {"coder state after the band matches neither trial" \o At(i)})
              \cup (IF kept.s.tell = NextTell(c, k) THEN {} ELSE {"tell accounting" \o At(i)})
  IN Walk(c, f, k + 1, kept.g, names \cup here)

MaskNames(c, g) ==
  IF \A j \in 0..(NB - 1) :
       IF j >= c.st /\ j < c.en
       THEN c.masks[j * c.C + 1] = (IF c.C = 1 THEN g.ym[j + 1] ELSE g.xm[j + 1]) /\ c.masks[j * c.C + c.C] = g.ym[j + 1]
       ELSE c.masks[j * c.C + 1] = NOISE_MASK /\ c.masks[j * c.C + c.C] = NOISE_MASK
  THEN {} ELSE {"collapse masks"}

CallModelNames(c) ==
  IF ~InDomain(c) THEN {"call outside the model's domain"}
  ELSE LET f == FOf(c)
           w == Walk(c, f, 1, InitFold(f), {})
       IN w.names \cup MaskNames(c, w.g)
          \cup (IF \A j \in 1..(c.C * NB) : c.masks[j] = NOISE_MASK \/ c.masks[j] < Pow2(IF c.short # 0 THEN Pow2(c.LM) ELSE 1) \/ ~Resynth(f)
                THEN {} ELSE {"collapse mask wider than B bits"})

PktModelNames(e) == UNION {CallModelNames(Calls(e)[i]) : i \in 1..Len(Calls(e))}

PropNames(e) == IF e.k = "pkt" THEN PktPropNames(e) ELSE {}
ModelNames(e) == IF e.k = "pkt" THEN PktModelNames(e) ELSE {"unknown record kind"}

PropOK == PropNames(Tr[l]) = {}
CaseOK == PropNames(Tr[l]) = {} /\ ModelNames(Tr[l]) = {}

\* explain run: never fails, prints the names of the failed obligations of every rejected line
Explain ==
  LET e == Tr[l]
      pn == PropNames(e)
      mn == ModelNames(e)
  IN IF pn = {} /\ mn = {} THEN TRUE
     ELSE PrintT("WHY " \o ToString(l) \o " prop " \o ToString(pn) \o " model " \o ToString(mn))

Init == l \in 1..Len(Tr)
Next == UNCHANGED l
Spec == Init /\ [][Next]_l
=============================================================================
